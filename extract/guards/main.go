// Command guards reads the Go source of comdex as DATA (go/parser + go/ast only, no type checking) and writes
// lean/Comdex/Gen/Guards.lean: finite fact tables used by Props/C12.lean and Props/C14.lean.
//
//	handlers      for every MsgServer method of the vault, locker, lend, liquidity, auctionsV2, esm (and liquidation,
//	              liquidationsV2) modules the ORDERED, flattened list of items met on the way from the entry to its
//	              successful returns: guards (an `if` whose body fails), state writes, position reads, ok-exits, swallowed
//	              errors. Keeper functions whose error the caller propagates are inlined (any x/*/keeper package).
//	wasmHandlers  for every custom wasm message variant dispatched in app/wasm/message_plugin.go the chain-id / sender guard.
//	sweeps        for the liquidation sweeps and surplus/debt auction starters the control-flag test that makes them skip an app.
//
// Item codes (see Comdex/Model/Guards.lean for the meaning given to them):
//
//	kind 0 guard   cls 0 other 1 ownerEq 2 esmExecuted 3 breakerEnabled 4 coolOff 5 priceLookup 6 adminOnly
//	kind 1 write   (store Set/Delete, bank send/mint/burn, or a call to a function that does so)
//	kind 2 posRead (a position record is looked up; keyed = one of the key arguments is the message signer)
//	kind 3 okExit  (a return with a nil error)
//	kind 4 swallow (an `if err != nil` branch that returns success)
//
// `cond` = the item sits inside a branch/loop that may be skipped; `path` = the chain of early-return branches the item
// belongs to ([] = trunk); `wb` = some write item precedes the item.
package main

import (
	"flag"
	"fmt"
	"go/ast"
	"go/parser"
	"go/token"
	"os"
	"path/filepath"
	"sort"
	"strconv"
	"strings"
)

// ---------------------------------------------------------------------------------------------
// source index

type FuncKey struct{ pkg, recv, name string }

type FuncInfo struct {
	key      FuncKey
	decl     *ast.FuncDecl
	file     string
	recvName string
	retErr   bool
}

var (
	fset     = token.NewFileSet()
	index    = map[FuncKey]*FuncInfo{}
	signerOf = map[string]string{} // "x/vault/types.MsgCreateRequest" -> "From"
	ctors    = map[string]*ast.FuncDecl{}
	repo     string
)

func recvType(fd *ast.FuncDecl) (typ, name string) {
	if fd.Recv == nil || len(fd.Recv.List) == 0 {
		return "", ""
	}
	f := fd.Recv.List[0]
	t := f.Type
	if s, ok := t.(*ast.StarExpr); ok {
		t = s.X
	}
	if id, ok := t.(*ast.Ident); ok {
		typ = id.Name
	}
	if len(f.Names) > 0 {
		name = f.Names[0].Name
	}
	return
}

func returnsError(fd *ast.FuncDecl) bool {
	if fd.Type.Results == nil || len(fd.Type.Results.List) == 0 {
		return false
	}
	last := fd.Type.Results.List[len(fd.Type.Results.List)-1]
	id, ok := last.Type.(*ast.Ident)
	return ok && id.Name == "error"
}

func parseDir(rel string) {
	dir := filepath.Join(repo, rel)
	ents, err := os.ReadDir(dir)
	if err != nil {
		return
	}
	for _, e := range ents {
		n := e.Name()
		if e.IsDir() || !strings.HasSuffix(n, ".go") || strings.HasSuffix(n, "_test.go") || strings.HasSuffix(n, ".pb.go") || strings.HasSuffix(n, ".pb.gw.go") {
			continue
		}
		f, err := parser.ParseFile(fset, filepath.Join(dir, n), nil, 0)
		if err != nil {
			fmt.Fprintln(os.Stderr, "parse error:", err)
			os.Exit(1)
		}
		for _, d := range f.Decls {
			fd, ok := d.(*ast.FuncDecl)
			if !ok || fd.Body == nil {
				continue
			}
			rt, rn := recvType(fd)
			if strings.HasSuffix(rel, "/types") {
				if fd.Name.Name == "GetSigners" && rt != "" {
					ast.Inspect(fd.Body, func(x ast.Node) bool {
						if se, ok := x.(*ast.SelectorExpr); ok {
							if id, ok := se.X.(*ast.Ident); ok && id.Name == rn {
								if _, dup := signerOf[rel+"."+rt]; !dup {
									signerOf[rel+"."+rt] = strings.TrimPrefix(se.Sel.Name, "Get")
								}
							}
						}
						return true
					})
				}
				if rt == "" && strings.HasPrefix(fd.Name.Name, "NewMsg") {
					ctors[rel+"."+fd.Name.Name] = fd
				}
				continue
			}
			k := FuncKey{rel, rt, fd.Name.Name}
			index[k] = &FuncInfo{key: k, decl: fd, file: filepath.Join(rel, n), recvName: rn, retErr: returnsError(fd)}
		}
	}
}

var fieldModule = map[string]string{
	"oracle": "market", "auctionsv2": "auctionsV2", "liquidationsv2": "liquidationsV2", "newliq": "liquidationsV2", "newauc": "auctionsV2",
}

func moduleOfField(field string) string {
	f := strings.ToLower(field)
	f = strings.TrimSuffix(f, "keeper")
	if m, ok := fieldModule[f]; ok {
		return m
	}
	return f
}

func selChain(e ast.Expr) []string {
	switch x := e.(type) {
	case *ast.Ident:
		return []string{x.Name}
	case *ast.SelectorExpr:
		c := selChain(x.X)
		if c == nil {
			return nil
		}
		return append(c, x.Sel.Name)
	case *ast.ParenExpr:
		return selChain(x.X)
	}
	return nil
}

var bankWrites = map[string]bool{
	"SendCoins": true, "SendCoinsFromModuleToAccount": true, "SendCoinsFromAccountToModule": true, "SendCoinsFromModuleToModule": true,
	"MintCoins": true, "BurnCoins": true, "DelegateCoins": true, "UndelegateCoins": true, "DelegateCoinsFromAccountToModule": true,
	"UndelegateCoinsFromModuleToAccount": true, "InputOutputCoins": true,
}

// directWrite: store.Set / store.Delete / paramspace.SetParamSet / bank send, mint, burn
func directWrite(call *ast.CallExpr) (string, bool) {
	se, ok := call.Fun.(*ast.SelectorExpr)
	if !ok {
		return "", false
	}
	name := se.Sel.Name
	if name == "Set" || name == "Delete" {
		switch r := se.X.(type) {
		case *ast.Ident:
			if strings.Contains(strings.ToLower(r.Name), "store") {
				return "store." + name, true
			}
		case *ast.CallExpr:
			if s2, ok := r.Fun.(*ast.SelectorExpr); ok {
				if s2.Sel.Name == "Store" || s2.Sel.Name == "KVStore" || s2.Sel.Name == "NewStore" {
					return "store." + name, true
				}
			}
		}
	}
	if name == "SetParamSet" {
		return "params.SetParamSet", true
	}
	if bankWrites[name] {
		ch := selChain(se.X)
		for _, c := range ch {
			if strings.Contains(strings.ToLower(c), "bank") {
				return "bank." + name, true
			}
		}
	}
	return "", false
}

// resolve a call to a function of the index (or nil): receiver methods, embedded/explicit keeper fields, keeper-typed
// parameters (by their name), package-level functions of the same package.
func resolve(call *ast.CallExpr, cur *FuncInfo) *FuncInfo {
	switch f := call.Fun.(type) {
	case *ast.Ident:
		return index[FuncKey{cur.key.pkg, "", f.Name}]
	case *ast.SelectorExpr:
		name := f.Sel.Name
		ch := selChain(f.X)
		if len(ch) == 0 {
			return nil
		}
		if ch[0] == cur.recvName && cur.recvName != "" {
			if len(ch) == 1 {
				for _, r := range []string{cur.key.recv, "Keeper", "msgServer"} {
					if fi := index[FuncKey{cur.key.pkg, r, name}]; fi != nil {
						return fi
					}
				}
				return nil
			}
			field := ch[len(ch)-1]
			if strings.ToLower(field) == "keeper" {
				return index[FuncKey{cur.key.pkg, "Keeper", name}]
			}
			return index[FuncKey{"x/" + moduleOfField(field) + "/keeper", "Keeper", name}]
		}
		// a parameter of keeper type, recognised by its name (…Keeper / k)
		if len(ch) == 1 && isParam(cur, ch[0]) {
			if strings.HasSuffix(strings.ToLower(ch[0]), "keeper") {
				return index[FuncKey{"x/" + moduleOfField(ch[0]) + "/keeper", "Keeper", name}]
			}
		}
	}
	return nil
}

func isParam(fi *FuncInfo, name string) bool {
	for _, p := range fi.decl.Type.Params.List {
		for _, n := range p.Names {
			if n.Name == name {
				return true
			}
		}
	}
	return false
}

var writesMemo = map[FuncKey]int{} // 0 unknown, 1 in progress, 2 no, 3 yes

func writes(fi *FuncInfo) bool {
	switch writesMemo[fi.key] {
	case 1, 2:
		return false
	case 3:
		return true
	}
	writesMemo[fi.key] = 1
	res := false
	ast.Inspect(fi.decl.Body, func(n ast.Node) bool {
		if res {
			return false
		}
		if c, ok := n.(*ast.CallExpr); ok {
			if _, w := directWrite(c); w {
				res = true
				return false
			}
			if g := resolve(c, fi); g != nil && writes(g) {
				res = true
				return false
			}
		}
		return true
	})
	if res {
		writesMemo[fi.key] = 3
	} else {
		writesMemo[fi.key] = 2
	}
	return res
}

var basePrice = map[string]bool{"CalcAssetPrice": true, "GetLatestPrice": true}

func isBasePrice(fi *FuncInfo) bool {
	return fi != nil && fi.key.pkg == "x/market/keeper" && basePrice[fi.key.name]
}

var priceMemo = map[FuncKey]int{}

func reachesPrice(fi *FuncInfo) bool {
	if isBasePrice(fi) {
		return true
	}
	switch priceMemo[fi.key] {
	case 1, 2:
		return false
	case 3:
		return true
	}
	priceMemo[fi.key] = 1
	res := false
	ast.Inspect(fi.decl.Body, func(n ast.Node) bool {
		if res {
			return false
		}
		if c, ok := n.(*ast.CallExpr); ok {
			if g := resolve(c, fi); g != nil && reachesPrice(g) {
				res = true
				return false
			}
		}
		return true
	})
	if res {
		priceMemo[fi.key] = 3
	} else {
		priceMemo[fi.key] = 2
	}
	return res
}

// ---------------------------------------------------------------------------------------------
// flattening walker

const (
	kGuard = iota
	kWrite
	kPosRead
	kOkExit
	kSwallow
)
const (
	cOther = iota
	cOwnerEq
	cEsm
	cBreaker
	cCoolOff
	cPrice
	cAdmin
	cConsistent     // a field of the stored position is compared with what the message's ids say, standing alone (or ||-joined)
	cWeakConsistent // the same comparison &&-joined with another test: rejects only when BOTH mismatch
)

var clsNames = []string{"other", "ownerEq", "esmExecuted", "breakerEnabled", "coolOff", "priceLookup", "adminOnly", "consistent", "weakConsistent"}

type Item struct {
	kind, cls int
	cond      bool
	path      []int
	keyed     bool
	wb        bool
	line      int
	fn        string
	detail    string
	tag       string // consistency guards: the field (path) of the stored position that is compared
}

type taint map[string]bool

func (t taint) has(s string) bool { return t != nil && t[s] }
func union(a, b taint) taint {
	if len(a) == 0 {
		return b
	}
	if len(b) == 0 {
		return a
	}
	r := taint{}
	for k := range a {
		r[k] = true
	}
	for k := range b {
		r[k] = true
	}
	return r
}

var ownerFields = map[string]bool{"Owner": true, "Depositor": true, "Orderer": true, "Farmer": true, "BidderAddress": true, "Bidder": true}

var posGetters = map[string]bool{
	"GetVault": true, "GetStableMintVault": true, "GetLocker": true, "GetLend": true, "GetBorrow": true, "GetOrder": true,
	"GetMMOrderIndex": true, "IterateOrdersByOrderer": true, "GetActiveFarmer": true, "GetQueuedFarmer": true, "GetUserLimitBidData": true,
}

type walker struct {
	items      []Item
	nextPath   int
	depth      int
	writePaths [][]int
}

func isPrefix(a, b []int) bool {
	if len(a) > len(b) {
		return false
	}
	for i := range a {
		if a[i] != b[i] {
			return false
		}
	}
	return true
}

type frame struct {
	fi      *FuncInfo
	env     map[string]taint
	errSrc  map[string]*FuncInfo // error variable -> callee that produced it (nil entry = unresolved call)
	errName map[string]string
	pending map[string]bool // error variables of price lookups not yet tested
	path    []int
	cond    bool
	closure bool
	entry   int       // len(path) at function entry (inlined frames): ok-returns on deeper paths are early exits
	retT    [][]taint // taints of the values of ok-returns (for callers)
}

func (w *walker) emit(fr *frame, it Item) {
	it.cond = fr.cond
	it.path = append([]int{}, fr.path...)
	for _, wp := range w.writePaths {
		if isPrefix(wp, it.path) {
			it.wb = true
		}
	}
	it.fn = fr.fi.key.name
	w.items = append(w.items, it)
	if it.kind == kWrite {
		w.writePaths = append(w.writePaths, it.path)
	}
}

func line(n ast.Node) int { return fset.Position(n.Pos()).Line }

func src(n ast.Node) string {
	p := fset.Position(n.Pos())
	e := fset.Position(n.End())
	b, err := os.ReadFile(p.Filename)
	if err != nil || e.Offset > len(b) {
		return ""
	}
	s := string(b[p.Offset:e.Offset])
	s = strings.Join(strings.Fields(s), " ")
	if len(s) > 90 {
		s = s[:90] + "…"
	}
	return s
}

func (w *walker) taintOf(fr *frame, e ast.Expr) taint {
	switch x := e.(type) {
	case *ast.Ident:
		return fr.env[x.Name]
	case *ast.ParenExpr:
		return w.taintOf(fr, x.X)
	case *ast.StarExpr:
		return w.taintOf(fr, x.X)
	case *ast.UnaryExpr:
		return w.taintOf(fr, x.X)
	case *ast.BinaryExpr:
		return union(w.taintOf(fr, x.X), w.taintOf(fr, x.Y))
	case *ast.SelectorExpr:
		b := w.taintOf(fr, x.X)
		r := taint{}
		for k := range b {
			if strings.HasPrefix(k, "msg:") {
				if signerOf[strings.TrimPrefix(k, "msg:")] == x.Sel.Name {
					r["signer"] = true
				}
			} else if k == "esm" || k == "breaker" || k == "pos" {
				r[k] = true
			}
		}
		return r
	case *ast.CompositeLit:
		return w.litTaint(fr, x, func(e ast.Expr) taint { return w.taintOf(fr, e) })
	case *ast.CallExpr:
		if se, ok := x.Fun.(*ast.SelectorExpr); ok {
			n := se.Sel.Name
			if id, ok := se.X.(*ast.Ident); ok && id.Name == "types" && strings.HasPrefix(n, "NewMsg") {
				// message constructor: the new message is signed by whoever flows into its signer field
				tp := strings.TrimSuffix(fr.fi.key.pkg, "/keeper") + "/types"
				if fd := ctors[tp+"."+n]; fd != nil {
					penv := map[string]taint{}
					i := 0
					for _, p := range fd.Type.Params.List {
						for _, pn := range p.Names {
							if i < len(x.Args) {
								penv[pn.Name] = w.taintOf(fr, x.Args[i])
							}
							i++
						}
					}
					var res taint
					ast.Inspect(fd.Body, func(nd ast.Node) bool {
						if cl, ok := nd.(*ast.CompositeLit); ok && res == nil {
							sub := &frame{fi: &FuncInfo{key: FuncKey{pkg: fr.fi.key.pkg}}, env: penv}
							res = w.litTaint(sub, cl, func(e ast.Expr) taint { return w.taintOf(sub, e) })
						}
						return true
					})
					return res
				}
			}
			if n == "AccAddressFromBech32" || n == "MustAccAddressFromBech32" {
				if len(x.Args) == 1 {
					return w.only(w.taintOf(fr, x.Args[0]), "signer")
				}
			}
			if n == "String" && len(x.Args) == 0 {
				return w.only(w.taintOf(fr, se.X), "signer")
			}
			// msg.GetOrderer() / msg.GetFarmer() …: getter of the signer field
			b := w.taintOf(fr, se.X)
			for k := range b {
				if strings.HasPrefix(k, "msg:") {
					sf := signerOf[strings.TrimPrefix(k, "msg:")]
					if sf != "" && (n == "Get"+sf || n == "GetSigners") {
						return taint{"signer": true}
					}
				}
			}
			return nil
		}
		if id, ok := x.Fun.(*ast.Ident); ok && id.Name == "string" && len(x.Args) == 1 {
			return w.only(w.taintOf(fr, x.Args[0]), "signer")
		}
	}
	return nil
}

// litTaint: a composite literal of a message type whose signer field is filled with the current signer is itself a
// message of that signer.
func (w *walker) litTaint(fr *frame, cl *ast.CompositeLit, tf func(ast.Expr) taint) taint {
	tn := ""
	switch t := cl.Type.(type) {
	case *ast.SelectorExpr:
		tn = t.Sel.Name
	case *ast.Ident:
		tn = t.Name
	}
	if tn == "" {
		return nil
	}
	tkey := strings.TrimSuffix(fr.fi.key.pkg, "/keeper") + "/types." + tn
	sf := signerOf[tkey]
	if sf == "" {
		return nil
	}
	for _, e := range cl.Elts {
		if kv, ok := e.(*ast.KeyValueExpr); ok {
			if k, ok := kv.Key.(*ast.Ident); ok && k.Name == sf && tf(kv.Value).has("signer") {
				return taint{"msg:" + tkey: true}
			}
		}
	}
	return nil
}

func (w *walker) only(t taint, k string) taint {
	if t.has(k) {
		return taint{k: true}
	}
	return nil
}

func mentions(e ast.Expr, pred func(ast.Node) bool) bool {
	found := false
	ast.Inspect(e, func(n ast.Node) bool {
		if n != nil && pred(n) {
			found = true
		}
		return !found
	})
	return found
}

// errVarsNonNil: identifiers v such that cond (a disjunction/conjunction) contains `v != nil`
func errVarsNonNil(cond ast.Expr) []string {
	var out []string
	ast.Inspect(cond, func(n ast.Node) bool {
		if b, ok := n.(*ast.BinaryExpr); ok && b.Op == token.NEQ {
			if id, ok := b.X.(*ast.Ident); ok {
				if nl, ok := b.Y.(*ast.Ident); ok && nl.Name == "nil" {
					out = append(out, id.Name)
				}
			}
		}
		return true
	})
	return out
}

func isNilIdent(e ast.Expr) bool {
	id, ok := e.(*ast.Ident)
	return ok && id.Name == "nil"
}

// retClass: 0 ok, 1 fail, 2 delegate (return of a resolvable call)
func (w *walker) retClass(fr *frame, r *ast.ReturnStmt, nonNil []string) (int, *ast.CallExpr) {
	if !fr.fi.retErr {
		return 0, nil
	}
	if len(r.Results) == 0 {
		if len(nonNil) > 0 {
			return 1, nil
		}
		return 0, nil
	}
	last := r.Results[len(r.Results)-1]
	if isNilIdent(last) {
		return 0, nil
	}
	switch x := last.(type) {
	case *ast.Ident:
		for _, v := range nonNil {
			if v == x.Name {
				return 1, nil
			}
		}
		// an error variable returned unchecked: it may be nil
		return 0, nil
	case *ast.CallExpr:
		if g := resolve(x, fr.fi); g != nil && g.retErr {
			return 2, x
		}
		return 1, nil
	}
	return 1, nil
}

func lastStmt(b *ast.BlockStmt) ast.Stmt {
	if b == nil || len(b.List) == 0 {
		return nil
	}
	return b.List[len(b.List)-1]
}

func (w *walker) blockFails(fr *frame, b *ast.BlockStmt, nonNil []string) bool {
	r, ok := lastStmt(b).(*ast.ReturnStmt)
	if !ok {
		if es, ok := lastStmt(b).(*ast.ExprStmt); ok {
			if c, ok := es.X.(*ast.CallExpr); ok {
				if id, ok := c.Fun.(*ast.Ident); ok && id.Name == "panic" {
					return true
				}
			}
		}
		return false
	}
	c, _ := w.retClass(fr, r, nonNil)
	return c == 1
}

func blockTerminates(b *ast.BlockStmt) bool {
	_, ok := lastStmt(b).(*ast.ReturnStmt)
	return ok
}

// classify one disjunct of a failing condition
func (w *walker) classify(fr *frame, c ast.Expr) (int, string) {
	for {
		p, ok := c.(*ast.ParenExpr)
		if !ok {
			break
		}
		c = p.X
	}
	// owner comparison
	isOwnerCmp := func(a, b ast.Expr) bool {
		se, ok := a.(*ast.SelectorExpr)
		if !ok || !ownerFields[se.Sel.Name] {
			return false
		}
		if w.taintOf(fr, a).has("signer") {
			return false
		}
		return w.taintOf(fr, b).has("signer")
	}
	if b, ok := c.(*ast.BinaryExpr); ok && b.Op == token.NEQ {
		if isOwnerCmp(b.X, b.Y) || isOwnerCmp(b.Y, b.X) {
			return cOwnerEq, ""
		}
	}
	if u, ok := c.(*ast.UnaryExpr); ok && u.Op == token.NOT {
		if call, ok := u.X.(*ast.CallExpr); ok {
			if se, ok := call.Fun.(*ast.SelectorExpr); ok {
				if se.Sel.Name == "Equals" && len(call.Args) == 1 && (isOwnerCmp(se.X, call.Args[0]) || isOwnerCmp(call.Args[0], se.X)) {
					return cOwnerEq, ""
				}
				if se.Sel.Name == "Admin" {
					for _, a := range call.Args {
						if w.taintOf(fr, a).has("signer") {
							return cAdmin, ""
						}
					}
				}
			}
		}
	}
	t := w.taintOf(fr, c)
	negated := mentions(c, func(n ast.Node) bool { u, ok := n.(*ast.UnaryExpr); return ok && u.Op == token.NOT })
	if t.has("breaker") && !negated && mentions(c, func(n ast.Node) bool { s, ok := n.(*ast.SelectorExpr); return ok && s.Sel.Name == "BreakerEnable" }) {
		return cBreaker, ""
	}
	if t.has("esm") && !negated {
		if mentions(c, func(n ast.Node) bool { s, ok := n.(*ast.SelectorExpr); return ok && s.Sel.Name == "BlockTime" }) {
			dir := "after"
			if mentions(c, func(n ast.Node) bool { s, ok := n.(*ast.SelectorExpr); return ok && s.Sel.Name == "Before" }) {
				dir = "before"
			}
			if dir == "before" {
				// esm.MsgCollateralRedemption: refused while the cool-off period still runs (the opposite test)
				return cOther, "coolOffRemains(before): " + src(c)
			}
			return cCoolOff, dir + ": " + src(c)
		}
		// every leaf must be esm-tainted
		leaves := true
		var chk func(e ast.Expr)
		chk = func(e ast.Expr) {
			switch x := e.(type) {
			case *ast.ParenExpr:
				chk(x.X)
			case *ast.BinaryExpr:
				if x.Op == token.LAND {
					chk(x.X)
					chk(x.Y)
					return
				}
				leaves = false
			default:
				if !w.taintOf(fr, e).has("esm") {
					leaves = false
				}
			}
		}
		chk(c)
		if leaves {
			return cEsm, ""
		}
	}
	// error of a call
	for _, v := range errVarsNonNil(c) {
		if g, ok := fr.errSrc[v]; ok {
			if g != nil && isBasePrice(g) {
				return cPrice, g.key.name
			}
			if strings.HasPrefix(fr.errName[v], "inlined:") {
				return cOther, "propagate:" + strings.TrimPrefix(fr.errName[v], "inlined:")
			}
			return cOther, "err:" + fr.errName[v]
		}
	}
	return cOther, ""
}

func splitAnd(c ast.Expr) []ast.Expr {
	for {
		p, ok := c.(*ast.ParenExpr)
		if !ok {
			break
		}
		c = p.X
	}
	if b, ok := c.(*ast.BinaryExpr); ok && b.Op == token.LAND {
		return append(splitAnd(b.X), splitAnd(b.Y)...)
	}
	return []ast.Expr{c}
}

// posField: e is `p.F…` with p a variable holding a stored position record: returns the field path
func (w *walker) posField(fr *frame, e ast.Expr) (string, bool) {
	ch := selChain(e)
	if len(ch) < 2 {
		return "", false
	}
	if !fr.env[ch[0]].has("pos") {
		return "", false
	}
	return strings.Join(ch[1:], "."), true
}

// consistency: the disjunct compares a field of the stored position with something else by `!=`.
// strong: the comparison stands alone; weak: it is &&-joined with other tests. Returns the compared fields.
func (w *walker) consistency(fr *frame, d ast.Expr) (strong bool, fields []string) {
	atoms := splitAnd(d)
	for _, a := range atoms {
		for {
			p, ok := a.(*ast.ParenExpr)
			if !ok {
				break
			}
			a = p.X
		}
		b, ok := a.(*ast.BinaryExpr)
		if !ok || b.Op != token.NEQ {
			continue
		}
		fx, okx := w.posField(fr, b.X)
		fy, oky := w.posField(fr, b.Y)
		if okx == oky { // neither, or a comparison of two position fields
			continue
		}
		if okx {
			fields = append(fields, fx)
		} else {
			fields = append(fields, fy)
		}
	}
	return len(atoms) == 1, fields
}

func splitOr(c ast.Expr) []ast.Expr {
	for {
		p, ok := c.(*ast.ParenExpr)
		if !ok {
			break
		}
		c = p.X
	}
	if b, ok := c.(*ast.BinaryExpr); ok && b.Op == token.LOR {
		return append(splitOr(b.X), splitOr(b.Y)...)
	}
	return []ast.Expr{c}
}

// calls in evaluation order (inner first), not descending into function literals
func callsIn(n ast.Node) []*ast.CallExpr {
	var out []*ast.CallExpr
	var visit func(n ast.Node)
	visit = func(n ast.Node) {
		ast.Inspect(n, func(x ast.Node) bool {
			switch c := x.(type) {
			case *ast.FuncLit:
				return false
			case *ast.CallExpr:
				for _, a := range c.Args {
					if _, isLit := a.(*ast.FuncLit); !isLit {
						visit(a)
					}
				}
				visit(c.Fun)
				out = append(out, c)
				return false
			}
			return true
		})
	}
	visit(n)
	return out
}

func funcLitsIn(n ast.Node) []*ast.FuncLit {
	var out []*ast.FuncLit
	ast.Inspect(n, func(x ast.Node) bool {
		if f, ok := x.(*ast.FuncLit); ok {
			out = append(out, f)
			return false
		}
		return true
	})
	return out
}

// summarise a call that is not inlined
func (w *walker) noteCall(fr *frame, c *ast.CallExpr) {
	if name, ok := directWrite(c); ok {
		w.emit(fr, Item{kind: kWrite, line: line(c), detail: name})
		return
	}
	if se, ok := c.Fun.(*ast.SelectorExpr); ok && posGetters[se.Sel.Name] {
		keyed := false
		for _, a := range c.Args {
			if w.taintOf(fr, a).has("signer") {
				keyed = true
			}
		}
		w.emit(fr, Item{kind: kPosRead, keyed: keyed, line: line(c), detail: se.Sel.Name})
	}
	if g := resolve(c, fr.fi); g != nil && writes(g) {
		w.emit(fr, Item{kind: kWrite, line: line(c), detail: g.key.name})
	}
}

func (w *walker) noteCalls(fr *frame, n ast.Node) {
	if n == nil {
		return
	}
	for _, c := range callsIn(n) {
		w.noteCall(fr, c)
	}
	for _, fl := range funcLitsIn(n) {
		sub := *fr
		sub.cond = true
		sub.closure = true
		w.walkBlock(&sub, fl.Body)
	}
}

const maxDepth = 7

// inline callee g called by `call` in frame fr; returns the taints of its ok-return values
func (w *walker) inline(fr *frame, call *ast.CallExpr, g *FuncInfo) []taint {
	// arguments are evaluated first
	for _, a := range call.Args {
		w.noteCalls(fr, a)
	}
	sub := &frame{fi: g, env: map[string]taint{}, errSrc: map[string]*FuncInfo{}, errName: map[string]string{}, pending: map[string]bool{}, path: fr.path, cond: fr.cond, closure: fr.closure, entry: len(fr.path)}
	i := 0
	for _, p := range g.decl.Type.Params.List {
		names := p.Names
		if len(names) == 0 {
			i++
			continue
		}
		for _, n := range names {
			if i < len(call.Args) {
				sub.env[n.Name] = w.taintOf(fr, call.Args[i])
			}
			i++
		}
	}
	w.depth++
	w.walkBlock(sub, g.decl.Body)
	w.depth--
	if len(sub.retT) == 0 {
		return nil
	}
	// intersection over ok-returns, position-wise
	res := sub.retT[0]
	for _, r := range sub.retT[1:] {
		for j := range res {
			if j >= len(r) {
				res[j] = nil
				continue
			}
			m := taint{}
			for k := range res[j] {
				if r[j].has(k) {
					m[k] = true
				}
			}
			res[j] = m
		}
	}
	return res
}

func (w *walker) bindErr(fr *frame, lhs []ast.Expr, call *ast.CallExpr, g *FuncInfo) {
	if len(lhs) == 0 {
		return
	}
	if id, ok := lhs[len(lhs)-1].(*ast.Ident); ok && id.Name != "_" {
		if fr.pending[id.Name] && !fr.closure {
			// the error of an earlier price lookup is overwritten before it was tested: that error is lost
			w.emit(fr, Item{kind: kSwallow, cls: cPrice, line: line(call), detail: "overwritten:" + fr.errName[id.Name]})
		}
		delete(fr.pending, id.Name)
		if isBasePrice(g) {
			fr.pending[id.Name] = true
		}
		fr.errSrc[id.Name] = g
		n := ""
		if se, ok := call.Fun.(*ast.SelectorExpr); ok {
			n = se.Sel.Name
		} else if fid, ok := call.Fun.(*ast.Ident); ok {
			n = fid.Name
		}
		fr.errName[id.Name] = n
	}
}

// next statement propagates error variable v by failing?
func (w *walker) propagates(fr *frame, next ast.Stmt, v string) bool {
	is, ok := next.(*ast.IfStmt)
	if !ok || is.Init != nil {
		return false
	}
	nn := errVarsNonNil(is.Cond)
	hit := false
	for _, x := range nn {
		if x == v {
			hit = true
		}
	}
	return hit && w.blockFails(fr, is.Body, nn)
}

func (w *walker) handleAssign(fr *frame, lhs []ast.Expr, rhs []ast.Expr, next ast.Stmt, propagatedHere bool) {
	if len(rhs) == 1 {
		if call, ok := rhs[0].(*ast.CallExpr); ok {
			g := resolve(call, fr.fi)
			name := ""
			if se, ok := call.Fun.(*ast.SelectorExpr); ok {
				name = se.Sel.Name
			}
			// taints of special lookups
			var special taint
			switch name {
			case "GetESMStatus":
				special = taint{"esm": true}
			case "GetKillSwitchData":
				special = taint{"breaker": true}
			}
			if posGetters[name] && name != "IterateOrdersByOrderer" {
				special = taint{"pos": true}
			}
			errVar := ""
			if len(lhs) > 0 {
				if id, ok := lhs[len(lhs)-1].(*ast.Ident); ok && id.Name != "_" {
					errVar = id.Name
				}
			}
			canInline := g != nil && g.retErr && !isBasePrice(g) && !posGetters[name] && w.depth < maxDepth && errVar != "" &&
				(propagatedHere || (next != nil && w.propagates(fr, next, errVar)))
			if canInline {
				rt := w.inline(fr, call, g)
				for i, l := range lhs {
					if id, ok := l.(*ast.Ident); ok && id.Name != "_" {
						if i < len(rt) {
							fr.env[id.Name] = rt[i]
						} else {
							delete(fr.env, id.Name)
						}
					}
				}
				w.bindErr(fr, lhs, call, g)
				fr.errName[errVar] = "inlined:" + g.key.name
				return
			}
			w.noteCalls(fr, call)
			if g != nil && g.retErr || (g == nil && errVar != "") {
				w.bindErr(fr, lhs, call, g)
			}
			for i, l := range lhs {
				if id, ok := l.(*ast.Ident); ok && id.Name != "_" {
					if special != nil && i < 2 && !(i == len(lhs)-1 && g != nil && g.retErr) {
						fr.env[id.Name] = special
					} else if len(lhs) == 1 || i == 0 {
						fr.env[id.Name] = w.taintOf(fr, call)
					} else {
						delete(fr.env, id.Name)
					}
				}
			}
			return
		}
	}
	for _, r := range rhs {
		w.noteCalls(fr, r)
	}
	if len(lhs) == len(rhs) {
		for i, l := range lhs {
			if id, ok := l.(*ast.Ident); ok && id.Name != "_" {
				fr.env[id.Name] = w.taintOf(fr, rhs[i])
				delete(fr.errSrc, id.Name)
			}
		}
	}
}

func (w *walker) walkBlock(fr *frame, b *ast.BlockStmt) {
	if b == nil {
		return
	}
	for i, s := range b.List {
		var next ast.Stmt
		if i+1 < len(b.List) {
			next = b.List[i+1]
		}
		w.walkStmt(fr, s, next)
	}
}

func (w *walker) walkStmt(fr *frame, s ast.Stmt, next ast.Stmt) {
	switch x := s.(type) {
	case *ast.AssignStmt:
		w.handleAssign(fr, x.Lhs, x.Rhs, next, false)
	case *ast.DeclStmt:
		if gd, ok := x.Decl.(*ast.GenDecl); ok {
			for _, sp := range gd.Specs {
				if vs, ok := sp.(*ast.ValueSpec); ok && len(vs.Values) > 0 {
					lhs := make([]ast.Expr, len(vs.Names))
					for i, n := range vs.Names {
						lhs[i] = n
					}
					w.handleAssign(fr, lhs, vs.Values, nil, false)
				}
			}
		}
	case *ast.ExprStmt:
		w.noteCalls(fr, x.X)
	case *ast.IncDecStmt, *ast.BranchStmt, *ast.EmptyStmt:
	case *ast.DeferStmt, *ast.GoStmt:
	case *ast.BlockStmt:
		w.walkBlock(fr, x)
	case *ast.IfStmt:
		w.walkIf(fr, x)
	case *ast.ForStmt:
		sub := *fr
		sub.cond = true
		if x.Init != nil {
			w.walkStmt(&sub, x.Init, nil)
		}
		w.noteCalls(&sub, x.Cond)
		w.walkLoopBody(&sub, x.Body)
	case *ast.RangeStmt:
		w.noteCalls(fr, x.X)
		sub := *fr
		sub.cond = true
		w.walkLoopBody(&sub, x.Body)
	case *ast.SwitchStmt:
		if x.Init != nil {
			w.walkStmt(fr, x.Init, nil)
		}
		w.noteCalls(fr, x.Tag)
		for _, cc := range x.Body.List {
			if c, ok := cc.(*ast.CaseClause); ok {
				sub := *fr
				sub.cond = true
				w.walkBlock(&sub, &ast.BlockStmt{List: c.Body})
			}
		}
	case *ast.TypeSwitchStmt:
		for _, cc := range x.Body.List {
			if c, ok := cc.(*ast.CaseClause); ok {
				sub := *fr
				sub.cond = true
				w.walkBlock(&sub, &ast.BlockStmt{List: c.Body})
			}
		}
	case *ast.ReturnStmt:
		w.walkReturn(fr, x, nil)
	default:
		ast.Inspect(s, func(n ast.Node) bool {
			if c, ok := n.(*ast.CallExpr); ok {
				w.noteCall(fr, c)
			}
			return true
		})
	}
}

func (w *walker) walkLoopBody(fr *frame, b *ast.BlockStmt) {
	w.walkBlock(fr, b)
}

func (w *walker) walkReturn(fr *frame, r *ast.ReturnStmt, nonNil []string) {
	if fr.closure {
		for _, e := range r.Results {
			w.noteCalls(fr, e)
		}
		return
	}
	cls, call := w.retClass(fr, r, nonNil)
	switch cls {
	case 2:
		g := resolve(call, fr.fi)
		if w.depth < maxDepth && !isBasePrice(g) {
			w.inline(fr, call, g)
		} else {
			w.noteCalls(fr, call)
		}
		w.okExit(fr, r)
	case 0:
		for _, e := range r.Results {
			w.noteCalls(fr, e)
		}
		w.okExit(fr, r)
	case 1:
		// a bare failing return outside a recognised guard: nothing to record
	}
}

func (w *walker) okExit(fr *frame, r *ast.ReturnStmt) {
	ts := make([]taint, len(r.Results))
	for i, e := range r.Results {
		ts[i] = w.taintOf(fr, e)
	}
	fr.retT = append(fr.retT, ts)
	// Exits of the handler itself, and early ok-returns of inlined callees (branch paths): control then continues in
	// the caller, so requiring the guard already there is conservative. The final (trunk) return of an inlined callee
	// is not an exit: the caller's continuation follows on the same path.
	if w.depth == 0 || len(fr.path) > fr.entry {
		w.emit(fr, Item{kind: kOkExit, line: line(r)})
	}
}

func (w *walker) walkIf(fr *frame, s *ast.IfStmt) {
	propagatedHere := false
	if s.Init != nil {
		// `if err := call(); err != nil { fail }`
		if as, ok := s.Init.(*ast.AssignStmt); ok {
			nn := errVarsNonNil(s.Cond)
			if len(as.Lhs) > 0 {
				if id, ok := as.Lhs[len(as.Lhs)-1].(*ast.Ident); ok {
					for _, v := range nn {
						if v == id.Name && w.blockFails(fr, s.Body, nn) {
							propagatedHere = true
						}
					}
				}
			}
			w.handleAssign(fr, as.Lhs, as.Rhs, nil, propagatedHere)
		} else {
			w.walkStmt(fr, s.Init, nil)
		}
	}
	nn := errVarsNonNil(s.Cond)
	fails := w.blockFails(fr, s.Body, nn)
	for v := range fr.pending {
		if mentionsIdent(s.Cond, v) {
			delete(fr.pending, v)
		}
	}
	w.noteCalls(fr, s.Cond)
	if fails && !fr.closure {
		for _, d := range splitOr(s.Cond) {
			c, det := w.classify(fr, d)
			if det == "" {
				det = src(d)
			}
			if c == cOther {
				if strong, fields := w.consistency(fr, d); len(fields) > 0 {
					cc := cWeakConsistent
					if strong {
						cc = cConsistent
					}
					for _, f := range fields {
						w.emit(fr, Item{kind: kGuard, cls: cc, line: line(s), detail: src(d), tag: f})
					}
					continue
				}
			}
			w.emit(fr, Item{kind: kGuard, cls: c, line: line(s), detail: det})
		}
		// the failing body is reverted with the message; continue with the else branch on the same path
		switch e := s.Else.(type) {
		case *ast.IfStmt:
			w.walkIf(fr, e)
		case *ast.BlockStmt:
			w.walkBlock(fr, e)
		}
		return
	}
	// `if c { … } else { fail }`  ==  guard(!c) ; body
	if eb, ok := s.Else.(*ast.BlockStmt); ok && !fr.closure && w.blockFails(fr, eb, nil) && !blockTerminates(s.Body) {
		w.emit(fr, Item{kind: kGuard, cls: cOther, line: line(s), detail: "not(" + src(s.Cond) + ")"})
		w.walkBlock(fr, s.Body)
		return
	}
	if blockTerminates(s.Body) && !fr.closure {
		// early-return branch (may return success)
		w.nextPath++
		sub := *fr
		sub.path = append(append([]int{}, fr.path...), w.nextPath)
		if len(nn) > 0 {
			// `if err != nil { return ok }`
			cl := cOther
			det := ""
			for _, v := range nn {
				if g := fr.errSrc[v]; g != nil && reachesPrice(g) {
					cl = cPrice
				}
				det = fr.errName[v]
			}
			if r, ok := lastStmt(s.Body).(*ast.ReturnStmt); ok {
				if c, _ := w.retClass(&sub, r, nil); c == 0 {
					w.emit(&sub, Item{kind: kSwallow, cls: cl, line: line(s), detail: det})
				}
			}
		}
		w.walkBlock(&sub, s.Body)
		fr.retT = append(fr.retT, sub.retT[len(fr.retT):]...)
		switch e := s.Else.(type) {
		case *ast.IfStmt:
			w.walkIf(fr, e)
		case *ast.BlockStmt:
			w.walkBlock(fr, e)
		}
		return
	}
	sub := *fr
	sub.cond = true
	w.walkBlock(&sub, s.Body)
	fr.retT = append(fr.retT, sub.retT[len(fr.retT):]...)
	switch e := s.Else.(type) {
	case *ast.IfStmt:
		sub2 := *fr
		sub2.cond = true
		w.walkIf(&sub2, e)
	case *ast.BlockStmt:
		sub2 := *fr
		sub2.cond = true
		w.walkBlock(&sub2, e)
	}
}

// ---------------------------------------------------------------------------------------------
// handlers

type Handler struct {
	module, name, msgType, signer, file string
	line                                int
	items                               []Item
}

var handlerModules = []string{"vault", "locker", "lend", "liquidity", "auctionsV2", "esm", "liquidation", "liquidationsV2", "auction",
	"asset", "collector", "rewards", "tokenmint"}

func extractHandlers() []Handler {
	var out []Handler
	for _, m := range handlerModules {
		pkg := "x/" + m + "/keeper"
		var keys []FuncKey
		for k, fi := range index {
			if k.pkg == pkg && k.recv == "msgServer" && ast.IsExported(k.name) && strings.HasPrefix(filepath.Base(fi.file), "msg_server") {
				keys = append(keys, k)
			}
		}
		sort.Slice(keys, func(i, j int) bool { return line(index[keys[i]].decl) < line(index[keys[j]].decl) })
		for _, k := range keys {
			fi := index[k]
			ps := fi.decl.Type.Params.List
			if len(ps) != 2 || !fi.retErr {
				continue
			}
			msgName := ""
			if len(ps[1].Names) > 0 {
				msgName = ps[1].Names[0].Name
			}
			mt := ""
			if st, ok := ps[1].Type.(*ast.StarExpr); ok {
				if se, ok := st.X.(*ast.SelectorExpr); ok {
					mt = se.Sel.Name
				}
			}
			w := &walker{}
			fr := &frame{fi: fi, env: map[string]taint{}, errSrc: map[string]*FuncInfo{}, errName: map[string]string{}, pending: map[string]bool{}}
			tkey := "x/" + m + "/types." + mt
			fr.env[msgName] = taint{"msg:" + tkey: true}
			w.walkBlock(fr, fi.decl.Body)
			out = append(out, Handler{module: m, name: k.name, msgType: mt, signer: signerOf[tkey], file: fi.file, line: line(fi.decl), items: w.items})
		}
	}
	return out
}

// ---------------------------------------------------------------------------------------------
// wasm

type WasmArm struct {
	chain, list string
	idx         int
	addr        string
}
type WasmHandler struct {
	variant, method string
	arms            []WasmArm
	first, open     bool
	line            int
}

func extractWasm() ([]WasmHandler, map[string][]string, []string) {
	path := filepath.Join(repo, "app/wasm/message_plugin.go")
	f, err := parser.ParseFile(fset, path, nil, 0)
	if err != nil {
		fmt.Fprintln(os.Stderr, err)
		os.Exit(1)
	}
	lists := map[string][]string{}
	var listNames []string
	methods := map[string]*ast.FuncDecl{}
	var dispatch *ast.FuncDecl
	for _, d := range f.Decls {
		switch x := d.(type) {
		case *ast.GenDecl:
			for _, sp := range x.Specs {
				vs, ok := sp.(*ast.ValueSpec)
				if !ok || len(vs.Values) != 1 {
					continue
				}
				cl, ok := vs.Values[0].(*ast.CompositeLit)
				if !ok {
					continue
				}
				var vals []string
				okAll := true
				for _, e := range cl.Elts {
					bl, ok := e.(*ast.BasicLit)
					if !ok || bl.Kind != token.STRING {
						okAll = false
						break
					}
					s, _ := strconv.Unquote(bl.Value)
					vals = append(vals, s)
				}
				if okAll && len(vals) > 0 {
					lists[vs.Names[0].Name] = vals
					listNames = append(listNames, vs.Names[0].Name)
				}
			}
		case *ast.FuncDecl:
			rt, _ := recvType(x)
			if rt == "CustomMessenger" {
				if x.Name.Name == "DispatchMsg" {
					dispatch = x
				} else {
					methods[x.Name.Name] = x
				}
			}
		}
	}
	var out []WasmHandler
	if dispatch == nil {
		return out, lists, listNames
	}
	ast.Inspect(dispatch.Body, func(n ast.Node) bool {
		is, ok := n.(*ast.IfStmt)
		if !ok {
			return true
		}
		b, ok := is.Cond.(*ast.BinaryExpr)
		if !ok || b.Op != token.NEQ || !isNilIdent(b.Y) {
			return true
		}
		se, ok := b.X.(*ast.SelectorExpr)
		if !ok {
			return true
		}
		if id, ok := se.X.(*ast.Ident); !ok || id.Name != "comdexMsg" {
			return true
		}
		r, ok := lastStmt(is.Body).(*ast.ReturnStmt)
		if !ok || len(r.Results) != 1 {
			return true
		}
		call, ok := r.Results[0].(*ast.CallExpr)
		if !ok {
			return true
		}
		ms, ok := call.Fun.(*ast.SelectorExpr)
		if !ok {
			return true
		}
		h := WasmHandler{variant: se.Sel.Name, method: ms.Sel.Name, line: line(is), open: true}
		if md := methods[ms.Sel.Name]; md != nil && len(md.Body.List) > 0 {
			h.line = line(md)
			if first, ok := md.Body.List[0].(*ast.IfStmt); ok {
				h.first = true
				var cur ast.Stmt = first
				for cur != nil {
					arm, ok := cur.(*ast.IfStmt)
					if !ok {
						// a final else block: other chain ids are handled by code we do not interpret
						h.open = false
						break
					}
					chain := chainOf(arm.Cond)
					a := WasmArm{chain: chain, idx: -1}
					if len(arm.Body.List) == 1 {
						if inner, ok := arm.Body.List[0].(*ast.IfStmt); ok && inner.Else == nil {
							if l, i, ok := senderCmp(inner.Cond); ok && failsInvalidAddress(inner.Body) {
								a.list, a.idx = l, i
								if vs := lists[l]; i >= 0 && i < len(vs) {
									a.addr = vs[i]
								}
							}
						}
					}
					h.arms = append(h.arms, a)
					cur = arm.Else
				}
			}
		}
		out = append(out, h)
		return true
	})
	return out, lists, listNames
}

func chainOf(c ast.Expr) string {
	b, ok := c.(*ast.BinaryExpr)
	if !ok || b.Op != token.EQL {
		return ""
	}
	call, ok := b.X.(*ast.CallExpr)
	if !ok {
		return ""
	}
	se, ok := call.Fun.(*ast.SelectorExpr)
	if !ok || se.Sel.Name != "ChainID" {
		return ""
	}
	bl, ok := b.Y.(*ast.BasicLit)
	if !ok {
		return ""
	}
	s, _ := strconv.Unquote(bl.Value)
	return s
}

func senderCmp(c ast.Expr) (string, int, bool) {
	b, ok := c.(*ast.BinaryExpr)
	if !ok || b.Op != token.NEQ {
		return "", 0, false
	}
	call, ok := b.X.(*ast.CallExpr)
	if !ok {
		return "", 0, false
	}
	se, ok := call.Fun.(*ast.SelectorExpr)
	if !ok || se.Sel.Name != "String" {
		return "", 0, false
	}
	if id, ok := se.X.(*ast.Ident); !ok || id.Name != "contractAddr" {
		return "", 0, false
	}
	ix, ok := b.Y.(*ast.IndexExpr)
	if !ok {
		return "", 0, false
	}
	l, ok := ix.X.(*ast.Ident)
	if !ok {
		return "", 0, false
	}
	bl, ok := ix.Index.(*ast.BasicLit)
	if !ok {
		return "", 0, false
	}
	i, err := strconv.Atoi(bl.Value)
	if err != nil {
		return "", 0, false
	}
	return l.Name, i, true
}

func failsInvalidAddress(b *ast.BlockStmt) bool {
	r, ok := lastStmt(b).(*ast.ReturnStmt)
	if !ok || len(r.Results) == 0 {
		return false
	}
	return !isNilIdent(r.Results[len(r.Results)-1])
}

// ---------------------------------------------------------------------------------------------
// sweeps: the first `if` that tests BreakerEnable in the named function

type Sweep struct {
	module, fn, file string
	line             int
	action           string // "skip" (continue / return error when set) | "start" (run only when clear) | "?"
	conn             string // "or" | "and" | "atom"
	breaker, esm     string // "pos" | "neg" | "none"
	wb               bool   // a write precedes the test inside the function
	found            bool
}

var sweepFuncs = [][2]string{
	{"x/liquidation/keeper", "LiquidateVaults"}, {"x/liquidation/keeper", "LiquidateBorrows"},
	{"x/liquidationsV2/keeper", "LiquidateIndividualVault"}, {"x/liquidationsV2/keeper", "LiquidateIndividualBorrow"},
	{"x/liquidationsV2/keeper", "LiquidateForSurplusAndDebt"},
	{"x/auction/keeper", "SurplusActivator"}, {"x/auction/keeper", "DebtActivator"},
	// the payout units of the rewards BeginBlocker (external reward programmes of lockers, vaults, lend positions); the fourth unit,
	// DistributeExtRewardStableVault, has no control test at all (notes/C14.md, observation) and is therefore not listed
	{"x/rewards/keeper", "DistributeExtRewardLocker"}, {"x/rewards/keeper", "DistributeExtRewardVault"},
	{"x/rewards/keeper", "DistributeExtRewardLend"},
}

func polarity(c ast.Expr, pred func(ast.Expr) bool) string {
	res := "none"
	var visit func(e ast.Expr, neg bool)
	visit = func(e ast.Expr, neg bool) {
		switch x := e.(type) {
		case *ast.ParenExpr:
			visit(x.X, neg)
		case *ast.UnaryExpr:
			if x.Op == token.NOT {
				visit(x.X, !neg)
			}
		case *ast.BinaryExpr:
			if x.Op == token.LAND || x.Op == token.LOR {
				visit(x.X, neg)
				visit(x.Y, neg)
			}
		default:
			if pred(e) {
				if neg {
					res = "neg"
				} else {
					res = "pos"
				}
			}
		}
	}
	visit(c, false)
	return res
}

func extractSweeps() []Sweep {
	var out []Sweep
	for _, sf := range sweepFuncs {
		fi := index[FuncKey{sf[0], "Keeper", sf[1]}]
		s := Sweep{module: strings.Split(sf[0], "/")[1], fn: sf[1], action: "?", conn: "?", breaker: "none", esm: "none"}
		if fi == nil {
			out = append(out, s)
			continue
		}
		s.file = fi.file
		// esm-status booleans: identifiers assigned from X.Status, or parameters named status
		esmIdent := map[string]bool{"status": true}
		wrote := false
		done := false
		ast.Inspect(fi.decl.Body, func(n ast.Node) bool {
			if done {
				return false
			}
			switch x := n.(type) {
			case *ast.CallExpr:
				if _, w := directWrite(x); w {
					wrote = true
				} else if g := resolve(x, fi); g != nil && writes(g) {
					wrote = true
				}
			case *ast.IfStmt:
				isBreaker := func(e ast.Expr) bool { se, ok := e.(*ast.SelectorExpr); return ok && se.Sel.Name == "BreakerEnable" }
				isEsm := func(e ast.Expr) bool {
					if id, ok := e.(*ast.Ident); ok {
						return esmIdent[id.Name]
					}
					if se, ok := e.(*ast.SelectorExpr); ok {
						return se.Sel.Name == "Status"
					}
					return false
				}
				bp := polarity(x.Cond, isBreaker)
				if bp == "none" {
					return true
				}
				s.found = true
				s.line = line(x)
				s.breaker = bp
				s.esm = polarity(x.Cond, isEsm)
				s.wb = wrote
				c := x.Cond
				for {
					p, ok := c.(*ast.ParenExpr)
					if !ok {
						break
					}
					c = p.X
				}
				s.conn = "atom"
				if b, ok := c.(*ast.BinaryExpr); ok {
					if b.Op == token.LOR {
						s.conn = "or"
					} else if b.Op == token.LAND {
						s.conn = "and"
					}
				}
				switch l := lastStmt(x.Body).(type) {
				case *ast.BranchStmt:
					if l.Tok == token.CONTINUE {
						s.action = "skip"
					}
				case *ast.ReturnStmt:
					if len(l.Results) > 0 && !isNilIdent(l.Results[len(l.Results)-1]) {
						s.action = "skip"
					}
				default:
					s.action = "start"
				}
				if s.action == "?" {
					s.action = "start"
				}
				done = true
				return false
			}
			return true
		})
		out = append(out, s)
	}
	return out
}

// ---------------------------------------------------------------------------------------------
// price lookup call sites: what happens to the returned error
//
// For every call of CalcAssetPrice / GetLatestPrice (the market keeper's functions and the modules' wrappers of the same
// name) in non-test keeper code:
//   checked      the error variable is tested (if … err …) or returned before anything else touches it
//   ignored      the error is assigned to _
//   overwritten  the error variable is assigned again before it was tested (the first error is lost)
//   unchecked    the error variable is never looked at afterwards in its block

type PriceCall struct {
	file, fn, callee, asset, status string
	line                            int
}

func mentionsIdent(n ast.Node, name string) bool {
	if n == nil {
		return false
	}
	found := false
	ast.Inspect(n, func(x ast.Node) bool {
		if id, ok := x.(*ast.Ident); ok && id.Name == name {
			found = true
		}
		return !found
	})
	return found
}

func priceCallOf(e ast.Expr) (*ast.CallExpr, string) {
	c, ok := e.(*ast.CallExpr)
	if !ok {
		return nil, ""
	}
	if se, ok := c.Fun.(*ast.SelectorExpr); ok && basePrice[se.Sel.Name] {
		return c, se.Sel.Name
	}
	return nil, ""
}

func extractPriceCalls() []PriceCall {
	var out []PriceCall
	var keys []FuncKey
	for k := range index {
		keys = append(keys, k)
	}
	sort.Slice(keys, func(i, j int) bool {
		a, b := index[keys[i]], index[keys[j]]
		if a.file != b.file {
			return a.file < b.file
		}
		return line(a.decl) < line(b.decl)
	})
	for _, k := range keys {
		fi := index[k]
		var visitBlock func(list []ast.Stmt)
		statusAfter := func(list []ast.Stmt, i int, ev string) string {
			for _, st := range list[i+1:] {
				if !mentionsIdent(st, ev) {
					continue
				}
				switch x := st.(type) {
				case *ast.IfStmt:
					if x.Init != nil && mentionsIdent(x.Init, ev) {
						if as, ok := x.Init.(*ast.AssignStmt); ok {
							for _, l := range as.Lhs {
								if id, ok := l.(*ast.Ident); ok && id.Name == ev {
									return "overwritten"
								}
							}
						}
					}
					if mentionsIdent(x.Cond, ev) {
						return "checked"
					}
					return "unchecked"
				case *ast.ReturnStmt:
					return "checked"
				case *ast.AssignStmt:
					for _, l := range x.Lhs {
						if id, ok := l.(*ast.Ident); ok && id.Name == ev {
							return "overwritten"
						}
					}
					return "checked"
				default:
					return "checked"
				}
			}
			return "unchecked"
		}
		record := func(call *ast.CallExpr, callee, status string) {
			asset := ""
			if len(call.Args) >= 2 {
				asset = src(call.Args[1])
			}
			out = append(out, PriceCall{file: fi.file, fn: fi.key.name, callee: callee, asset: asset, status: status, line: line(call)})
		}
		handleAssign := func(list []ast.Stmt, i int, as *ast.AssignStmt) {
			if len(as.Rhs) != 1 {
				return
			}
			call, callee := priceCallOf(as.Rhs[0])
			if call == nil {
				return
			}
			last, ok := as.Lhs[len(as.Lhs)-1].(*ast.Ident)
			if !ok {
				record(call, callee, "checked")
				return
			}
			if last.Name == "_" {
				record(call, callee, "ignored")
				return
			}
			record(call, callee, statusAfter(list, i, last.Name))
		}
		visitBlock = func(list []ast.Stmt) {
			for i, st := range list {
				switch x := st.(type) {
				case *ast.AssignStmt:
					handleAssign(list, i, x)
				case *ast.IfStmt:
					if as, ok := x.Init.(*ast.AssignStmt); ok && len(as.Rhs) == 1 {
						if call, callee := priceCallOf(as.Rhs[0]); call != nil {
							st := "unchecked"
							if last, ok := as.Lhs[len(as.Lhs)-1].(*ast.Ident); ok {
								if last.Name == "_" {
									st = "ignored"
								} else if mentionsIdent(x.Cond, last.Name) {
									st = "checked"
								}
							}
							record(call, callee, st)
						}
					}
				case *ast.ReturnStmt:
					for _, r := range x.Results {
						if call, callee := priceCallOf(r); call != nil {
							record(call, callee, "checked")
						}
					}
				}
			}
		}
		ast.Inspect(fi.decl.Body, func(n ast.Node) bool {
			switch b := n.(type) {
			case *ast.BlockStmt:
				visitBlock(b.List)
			case *ast.CaseClause:
				visitBlock(b.Body)
			}
			return true
		})
	}
	return out
}

// ---------------------------------------------------------------------------------------------
// direct reads of a TWA record: `x, found := ….GetTwa(ctx, id)` — is the activity test that follows on the SAME variable?
//   own       the first later statement that tests `.IsPriceActive` tests it on x (possibly among others)
//   other     it tests `.IsPriceActive` of DIFFERENT variable(s) only (the slip `if !found || !twaOther.IsPriceActive`)
//   untested  x is not activity-tested in its block (before x is assigned again)

type TwaRead struct {
	file, fn, v, asset, status, tested string
	foundChecked                       bool
	line                               int
}

func activityBases(n ast.Node) []string {
	var out []string
	ast.Inspect(n, func(x ast.Node) bool {
		if se, ok := x.(*ast.SelectorExpr); ok && se.Sel.Name == "IsPriceActive" {
			if id, ok := se.X.(*ast.Ident); ok {
				out = append(out, id.Name)
			} else {
				out = append(out, "?")
			}
		}
		return true
	})
	return out
}

func assignsIdent(st ast.Stmt, name string) bool {
	as, ok := st.(*ast.AssignStmt)
	if !ok {
		return false
	}
	for _, l := range as.Lhs {
		if id, ok := l.(*ast.Ident); ok && id.Name == name {
			return true
		}
	}
	return false
}

func extractTwaReads() []TwaRead {
	var out []TwaRead
	var keys []FuncKey
	for k := range index {
		if k.pkg == "x/market/keeper" {
			continue // the oracle module itself maintains the records
		}
		keys = append(keys, k)
	}
	sort.Slice(keys, func(i, j int) bool {
		a, b := index[keys[i]], index[keys[j]]
		if a.file != b.file {
			return a.file < b.file
		}
		return line(a.decl) < line(b.decl)
	})
	for _, k := range keys {
		fi := index[k]
		visit := func(list []ast.Stmt) {
			for i, st := range list {
				as, ok := st.(*ast.AssignStmt)
				if !ok || len(as.Rhs) != 1 || len(as.Lhs) < 1 {
					continue
				}
				call, ok := as.Rhs[0].(*ast.CallExpr)
				if !ok {
					continue
				}
				se, ok := call.Fun.(*ast.SelectorExpr)
				if !ok || se.Sel.Name != "GetTwa" {
					continue
				}
				v, ok := as.Lhs[0].(*ast.Ident)
				if !ok {
					continue
				}
				r := TwaRead{file: fi.file, fn: fi.key.name, v: v.Name, line: line(call), status: "untested"}
				if len(call.Args) >= 2 {
					r.asset = src(call.Args[1])
				}
				foundVar := ""
				if len(as.Lhs) > 1 {
					if id, ok := as.Lhs[1].(*ast.Ident); ok && id.Name != "_" {
						foundVar = id.Name
					}
				}
				for _, later := range list[i+1:] {
					if foundVar != "" && !r.foundChecked {
						if is, ok := later.(*ast.IfStmt); ok && mentionsIdent(is.Cond, foundVar) {
							r.foundChecked = true
						}
					}
					bases := activityBases(later)
					if len(bases) > 0 {
						own := false
						for _, b := range bases {
							if b == v.Name {
								own = true
							}
						}
						r.tested = strings.Join(bases, ",")
						if own {
							r.status = "own"
						} else {
							r.status = "other"
						}
						break
					}
					if assignsIdent(later, v.Name) {
						break
					}
					if foundVar != "" && assignsIdent(later, foundVar) && !r.foundChecked {
						// `found` re-used by the next lookup before it was tested
						break
					}
				}
				out = append(out, r)
			}
		}
		ast.Inspect(fi.decl.Body, func(n ast.Node) bool {
			switch b := n.(type) {
			case *ast.BlockStmt:
				visit(b.List)
			case *ast.CaseClause:
				visit(b.Body)
			}
			return true
		})
	}
	return out
}

// ---------------------------------------------------------------------------------------------
// output

func q(s string) string {
	s = strings.ReplaceAll(s, "\\", "\\\\")
	s = strings.ReplaceAll(s, "\"", "\\\"")
	s = strings.ReplaceAll(s, "\n", " ")
	s = strings.ReplaceAll(s, "\t", " ")
	return "\"" + s + "\""
}
func bl(b bool) string {
	if b {
		return "true"
	}
	return "false"
}
func natList(xs []int) string {
	ss := make([]string, len(xs))
	for i, x := range xs {
		ss[i] = strconv.Itoa(x)
	}
	return "[" + strings.Join(ss, ", ") + "]"
}

func main() {
	out := flag.String("out", "", "output .lean file")
	flag.StringVar(&repo, "repo", "/repo", "comdex source tree")
	flag.Parse()
	ents, _ := os.ReadDir(filepath.Join(repo, "x"))
	for _, e := range ents {
		if e.IsDir() {
			parseDir("x/" + e.Name() + "/keeper")
			parseDir("x/" + e.Name() + "/types")
		}
	}
	hs := extractHandlers()
	ws, lists, listNames := extractWasm()
	sw := extractSweeps()
	pcs := extractPriceCalls()
	trs := extractTwaReads()
	eps, pts, pb, props, ibc := extractEntryPoints(hs, ws)

	var b strings.Builder
	b.WriteString("/-! GENERATED by extract/guards from the comdex source tree — do not edit; regenerated on every run.\n")
	b.WriteString("Item codes: kind 0 guard 1 write 2 posRead 3 okExit 4 swallow; cls 0 other 1 ownerEq 2 esmExecuted 3 breakerEnabled\n4 coolOff 5 priceLookup 6 adminOnly 7 consistent (tag = compared position field) 8 weakConsistent (&&-joined). -/\n")
	b.WriteString("namespace Comdex.Gen.Guards\n\n")
	b.WriteString("structure Item where\n  kind : Nat\n  cls : Nat\n  cond : Bool\n  path : List Nat\n  keyed : Bool\n  wb : Bool\n  line : Nat\n  fn : String\n  detail : String\n  tag : String\n  deriving Repr, DecidableEq\n\n")
	b.WriteString("structure Handler where\n  module : String\n  name : String\n  msgType : String\n  signer : String\n  file : String\n  line : Nat\n  items : List Item\n  deriving Repr\n\n")
	b.WriteString("structure WasmArm where\n  chain : String\n  list : String\n  idx : Nat\n  addr : String\n  deriving Repr, DecidableEq\n\n")
	b.WriteString("structure WasmHandler where\n  variant : String\n  method : String\n  arms : List WasmArm\n  guardFirst : Bool\n  otherChainsOpen : Bool\n  line : Nat\n  deriving Repr\n\n")
	b.WriteString("structure PriceCall where\n  file : String\n  fn : String\n  callee : String\n  asset : String\n  status : String\n  line : Nat\n  deriving Repr\n\n")
	b.WriteString("structure TwaRead where\n  file : String\n  fn : String\n  var : String\n  asset : String\n  status : String\n  tested : String\n  foundChecked : Bool\n  line : Nat\n  deriving Repr\n\n")
	b.WriteString("structure Sweep where\n  module : String\n  fn : String\n  found : Bool\n  action : String\n  conn : String\n  breaker : String\n  esm : String\n  wb : Bool\n  line : Nat\n  deriving Repr\n\n")
	for _, h := range hs {
		fmt.Fprintf(&b, "def h_%s_%s : Handler := { module := %s, name := %s, msgType := %s, signer := %s, file := %s, line := %d, items := [\n",
			h.module, h.name, q(h.module), q(h.name), q(h.msgType), q(h.signer), q(h.file), h.line)
		// Items no obligation looks at are not printed: unclassified guards and further writes AFTER the first write of
		// their route (the list of guards that precede the first write stays complete and ordered).
		var kept []Item
		for _, it := range h.items {
			if it.wb && ((it.kind == kGuard && it.cls == cOther) || it.kind == kWrite) {
				continue
			}
			kept = append(kept, it)
		}
		h.items = kept
		for i, it := range h.items {
			sep := ","
			if i == len(h.items)-1 {
				sep = ""
			}
			det := it.detail
			if it.kind == kGuard {
				det = clsNames[it.cls] + ": " + det
			}
			fmt.Fprintf(&b, "  ⟨%d, %d, %s, %s, %s, %s, %d, %s, %s, %s⟩%s\n", it.kind, it.cls, bl(it.cond), natList(it.path), bl(it.keyed), bl(it.wb), it.line, q(it.fn), q(det), q(it.tag), sep)
		}
		b.WriteString("] }\n\n")
	}
	b.WriteString("def handlers : List Handler := [")
	for i, h := range hs {
		if i > 0 {
			b.WriteString(", ")
		}
		fmt.Fprintf(&b, "h_%s_%s", h.module, h.name)
	}
	b.WriteString("]\n\n")
	sort.Strings(listNames)
	b.WriteString("def wasmAddrLists : List (String × List String) := [")
	for i, n := range listNames {
		if i > 0 {
			b.WriteString(", ")
		}
		qs := make([]string, len(lists[n]))
		for j, a := range lists[n] {
			qs[j] = q(a)
		}
		fmt.Fprintf(&b, "(%s, [%s])", q(n), strings.Join(qs, ", "))
	}
	b.WriteString("]\n\n")
	b.WriteString("def wasmHandlers : List WasmHandler := [\n")
	for i, h := range ws {
		var arms []string
		for _, a := range h.arms {
			idx := a.idx
			if idx < 0 {
				idx = 999
			}
			arms = append(arms, fmt.Sprintf("⟨%s, %s, %d, %s⟩", q(a.chain), q(a.list), idx, q(a.addr)))
		}
		sep := ","
		if i == len(ws)-1 {
			sep = ""
		}
		fmt.Fprintf(&b, "  { variant := %s, method := %s, arms := [%s], guardFirst := %s, otherChainsOpen := %s, line := %d }%s\n",
			q(h.variant), q(h.method), strings.Join(arms, ", "), bl(h.first), bl(h.open), h.line, sep)
	}
	b.WriteString("]\n\n")
	b.WriteString("def sweeps : List Sweep := [\n")
	for i, s := range sw {
		sep := ","
		if i == len(sw)-1 {
			sep = ""
		}
		fmt.Fprintf(&b, "  { module := %s, fn := %s, found := %s, action := %s, conn := %s, breaker := %s, esm := %s, wb := %s, line := %d }%s\n",
			q(s.module), q(s.fn), bl(s.found), q(s.action), q(s.conn), q(s.breaker), q(s.esm), bl(s.wb), s.line, sep)
	}
	b.WriteString("]\n\n")
	b.WriteString("/-- every call of CalcAssetPrice / GetLatestPrice in keeper code and what happens to its error -/\ndef priceCalls : List PriceCall := [\n")
	for i, c := range pcs {
		sep := ","
		if i == len(pcs)-1 {
			sep = ""
		}
		fmt.Fprintf(&b, "  { file := %s, fn := %s, callee := %s, asset := %s, status := %s, line := %d }%s\n", q(c.file), q(c.fn), q(c.callee), q(c.asset), q(c.status), c.line, sep)
	}
	b.WriteString("]\n\n")
	b.WriteString("/-- every direct `x, found := ….GetTwa(ctx, id)` outside the market module and the activity test that follows it -/\ndef twaReads : List TwaRead := [\n")
	for i, c := range trs {
		sep := ","
		if i == len(trs)-1 {
			sep = ""
		}
		fmt.Fprintf(&b, "  { file := %s, fn := %s, var := %s, asset := %s, status := %s, tested := %s, foundChecked := %s, line := %d }%s\n", q(c.file), q(c.fn), q(c.v), q(c.asset), q(c.status), q(c.tested), bl(c.foundChecked), c.line, sep)
	}
	b.WriteString("]\n\n")
	writeEntryTables(&b, eps, pts, pb, props, ibc)
	writeAppTies(&b, extractAppTies())
	b.WriteString("end Comdex.Gen.Guards\n")
	if *out == "" {
		fmt.Print(b.String())
		return
	}
	if err := os.MkdirAll(filepath.Dir(*out), 0o755); err != nil {
		fmt.Fprintln(os.Stderr, err)
		os.Exit(1)
	}
	if err := os.WriteFile(*out, []byte(b.String()), 0o644); err != nil {
		fmt.Fprintln(os.Stderr, err)
		os.Exit(1)
	}
}
