// entry.go — the inventory of ENTRY POINTS: every function of comdex's non-test code through which an external actor (or the
// chain itself) can change DeFi module state, with who may call it AS FOUND IN THE CODE.
//
//	msg        every method of every `type MsgServer interface` of x/*/types/*.pb.go (the routable messages), joined with the
//	           flattened handler of the same name (handlers table, now ALL modules)
//	proposal   every content type handled by a `func New…(k keeper.Keeper) govtypes.Handler` of x/*/handler.go, the keeper
//	           function it ends in, whether the constructor is put on app.go's govRouter, and every OTHER call site of that
//	           keeper function (must be none: the gov router is the authority guard)
//	wasm       every custom message variant dispatched in app/wasm/message_plugin.go with the keeper function(s) it ends in
//	ibc        the IBCModule callbacks of x/bandoracle (port / version / channel test before the first write)
//	blocker    BeginBlocker / EndBlocker of every x/*/abci.go and whether the module's AppModule.BeginBlock/EndBlock calls it
//	migration  every cfg.RegisterMigration of x/*/module.go
//	upgrade    every CreateUpgradeHandler* of app/upgrades and whether app.go registers it (SetUpgradeHandler)
//
// privTargets: the keeper functions behind the proposal handlers and the wasm variants (the "privileged targets") with the
// MsgServer methods that reach them through the call graph — a message handler that reaches a privileged target is an
// escalation unless reviewed.
package main

import (
	"fmt"
	"go/ast"
	"go/parser"
	"go/token"
	"os"
	"path/filepath"
	"sort"
	"strconv"
	"strings"
)

type EntryPoint struct {
	kind, module, name string
	caller             string // signer | admin | gov | contract | ibc | chain | upgrade | none | unknown
	via                string
	registered         bool
	namesPosition      bool // msg: a position record not keyed by the signer is read
	readsPos           bool // reaches a position getter at all (transitively, by name resolution)
	posWrites          bool // reaches a setter / deleter of a vault, stable-mint vault, locker, lend or borrow record
	writes             bool
	target             string
	file               string
	line               int
}

type PrivTarget struct {
	target   string   // module.Func
	sources  []string // "proposal:asset.AddAssetsProposal" | "wasm:MsgX"
	msgReach []string // MsgServer methods (module.Name) that reach it
	writes   bool
}

type IbcCallback struct {
	module, name, guard string // guard: "port+version" | "port" | "channel" | "none"
	writes, guardFirst  bool   // guardFirst: the guard precedes the first write
	line                int
}

// ---------------------------------------------------------------------------------------------
// module-level packages (x/<m>/*.go: abci.go, handler.go, module.go, module_ibc.go, oracle.go)

type modFile struct {
	rel string
	f   *ast.File
}

var modFiles = map[string][]modFile{} // module -> files of x/<module>
var modFuncs = map[string]map[string]*ast.FuncDecl{}

func parseModuleDirs(mods []string) {
	for _, m := range mods {
		dir := filepath.Join(repo, "x", m)
		ents, err := os.ReadDir(dir)
		if err != nil {
			continue
		}
		modFuncs[m] = map[string]*ast.FuncDecl{}
		for _, e := range ents {
			n := e.Name()
			if e.IsDir() || !strings.HasSuffix(n, ".go") || strings.HasSuffix(n, "_test.go") {
				continue
			}
			f, err := parser.ParseFile(fset, filepath.Join(dir, n), nil, 0)
			if err != nil {
				fmt.Fprintln(os.Stderr, "parse error:", err)
				os.Exit(1)
			}
			modFiles[m] = append(modFiles[m], modFile{rel: filepath.Join("x", m, n), f: f})
			for _, d := range f.Decls {
				if fd, ok := d.(*ast.FuncDecl); ok && fd.Body != nil {
					rt, _ := recvType(fd)
					key := fd.Name.Name
					if rt != "" {
						key = rt + "." + key
					}
					modFuncs[m][key] = fd
				}
			}
		}
	}
}

// paramTypes: parameter / receiver-field names of fd whose type is `keeper.Keeper` (own module) or `<x>keeper.Keeper`
func ownKeeperParams(fd *ast.FuncDecl) map[string]bool {
	out := map[string]bool{}
	for _, p := range fd.Type.Params.List {
		if se, ok := p.Type.(*ast.SelectorExpr); ok && se.Sel.Name == "Keeper" {
			if id, ok := se.X.(*ast.Ident); ok && id.Name == "keeper" {
				for _, n := range p.Names {
					out[n.Name] = true
				}
			}
		}
	}
	return out
}

// resolveMod: a call inside a function of package x/<m> (not the keeper package): own package functions, methods on the same
// receiver, calls on a keeper parameter / the receiver's keeper field -> the keeper index.
func resolveMod(m string, fd *ast.FuncDecl, call *ast.CallExpr) (*FuncInfo, *ast.FuncDecl) {
	switch f := call.Fun.(type) {
	case *ast.Ident:
		if g := modFuncs[m][f.Name]; g != nil {
			return nil, g
		}
	case *ast.SelectorExpr:
		ch := selChain(f.X)
		if len(ch) == 0 {
			return nil, nil
		}
		name := f.Sel.Name
		rt, rn := recvType(fd)
		if rn != "" && ch[0] == rn {
			if len(ch) == 1 {
				if g := modFuncs[m][rt+"."+name]; g != nil {
					return nil, g
				}
				return nil, nil
			}
			field := ch[len(ch)-1]
			if strings.ToLower(field) == "keeper" {
				return index[FuncKey{"x/" + m + "/keeper", "Keeper", name}], nil
			}
			return index[FuncKey{"x/" + moduleOfField(field) + "/keeper", "Keeper", name}], nil
		}
		if len(ch) == 1 {
			if ownKeeperParams(fd)[ch[0]] {
				return index[FuncKey{"x/" + m + "/keeper", "Keeper", name}], nil
			}
			if strings.HasSuffix(strings.ToLower(ch[0]), "keeper") {
				return index[FuncKey{"x/" + moduleOfField(ch[0]) + "/keeper", "Keeper", name}], nil
			}
		}
	}
	return nil, nil
}

// ---------------------------------------------------------------------------------------------
// reachability over the keeper call graph

var reachMemo = map[FuncKey]map[FuncKey]bool{}

func reach(fi *FuncInfo) map[FuncKey]bool {
	if r, ok := reachMemo[fi.key]; ok {
		return r
	}
	r := map[FuncKey]bool{}
	reachMemo[fi.key] = r // cycles: partial result is fine, completed below by the work list
	var stack = []*FuncInfo{fi}
	seen := map[FuncKey]bool{fi.key: true}
	for len(stack) > 0 {
		cur := stack[len(stack)-1]
		stack = stack[:len(stack)-1]
		ast.Inspect(cur.decl.Body, func(n ast.Node) bool {
			if c, ok := n.(*ast.CallExpr); ok {
				if g := resolve(c, cur); g != nil && !seen[g.key] {
					seen[g.key] = true
					r[g.key] = true
					stack = append(stack, g)
				}
			}
			return true
		})
	}
	return r
}

func reachesPosGetter(fi *FuncInfo) bool {
	if posGetters[fi.key.name] {
		return true
	}
	for k := range reach(fi) {
		if posGetters[k.name] {
			return true
		}
	}
	return false
}

var posSetters = map[string]bool{
	"SetVault": true, "DeleteVault": true, "SetStableMintVault": true, "SetLocker": true, "DeleteLocker": true,
	"SetLend": true, "DeleteLend": true, "SetBorrow": true, "DeleteBorrow": true,
}

func reachesPosSetter(fi *FuncInfo) bool {
	if posSetters[fi.key.name] {
		return true
	}
	for k := range reach(fi) {
		if posSetters[k.name] {
			return true
		}
	}
	return false
}

func modOfPkg(pkg string) string {
	p := strings.Split(pkg, "/")
	if len(p) >= 2 {
		return p[1]
	}
	return pkg
}

func tname(fi *FuncInfo) string { return modOfPkg(fi.key.pkg) + "." + fi.key.name }

// facts about a module-level function: does it (transitively) write, which keeper functions it calls directly
type modFacts struct {
	writes, readsPos, posWrites bool
	callees          []*FuncInfo
}

func factsOfMod(m string, fd *ast.FuncDecl, seen map[*ast.FuncDecl]bool) modFacts {
	var out modFacts
	if seen[fd] {
		return out
	}
	seen[fd] = true
	ast.Inspect(fd.Body, func(n ast.Node) bool {
		c, ok := n.(*ast.CallExpr)
		if !ok {
			return true
		}
		if _, w := directWrite(c); w {
			out.writes = true
		}
		fi, g := resolveMod(m, fd, c)
		if fi != nil {
			out.callees = append(out.callees, fi)
			if writes(fi) {
				out.writes = true
			}
			if reachesPosGetter(fi) {
				out.readsPos = true
			}
			if reachesPosSetter(fi) {
				out.posWrites = true
			}
		}
		if g != nil {
			sub := factsOfMod(m, g, seen)
			out.writes = out.writes || sub.writes
			out.readsPos = out.readsPos || sub.readsPos
			out.posWrites = out.posWrites || sub.posWrites
			out.callees = append(out.callees, sub.callees...)
		}
		return true
	})
	return out
}

// ---------------------------------------------------------------------------------------------
// msg: the MsgServer interfaces of the generated protobuf code

func extractPbMsgMethods(mods []string) [][2]string {
	var out [][2]string
	for _, m := range mods {
		dir := filepath.Join(repo, "x", m, "types")
		ents, _ := os.ReadDir(dir)
		for _, e := range ents {
			if !strings.HasSuffix(e.Name(), ".pb.go") {
				continue
			}
			f, err := parser.ParseFile(fset, filepath.Join(dir, e.Name()), nil, 0)
			if err != nil {
				continue
			}
			for _, d := range f.Decls {
				gd, ok := d.(*ast.GenDecl)
				if !ok {
					continue
				}
				for _, sp := range gd.Specs {
					ts, ok := sp.(*ast.TypeSpec)
					if !ok || ts.Name.Name != "MsgServer" {
						continue
					}
					it, ok := ts.Type.(*ast.InterfaceType)
					if !ok {
						continue
					}
					for _, meth := range it.Methods.List {
						for _, n := range meth.Names {
							out = append(out, [2]string{m, n.Name})
						}
					}
				}
			}
		}
	}
	return out
}

// ---------------------------------------------------------------------------------------------
// app/app.go: what is wired

type appWiring struct {
	govCtors     map[string]bool // constructor names put on govRouter
	upgradeCtors map[string]bool // "<alias>.<Ctor>" mentioned inside a SetUpgradeHandler call
	upgradeAlias map[string]string
}

func rootIdent(e ast.Expr) string {
	for {
		switch x := e.(type) {
		case *ast.Ident:
			return x.Name
		case *ast.SelectorExpr:
			e = x.X
		case *ast.CallExpr:
			e = x.Fun
		case *ast.ParenExpr:
			e = x.X
		default:
			return ""
		}
	}
}

func extractWiring() appWiring {
	w := appWiring{govCtors: map[string]bool{}, upgradeCtors: map[string]bool{}, upgradeAlias: map[string]string{}}
	f, err := parser.ParseFile(fset, filepath.Join(repo, "app/app.go"), nil, 0)
	if err != nil {
		return w
	}
	for _, im := range f.Imports {
		p, _ := strconv.Unquote(im.Path.Value)
		if i := strings.Index(p, "/app/upgrades/"); i >= 0 && im.Name != nil {
			w.upgradeAlias[im.Name.Name] = p[i+len("/app/upgrades/"):]
		}
	}
	ast.Inspect(f, func(n ast.Node) bool {
		c, ok := n.(*ast.CallExpr)
		if !ok {
			return true
		}
		se, ok := c.Fun.(*ast.SelectorExpr)
		if !ok {
			return true
		}
		switch se.Sel.Name {
		case "AddRoute":
			if rootIdent(c) == "govRouter" && len(c.Args) == 2 {
				if ctor, ok := c.Args[1].(*ast.CallExpr); ok {
					if cs, ok := ctor.Fun.(*ast.SelectorExpr); ok {
						w.govCtors[cs.Sel.Name] = true
					}
				}
			}
		case "SetUpgradeHandler":
			for _, a := range c.Args {
				ast.Inspect(a, func(x ast.Node) bool {
					if cc, ok := x.(*ast.CallExpr); ok {
						if cs, ok := cc.Fun.(*ast.SelectorExpr); ok {
							if id, ok := cs.X.(*ast.Ident); ok {
								if path, ok := w.upgradeAlias[id.Name]; ok {
									w.upgradeCtors[path+"."+cs.Sel.Name] = true
								}
							}
						}
					}
					return true
				})
			}
		}
		return true
	})
	return w
}

// ---------------------------------------------------------------------------------------------
// proposals

type Proposal struct {
	module, ctor, content, keeperFn string
	targets                         []string
	routed, writes, readsPos        bool
	posWrites                       bool
	otherCallers                    []string
	file                            string
	line                            int
}

func isGovHandlerCtor(fd *ast.FuncDecl) bool {
	if fd.Recv != nil || fd.Type.Results == nil || len(fd.Type.Results.List) != 1 {
		return false
	}
	se, ok := fd.Type.Results.List[0].Type.(*ast.SelectorExpr)
	if !ok || se.Sel.Name != "Handler" {
		return false
	}
	id, ok := se.X.(*ast.Ident)
	return ok && strings.HasPrefix(id.Name, "gov")
}

// callersOf: every function of the keeper index, the module-level packages and app/wasm that calls a method named `name`
// of module m's keeper (by name resolution), except `skip`
func callersOf(target *FuncInfo, skip map[string]bool) []string {
	set := map[string]bool{}
	for _, fi := range index {
		if fi == target {
			continue
		}
		found := false
		ast.Inspect(fi.decl.Body, func(n ast.Node) bool {
			if c, ok := n.(*ast.CallExpr); ok && resolve(c, fi) == target {
				found = true
			}
			return !found
		})
		if found {
			set[tname(fi)] = true
		}
	}
	for m, fs := range modFuncs {
		for key, fd := range fs {
			id := "x/" + m + ":" + key
			if skip[id] {
				continue
			}
			found := false
			ast.Inspect(fd.Body, func(n ast.Node) bool {
				if c, ok := n.(*ast.CallExpr); ok {
					if fi, _ := resolveMod(m, fd, c); fi == target {
						found = true
					}
				}
				return !found
			})
			if found {
				set[id] = true
			}
		}
	}
	for _, wc := range wasmCalls {
		if wc.fi == target {
			set["app/wasm:"+wc.fn] = true
		}
	}
	var out []string
	for s := range set {
		out = append(out, s)
	}
	sort.Strings(out)
	return out
}

func extractProposals(mods []string, wire appWiring) []Proposal {
	var out []Proposal
	for _, m := range mods {
		for _, mf := range modFiles[m] {
			if filepath.Base(mf.rel) != "handler.go" {
				continue
			}
			for _, d := range mf.f.Decls {
				fd, ok := d.(*ast.FuncDecl)
				if !ok || fd.Body == nil || !isGovHandlerCtor(fd) {
					continue
				}
				ast.Inspect(fd.Body, func(n ast.Node) bool {
					cc, ok := n.(*ast.CaseClause)
					if !ok || len(cc.List) != 1 {
						return true
					}
					st, ok := cc.List[0].(*ast.StarExpr)
					if !ok {
						return true
					}
					se, ok := st.X.(*ast.SelectorExpr)
					if !ok {
						return true
					}
					p := Proposal{module: m, ctor: fd.Name.Name, content: se.Sel.Name, routed: wire.govCtors[fd.Name.Name], file: mf.rel, line: line(cc)}
					skip := map[string]bool{"x/" + m + ":" + fd.Name.Name: true}
					// the call of the case body: handleX(ctx, k, c) or k.HandleX(ctx, c)
					var kfi *FuncInfo
					for _, c := range callsIn(cc) {
						fi, g := resolveMod(m, fd, c)
						if g != nil {
							skip["x/"+m+":"+g.Name.Name] = true
							for _, c2 := range callsIn(g.Body) {
								if fi2, _ := resolveMod(m, g, c2); fi2 != nil {
									kfi = fi2
								}
							}
						} else if fi != nil {
							kfi = fi
						}
					}
					if kfi != nil {
						p.keeperFn = tname(kfi)
						p.writes = writes(kfi)
						p.readsPos = reachesPosGetter(kfi)
						p.posWrites = reachesPosSetter(kfi)
						seen := map[string]bool{}
						for _, c := range callsIn(kfi.decl.Body) {
							if g := resolve(c, kfi); g != nil && writes(g) && !seen[tname(g)] {
								seen[tname(g)] = true
								p.targets = append(p.targets, tname(g))
							}
						}
						p.otherCallers = callersOf(kfi, skip)
					}
					out = append(out, p)
					return true
				})
			}
		}
	}
	return out
}

// ---------------------------------------------------------------------------------------------
// wasm: the keeper functions behind each custom variant

type wasmCall struct {
	fn string // function of message_plugin.go containing the call
	fi *FuncInfo
}

var wasmCalls []wasmCall
var wasmFuncs = map[string]*ast.FuncDecl{}

func parseWasm() {
	f, err := parser.ParseFile(fset, filepath.Join(repo, "app/wasm/message_plugin.go"), nil, 0)
	if err != nil {
		return
	}
	for _, d := range f.Decls {
		if fd, ok := d.(*ast.FuncDecl); ok && fd.Body != nil {
			wasmFuncs[fd.Name.Name] = fd
		}
	}
	for name, fd := range wasmFuncs {
		for _, c := range callsIn(fd.Body) {
			if fi := resolveWasm(c); fi != nil {
				wasmCalls = append(wasmCalls, wasmCall{fn: name, fi: fi})
			}
		}
	}
}

// resolveWasm: `<x>Keeper.F(…)` (a parameter of a helper) or `m.<x>Keeper.F(…)`
func resolveWasm(c *ast.CallExpr) *FuncInfo {
	se, ok := c.Fun.(*ast.SelectorExpr)
	if !ok {
		return nil
	}
	ch := selChain(se.X)
	if len(ch) == 0 {
		return nil
	}
	last := ch[len(ch)-1]
	if !strings.HasSuffix(strings.ToLower(last), "keeper") {
		return nil
	}
	return index[FuncKey{"x/" + moduleOfField(last) + "/keeper", "Keeper", se.Sel.Name}]
}

// wasmTargetsOf: keeper functions reached from the variant's method (through package-level helpers of the plug-in)
func wasmTargetsOf(method string) []*FuncInfo {
	var out []*FuncInfo
	seen := map[string]bool{}
	var visit func(name string)
	visit = func(name string) {
		if seen[name] {
			return
		}
		seen[name] = true
		fd := wasmFuncs[name]
		if fd == nil {
			return
		}
		for _, c := range callsIn(fd.Body) {
			if fi := resolveWasm(c); fi != nil {
				out = append(out, fi)
				continue
			}
			if id, ok := c.Fun.(*ast.Ident); ok {
				visit(id.Name)
			}
		}
	}
	visit(method)
	return out
}

// ---------------------------------------------------------------------------------------------
// ibc callbacks of x/bandoracle

func extractIbc() []IbcCallback {
	var out []IbcCallback
	m := "bandoracle"
	var names []string
	for key := range modFuncs[m] {
		if strings.HasPrefix(key, "IBCModule.On") {
			names = append(names, key)
		}
	}
	sort.Slice(names, func(i, j int) bool { return line(modFuncs[m][names[i]]) < line(modFuncs[m][names[j]]) })
	for _, key := range names {
		fd := modFuncs[m][key]
		cb := IbcCallback{module: m, name: strings.TrimPrefix(key, "IBCModule."), guard: "none", line: line(fd)}
		// linearise: statements of the callback, helper methods of IBCModule inlined in call order
		wrote := false
		var guards []string
		var walk func(fd *ast.FuncDecl, depth int)
		walk = func(fd *ast.FuncDecl, depth int) {
			ast.Inspect(fd.Body, func(n ast.Node) bool {
				switch x := n.(type) {
				case *ast.IfStmt:
					if b, ok := x.Cond.(*ast.BinaryExpr); ok && b.Op == token.NEQ && blockTerminates(x.Body) {
						s := src(x.Cond)
						g := ""
						switch {
						case strings.Contains(s, "boundPort") && strings.Contains(s, "portID"):
							g = "port"
						case strings.Contains(s, "ersion") && strings.Contains(s, "types.Version"):
							g = "version"
						case strings.Contains(s, "DestinationChannel") && strings.Contains(s, "SourceChannel"):
							g = "channel"
						}
						if g != "" && !wrote {
							guards = append(guards, g)
						}
					}
				case *ast.CallExpr:
					fi, g := resolveMod(m, fd, x)
					if fi != nil && writes(fi) {
						wrote = true
					}
					if g != nil && depth < 3 {
						walk(g, depth+1)
					}
				}
				return true
			})
		}
		walk(fd, 0)
		cb.writes = wrote
		if len(guards) > 0 {
			cb.guard = strings.Join(guards, "+")
			cb.guardFirst = true
		}
		out = append(out, cb)
	}
	return out
}

// ---------------------------------------------------------------------------------------------
// assembling the inventory

var allModules []string

func extractEntryPoints(hs []Handler, ws []WasmHandler) ([]EntryPoint, []PrivTarget, [][2]string, []Proposal, []IbcCallback) {
	ents, _ := os.ReadDir(filepath.Join(repo, "x"))
	for _, e := range ents {
		if e.IsDir() {
			allModules = append(allModules, e.Name())
		}
	}
	sort.Strings(allModules)
	parseModuleDirs(allModules)
	parseWasm()
	wire := extractWiring()
	pb := extractPbMsgMethods(allModules)
	var eps []EntryPoint

	// msg
	byName := map[string]*Handler{}
	for i := range hs {
		byName[hs[i].module+"."+hs[i].name] = &hs[i]
	}
	for _, mm := range pb {
		e := EntryPoint{kind: "msg", module: mm[0], name: mm[1], caller: "unknown", registered: true}
		if h := byName[mm[0]+"."+mm[1]]; h != nil {
			e.file, e.line, e.via = h.file, h.line, h.signer
			e.caller = "signer"
			if h.signer == "" {
				e.caller = "unknown"
			}
			for _, it := range h.items {
				switch {
				case it.kind == kGuard && it.cls == cAdmin && !it.cond && len(it.path) == 0 && !it.wb:
					e.caller = "admin"
				case it.kind == kPosRead:
					e.readsPos = true
					if !it.keyed {
						e.namesPosition = true
					}
				case it.kind == kWrite:
					e.writes = true
				}
			}
			if fi := index[FuncKey{"x/" + mm[0] + "/keeper", "msgServer", mm[1]}]; fi != nil {
				e.writes = e.writes || writes(fi)
				e.posWrites = reachesPosSetter(fi)
			}
		}
		eps = append(eps, e)
	}

	// proposals
	props := extractProposals(allModules, wire)
	for _, p := range props {
		e := EntryPoint{kind: "proposal", module: p.module, name: p.content, caller: "gov", via: p.ctor, registered: p.routed,
			readsPos: p.readsPos, posWrites: p.posWrites, writes: p.writes, target: p.keeperFn, file: p.file, line: p.line}
		if !p.routed {
			e.caller = "none"
		}
		if p.keeperFn == "" {
			e.caller = "unknown"
		}
		eps = append(eps, e)
	}

	// wasm
	wasmT := map[string][]*FuncInfo{}
	for _, h := range ws {
		ts := wasmTargetsOf(h.method)
		wasmT[h.variant] = ts
		e := EntryPoint{kind: "wasm", module: "wasm", name: h.variant, caller: "contract", registered: true, file: "app/wasm/message_plugin.go", line: h.line}
		var via, tn []string
		for _, a := range h.arms {
			via = append(via, fmt.Sprintf("%s:%s[%d]", a.chain, a.list, a.idx))
		}
		e.via = strings.Join(via, ",")
		if !h.first || len(h.arms) == 0 {
			e.caller = "unknown"
		}
		for _, t := range ts {
			tn = append(tn, tname(t))
			e.writes = e.writes || writes(t)
			e.readsPos = e.readsPos || reachesPosGetter(t)
			e.posWrites = e.posWrites || reachesPosSetter(t)
		}
		e.target = strings.Join(tn, ",")
		eps = append(eps, e)
	}

	// ibc
	ibc := extractIbc()
	for _, cb := range ibc {
		eps = append(eps, EntryPoint{kind: "ibc", module: cb.module, name: cb.name, caller: "ibc", via: cb.guard, registered: true, writes: cb.writes,
			file: "x/bandoracle/module_ibc.go", line: cb.line})
	}

	// blockers
	for _, m := range allModules {
		for _, bn := range [][2]string{{"BeginBlocker", "AppModule.BeginBlock"}, {"EndBlocker", "AppModule.EndBlock"}} {
			fd := modFuncs[m][bn[0]]
			if fd == nil {
				continue
			}
			e := EntryPoint{kind: "blocker", module: m, name: bn[0], caller: "chain", via: bn[1], file: "x/" + m + "/abci.go", line: line(fd)}
			if am := modFuncs[m][bn[1]]; am != nil {
				for _, c := range callsIn(am.Body) {
					if id, ok := c.Fun.(*ast.Ident); ok && id.Name == bn[0] {
						e.registered = true
					}
				}
			}
			if !e.registered {
				e.caller = "none"
			}
			f := factsOfMod(m, fd, map[*ast.FuncDecl]bool{})
			e.writes, e.readsPos, e.posWrites = f.writes, f.readsPos, f.posWrites
			eps = append(eps, e)
		}
	}

	// migrations
	for _, m := range allModules {
		for _, mf := range modFiles[m] {
			if filepath.Base(mf.rel) != "module.go" {
				continue
			}
			ast.Inspect(mf.f, func(n ast.Node) bool {
				c, ok := n.(*ast.CallExpr)
				if !ok {
					return true
				}
				se, ok := c.Fun.(*ast.SelectorExpr)
				if !ok || se.Sel.Name != "RegisterMigration" || len(c.Args) != 3 {
					return true
				}
				fn := src(c.Args[2])
				if i := strings.LastIndex(fn, "."); i >= 0 {
					fn = fn[i+1:]
				}
				eps = append(eps, EntryPoint{kind: "migration", module: m, name: fn, caller: "upgrade", via: "from v" + src(c.Args[1]), registered: true,
					writes: true, file: mf.rel, line: line(c)})
				return true
			})
		}
	}

	// upgrade handlers
	var upFiles []string
	_ = filepath.Walk(filepath.Join(repo, "app/upgrades"), func(p string, info os.FileInfo, err error) error {
		if err == nil && !info.IsDir() && strings.HasSuffix(p, ".go") && !strings.HasSuffix(p, "_test.go") {
			upFiles = append(upFiles, p)
		}
		return nil
	})
	sort.Strings(upFiles)
	for _, p := range upFiles {
		f, err := parser.ParseFile(fset, p, nil, 0)
		if err != nil {
			continue
		}
		rel, _ := filepath.Rel(repo, p)
		dir := strings.TrimPrefix(filepath.Dir(rel), "app/upgrades/")
		for _, d := range f.Decls {
			fd, ok := d.(*ast.FuncDecl)
			if !ok || fd.Recv != nil || !strings.HasPrefix(fd.Name.Name, "CreateUpgradeHandler") {
				continue
			}
			reg := wire.upgradeCtors[dir+"."+fd.Name.Name]
			e := EntryPoint{kind: "upgrade", module: dir, name: fd.Name.Name, caller: "upgrade", via: "SetUpgradeHandler", registered: reg, writes: true, file: rel, line: line(fd)}
			if !reg {
				e.caller = "none"
			}
			eps = append(eps, e)
		}
	}

	// privileged targets
	type acc struct {
		fi      *FuncInfo
		sources []string
	}
	pt := map[string]*acc{}
	add := func(fi *FuncInfo, src string) {
		k := tname(fi)
		if pt[k] == nil {
			pt[k] = &acc{fi: fi}
		}
		pt[k].sources = append(pt[k].sources, src)
	}
	for _, p := range props {
		parts := strings.SplitN(p.keeperFn, ".", 2)
		if len(parts) != 2 {
			continue
		}
		kfi := index[FuncKey{"x/" + parts[0] + "/keeper", "Keeper", parts[1]}]
		if kfi == nil {
			continue
		}
		add(kfi, "proposal:"+p.module+"."+p.content)
		for _, c := range callsIn(kfi.decl.Body) {
			if g := resolve(c, kfi); g != nil && writes(g) {
				add(g, "proposal:"+p.module+"."+p.content)
			}
		}
	}
	for _, h := range ws {
		for _, t := range wasmT[h.variant] {
			add(t, "wasm:"+h.variant)
		}
	}
	var keys []string
	for k := range pt {
		keys = append(keys, k)
	}
	sort.Strings(keys)
	var pts []PrivTarget
	for _, k := range keys {
		a := pt[k]
		t := PrivTarget{target: k, writes: writes(a.fi)}
		seen := map[string]bool{}
		for _, s := range a.sources {
			if !seen[s] {
				seen[s] = true
				t.sources = append(t.sources, s)
			}
		}
		for _, h := range hs {
			fi := index[FuncKey{"x/" + h.module + "/keeper", "msgServer", h.name}]
			if fi != nil && reach(fi)[a.fi.key] {
				t.msgReach = append(t.msgReach, h.module+"."+h.name)
			}
		}
		pts = append(pts, t)
	}
	return eps, pts, pb, props, ibc
}

func strList(xs []string) string {
	qs := make([]string, len(xs))
	for i, x := range xs {
		qs[i] = q(x)
	}
	return "[" + strings.Join(qs, ", ") + "]"
}

func writeEntryTables(b *strings.Builder, eps []EntryPoint, pts []PrivTarget, pb [][2]string, props []Proposal, ibc []IbcCallback) {
	b.WriteString("structure EntryPoint where\n  kind : String\n  module : String\n  name : String\n  caller : String\n  via : String\n  registered : Bool\n  namesPosition : Bool\n  readsPos : Bool\n  posWrites : Bool\n  writes : Bool\n  target : String\n  file : String\n  line : Nat\n  deriving Repr\n\n")
	b.WriteString("structure PrivTarget where\n  target : String\n  sources : List String\n  msgReach : List String\n  writes : Bool\n  deriving Repr\n\n")
	b.WriteString("structure Proposal where\n  module : String\n  ctor : String\n  content : String\n  keeperFn : String\n  targets : List String\n  routed : Bool\n  writes : Bool\n  otherCallers : List String\n  line : Nat\n  deriving Repr\n\n")
	b.WriteString("structure IbcCallback where\n  module : String\n  name : String\n  guard : String\n  writes : Bool\n  guardFirst : Bool\n  line : Nat\n  deriving Repr\n\n")
	b.WriteString("/-- every method of every `type MsgServer interface` in x/*/types/*.pb.go -/\ndef pbMsgMethods : List (String × String) := [")
	for i, m := range pb {
		if i > 0 {
			b.WriteString(", ")
		}
		fmt.Fprintf(b, "(%s, %s)", q(m[0]), q(m[1]))
	}
	b.WriteString("]\n\n")
	b.WriteString("/-- the inventory of entry points (see extract/guards/entry.go) -/\ndef entryPoints : List EntryPoint := [\n")
	for i, e := range eps {
		sep := ","
		if i == len(eps)-1 {
			sep = ""
		}
		fmt.Fprintf(b, "  { kind := %s, module := %s, name := %s, caller := %s, via := %s, registered := %s, namesPosition := %s, readsPos := %s, posWrites := %s, writes := %s, target := %s, file := %s, line := %d }%s\n",
			q(e.kind), q(e.module), q(e.name), q(e.caller), q(e.via), bl(e.registered), bl(e.namesPosition), bl(e.readsPos), bl(e.posWrites), bl(e.writes), q(e.target), q(e.file), e.line, sep)
	}
	b.WriteString("]\n\n")
	b.WriteString("def proposals : List Proposal := [\n")
	for i, p := range props {
		sep := ","
		if i == len(props)-1 {
			sep = ""
		}
		fmt.Fprintf(b, "  { module := %s, ctor := %s, content := %s, keeperFn := %s, targets := %s, routed := %s, writes := %s, otherCallers := %s, line := %d }%s\n",
			q(p.module), q(p.ctor), q(p.content), q(p.keeperFn), strList(p.targets), bl(p.routed), bl(p.writes), strList(p.otherCallers), p.line, sep)
	}
	b.WriteString("]\n\n")
	b.WriteString("def ibcCallbacks : List IbcCallback := [\n")
	for i, c := range ibc {
		sep := ","
		if i == len(ibc)-1 {
			sep = ""
		}
		fmt.Fprintf(b, "  { module := %s, name := %s, guard := %s, writes := %s, guardFirst := %s, line := %d }%s\n", q(c.module), q(c.name), q(c.guard), bl(c.writes), bl(c.guardFirst), c.line, sep)
	}
	b.WriteString("]\n\n")
	b.WriteString("/-- keeper functions behind proposal handlers / wasm variants and the MsgServer methods that reach them -/\ndef privTargets : List PrivTarget := [\n")
	for i, t := range pts {
		sep := ","
		if i == len(pts)-1 {
			sep = ""
		}
		fmt.Fprintf(b, "  { target := %s, sources := %s, msgReach := %s, writes := %s }%s\n", q(t.target), strList(t.sources), strList(t.msgReach), bl(t.writes), sep)
	}
	b.WriteString("]\n\n")
}

// ---------------------------------------------------------------------------------------------
// appTies: in the gen-1 liquidation sweep and in MsgLiquidateVault the controls (breaker, ESM) are read for ONE app id expression
// (`appIds[i]` / `appID`); the position that is then liquidated must be tied to THAT expression by a failing comparison
// `<position>.AppId != <checked app expression>`. A comparison of the position's app with anything else (e.g. the app of its own
// extended pair) leaves a controlled app's vault open to the other apps' iterations / messages (seed s115).

type AppTie struct {
	module, fn, checked, lhs, rhs string
	found, tied                  bool
	line                         int
}

var appTieFuncs = [][3]string{{"x/liquidation/keeper", "Keeper", "LiquidateVaults"}, {"x/liquidation/keeper", "msgServer", "MsgLiquidateVault"}}

func extractAppTies() []AppTie {
	var out []AppTie
	for _, f := range appTieFuncs {
		t := AppTie{module: strings.Split(f[0], "/")[1], fn: f[2]}
		fi := index[FuncKey{f[0], f[1], f[2]}]
		if fi == nil {
			out = append(out, t)
			continue
		}
		ast.Inspect(fi.decl.Body, func(n ast.Node) bool {
			if c, ok := n.(*ast.CallExpr); ok && t.checked == "" {
				if se, ok := c.Fun.(*ast.SelectorExpr); ok && se.Sel.Name == "GetKillSwitchData" && len(c.Args) == 2 {
					t.checked = src(c.Args[1])
				}
			}
			return true
		})
		ast.Inspect(fi.decl.Body, func(n ast.Node) bool {
			is, ok := n.(*ast.IfStmt)
			if !ok || t.found || !blockTerminates(is.Body) {
				return true
			}
			for _, d := range splitOr(is.Cond) {
				b, ok := d.(*ast.BinaryExpr)
				if !ok || b.Op != token.NEQ {
					continue
				}
				if se, ok := b.X.(*ast.SelectorExpr); ok && se.Sel.Name == "AppId" {
					t.found, t.lhs, t.rhs, t.line = true, src(b.X), src(b.Y), line(is)
					t.tied = t.checked != "" && t.rhs == t.checked
				}
			}
			return true
		})
		out = append(out, t)
	}
	return out
}

func writeAppTies(b *strings.Builder, ts []AppTie) {
	b.WriteString("structure AppTie where\n  module : String\n  fn : String\n  checked : String\n  lhs : String\n  rhs : String\n  found : Bool\n  tied : Bool\n  line : Nat\n  deriving Repr\n\n")
	b.WriteString("/-- the comparison tying the liquidated position to the app whose controls were checked (gen-1 sweep, MsgLiquidateVault) -/\ndef appTies : List AppTie := [\n")
	for i, t := range ts {
		sep := ","
		if i == len(ts)-1 {
			sep = ""
		}
		fmt.Fprintf(b, "  { module := %s, fn := %s, checked := %s, lhs := %s, rhs := %s, found := %s, tied := %s, line := %d }%s\n", q(t.module), q(t.fn), q(t.checked), q(t.lhs), q(t.rhs), bl(t.found), bl(t.tied), t.line, sep)
	}
	b.WriteString("]\n\n")
}
