package main

// Where do the bounds of an unwrapped slice expression come from? (C15, third table)
//
// `list[start:end]` in unwrapped blocker code is safe only if `start`/`end` were computed from a length that
// describes THE SAME reading of the store as `list`. For every slice expression outside the wrappers whose operand is a
// local variable, this file traces the bound variables back through their definitions (`:=` and later `=`) to the calls
// they derive from, and records for the list and for every such source whether its definition sits in the same
// innermost enclosing loop as the slice expression itself ("read in the same iteration"). A length read once before a
// loop whose iterations change the store, used to slice a list re-read inside the loop, shows up as `sameLoop = false`.

import (
	"go/ast"
	"go/token"
	"sort"
	"strings"
)

type sliceSource struct {
	callee   string
	sameLoop bool
}

type sliceFact struct {
	blocker, fn, expr, listSrc, pos string
	listSameLoop                  bool
	sources                       []sliceSource
}

var (
	sliceFacts []sliceFact
	sliceSeen  = map[string]bool{}
)

type bodyInfo struct {
	loopOf  map[ast.Node]token.Pos // innermost enclosing for/range of every assignment and slice expression
	assigns []*ast.AssignStmt
}

var bodyInfos = map[*ast.BlockStmt]*bodyInfo{}

func infoOf(body *ast.BlockStmt) *bodyInfo {
	if bi, ok := bodyInfos[body]; ok {
		return bi
	}
	bi := &bodyInfo{loopOf: map[ast.Node]token.Pos{}}
	var walk func(n ast.Node, loop token.Pos)
	walk = func(n ast.Node, loop token.Pos) {
		ast.Inspect(n, func(m ast.Node) bool {
			if m == nil || m == n {
				return true
			}
			switch x := m.(type) {
			case *ast.FuncLit:
				return false // closures are wrapped units or deferred helpers: not top-level code
			case *ast.ForStmt:
				if x.Init != nil {
					walk(x.Init, loop)
				}
				walk(x.Body, x.Pos())
				return false
			case *ast.RangeStmt:
				walk(x.X, loop)
				walk(x.Body, x.Pos())
				return false
			case *ast.AssignStmt:
				bi.loopOf[x] = loop
				bi.assigns = append(bi.assigns, x)
			case *ast.SliceExpr:
				bi.loopOf[x] = loop
			}
			return true
		})
	}
	walk(body, token.NoPos)
	bodyInfos[body] = bi
	return bi
}

// defsOf: the assignments of this body that define or re-assign the variable an identifier refers to.
func (bi *bodyInfo) defsOf(id *ast.Ident) []*ast.AssignStmt {
	if id.Obj == nil {
		return nil
	}
	var out []*ast.AssignStmt
	for _, a := range bi.assigns {
		for _, l := range a.Lhs {
			if li, ok := l.(*ast.Ident); ok && li.Obj == id.Obj {
				out = append(out, a)
				break
			}
		}
	}
	return out
}

func storeCall(c *ast.CallExpr) string {
	switch f := c.Fun.(type) {
	case *ast.SelectorExpr:
		r := render(f)
		if strings.HasPrefix(r, "types.") || strings.HasPrefix(r, "sdk.") {
			return ""
		}
		return r
	case *ast.Ident:
		if f.Name == "len" && len(c.Args) == 1 {
			return "len(" + render(c.Args[0]) + ")"
		}
	}
	return ""
}

func analyzeSlice(x *ast.SliceExpr, c wctx) {
	if c.body == nil || c.wrapped > 0 {
		return
	}
	list, ok := x.X.(*ast.Ident)
	if !ok || (x.Low == nil && x.High == nil) {
		return
	}
	bi := infoOf(c.body)
	here, known := bi.loopOf[x]
	if !known {
		return
	}
	f := sliceFact{blocker: c.blocker, fn: c.fn, expr: render(x), pos: rel(c.p, x.Pos()), listSameLoop: true}
	// the list: follow plain renamings (`borrowIDs := borrows`) to the call that read it
	seenDef := map[*ast.AssignStmt]bool{}
	var listDefs []*ast.AssignStmt
	var follow func(id *ast.Ident, depth int, into *[]*ast.AssignStmt)
	follow = func(id *ast.Ident, depth int, into *[]*ast.AssignStmt) {
		if depth > 5 {
			return
		}
		for _, a := range bi.defsOf(id) {
			if seenDef[a] {
				continue
			}
			seenDef[a] = true
			*into = append(*into, a)
			for _, r := range a.Rhs {
				ast.Inspect(r, func(m ast.Node) bool {
					if _, ok := m.(*ast.FuncLit); ok {
						return false
					}
					if i2, ok := m.(*ast.Ident); ok && i2.Obj != nil && i2.Obj.Kind == ast.Var {
						follow(i2, depth+1, into)
					}
					return true
				})
			}
		}
	}
	follow(list, 0, &listDefs)
	for _, a := range listDefs {
		if bi.loopOf[a] != here {
			f.listSameLoop = false
		}
		for _, r := range a.Rhs {
			ast.Inspect(r, func(m ast.Node) bool {
				if call, ok := m.(*ast.CallExpr); ok {
					if s := storeCall(call); s != "" && !strings.HasPrefix(s, "len(") && f.listSrc == "" {
						f.listSrc = s
					}
				}
				return true
			})
		}
	}
	// the bounds
	seenDef = map[*ast.AssignStmt]bool{}
	var boundDefs []*ast.AssignStmt
	for _, b := range []ast.Expr{x.Low, x.High} {
		if b == nil {
			continue
		}
		ast.Inspect(b, func(m ast.Node) bool {
			if id, ok := m.(*ast.Ident); ok && id.Obj != nil && id.Obj.Kind == ast.Var {
				follow(id, 0, &boundDefs)
			}
			return true
		})
	}
	srcSeen := map[string]int{}
	for _, a := range boundDefs {
		same := bi.loopOf[a] == here
		for _, r := range a.Rhs {
			ast.Inspect(r, func(m ast.Node) bool {
				if call, ok := m.(*ast.CallExpr); ok {
					if s := storeCall(call); s != "" {
						if i, ok := srcSeen[s]; ok {
							f.sources[i].sameLoop = f.sources[i].sameLoop && same
						} else {
							srcSeen[s] = len(f.sources)
							f.sources = append(f.sources, sliceSource{s, same})
						}
					}
				}
				return true
			})
		}
	}
	sort.Slice(f.sources, func(i, j int) bool { return f.sources[i].callee < f.sources[j].callee })
	key := f.blocker + "|" + f.fn + "|" + f.expr
	if sliceSeen[key] {
		return
	}
	sliceSeen[key] = true
	sliceFacts = append(sliceFacts, f)
}
