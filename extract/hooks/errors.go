package main

// Error propagation inside wrapped units (C15, second table).
//
// ApplyFuncIfNoError rolls a unit back only if the closure RETURNS a non-nil error (or panics). A closure that
// logs an error and returns nil defeats the wrapper: the writes made before the failure are committed. For every
// ApplyFuncIfNoError closure reached from a blocker this file records
//
//   * errorSites — every place in the closure body (and, two levels deep, in the bodies of the module's own keeper
//     functions it calls) where a call produces an error value, with its *disposition*:
//       returned            the non-nil path ends in `return <non-nil>` / the call is itself returned
//       swallowed:logged    `if err != nil { … }` falls through (log and go on)
//       swallowed:return-nil  `if err != nil { …; return nil }`
//       swallowed:continue  `if err != nil { …; continue|break }`
//       blank               the error result is assigned to `_`
//       dropped             the call is an expression statement although it returns an error
//       unchecked           the error variable is never tested before it is overwritten / the block ends
//       never-fails         not returned, but the callee is an own keeper function all of whose return statements
//                           return the literal nil error (e.g. AuctionIterator, whose items are units of their own)
//   * closure facts (fields of UnitSite): `liveCtx` — the closure body mentions a context variable declared OUTSIDE the
//     closure (the live context instead of the cache context it was handed); `returnsNonNil` — some return statement of
//     the closure returns something other than the literal nil.
//
// Which calls produce an error is decided from declarations, without type checking: the module's own keeper functions
// by their FuncDecl, other keepers by the method signatures of the interfaces in x/<module>/expected/*.go; for anything
// else a left-hand side whose name starts with "err" counts as an error value.

import (
	"go/ast"
	"go/token"
	"path/filepath"
	"strings"
)

type errSite struct {
	blocker, fn, unit, callee, disp, pos string
}

type sig struct{ n, errIdx int }

var (
	errSites   []errSite
	errSeen    = map[string]bool{}
	unitFacts  = map[string][2]bool{} // unit pos -> (liveCtx, returnsNonNil)
	expectedOf = map[string]map[string]sig{}
)

const errDepth = 2

func resultsSig(ft *ast.FuncType) sig {
	s := sig{errIdx: -1}
	if ft.Results == nil {
		return s
	}
	for _, f := range ft.Results.List {
		k := len(f.Names)
		if k == 0 {
			k = 1
		}
		for j := 0; j < k; j++ {
			if id, ok := f.Type.(*ast.Ident); ok && id.Name == "error" {
				s.errIdx = s.n
			}
			s.n++
		}
	}
	return s
}

// loadExpected: method name -> signature, from every interface declared in x/<module>/expected
func loadExpected(module string) map[string]sig {
	if m, ok := expectedOf[module]; ok {
		return m
	}
	m := map[string]sig{}
	files, _ := filepath.Glob(filepath.Join(repo, "x", module, "expected", "*.go"))
	for _, f := range files {
		p := loadFile(f)
		if p == nil {
			continue
		}
		ast.Inspect(p, func(n ast.Node) bool {
			it, ok := n.(*ast.InterfaceType)
			if !ok || it.Methods == nil {
				return true
			}
			for _, fld := range it.Methods.List {
				ft, ok := fld.Type.(*ast.FuncType)
				if !ok {
					continue
				}
				for _, nm := range fld.Names {
					s := resultsSig(ft)
					if old, ok := m[nm.Name]; ok && old.errIdx >= 0 {
						continue
					}
					m[nm.Name] = s
				}
			}
			return true
		})
	}
	expectedOf[module] = m
	return m
}

type ectx struct {
	c      wctx
	module string
	unit   string
	depth  int
	stack  map[string]bool
}

// callSig: the signature of the function a call goes to, if it can be found from declarations.
func (e ectx) callSig(call *ast.CallExpr) (sig, bool) {
	if m := ownCallee(e.c.kp, call, e.c.own, e.c.inKeeper); m != "" {
		return resultsSig(e.c.kp.funcs[m].Type), true
	}
	if se, ok := call.Fun.(*ast.SelectorExpr); ok {
		// k.vault.M(…) / assetKeeper.M(…): another module's keeper through an expected interface
		switch x := se.X.(type) {
		case *ast.SelectorExpr:
			if id, ok := x.X.(*ast.Ident); ok && e.c.own[id.Name] {
				if s, ok := loadExpected(e.module)[se.Sel.Name]; ok {
					return s, true
				}
			}
		case *ast.Ident:
			if !e.c.own[x.Name] && strings.HasSuffix(x.Name, "Keeper") {
				if s, ok := loadExpected(e.module)[se.Sel.Name]; ok {
					return s, true
				}
			}
		}
	}
	return sig{}, false
}

// neverFails: an own keeper function whose every return statement returns the literal nil in the error position.
func (e ectx) neverFails(call *ast.CallExpr) bool {
	m := ownCallee(e.c.kp, call, e.c.own, e.c.inKeeper)
	if m == "" {
		return false
	}
	fd := e.c.kp.funcs[m]
	sg := resultsSig(fd.Type)
	if sg.errIdx < 0 {
		return false
	}
	ok := true
	ast.Inspect(fd.Body, func(n ast.Node) bool {
		switch x := n.(type) {
		case *ast.FuncLit:
			return false
		case *ast.ReturnStmt:
			if len(x.Results) != sg.n || !isNilIdent(x.Results[sg.errIdx]) {
				ok = false
			}
		}
		return ok
	})
	return ok
}

func (e ectx) record(call *ast.CallExpr, disp string) {
	if disp != "returned" && e.neverFails(call) {
		disp = "never-fails"
	}
	callee := render(call.Fun)
	key := strings.Join([]string{e.c.blocker, e.c.fn, e.unit, callee, disp}, "|")
	if errSeen[key] {
		return
	}
	errSeen[key] = true
	errSites = append(errSites, errSite{e.c.blocker, e.c.fn, e.unit, callee, disp, rel(e.c.p, call.Pos())})
}

func isNilIdent(x ast.Expr) bool {
	id, ok := x.(*ast.Ident)
	return ok && id.Name == "nil"
}

func mentions(n ast.Node, name string) bool {
	r := false
	ast.Inspect(n, func(m ast.Node) bool {
		if id, ok := m.(*ast.Ident); ok && id.Name == name {
			r = true
		}
		return !r
	})
	return r
}

// testsNonNil: does the condition contain `v != nil`?
func testsNonNil(cond ast.Expr, v string) bool {
	r := false
	ast.Inspect(cond, func(m ast.Node) bool {
		if b, ok := m.(*ast.BinaryExpr); ok && b.Op == token.NEQ {
			if id, ok := b.X.(*ast.Ident); ok && id.Name == v && isNilIdent(b.Y) {
				r = true
			}
			if id, ok := b.Y.(*ast.Ident); ok && id.Name == v && isNilIdent(b.X) {
				r = true
			}
		}
		return !r
	})
	return r
}

// dispositionOfIf: what the non-nil branch does.
func dispositionOfIf(ifs *ast.IfStmt) string {
	if len(ifs.Body.List) == 0 {
		return "swallowed:logged"
	}
	switch last := ifs.Body.List[len(ifs.Body.List)-1].(type) {
	case *ast.ReturnStmt:
		for _, r := range last.Results {
			if !isNilIdent(r) {
				return "returned"
			}
		}
		return "swallowed:return-nil"
	case *ast.BranchStmt:
		if last.Tok == token.CONTINUE || last.Tok == token.BREAK {
			return "swallowed:continue"
		}
	case *ast.ExprStmt:
		if c, ok := last.X.(*ast.CallExpr); ok {
			if id, ok := c.Fun.(*ast.Ident); ok && id.Name == "panic" {
				return "returned" // a panic is rolled back by the wrapper as well
			}
		}
	}
	return "swallowed:logged"
}

// follow: how is the error variable v handled by the statements after its assignment?
func followErr(v string, rest []ast.Stmt) string {
	for _, st := range rest {
		switch s := st.(type) {
		case *ast.IfStmt:
			if testsNonNil(s.Cond, v) {
				return dispositionOfIf(s)
			}
			if mentions(s.Cond, v) {
				return "unchecked"
			}
		case *ast.ReturnStmt:
			if mentions(s, v) {
				return "returned"
			}
		case *ast.AssignStmt:
			for _, l := range s.Lhs {
				if id, ok := l.(*ast.Ident); ok && id.Name == v {
					return "unchecked"
				}
			}
		}
	}
	return "unchecked"
}

func (e ectx) descend(call *ast.CallExpr) {
	m := ownCallee(e.c.kp, call, e.c.own, e.c.inKeeper)
	if m == "" || e.depth >= errDepth || e.stack[m] || accessor(m) {
		return
	}
	fd := e.c.kp.funcs[m]
	in := e
	in.c.p = e.c.kp
	in.c.inKeeper = true
	in.c.own = map[string]bool{}
	if r := recvName(fd); r != "" {
		in.c.own[r] = true
	}
	in.c.fn = e.c.fn + ">" + m
	in.depth++
	in.stack = map[string]bool{m: true}
	for k := range e.stack {
		in.stack[k] = true
	}
	in.stmts(fd.Body.List)
}

func (e ectx) assign(s *ast.AssignStmt, rest []ast.Stmt, ownIf *ast.IfStmt) {
	if len(s.Rhs) != 1 {
		return
	}
	call, ok := s.Rhs[0].(*ast.CallExpr)
	if !ok || isApply(call) {
		return
	}
	defer e.descend(call)
	sg, known := e.callSig(call)
	var lhs ast.Expr
	if known {
		if sg.errIdx < 0 || len(s.Lhs) != sg.n {
			return
		}
		lhs = s.Lhs[sg.errIdx]
	} else {
		for _, l := range s.Lhs {
			if id, ok := l.(*ast.Ident); ok && strings.HasPrefix(id.Name, "err") {
				lhs = l
			}
		}
		if lhs == nil {
			return
		}
	}
	id, ok := lhs.(*ast.Ident)
	if !ok {
		return
	}
	if id.Name == "_" {
		e.record(call, "blank")
		return
	}
	if ownIf != nil {
		if testsNonNil(ownIf.Cond, id.Name) {
			e.record(call, dispositionOfIf(ownIf))
		} else {
			e.record(call, "unchecked")
		}
		return
	}
	e.record(call, followErr(id.Name, rest))
}

func (e ectx) stmts(list []ast.Stmt) {
	for i, st := range list {
		e.stmt(st, list[i+1:])
	}
}

func (e ectx) stmt(st ast.Stmt, rest []ast.Stmt) {
	switch s := st.(type) {
	case *ast.AssignStmt:
		e.assign(s, rest, nil)
	case *ast.ExprStmt:
		if call, ok := s.X.(*ast.CallExpr); ok && !isApply(call) {
			if sg, known := e.callSig(call); known && sg.errIdx >= 0 {
				e.record(call, "dropped")
			}
			e.descend(call)
		}
	case *ast.ReturnStmt:
		for _, r := range s.Results {
			if call, ok := r.(*ast.CallExpr); ok && !isApply(call) {
				if sg, known := e.callSig(call); known && sg.errIdx >= 0 {
					e.record(call, "returned")
				}
				e.descend(call)
			}
		}
	case *ast.IfStmt:
		if a, ok := s.Init.(*ast.AssignStmt); ok {
			e.assign(a, nil, s)
		}
		e.stmts(s.Body.List)
		if s.Else != nil {
			e.stmt(s.Else, nil)
		}
	case *ast.BlockStmt:
		e.stmts(s.List)
	case *ast.ForStmt:
		e.stmts(s.Body.List)
	case *ast.RangeStmt:
		e.stmts(s.Body.List)
	case *ast.SwitchStmt:
		e.stmts(s.Body.List)
	case *ast.TypeSwitchStmt:
		e.stmts(s.Body.List)
	case *ast.CaseClause:
		e.stmts(s.Body)
	}
}

// closureFacts: does the closure use a context declared outside of it; does it ever return a non-nil value?
func closureFacts(fl *ast.FuncLit) (liveCtx, returnsNonNil bool) {
	isCtxType := func(t ast.Expr) bool {
		se, ok := t.(*ast.SelectorExpr)
		return ok && se.Sel.Name == "Context"
	}
	ast.Inspect(fl.Body, func(n ast.Node) bool {
		switch x := n.(type) {
		case *ast.FuncLit:
			return false // a nested closure (nested unit) is judged on its own
		case *ast.Ident:
			if x.Obj != nil && x.Obj.Kind == ast.Var {
				if f, ok := x.Obj.Decl.(*ast.Field); ok && isCtxType(f.Type) {
					if f.Pos() < fl.Pos() || f.Pos() > fl.End() {
						liveCtx = true
					}
				}
			}
		case *ast.ReturnStmt:
			for _, r := range x.Results {
				if !isNilIdent(r) {
					returnsNonNil = true
				}
			}
		}
		return true
	})
	return
}

// analyzeClosure is called by visit for every ApplyFuncIfNoError closure.
func analyzeClosure(fl *ast.FuncLit, c wctx, unitPos string) {
	module := c.blocker[:strings.Index(c.blocker, ".")]
	l, r := closureFacts(fl)
	unitFacts[unitPos] = [2]bool{l, r}
	e := ectx{c: c, module: module, unit: unitPos, stack: map[string]bool{}}
	e.stmts(fl.Body.List)
}
