// Command hooks reads comdex's Go source as DATA (go/parser + go/ast, no type checking, comdex is never
// imported) and writes lean/Comdex/Gen/Hooks.lean, the fact table of property C15:
//
//	(a) wrapper  — the shape of types/utils.go ApplyFuncIfNoError as five booleans
//	(b) blockers — for every BeginBlocker/EndBlocker of the DeFi modules the ordered top-level statements
//	    units    — every ApplyFuncIfNoError call site reached from a blocker (nesting depth, inside a loop?, WHICH loop — the innermost enclosing loop statement —, and the loops written inside the closure)
//	    entries  — every call and every potentially panicking operator (slice, index, / and %, type assertion,
//	               panic) reached from a blocker, with the flag "inside an ApplyFuncIfNoError closure"
//
// Expansion policy (syntactic, stated here because the theorems are only as good as it):
//   - a call `k.M(…)` on the module's own keeper (or `M(…)` inside the keeper package) is *expanded* — its body is
//     walked in the caller's wrapped/unwrapped context — when M transitively contains an ApplyFuncIfNoError call
//     ("host"), or when the call site is UNWRAPPED and M is not an accessor (Get*/Set*/Has*/Delete*/Store);
//     at most maxDepth levels below the blocker, no recursion;
//   - everything else is a leaf entry: calls on other modules' keepers (`k.vault.GetVaults`), accessors, SDK and
//     library calls, and — inside a wrapper, where totality does not matter — every non-host call.
//
// Usage: hooks -repo /repo -out …/lean/Comdex/Gen/Hooks.lean
package main

import (
	"flag"
	"fmt"
	"go/ast"
	"go/parser"
	"go/token"
	"os"
	"path/filepath"
	"sort"
	"strings"
)

const maxDepth = 3

var modules = []string{"liquidity", "liquidation", "liquidationsV2", "auction", "auctionsV2", "rewards", "lend", "esm", "market", "bandoracle"}

type pkg struct {
	fset  *token.FileSet
	funcs map[string]*ast.FuncDecl
	host  map[string]int // 0 unknown, 1 host, 2 not host, 3 in progress
}

type entry struct {
	blocker, fn, kind, callee string
	wrapped, loop             bool
	pos                       string
}

type unit struct {
	blocker, fn string
	nest        int
	loop        bool
	pos         string
	loopOver    string   // the innermost loop statement enclosing the wrapper call ("range allApps", "for …"), "" if none
	inner       []string // the loop statements written inside the closure itself (not in the functions it calls)
}

type blocker struct {
	name, file string
	top        []string
}

var (
	repo    string
	entries []entry
	seen    = map[string]bool{}
	units   []unit
	blocks  []blocker
)

func die(f string, a ...interface{}) {
	fmt.Fprintf(os.Stderr, f+"\n", a...)
	os.Exit(1)
}

func loadDir(dir string) *pkg {
	p := &pkg{fset: token.NewFileSet(), funcs: map[string]*ast.FuncDecl{}, host: map[string]int{}}
	files, _ := filepath.Glob(filepath.Join(dir, "*.go"))
	sort.Strings(files)
	for _, f := range files {
		if strings.HasSuffix(f, "_test.go") {
			continue
		}
		af, err := parser.ParseFile(p.fset, f, nil, 0)
		if err != nil {
			die("parse %s: %v", f, err)
		}
		for _, d := range af.Decls {
			if fd, ok := d.(*ast.FuncDecl); ok && fd.Body != nil {
				p.funcs[fd.Name.Name] = fd
			}
		}
	}
	return p
}

// loadFile parses one file (used for the expected-keeper interfaces).
func loadFile(path string) *ast.File {
	af, err := parser.ParseFile(token.NewFileSet(), path, nil, 0)
	if err != nil {
		return nil
	}
	return af
}

func rel(p *pkg, pos token.Pos) string {
	ps := p.fset.Position(pos)
	r, err := filepath.Rel(repo, ps.Filename)
	if err != nil {
		r = ps.Filename
	}
	return fmt.Sprintf("%s:%d", r, ps.Line)
}

// render gives a short, argument-free text of an expression used as a callee or operand.
func render(e ast.Expr) string {
	switch x := e.(type) {
	case *ast.Ident:
		return x.Name
	case *ast.SelectorExpr:
		return render(x.X) + "." + x.Sel.Name
	case *ast.CallExpr:
		return render(x.Fun) + "()"
	case *ast.ParenExpr:
		return "(" + render(x.X) + ")"
	case *ast.IndexExpr:
		return render(x.X) + "[" + render(x.Index) + "]"
	case *ast.SliceExpr:
		lo, hi := "", ""
		if x.Low != nil {
			lo = render(x.Low)
		}
		if x.High != nil {
			hi = render(x.High)
		}
		return render(x.X) + "[" + lo + ":" + hi + "]"
	case *ast.StarExpr:
		return "*" + render(x.X)
	case *ast.UnaryExpr:
		return x.Op.String() + render(x.X)
	case *ast.BinaryExpr:
		return render(x.X) + x.Op.String() + render(x.Y)
	case *ast.BasicLit:
		return x.Value
	case *ast.FuncLit:
		return "func"
	case *ast.ArrayType:
		return "[]" + render(x.Elt)
	case *ast.TypeAssertExpr:
		return render(x.X) + ".(type)"
	}
	return "_"
}

func isApply(c *ast.CallExpr) bool {
	switch f := c.Fun.(type) {
	case *ast.SelectorExpr:
		return f.Sel.Name == "ApplyFuncIfNoError"
	case *ast.Ident:
		return f.Name == "ApplyFuncIfNoError"
	}
	return false
}

func accessor(name string) bool {
	for _, p := range []string{"Get", "Set", "Has", "Delete"} {
		if strings.HasPrefix(name, p) {
			return true
		}
	}
	return name == "Store"
}

func recvName(fd *ast.FuncDecl) string {
	if fd.Recv != nil && len(fd.Recv.List) > 0 && len(fd.Recv.List[0].Names) > 0 {
		return fd.Recv.List[0].Names[0].Name
	}
	return ""
}

// ownCallee: the name of the same-package function a call goes to ("" if none).
func ownCallee(p *pkg, c *ast.CallExpr, own map[string]bool, inKeeperPkg bool) string {
	switch f := c.Fun.(type) {
	case *ast.SelectorExpr:
		if id, ok := f.X.(*ast.Ident); ok && own[id.Name] {
			if _, ok := p.funcs[f.Sel.Name]; ok {
				return f.Sel.Name
			}
		}
	case *ast.Ident:
		if inKeeperPkg {
			if _, ok := p.funcs[f.Name]; ok {
				return f.Name
			}
		}
	}
	return ""
}

// isHost: does the function (transitively, within its package) contain an ApplyFuncIfNoError call?
func isHost(p *pkg, name string) bool {
	switch p.host[name] {
	case 1:
		return true
	case 2, 3:
		return false
	}
	p.host[name] = 3
	fd := p.funcs[name]
	own := map[string]bool{}
	if r := recvName(fd); r != "" {
		own[r] = true
	}
	res := false
	ast.Inspect(fd.Body, func(n ast.Node) bool {
		if res {
			return false
		}
		if c, ok := n.(*ast.CallExpr); ok {
			if isApply(c) {
				res = true
				return false
			}
			if m := ownCallee(p, c, own, true); m != "" && m != name && isHost(p, m) {
				res = true
				return false
			}
		}
		return true
	})
	if res {
		p.host[name] = 1
	} else {
		p.host[name] = 2
	}
	return res
}

type wctx struct {
	p        *pkg // package the code being walked lives in (for positions)
	kp       *pkg // the module's keeper package (for resolving own calls)
	own      map[string]bool
	inKeeper bool
	blocker  string
	fn       string
	wrapped  int
	loop     bool
	loopOver string
	depth    int
	stack    map[string]bool
	body     *ast.BlockStmt // body of the function being walked (for the slice-bound facts)
}

func add(c wctx, kind, callee string, pos token.Pos) {
	key := strings.Join([]string{c.blocker, c.fn, kind, callee, fmt.Sprint(c.wrapped > 0)}, "|")
	if seen[key] {
		return
	}
	seen[key] = true
	entries = append(entries, entry{c.blocker, c.fn, kind, callee, c.wrapped > 0, c.loop, rel(c.p, pos)})
}

func children(n ast.Node, c wctx) {
	ast.Inspect(n, func(m ast.Node) bool {
		if m == n {
			return true
		}
		if m != nil {
			visit(m, c)
		}
		return false
	})
}

func visit(n ast.Node, c wctx) {
	switch x := n.(type) {
	case *ast.ForStmt:
		if x.Init != nil {
			visit(x.Init, c)
		}
		l := c
		l.loop = true
		l.loopOver = "for"
		if x.Cond != nil {
			l.loopOver = "for " + render(x.Cond)
			visit(x.Cond, l)
		}
		if x.Post != nil {
			visit(x.Post, l)
		}
		visit(x.Body, l)
	case *ast.RangeStmt:
		visit(x.X, c)
		l := c
		l.loop = true
		l.loopOver = "range " + render(x.X)
		visit(x.Body, l)
	case *ast.CallExpr:
		if isApply(x) {
			var inner []string
			for _, a := range x.Args {
				if fl, ok := a.(*ast.FuncLit); ok {
					inner = append(inner, loopsIn(fl.Body)...)
				}
			}
			units = append(units, unit{c.blocker, c.fn, c.wrapped + 1, c.loop, rel(c.p, x.Pos()), c.loopOver, inner})
			for _, a := range x.Args {
				if fl, ok := a.(*ast.FuncLit); ok {
					in := c
					in.wrapped++
					analyzeClosure(fl, in, rel(c.p, x.Pos()))
					visit(fl.Body, in)
				} else {
					visit(a, c)
				}
			}
			return
		}
		add(c, "call", render(x.Fun), x.Pos())
		children(x, c)
		if m := ownCallee(c.kp, x, c.own, c.inKeeper); m != "" && c.depth < maxDepth && !c.stack[m] {
			if isHost(c.kp, m) || (c.wrapped == 0 && !accessor(m)) {
				fd := c.kp.funcs[m]
				in := c
				in.p = c.kp
				in.inKeeper = true
				in.own = map[string]bool{}
				if r := recvName(fd); r != "" {
					in.own[r] = true
				}
				in.fn = c.fn + ">" + m
				in.depth++
				in.body = fd.Body
				in.stack = map[string]bool{m: true}
				for k := range c.stack {
					in.stack[k] = true
				}
				visit(fd.Body, in)
			}
		}
	case *ast.SliceExpr:
		add(c, "op", "slice "+render(x), x.Pos())
		analyzeSlice(x, c)
		children(x, c)
	case *ast.IndexExpr:
		add(c, "op", "index "+render(x), x.Pos())
		children(x, c)
	case *ast.TypeAssertExpr:
		if x.Type != nil {
			add(c, "op", "assert "+render(x.X), x.Pos())
		}
		children(x, c)
	case *ast.BinaryExpr:
		if x.Op == token.QUO || x.Op == token.REM {
			add(c, "op", "div "+render(x), x.Pos())
		}
		children(x, c)
	default:
		children(n, c)
	}
}

// loopsIn: the loop statements written lexically inside a closure body (nested closures of further wrapper calls excluded:
// those are units of their own).
func loopsIn(n ast.Node) []string {
	var out []string
	ast.Inspect(n, func(m ast.Node) bool {
		switch x := m.(type) {
		case *ast.CallExpr:
			if isApply(x) {
				return false
			}
		case *ast.RangeStmt:
			out = append(out, "range "+render(x.X))
		case *ast.ForStmt:
			if x.Cond != nil {
				out = append(out, "for "+render(x.Cond))
			} else {
				out = append(out, "for")
			}
		}
		return true
	})
	return out
}

func containsApply(n ast.Node) bool {
	r := false
	ast.Inspect(n, func(m ast.Node) bool {
		if c, ok := m.(*ast.CallExpr); ok && isApply(c) {
			r = true
		}
		return !r
	})
	return r
}

func firstCall(n ast.Node) string {
	r := ""
	ast.Inspect(n, func(m ast.Node) bool {
		if r != "" {
			return false
		}
		if c, ok := m.(*ast.CallExpr); ok {
			r = render(c.Fun)
			return false
		}
		return true
	})
	return r
}

// topShape renders one top-level statement of a blocker body.
func topShape(s ast.Stmt) string {
	w := ""
	if containsApply(s) {
		w = " {unit}"
	}
	switch x := s.(type) {
	case *ast.DeferStmt:
		return "defer " + render(x.Call.Fun)
	case *ast.IfStmt:
		return "if " + render(x.Cond) + w
	case *ast.RangeStmt:
		return "range " + render(x.X) + w
	case *ast.ForStmt:
		return "for" + w
	case *ast.ExprStmt:
		if c, ok := x.X.(*ast.CallExpr); ok {
			if isApply(c) {
				return "unit"
			}
			return "call " + render(c.Fun)
		}
	case *ast.AssignStmt:
		if len(x.Rhs) == 1 {
			if c, ok := x.Rhs[0].(*ast.CallExpr); ok {
				if isApply(c) {
					return "unit"
				}
				return "assign " + render(c.Fun)
			}
		}
		return "assign" + w
	}
	return fmt.Sprintf("%T %s%s", s, firstCall(s), w)
}

// ---------------------------------------------------------------------------------------------------------------
// wrapper shape

type shape struct{ deferRecover, recoverSetsErr, runsOnCache, writeInErrNil, writeElsewhere bool }

func isCallTo(n ast.Node, name string) bool {
	c, ok := n.(*ast.CallExpr)
	if !ok {
		return false
	}
	id, ok := c.Fun.(*ast.Ident)
	return ok && id.Name == name
}

func wrapperShape() (shape, string) {
	p := loadDir(filepath.Join(repo, "types"))
	fd := p.funcs["ApplyFuncIfNoError"]
	if fd == nil {
		die("types.ApplyFuncIfNoError not found")
	}
	var sh shape
	// names: the func parameter, the named error result, the cache ctx and write function
	fparam, errName, cacheName, writeName := "", "", "", ""
	for _, f := range fd.Type.Params.List {
		if _, ok := f.Type.(*ast.FuncType); ok && len(f.Names) > 0 {
			fparam = f.Names[0].Name
		}
	}
	if fd.Type.Results != nil {
		for _, f := range fd.Type.Results.List {
			if id, ok := f.Type.(*ast.Ident); ok && id.Name == "error" && len(f.Names) > 0 {
				errName = f.Names[0].Name
			}
		}
	}
	ast.Inspect(fd.Body, func(n ast.Node) bool {
		if a, ok := n.(*ast.AssignStmt); ok && len(a.Lhs) == 2 && len(a.Rhs) == 1 {
			if c, ok := a.Rhs[0].(*ast.CallExpr); ok {
				if s, ok := c.Fun.(*ast.SelectorExpr); ok && s.Sel.Name == "CacheContext" {
					if l, ok := a.Lhs[0].(*ast.Ident); ok {
						cacheName = l.Name
					}
					if l, ok := a.Lhs[1].(*ast.Ident); ok {
						writeName = l.Name
					}
				}
			}
		}
		return true
	})
	// deferred recover, top level of the body only
	for _, st := range fd.Body.List {
		d, ok := st.(*ast.DeferStmt)
		if !ok {
			continue
		}
		fl, ok := d.Call.Fun.(*ast.FuncLit)
		if !ok {
			continue
		}
		ast.Inspect(fl.Body, func(n ast.Node) bool {
			if isCallTo(n, "recover") {
				sh.deferRecover = true
			}
			if a, ok := n.(*ast.AssignStmt); ok && errName != "" && a.Tok == token.ASSIGN {
				for i, l := range a.Lhs {
					if id, ok := l.(*ast.Ident); ok && id.Name == errName && i < len(a.Rhs) {
						if r, ok := a.Rhs[i].(*ast.Ident); !ok || r.Name != "nil" {
							sh.recoverSetsErr = true
						}
					}
				}
			}
			if writeName != "" && isCallTo(n, writeName) {
				sh.writeElsewhere = true
			}
			return true
		})
	}
	// f applied to the cache context, on every call of f
	nCalls, nOnCache := 0, 0
	ast.Inspect(fd.Body, func(n ast.Node) bool {
		if fparam != "" && isCallTo(n, fparam) {
			nCalls++
			c := n.(*ast.CallExpr)
			if len(c.Args) == 1 {
				if id, ok := c.Args[0].(*ast.Ident); ok && cacheName != "" && id.Name == cacheName {
					nOnCache++
				}
			}
		}
		return true
	})
	sh.runsOnCache = nCalls > 0 && nCalls == nOnCache
	// write calls: inside the then-branch of `if err == nil` or elsewhere
	isErrNil := func(e ast.Expr) bool {
		b, ok := e.(*ast.BinaryExpr)
		if !ok || b.Op != token.EQL {
			return false
		}
		l, ok1 := b.X.(*ast.Ident)
		r, ok2 := b.Y.(*ast.Ident)
		return ok1 && ok2 && ((l.Name == errName && r.Name == "nil") || (l.Name == "nil" && r.Name == errName))
	}
	inGood := map[ast.Node]bool{}
	ast.Inspect(fd.Body, func(n ast.Node) bool {
		if ifs, ok := n.(*ast.IfStmt); ok && ifs.Init == nil && isErrNil(ifs.Cond) {
			ast.Inspect(ifs.Body, func(m ast.Node) bool {
				if writeName != "" && isCallTo(m, writeName) {
					inGood[m] = true
					sh.writeInErrNil = true
				}
				return true
			})
		}
		return true
	})
	ast.Inspect(fd.Body, func(n ast.Node) bool {
		if writeName != "" && isCallTo(n, writeName) && !inGood[n] {
			sh.writeElsewhere = true
		}
		// the write function escaping as a value (passed on, deferred through another call) counts as "elsewhere"
		if id, ok := n.(*ast.Ident); ok && writeName != "" && id.Name == writeName {
			_ = id
		}
		return true
	})
	// uses of writeName that are not direct calls and not the defining assignment
	uses, calls := 0, 0
	ast.Inspect(fd.Body, func(n ast.Node) bool {
		if id, ok := n.(*ast.Ident); ok && writeName != "" && id.Name == writeName {
			uses++
		}
		if writeName != "" && isCallTo(n, writeName) {
			calls++
		}
		return true
	})
	if uses > calls+1 {
		sh.writeElsewhere = true
	}
	return sh, rel(p, fd.Pos())
}

// ---------------------------------------------------------------------------------------------------------------

func q(s string) string {
	return "\"" + strings.ReplaceAll(strings.ReplaceAll(s, "\\", "\\\\"), "\"", "\\\"") + "\""
}
func b(x bool) string {
	if x {
		return "true"
	}
	return "false"
}

func main() {
	out := ""
	flag.StringVar(&repo, "repo", "/repo", "comdex source tree")
	flag.StringVar(&out, "out", "", "output .lean file")
	flag.Parse()
	if out == "" {
		die("-out required")
	}
	repo, _ = filepath.Abs(repo)
	sh, shPos := wrapperShape()

	for _, m := range modules {
		ap := loadDir(filepath.Join(repo, "x", m)) // abci.go lives here
		kp := loadDir(filepath.Join(repo, "x", m, "keeper"))
		for _, bn := range []string{"BeginBlocker", "EndBlocker"} {
			fd := ap.funcs[bn]
			if fd == nil {
				continue
			}
			if !strings.HasSuffix(ap.fset.Position(fd.Pos()).Filename, "abci.go") {
				continue
			}
			name := m + "." + bn
			bl := blocker{name: name, file: rel(ap, fd.Pos())}
			for _, st := range fd.Body.List {
				bl.top = append(bl.top, topShape(st))
			}
			blocks = append(blocks, bl)
			own := map[string]bool{}
			for _, f := range fd.Type.Params.List {
				if s, ok := f.Type.(*ast.SelectorExpr); ok && s.Sel.Name == "Keeper" {
					if id, ok := s.X.(*ast.Ident); ok && id.Name == "keeper" {
						for _, n := range f.Names {
							own[n.Name] = true
						}
					}
				}
			}
			visit(fd.Body, wctx{p: ap, kp: kp, own: own, blocker: name, fn: bn, stack: map[string]bool{}, body: fd.Body})
		}
	}

	var sb strings.Builder
	w := func(f string, a ...interface{}) { fmt.Fprintf(&sb, f, a...) }
	w("import Comdex.Model.Hooks\n")
	w("/-! GENERATED by extract/hooks from the Go source of comdex — do not edit, regenerated on every run.\n")
	w("Wrapper shape read from %s. -/\n", shPos)
	w("namespace Comdex.Gen.Hooks\n\n")
	w("structure Blocker where\n  name : String\n  file : String\n  top : List String\nderiving DecidableEq, Repr\n\n")
	w("structure UnitSite where\n  blocker : String\n  fn : String\n  inFn : String\n  nest : Nat\n  loop : Bool\n  pos : String\n  liveCtx : Bool\n  returnsNonNil : Bool\n  loopOver : String\n  innerLoops : List String\nderiving DecidableEq, Repr\n\n")
	w("structure SliceSource where\n  callee : String\n  sameLoop : Bool\nderiving DecidableEq, Repr\n\n")
	w("structure SliceFact where\n  blocker : String\n  inFn : String\n  expr : String\n  listSrc : String\n  listSameLoop : Bool\n  sources : List SliceSource\n  pos : String\nderiving DecidableEq, Repr\n\n")
	w("structure ErrSite where\n  blocker : String\n  fn : String\n  inFn : String\n  unit : String\n  callee : String\n  disp : String\n  pos : String\nderiving DecidableEq, Repr\n\n")
	w("structure Entry where\n  blocker : String\n  fn : String\n  inFn : String\n  kind : String\n  callee : String\n  wrapped : Bool\n  loop : Bool\n  pos : String\nderiving DecidableEq, Repr\n\n")
	w("def wrapper : Comdex.Hooks.WrapperShape :=\n  { deferRecover := %s, recoverSetsErr := %s, runsOnCache := %s, writeInErrNil := %s, writeElsewhere := %s }\n\n",
		b(sh.deferRecover), b(sh.recoverSetsErr), b(sh.runsOnCache), b(sh.writeInErrNil), b(sh.writeElsewhere))
	w("def blockers : List Blocker := [\n")
	for i, bl := range blocks {
		ts := make([]string, len(bl.top))
		for j, t := range bl.top {
			ts[j] = q(t)
		}
		sep := ","
		if i == len(blocks)-1 {
			sep = ""
		}
		w("  ⟨%s, %s, [%s]⟩%s\n", q(bl.name), q(bl.file), strings.Join(ts, ", "), sep)
	}
	w("]\n\ndef units : List UnitSite := [\n")
	for i, u := range units {
		sep := ","
		if i == len(units)-1 {
			sep = ""
		}
		inFn := u.fn
		if i := strings.LastIndex(inFn, ">"); i >= 0 {
			inFn = inFn[i+1:]
		}
		uf := unitFacts[u.pos]
		in := make([]string, len(u.inner))
		for j, x := range u.inner {
			in[j] = q(x)
		}
		w("  ⟨%s, %s, %s, %d, %s, %s, %s, %s, %s, [%s]⟩%s\n", q(u.blocker), q(u.fn), q(inFn), u.nest, b(u.loop), q(u.pos), b(uf[0]), b(uf[1]), q(u.loopOver),
			strings.Join(in, ", "), sep)
	}
	w("]\n\n")
	// entries: split into the unwrapped ones (the obligations range over these) and the wrapped ones
	var un, wr []entry
	for _, e := range entries {
		if e.wrapped {
			wr = append(wr, e)
		} else {
			un = append(un, e)
		}
	}
	emit := func(name string, es []entry) {
		w("def %s : List Entry := [\n", name)
		for i, e := range es {
			sep := ","
			if i == len(es)-1 {
				sep = ""
			}
			inFn := e.fn
			if i := strings.LastIndex(inFn, ">"); i >= 0 {
				inFn = inFn[i+1:]
			}
			w("  ⟨%s, %s, %s, %s, %s, %s, %s, %s⟩%s\n", q(e.blocker), q(e.fn), q(inFn), q(e.kind), q(e.callee), b(e.wrapped), b(e.loop), q(e.pos), sep)
		}
		w("]\n\n")
	}
	w("def sliceFacts : List SliceFact := [\n")
	for i, f := range sliceFacts {
		sep := ","
		if i == len(sliceFacts)-1 {
			sep = ""
		}
		inFn := f.fn
		if j := strings.LastIndex(inFn, ">"); j >= 0 {
			inFn = inFn[j+1:]
		}
		var ss []string
		for _, x := range f.sources {
			ss = append(ss, fmt.Sprintf("⟨%s, %s⟩", q(x.callee), b(x.sameLoop)))
		}
		w("  ⟨%s, %s, %s, %s, %s, [%s], %s⟩%s\n", q(f.blocker), q(inFn), q(f.expr), q(f.listSrc), b(f.listSameLoop), strings.Join(ss, ", "), q(f.pos), sep)
	}
	w("]\n\n")
	w("def errorSites : List ErrSite := [\n")
	for i, e := range errSites {
		sep := ","
		if i == len(errSites)-1 {
			sep = ""
		}
		inFn := e.fn
		if j := strings.LastIndex(inFn, ">"); j >= 0 {
			inFn = inFn[j+1:]
		}
		w("  ⟨%s, %s, %s, %s, %s, %s, %s⟩%s\n", q(e.blocker), q(e.fn), q(inFn), q(e.unit), q(e.callee), q(e.disp), q(e.pos), sep)
	}
	w("]\n\n")
	emit("unwrapped", un)
	emit("wrappedEntries", wr)
	w("def entries : List Entry := unwrapped ++ wrappedEntries\n\n")
	w("end Comdex.Gen.Hooks\n")
	if err := os.MkdirAll(filepath.Dir(out), 0o755); err != nil {
		die("%v", err)
	}
	if err := os.WriteFile(out, []byte(sb.String()), 0o644); err != nil {
		die("%v", err)
	}
	fmt.Printf("hooks: %d blockers, %d units, %d entries (%d unwrapped), %d error sites\n", len(blocks), len(units), len(entries), len(un), len(errSites))
}
