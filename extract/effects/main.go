// Command effects reads the Go source of comdex as DATA (go/parser + go/ast only, no type checking) and writes
// lean/Comdex/Gen/Effects.lean: for every covered handler the ORDERED skeleton of its EFFECTS — what comes after the
// guards that extract/guards tabulates:
//
//	bank    a call of x/bank (SendCoins*, MintCoins, BurnCoins …); the repo's wrappers (tokenmint.MintNewTokensForApp,
//	        BurnTokensForApp, collector.GetAmountFromCollector …) are INLINED, so what is listed is the underlying bank call
//	        with the wrapper's arguments substituted
//	write   a call of a keeper function named Set* / Delete* / Update* (leaf: name + first arguments), or a direct
//	        store.Set / store.Delete inside an inlined helper
//	call    an effectful-looking call that could not be resolved in the source index (opaque)
//	guard   an `if` whose body rejects (error return / panic) met AFTER the first effect of the handler
//
// Every item carries its PATH CONDITION: the enclosing if / else / case / loop conditions with polarity, plus the negated
// conditions of earlier successful early exits (`return nil`, `continue`, `break`) of the enclosing function / loop, whether it
// sits in a loop, and whether it sits inside an ApplyFuncIfNoError / CacheContext closure.
//
// All expression texts are NORMALISED so that behaviour-preserving edits do not change them: local variables are replaced by
// their defining expressions (`depositor` -> addr(msg.From), `assetInData.Denom` -> asset.GetAsset(asset.GetPair(…).AssetIn).Denom),
// the message parameter of a MsgServer method is called `msg`, the receiver and the context argument are dropped, string
// constants of the repo's packages are resolved (`types.ModuleName` -> "vaultV1"), parameters of inlined callees are replaced by
// the caller's argument texts. Variables assigned in only one branch become ite(cond, a, b); loop-carried ones acc(x).
package main

import (
	"flag"
	"fmt"
	"go/ast"
	"go/parser"
	"go/token"
	"os"
	"path/filepath"
	"sort"
	"strconv"
	"strings"
)

// ---------------------------------------------------------------------------------------------
// source index

type FuncKey struct{ pkg, recv, name string }

type FuncInfo struct {
	key      FuncKey
	decl     *ast.FuncDecl
	file     string
	imports  map[string]string // alias -> import path
	recvName string
	retErr   bool
}

const modPath = "github.com/comdex-official/comdex/"

var (
	fset   = token.NewFileSet()
	index  = map[FuncKey]*FuncInfo{}
	consts = map[string]map[string]ast.Expr{} // rel dir -> const name -> value expr
	repo   string
	srcs   = map[string][]byte{}
)

func die(format string, a ...interface{}) {
	fmt.Fprintf(os.Stderr, "extract/effects: "+format+"\n", a...)
	os.Exit(1)
}

func recvType(fd *ast.FuncDecl) (typ, name string) {
	if fd.Recv == nil || len(fd.Recv.List) == 0 {
		return "", ""
	}
	f := fd.Recv.List[0]
	t := f.Type
	if s, ok := t.(*ast.StarExpr); ok {
		t = s.X
	}
	if id, ok := t.(*ast.Ident); ok {
		typ = id.Name
	}
	if len(f.Names) > 0 {
		name = f.Names[0].Name
	}
	return
}

func returnsError(ft *ast.FuncType) bool {
	if ft.Results == nil || len(ft.Results.List) == 0 {
		return false
	}
	last := ft.Results.List[len(ft.Results.List)-1]
	id, ok := last.Type.(*ast.Ident)
	return ok && id.Name == "error"
}

func parseDir(rel string) {
	dir := filepath.Join(repo, rel)
	ents, err := os.ReadDir(dir)
	if err != nil {
		return
	}
	for _, e := range ents {
		n := e.Name()
		if e.IsDir() || !strings.HasSuffix(n, ".go") || strings.HasSuffix(n, "_test.go") || strings.HasSuffix(n, ".pb.go") || strings.HasSuffix(n, ".pb.gw.go") {
			continue
		}
		path := filepath.Join(dir, n)
		b, err := os.ReadFile(path)
		if err != nil {
			die("read %s: %v", path, err)
		}
		srcs[path] = b
		f, err := parser.ParseFile(fset, path, b, 0)
		if err != nil {
			die("parse error: %v", err)
		}
		imps := map[string]string{}
		for _, im := range f.Imports {
			p, _ := strconv.Unquote(im.Path.Value)
			alias := filepath.Base(p)
			if strings.HasPrefix(alias, "v") && len(alias) <= 3 { // …/v2
				alias = filepath.Base(filepath.Dir(p))
			}
			if im.Name != nil {
				alias = im.Name.Name
			}
			imps[alias] = p
		}
		for _, d := range f.Decls {
			switch x := d.(type) {
			case *ast.GenDecl:
				if x.Tok != token.CONST && x.Tok != token.VAR {
					continue
				}
				for _, sp := range x.Specs {
					vs, ok := sp.(*ast.ValueSpec)
					if !ok {
						continue
					}
					for i, nm := range vs.Names {
						if i < len(vs.Values) {
							if consts[rel] == nil {
								consts[rel] = map[string]ast.Expr{}
							}
							consts[rel][nm.Name] = vs.Values[i]
						}
					}
				}
			case *ast.FuncDecl:
				if x.Body == nil {
					continue
				}
				rt, rn := recvType(x)
				k := FuncKey{rel, rt, x.Name.Name}
				index[k] = &FuncInfo{key: k, decl: x, file: filepath.Join(rel, n), imports: imps, recvName: rn, retErr: returnsError(x.Type)}
			}
		}
	}
}

// string constant `name` of package dir `rel` ("" if it is not a string constant)
func constString(rel, name string, depth int) (string, bool) {
	m := consts[rel]
	if m == nil || depth > 4 {
		return "", false
	}
	e, ok := m[name]
	if !ok {
		return "", false
	}
	switch v := e.(type) {
	case *ast.BasicLit:
		if v.Kind == token.STRING {
			s, err := strconv.Unquote(v.Value)
			if err == nil {
				return s, true
			}
		}
	case *ast.Ident:
		return constString(rel, v.Name, depth+1)
	}
	return "", false
}

var fieldModule = map[string]string{
	"oracle": "market", "auctionsv2": "auctionsV2", "liquidationsv2": "liquidationsV2", "newliq": "liquidationsV2", "newauc": "auctionsV2",
	"tokenmint": "tokenmint", "mint": "tokenmint",
}

func moduleOfField(field string) string {
	f := strings.ToLower(field)
	f = strings.TrimSuffix(f, "keeper")
	if m, ok := fieldModule[f]; ok {
		return m
	}
	return f
}

func selChain(e ast.Expr) []string {
	switch x := e.(type) {
	case *ast.Ident:
		return []string{x.Name}
	case *ast.SelectorExpr:
		c := selChain(x.X)
		if c == nil {
			return nil
		}
		return append(c, x.Sel.Name)
	case *ast.ParenExpr:
		return selChain(x.X)
	}
	return nil
}

func isParamName(ft *ast.FuncType, name string) bool {
	for _, p := range ft.Params.List {
		for _, n := range p.Names {
			if n.Name == name {
				return true
			}
		}
	}
	return false
}

// resolve a call to a function of the index (or nil)
func resolve(call *ast.CallExpr, cur *FuncInfo) *FuncInfo {
	switch f := call.Fun.(type) {
	case *ast.Ident:
		return index[FuncKey{cur.key.pkg, "", f.Name}]
	case *ast.SelectorExpr:
		name := f.Sel.Name
		ch := selChain(f.X)
		if len(ch) == 0 {
			return nil
		}
		if ch[0] == cur.recvName && cur.recvName != "" {
			if len(ch) == 1 {
				for _, r := range []string{cur.key.recv, "Keeper", "msgServer"} {
					if fi := index[FuncKey{cur.key.pkg, r, name}]; fi != nil {
						return fi
					}
				}
				return nil
			}
			field := ch[len(ch)-1]
			if strings.ToLower(field) == "keeper" {
				return index[FuncKey{cur.key.pkg, "Keeper", name}]
			}
			return index[FuncKey{"x/" + moduleOfField(field) + "/keeper", "Keeper", name}]
		}
		if len(ch) == 1 {
			// package-qualified function
			if p, ok := cur.imports[ch[0]]; ok && strings.HasPrefix(p, modPath) {
				return index[FuncKey{strings.TrimPrefix(p, modPath), "", name}]
			}
			// a parameter of keeper type, recognised by its name (…Keeper / k)
			if isParamName(cur.decl.Type, ch[0]) {
				lc := strings.ToLower(ch[0])
				if strings.HasSuffix(lc, "keeper") {
					return index[FuncKey{"x/" + moduleOfField(ch[0]) + "/keeper", "Keeper", name}]
				}
				if lc == "k" {
					// abci.go style: k keeper.Keeper of the module the file belongs to
					return index[FuncKey{cur.key.pkg + "/keeper", "Keeper", name}]
				}
			}
		}
	}
	return nil
}

// ---------------------------------------------------------------------------------------------
// classification of calls

var bankEffects = map[string]bool{
	"SendCoins": true, "SendCoinsFromModuleToAccount": true, "SendCoinsFromAccountToModule": true, "SendCoinsFromModuleToModule": true,
	"MintCoins": true, "BurnCoins": true, "DelegateCoins": true, "UndelegateCoins": true, "DelegateCoinsFromAccountToModule": true,
	"UndelegateCoinsFromModuleToAccount": true, "InputOutputCoins": true,
}

var bankReads = map[string]bool{
	"GetBalance": true, "GetAllBalances": true, "SpendableCoins": true, "GetSupply": true, "HasBalance": true, "HasSupply": true,
	"LockedCoins": true, "BlockedAddr": true, "IsSendEnabledCoin": true, "IsSendEnabledCoins": true, "GetDenomMetaData": true,
	"IterateAllBalances": true, "IterateAccountBalances": true, "GetPaginatedTotalSupply": true, "SpendableCoin": true,
}

func isBankSel(se *ast.SelectorExpr) bool {
	for _, c := range selChain(se.X) {
		if strings.Contains(strings.ToLower(c), "bank") {
			return true
		}
	}
	return false
}

func bankCall(call *ast.CallExpr) (string, bool) {
	se, ok := call.Fun.(*ast.SelectorExpr)
	if !ok || !isBankSel(se) {
		return "", false
	}
	if bankEffects[se.Sel.Name] {
		return se.Sel.Name, true
	}
	if !bankReads[se.Sel.Name] {
		die("%s: bank call %s is neither a known effect nor a known read", fset.Position(call.Pos()), se.Sel.Name)
	}
	return "", false
}

func storeWrite(call *ast.CallExpr) (string, bool) {
	se, ok := call.Fun.(*ast.SelectorExpr)
	if !ok {
		return "", false
	}
	name := se.Sel.Name
	if name == "Set" || name == "Delete" {
		switch r := se.X.(type) {
		case *ast.Ident:
			if strings.Contains(strings.ToLower(r.Name), "store") {
				return "store." + name, true
			}
		case *ast.CallExpr:
			if s2, ok := r.Fun.(*ast.SelectorExpr); ok {
				if s2.Sel.Name == "Store" || s2.Sel.Name == "KVStore" || s2.Sel.Name == "NewStore" {
					return "store." + name, true
				}
			}
		}
	}
	if name == "SetParamSet" {
		return "params.SetParamSet", true
	}
	return "", false
}

func isWriteName(n string) bool {
	return strings.HasPrefix(n, "Set") || strings.HasPrefix(n, "Delete") || strings.HasPrefix(n, "Update")
}

func moduleOfPkg(pkg string) string {
	parts := strings.Split(pkg, "/")
	if len(parts) >= 2 && parts[0] == "x" {
		return parts[1]
	}
	return pkg
}

func calleeName(call *ast.CallExpr) string {
	switch f := call.Fun.(type) {
	case *ast.Ident:
		return f.Name
	case *ast.SelectorExpr:
		return f.Sel.Name
	}
	return ""
}

// 0 unknown, 1 in progress, 2 no, 3 yes
var effMemo = map[FuncKey]int{}
var bankMemo = map[FuncKey]int{}

func reaches(fi *FuncInfo, memo map[FuncKey]int, direct func(*ast.CallExpr, *FuncInfo) bool) bool {
	switch memo[fi.key] {
	case 1, 2:
		return false
	case 3:
		return true
	}
	memo[fi.key] = 1
	res := false
	ast.Inspect(fi.decl.Body, func(n ast.Node) bool {
		if res {
			return false
		}
		if c, ok := n.(*ast.CallExpr); ok {
			if direct(c, fi) {
				res = true
				return false
			}
			if g := resolve(c, fi); g != nil && reaches(g, memo, direct) {
				res = true
				return false
			}
		}
		return true
	})
	if res {
		memo[fi.key] = 3
	} else {
		memo[fi.key] = 2
	}
	return res
}

func hasBank(fi *FuncInfo) bool {
	return reaches(fi, bankMemo, func(c *ast.CallExpr, _ *FuncInfo) bool { _, ok := bankCall(c); return ok })
}

func hasEffects(fi *FuncInfo) bool {
	return reaches(fi, effMemo, func(c *ast.CallExpr, cur *FuncInfo) bool {
		if _, ok := bankCall(c); ok {
			return true
		}
		if _, ok := storeWrite(c); ok {
			return true
		}
		if isWriteName(calleeName(c)) && takesCtx(c) {
			return true
		}
		return false
	})
}

func isCtxName(n string) bool {
	l := strings.ToLower(n)
	return l == "c" || strings.HasSuffix(l, "ctx") || l == "context"
}

func takesCtx(c *ast.CallExpr) bool {
	if len(c.Args) == 0 {
		return false
	}
	id, ok := c.Args[0].(*ast.Ident)
	return ok && isCtxName(id.Name)
}

// ---------------------------------------------------------------------------------------------
// symbolic values

type Val struct {
	text   string
	fields map[string]string
	fn     string // "coin" | "coins" when the value is such a constructor call
	argv   []*Val
}

const capMid = 1500 // cap of intermediate texts (the printed fields are clipped further)

type Env struct {
	vars  map[string]*Val
	cache map[string]bool // identifiers bound to a cache context
}

func newEnv() *Env { return &Env{vars: map[string]*Val{}, cache: map[string]bool{}} }

func (e *Env) clone() *Env {
	n := newEnv()
	for k, v := range e.vars {
		n.vars[k] = v
	}
	for k, v := range e.cache {
		n.cache[k] = v
	}
	return n
}

func (e *Env) set(name string, v *Val) {
	// a new value of x forgets the field overrides x.F
	for k := range e.vars {
		if strings.HasPrefix(k, name+".") {
			delete(e.vars, k)
		}
	}
	e.vars[name] = v
}

func mergeEnv(cond string, a, b *Env) *Env {
	n := newEnv()
	keys := map[string]bool{}
	for k := range a.vars {
		keys[k] = true
	}
	for k := range b.vars {
		keys[k] = true
	}
	for k := range keys {
		va, vb := a.vars[k], b.vars[k]
		switch {
		case va == nil:
			n.vars[k] = vb
		case vb == nil:
			n.vars[k] = va
		case va.text == vb.text:
			n.vars[k] = va
		default:
			n.vars[k] = &Val{text: clip("ite("+cond+", "+va.text+", "+vb.text+")", capMid)}
		}
	}
	for k := range a.cache {
		n.cache[k] = true
	}
	for k := range b.cache {
		n.cache[k] = true
	}
	return n
}

// clipMid shortens a long text for the table: head … 8 hex digits of the FNV-1a hash of the WHOLE text … tail. A change anywhere
// in the text changes the printed form; the kernel compares short strings only.
// abstractText keeps the outer structure of a normalised expression and elides the argument lists of calls nested deeper
// than one level: lend.GetPool(lend.GetLend(lend.GetBorrow(msg.BorrowId).LendingID).PoolID).ModuleName becomes
// lend.GetPool(lend.GetLend(…).PoolID).ModuleName. Short, few distinct values: what pattern role tables match on.
func abstractText(t string) string {
	var b strings.Builder
	depth := 0
	for _, r := range t {
		switch r {
		case '(', '[', '{':
			depth++
			if depth <= 2 {
				b.WriteRune(r)
			}
			if depth == 2 {
				b.WriteRune('…')
			}
			continue
		case ')', ']', '}':
			if depth <= 2 {
				b.WriteRune(r)
			}
			depth--
			continue
		}
		if depth <= 1 {
			b.WriteRune(r)
		}
	}
	// an empty argument list stays empty
	out := b.String()
	for _, e := range [][2]string{{"(…)", "()"}} {
		_ = e
	}
	return out
}

func fnv32(s string) uint32 {
	h := uint32(2166136261)
	for _, b := range []byte(s) {
		h ^= uint32(b)
		h *= 16777619
	}
	return h
}

func clipMid(s string, n int) string {
	r := []rune(s)
	if len(r) <= n {
		return s
	}
	h := fnv32(s)
	head, tail := n*3/5, n*2/5-12
	return string(r[:head]) + fmt.Sprintf("…%08x…", h) + string(r[len(r)-tail:])
}

func clip(s string, n int) string {
	r := []rune(s)
	if len(r) > n {
		return string(r[:n]) + "…"
	}
	return s
}

// ---------------------------------------------------------------------------------------------
// items

type Cond struct {
	kind string // if | case | loop | exit | continue | break | closure
	pol  bool
	text string
}

type Item struct {
	kind, op                string
	src, dst, denom, amount string
	args                    []string
	conds                   []Cond
	inLoop, cache           bool
	fn                      string
	line                    int
}

type Escape struct {
	kind string // exit | continue | break
	path []Cond
}

type frame struct {
	fi      *FuncInfo
	ft      *ast.FuncType
	env     *Env
	retErr  bool
	inLoop  bool
	cache   bool
	msgName string
}

type walker struct {
	valueDepth int
	items      []Item
	stack      []FuncKey
	sawEffect  bool
	handlerKey string
}

const maxDepth = 7

func line(n ast.Node) int { return fset.Position(n.Pos()).Line }

func srcText(n ast.Node) string {
	p := fset.Position(n.Pos())
	e := fset.Position(n.End())
	b := srcs[p.Filename]
	if b == nil || e.Offset > len(b) {
		return "?"
	}
	return strings.Join(strings.Fields(string(b[p.Offset:e.Offset])), " ")
}

// ---------------------------------------------------------------------------------------------
// normalisation of expressions

var wellKnownPkgs = map[string]string{
	"github.com/cosmos/cosmos-sdk/types":        "sdk",
	"github.com/cosmos/cosmos-sdk/types/errors": "sdkerrors",
	"github.com/cosmos/cosmos-sdk/x/auth/types": "authtypes",
	"github.com/cosmos/cosmos-sdk/x/bank/types": "banktypes",
	"cosmossdk.io/errors":                       "errors",
	"cosmossdk.io/math":                         "math",
}

func pkgCanon(path string) string {
	if n, ok := wellKnownPkgs[path]; ok {
		return n
	}
	if strings.HasPrefix(path, modPath) {
		p := strings.TrimPrefix(path, modPath)
		p = strings.TrimPrefix(p, "x/")
		return p
	}
	return filepath.Base(path)
}

func (w *walker) normArgs(fr *frame, args []ast.Expr) []string {
	var out []string
	for _, a := range args {
		t := w.norm(fr, a)
		if t == "ctx" {
			continue
		}
		out = append(out, t)
	}
	return out
}

func (w *walker) norm(fr *frame, e ast.Expr) string {
	switch x := e.(type) {
	case nil:
		return ""
	case *ast.Ident:
		if v, ok := fr.env.vars[x.Name]; ok {
			return v.text
		}
		if x.Name == fr.fi.recvName && fr.fi.recvName != "" {
			return "k"
		}
		if s, ok := constString(fr.fi.key.pkg, x.Name, 0); ok {
			return strconv.Quote(s)
		}
		return x.Name
	case *ast.ParenExpr:
		return "(" + w.norm(fr, x.X) + ")"
	case *ast.BasicLit:
		return x.Value
	case *ast.StarExpr:
		return w.norm(fr, x.X)
	case *ast.UnaryExpr:
		if x.Op == token.AND {
			return w.norm(fr, x.X)
		}
		return x.Op.String() + w.norm(fr, x.X)
	case *ast.BinaryExpr:
		return w.norm(fr, x.X) + " " + x.Op.String() + " " + w.norm(fr, x.Y)
	case *ast.SelectorExpr:
		if ch := selChain(x); ch != nil {
			key := strings.Join(ch, ".")
			if v, ok := fr.env.vars[key]; ok {
				return v.text
			}
			if len(ch) == 2 {
				if _, isVar := fr.env.vars[ch[0]]; !isVar {
					if p, ok := fr.fi.imports[ch[0]]; ok {
						if strings.HasPrefix(p, modPath) {
							if s, ok := constString(strings.TrimPrefix(p, modPath), ch[1], 0); ok {
								return strconv.Quote(s)
							}
						}
						return pkgCanon(p) + "." + ch[1]
					}
				}
				if v, ok := fr.env.vars[ch[0]]; ok && v.fields != nil {
					if t, ok := v.fields[ch[1]]; ok {
						return t
					}
				}
			}
			// drop the receiver and its embedded keeper: k.bank.X -> bank.X, k.Keeper.X -> X, k.X -> X
			if ch[0] == fr.fi.recvName && fr.fi.recvName != "" {
				rest := ch[1:]
				for len(rest) > 1 && strings.ToLower(rest[0]) == "keeper" {
					rest = rest[1:]
				}
				return strings.Join(rest, ".")
			}
		}
		base := w.norm(fr, x.X)
		if x.Sel.Name == "Denom" || x.Sel.Name == "Amount" {
			if fn, a, ok := splitCall(base); ok && fn == "coin" && len(a) == 2 {
				if x.Sel.Name == "Denom" {
					return a[0]
				}
				return a[1]
			}
		}
		return base + "." + x.Sel.Name
	case *ast.IndexExpr:
		return w.norm(fr, x.X) + "[" + w.norm(fr, x.Index) + "]"
	case *ast.SliceExpr:
		return w.norm(fr, x.X) + "[" + w.norm(fr, x.Low) + ":" + w.norm(fr, x.High) + "]"
	case *ast.TypeAssertExpr:
		return w.norm(fr, x.X) + ".(" + srcText(x.Type) + ")"
	case *ast.CompositeLit:
		var parts []string
		for _, el := range x.Elts {
			if kv, ok := el.(*ast.KeyValueExpr); ok {
				parts = append(parts, srcText(kv.Key)+": "+w.norm(fr, kv.Value))
			} else {
				parts = append(parts, w.norm(fr, el))
			}
		}
		tn := ""
		if x.Type != nil {
			tn = srcText(x.Type)
			if i := strings.LastIndex(tn, "."); i >= 0 {
				tn = tn[i+1:]
			}
		}
		if tn == "Coins" {
			return "coins(" + strings.Join(parts, ", ") + ")"
		}
		return tn + "{" + strings.Join(parts, ", ") + "}"
	case *ast.FuncLit:
		return "func"
	case *ast.CallExpr:
		if sub, re, ok := w.inlineValue(fr, x); ok {
			w.valueDepth++
			t := w.norm(sub, re)
			w.valueDepth--
			return t
		}
		args := w.normArgs(fr, x.Args)
		fn := w.norm(fr, x.Fun)
		if se, ok := x.Fun.(*ast.SelectorExpr); ok {
			// a keeper method is named by the module that owns it: k.GetVault in x/vault and k.vault.GetVault elsewhere agree
			if ch := selChain(se.X); len(ch) >= 1 && ch[0] == fr.fi.recvName && fr.fi.recvName != "" && strings.HasPrefix(fr.fi.key.pkg, "x/") {
				own := strings.Split(fr.fi.key.pkg, "/")[1]
				switch {
				case len(ch) == 1 || strings.ToLower(ch[len(ch)-1]) == "keeper":
					fn = own + "." + se.Sel.Name
				default:
					fn = moduleOfField(ch[len(ch)-1]) + "." + se.Sel.Name
				}
			}
		}
		switch fn {
		case "sdk.AccAddressFromBech32", "sdk.MustAccAddressFromBech32":
			return "addr(" + strings.Join(args, ", ") + ")"
		case "sdk.NewCoins":
			return "coins(" + strings.Join(args, ", ") + ")"
		case "sdk.NewCoin":
			return "coin(" + strings.Join(args, ", ") + ")"
		case "sdk.ZeroInt":
			return "0"
		case "sdk.OneInt":
			return "1"
		case "sdk.NewInt", "sdk.NewIntFromUint64":
			return strings.Join(args, ", ")
		case "authtypes.NewModuleAddress":
			return "modaddr(" + strings.Join(args, ", ") + ")"
		case "sdk.UnwrapSDKContext":
			return "ctx"
		}
		return fn + "(" + strings.Join(args, ", ") + ")"
	case *ast.KeyValueExpr:
		return srcText(x.Key) + ": " + w.norm(fr, x.Value)
	case *ast.ArrayType, *ast.MapType, *ast.FuncType, *ast.InterfaceType, *ast.StructType, *ast.ChanType, *ast.Ellipsis:
		return srcText(e)
	}
	die("%s: expression form %T not handled", fset.Position(e.Pos()), e)
	return ""
}

// a call of a small pure helper of the repo (straight-line body: assignments, then `return <one expression>`, no effects)
// is replaced by the value it returns, with the arguments substituted: ReturnCoin(ctx, id, amt) -> coin(asset.GetAsset(id).Denom, amt)
func (w *walker) inlineValue(fr *frame, call *ast.CallExpr) (*frame, ast.Expr, bool) {
	if w.valueDepth >= 3 {
		return nil, nil, false
	}
	g := resolve(call, fr.fi)
	if g == nil || hasEffects(g) || len(g.decl.Body.List) == 0 || len(g.decl.Body.List) > 4 {
		return nil, nil, false
	}
	if g.decl.Type.Results == nil || len(g.decl.Type.Results.List) != 1 || len(g.decl.Type.Results.List[0].Names) > 1 {
		return nil, nil, false
	}
	stmts := g.decl.Body.List
	ret, ok := stmts[len(stmts)-1].(*ast.ReturnStmt)
	if !ok || len(ret.Results) != 1 {
		return nil, nil, false
	}
	for _, st := range stmts[:len(stmts)-1] {
		as, ok := st.(*ast.AssignStmt)
		if !ok || as.Tok != token.DEFINE {
			return nil, nil, false
		}
	}
	sub := &frame{fi: g, ft: g.decl.Type, env: newEnv(), retErr: g.retErr}
	i := 0
	for _, p := range g.decl.Type.Params.List {
		if len(p.Names) == 0 {
			i++
			continue
		}
		for _, n := range p.Names {
			if i < len(call.Args) {
				sub.env.set(n.Name, w.valOf(fr, call.Args[i]))
			}
			i++
		}
	}
	w.valueDepth++
	for _, st := range stmts[:len(stmts)-1] {
		as := st.(*ast.AssignStmt)
		w.assign(sub, as.Lhs, as.Rhs, as.Tok)
	}
	w.valueDepth--
	return sub, ret.Results[0], true
}

func (w *walker) valOf(fr *frame, e ast.Expr) *Val {
	switch x := e.(type) {
	case *ast.UnaryExpr:
		if x.Op == token.AND {
			return w.valOf(fr, x.X)
		}
	case *ast.ParenExpr:
		return w.valOf(fr, x.X)
	case *ast.Ident:
		if v, ok := fr.env.vars[x.Name]; ok {
			// collect the field overrides x.F into the value handed on
			var f map[string]string
			for k, fv := range fr.env.vars {
				if strings.HasPrefix(k, x.Name+".") && !strings.Contains(k[len(x.Name)+1:], ".") {
					if f == nil {
						f = map[string]string{}
						for a, b := range v.fields {
							f[a] = b
						}
					}
					f[k[len(x.Name)+1:]] = fv.text
				}
			}
			if f != nil {
				return &Val{text: v.text, fields: f}
			}
			return v
		}
	case *ast.CompositeLit:
		v := &Val{text: clip(w.norm(fr, e), capMid)}
		for _, el := range x.Elts {
			if kv, ok := el.(*ast.KeyValueExpr); ok {
				if id, ok := kv.Key.(*ast.Ident); ok {
					if v.fields == nil {
						v.fields = map[string]string{}
					}
					v.fields[id.Name] = w.norm(fr, kv.Value)
				}
			}
		}
		return v
	}
	if ce, ok := e.(*ast.CallExpr); ok {
		if sub, re, ok := w.inlineValue(fr, ce); ok {
			w.valueDepth++
			v := w.valOf(sub, re)
			w.valueDepth--
			return v
		}
		switch w.norm(fr, ce.Fun) {
		case "sdk.NewCoin":
			v := &Val{text: clip(w.norm(fr, e), capMid), fn: "coin"}
			for _, a := range ce.Args {
				v.argv = append(v.argv, w.valOf(fr, a))
			}
			return v
		case "sdk.NewCoins":
			v := &Val{text: clip(w.norm(fr, e), capMid), fn: "coins"}
			for _, a := range ce.Args {
				v.argv = append(v.argv, w.valOf(fr, a))
			}
			return v
		}
	}
	return &Val{text: clip(w.norm(fr, e), capMid)}
}

// text of an argument of a write: the value plus the names of the fields updated since it was read
func (w *walker) writeArg(fr *frame, e ast.Expr) string {
	t := w.norm(fr, e)
	if id, ok := e.(*ast.Ident); ok {
		var fs []string
		for k := range fr.env.vars {
			if strings.HasPrefix(k, id.Name+".") {
				fs = append(fs, "+"+k[len(id.Name)+1:])
			}
		}
		if len(fs) > 0 {
			sort.Strings(fs)
			t += "{" + strings.Join(fs, ",") + "}"
		}
	}
	return clipMid(t, 120)
}

// split "f(a, g(b, c), d)" into f and [a, g(b, c), d]
func splitCall(t string) (string, []string, bool) {
	i := strings.Index(t, "(")
	if i <= 0 || !strings.HasSuffix(t, ")") {
		return "", nil, false
	}
	fn := t[:i]
	if strings.ContainsAny(fn, " {[") {
		return "", nil, false
	}
	body := t[i+1 : len(t)-1]
	var args []string
	depth, start := 0, 0
	for j, r := range body {
		switch r {
		case '(', '[', '{':
			depth++
		case ')', ']', '}':
			depth--
			if depth < 0 {
				return "", nil, false
			}
		case ',':
			if depth == 0 {
				args = append(args, strings.TrimSpace(body[start:j]))
				start = j + 1
			}
		}
	}
	if depth != 0 {
		return "", nil, false
	}
	if s := strings.TrimSpace(body[start:]); s != "" || len(args) > 0 {
		args = append(args, s)
	}
	return fn, args, true
}

func coinPartsVal(v *Val) (denom, amount string) {
	one := func(c *Val) (string, string) {
		if c.fn == "coin" && len(c.argv) == 2 {
			return c.argv[0].text, c.argv[1].text
		}
		if fn, a, ok := splitCall(c.text); ok && fn == "coin" && len(a) == 2 {
			return a[0], a[1]
		}
		return c.text + ".Denom", c.text + ".Amount"
	}
	if v.fn == "coins" && len(v.argv) >= 1 {
		var ds, as []string
		for _, c := range v.argv {
			d, m := one(c)
			ds = append(ds, d)
			as = append(as, m)
		}
		return strings.Join(ds, " + "), strings.Join(as, " + ")
	}
	return coinParts(v.text)
}

func coinParts(t string) (denom, amount string) {
	one := func(c string) (string, string) {
		if fn, a, ok := splitCall(c); ok && fn == "coin" && len(a) == 2 {
			return a[0], a[1]
		}
		return c + ".Denom", c + ".Amount"
	}
	if fn, a, ok := splitCall(t); ok && fn == "coins" && len(a) >= 1 {
		var ds, as []string
		for _, c := range a {
			d, m := one(c)
			ds = append(ds, d)
			as = append(as, m)
		}
		return strings.Join(ds, " + "), strings.Join(as, " + ")
	}
	return "denoms(" + t + ")", "amounts(" + t + ")"
}

// ---------------------------------------------------------------------------------------------
// walking

func (w *walker) emit(fr *frame, conds []Cond, it Item, at ast.Node) {
	it.conds = append([]Cond{}, conds...)
	it.inLoop = fr.inLoop
	it.cache = fr.cache
	it.fn = fr.fi.key.name
	it.line = line(at)
	for _, c := range conds {
		if c.kind == "loop" {
			it.inLoop = true
		}
	}
	if it.kind != "guard" {
		w.sawEffect = true
	}
	w.items = append(w.items, it)
}

func (w *walker) bankItem(fr *frame, conds []Cond, call *ast.CallExpr, op string) {
	args := w.normArgs(fr, call.Args)
	it := Item{kind: "bank", op: op}
	get := func(i int) string {
		if i < len(args) {
			return args[i]
		}
		return "?"
	}
	coins := ""
	var coinsVal *Val
	var nonCtx []ast.Expr
	for _, a := range call.Args {
		if w.norm(fr, a) != "ctx" {
			nonCtx = append(nonCtx, a)
		}
	}
	coinIdx := 2
	if op == "MintCoins" || op == "BurnCoins" {
		coinIdx = 1
	}
	if coinIdx < len(nonCtx) {
		coinsVal = w.valOf(fr, nonCtx[coinIdx])
	}
	switch op {
	case "SendCoins", "SendCoinsFromModuleToAccount", "SendCoinsFromAccountToModule", "SendCoinsFromModuleToModule",
		"DelegateCoins", "UndelegateCoins", "DelegateCoinsFromAccountToModule", "UndelegateCoinsFromModuleToAccount":
		it.src, it.dst, coins = get(0), get(1), get(2)
	case "MintCoins":
		it.dst, coins = get(0), get(1)
	case "BurnCoins":
		it.src, coins = get(0), get(1)
	default:
		it.src, it.dst, coins = get(0), get(1), get(2)
	}
	if coinsVal != nil {
		it.denom, it.amount = coinPartsVal(coinsVal)
	} else {
		it.denom, it.amount = coinParts(coins)
	}
	// a positivity test of the item's own amount among the enclosing conditions is marked as such
	conds = append([]Cond{}, conds...)
	for i, c := range conds {
		if c.kind == "if" && c.pol {
			a := it.amount
			if c.text == a+".GT(0)" || c.text == a+".IsPositive()" || c.text == "!"+a+".IsZero()" || c.text == a+" > 0" {
				conds[i].kind = "pos"
			}
		}
	}
	if id, ok := firstArgIdent(call); ok && fr.env.cache[id] {
		it.cache = true
	}
	w.emit(fr, conds, it, call)
}

func firstArgIdent(call *ast.CallExpr) (string, bool) {
	if len(call.Args) == 0 {
		return "", false
	}
	id, ok := call.Args[0].(*ast.Ident)
	if !ok {
		return "", false
	}
	return id.Name, true
}

var readPrefixes = []string{"Get", "Has", "Is", "Calc", "Check", "Validate", "Verify", "Query", "Iterate", "Must", "Logger", "Module", "Amount", "Wasm", "Spendable"}

func looksLikeRead(n string) bool {
	for _, p := range readPrefixes {
		if strings.HasPrefix(n, p) {
			return true
		}
	}
	return false
}

// every call met in evaluation order
func (w *walker) handleCall(fr *frame, conds []Cond, call *ast.CallExpr) {
	// closures handed to the callee
	name := calleeName(call)
	var lits []*ast.FuncLit
	for _, a := range call.Args {
		if fl, ok := a.(*ast.FuncLit); ok {
			lits = append(lits, fl)
		}
	}
	if op, ok := bankCall(call); ok {
		w.bankItem(fr, conds, call, op)
		return
	}
	if op, ok := storeWrite(call); ok {
		it := Item{kind: "write", op: op}
		for _, a := range call.Args {
			it.args = append(it.args, clipMid(w.norm(fr, a), 120))
		}
		w.emit(fr, conds, it, call)
		return
	}
	if name == "ApplyFuncIfNoError" && len(lits) == 1 {
		w.walkClosure(fr, conds, lits[0], true, "")
		return
	}
	g := resolve(call, fr.fi)
	if g != nil {
		switch {
		case isWriteName(name) && !hasBank(g):
			it := Item{kind: "write", op: moduleOfPkg(g.key.pkg) + "." + name}
			for i, a := range call.Args {
				if id, ok := a.(*ast.Ident); ok && isCtxName(id.Name) {
					continue
				}
				if len(it.args) >= 4 {
					it.args = append(it.args, "…")
					break
				}
				_ = i
				it.args = append(it.args, w.writeArg(fr, a))
			}
			if id, ok := firstArgIdent(call); ok && fr.env.cache[id] {
				it.cache = true
			}
			w.emit(fr, conds, it, call)
		case hasEffects(g):
			w.inline(fr, conds, call, g)
		}
		for _, fl := range lits {
			w.walkClosure(fr, conds, fl, false, name)
		}
		return
	}
	for _, fl := range lits {
		w.walkClosure(fr, conds, fl, false, name)
	}
	// unresolved: a call through another keeper (or an SDK keeper) that takes the context
	if se, ok := call.Fun.(*ast.SelectorExpr); ok && takesCtx(call) {
		ch := selChain(se.X)
		if len(ch) >= 2 && ch[0] == fr.fi.recvName || len(ch) == 1 && isParamName(fr.ft, ch[0]) && strings.HasSuffix(strings.ToLower(ch[0]), "keeper") {
			if isWriteName(name) {
				it := Item{kind: "write", op: moduleOfField(ch[len(ch)-1]) + "." + name, args: w.clipAll(w.normArgs(fr, call.Args), 4)}
				w.emit(fr, conds, it, call)
				return
			}
			if !looksLikeRead(name) {
				it := Item{kind: "call", op: strings.TrimPrefix(strings.Join(ch[1:], ".")+"."+name, "."), args: w.clipAll(w.normArgs(fr, call.Args), 4)}
				w.emit(fr, conds, it, call)
			}
		}
	}
}

func (w *walker) clipAll(a []string, n int) []string {
	var out []string
	for i, s := range a {
		if i >= n {
			out = append(out, "…")
			break
		}
		out = append(out, clipMid(s, 120))
	}
	return out
}

func (w *walker) walkClosure(fr *frame, conds []Cond, fl *ast.FuncLit, cache bool, callee string) {
	sub := &frame{fi: fr.fi, ft: fl.Type, env: fr.env.clone(), retErr: returnsError(fl.Type), inLoop: fr.inLoop, cache: fr.cache || cache, msgName: fr.msgName}
	for _, p := range fl.Type.Params.List {
		for _, n := range p.Names {
			if isCtxName(n.Name) {
				sub.env.set(n.Name, &Val{text: "ctx"})
			} else {
				sub.env.set(n.Name, &Val{text: "each(" + callee + ")." + n.Name})
			}
		}
	}
	c := conds
	if !cache {
		c = append(append([]Cond{}, conds...), Cond{kind: "loop", pol: true, text: "callback of " + callee})
	}
	w.walkBlock(sub, fl.Body.List, c)
}

func (w *walker) inline(fr *frame, conds []Cond, call *ast.CallExpr, g *FuncInfo) {
	for _, k := range w.stack {
		if k == g.key {
			w.emit(fr, conds, Item{kind: "call", op: pkgCanon(modPath+g.key.pkg) + "." + g.key.name + " (recursive)"}, call)
			return
		}
	}
	if len(w.stack) >= maxDepth {
		w.emit(fr, conds, Item{kind: "call", op: pkgCanon(modPath+g.key.pkg) + "." + g.key.name + " (depth limit)", args: w.clipAll(w.normArgs(fr, call.Args), 4)}, call)
		return
	}
	sub := &frame{fi: g, ft: g.decl.Type, env: newEnv(), retErr: g.retErr, inLoop: fr.inLoop, cache: fr.cache}
	for _, c := range conds {
		if c.kind == "loop" {
			sub.inLoop = true
		}
	}
	if id, ok := firstArgIdent(call); ok && fr.env.cache[id] {
		sub.cache = true
	}
	i := 0
	for _, p := range g.decl.Type.Params.List {
		names := p.Names
		if len(names) == 0 {
			i++
			continue
		}
		for _, n := range names {
			if i < len(call.Args) {
				v := w.valOf(fr, call.Args[i])
				sub.env.set(n.Name, v)
			}
			i++
		}
	}
	// named results start as their zero values under their own names
	w.stack = append(w.stack, g.key)
	w.walkBlock(sub, g.decl.Body.List, conds)
	w.stack = w.stack[:len(w.stack)-1]
}

// visit every call of an expression in evaluation order (arguments first)
func (w *walker) visitExpr(fr *frame, conds []Cond, e ast.Node) {
	if e == nil {
		return
	}
	switch x := e.(type) {
	case *ast.CallExpr:
		w.visitExpr(fr, conds, x.Fun)
		for _, a := range x.Args {
			if _, isLit := a.(*ast.FuncLit); !isLit {
				w.visitExpr(fr, conds, a)
			}
		}
		w.handleCall(fr, conds, x)
		return
	case *ast.FuncLit:
		// a closure that is not handed to a call directly: its body may run later; keep its effects visible
		w.walkClosure(fr, append(append([]Cond{}, conds...), Cond{kind: "closure", pol: true, text: "func literal"}), x, false, "closure")
		return
	case *ast.SelectorExpr:
		w.visitExpr(fr, conds, x.X)
	case *ast.ParenExpr:
		w.visitExpr(fr, conds, x.X)
	case *ast.StarExpr:
		w.visitExpr(fr, conds, x.X)
	case *ast.UnaryExpr:
		w.visitExpr(fr, conds, x.X)
	case *ast.BinaryExpr:
		w.visitExpr(fr, conds, x.X)
		w.visitExpr(fr, conds, x.Y)
	case *ast.IndexExpr:
		w.visitExpr(fr, conds, x.X)
		w.visitExpr(fr, conds, x.Index)
	case *ast.SliceExpr:
		w.visitExpr(fr, conds, x.X)
		if x.Low != nil {
			w.visitExpr(fr, conds, x.Low)
		}
		if x.High != nil {
			w.visitExpr(fr, conds, x.High)
		}
	case *ast.TypeAssertExpr:
		w.visitExpr(fr, conds, x.X)
	case *ast.KeyValueExpr:
		w.visitExpr(fr, conds, x.Value)
	case *ast.CompositeLit:
		for _, el := range x.Elts {
			w.visitExpr(fr, conds, el)
		}
	case *ast.Ident, *ast.BasicLit, *ast.ArrayType, *ast.MapType, *ast.FuncType, *ast.InterfaceType, *ast.StructType, *ast.ChanType, *ast.Ellipsis:
	default:
		die("%s: expression form %T not handled", fset.Position(e.Pos()), e)
	}
}

func isNil(e ast.Expr) bool {
	id, ok := e.(*ast.Ident)
	return ok && id.Name == "nil"
}

// a return statement: true = the function goes on to report success
func (w *walker) okReturn(fr *frame, r *ast.ReturnStmt) bool {
	if !fr.retErr {
		return true
	}
	if len(r.Results) == 0 {
		return true
	}
	return isNil(r.Results[len(r.Results)-1])
}

func isNilCheck(c ast.Expr) bool {
	b, ok := c.(*ast.BinaryExpr)
	if !ok {
		return false
	}
	if b.Op == token.LOR || b.Op == token.LAND {
		return isNilCheck(b.X) && isNilCheck(b.Y)
	}
	return (b.Op == token.NEQ || b.Op == token.EQL) && (isNil(b.X) || isNil(b.Y))
}

func pathText(p []Cond) string {
	if len(p) == 0 {
		return "true"
	}
	var parts []string
	for _, c := range p {
		t := c.text
		if !c.pol {
			t = "!(" + t + ")"
		}
		parts = append(parts, t)
	}
	return strings.Join(parts, " && ")
}

// walk a statement list; returns the successful early exits met (with the conditions, relative to this list, under which
// they are taken) and whether the list always ends in a return / continue / break / panic; `rej` = it ends by rejecting
func (w *walker) walkBlock(fr *frame, stmts []ast.Stmt, conds []Cond) (esc []Escape, term, rej bool) {
	local := append([]Cond{}, conds...)
	for _, s := range stmts {
		e, t, r := w.walkStmt(fr, s, local)
		for _, x := range e {
			esc = append(esc, x)
			local = append(local, Cond{kind: x.kind, pol: false, text: clip(pathText(x.path), capMid)})
		}
		if t {
			return esc, true, r
		}
	}
	return esc, false, false
}

func prefixEsc(c Cond, es []Escape) []Escape {
	var out []Escape
	for _, e := range es {
		out = append(out, Escape{kind: e.kind, path: append([]Cond{c}, e.path...)})
	}
	return out
}

func assignedIn(n ast.Node) []string {
	seen := map[string]bool{}
	var out []string
	ast.Inspect(n, func(x ast.Node) bool {
		switch s := x.(type) {
		case *ast.FuncLit:
			return false
		case *ast.AssignStmt:
			if s.Tok != token.DEFINE {
				for _, l := range s.Lhs {
					if id, ok := l.(*ast.Ident); ok && id.Name != "_" && !seen[id.Name] {
						seen[id.Name] = true
						out = append(out, id.Name)
					}
				}
			}
		case *ast.IncDecStmt:
			if id, ok := s.X.(*ast.Ident); ok && !seen[id.Name] {
				seen[id.Name] = true
				out = append(out, id.Name)
			}
		}
		return true
	})
	return out
}

func (w *walker) assign(fr *frame, lhs []ast.Expr, rhs []ast.Expr, tok token.Token) {
	if len(lhs) == len(rhs) {
		vals := make([]*Val, len(rhs))
		for i, r := range rhs {
			vals[i] = w.valOf(fr, r)
			if tok != token.ASSIGN && tok != token.DEFINE {
				op := strings.TrimSuffix(tok.String(), "=")
				vals[i] = &Val{text: clip(w.norm(fr, lhs[i])+" "+op+" "+vals[i].text, capMid)}
			}
			if ce, ok := r.(*ast.CallExpr); ok {
				if se, ok := ce.Fun.(*ast.SelectorExpr); ok && se.Sel.Name == "CacheContext" {
					_ = se
				}
			}
		}
		for i, l := range lhs {
			w.bind(fr, l, vals[i])
		}
		return
	}
	if len(rhs) == 1 {
		base := w.norm(fr, rhs[0])
		isCache := false
		if ce, ok := rhs[0].(*ast.CallExpr); ok {
			if se, ok := ce.Fun.(*ast.SelectorExpr); ok && se.Sel.Name == "CacheContext" {
				isCache = true
			}
		}
		for i, l := range lhs {
			t := base
			if i > 0 {
				t = base + "#" + strconv.Itoa(i+1)
			}
			if isCache && i == 0 {
				if id, ok := l.(*ast.Ident); ok {
					fr.env.set(id.Name, &Val{text: "ctx"})
					fr.env.cache[id.Name] = true
					continue
				}
			}
			w.bind(fr, l, &Val{text: clip(t, capMid)})
		}
	}
}

func (w *walker) bind(fr *frame, l ast.Expr, v *Val) {
	switch x := l.(type) {
	case *ast.Ident:
		if x.Name == "_" {
			return
		}
		fr.env.set(x.Name, v)
	case *ast.SelectorExpr:
		if ch := selChain(x); ch != nil {
			fr.env.vars[strings.Join(ch, ".")] = v
		}
	case *ast.StarExpr:
		w.bind(fr, x.X, v)
	case *ast.IndexExpr, *ast.ParenExpr:
		// element assignment: not tracked
	}
}

func (w *walker) walkStmt(fr *frame, s ast.Stmt, conds []Cond) (esc []Escape, term, rej bool) {
	switch x := s.(type) {
	case nil, *ast.EmptyStmt:
		return
	case *ast.ExprStmt:
		if c, ok := x.X.(*ast.CallExpr); ok {
			if id, ok := c.Fun.(*ast.Ident); ok && id.Name == "panic" {
				return nil, true, true
			}
		}
		w.visitExpr(fr, conds, x.X)
	case *ast.AssignStmt:
		for _, r := range x.Rhs {
			w.visitExpr(fr, conds, r)
		}
		for _, l := range x.Lhs {
			if _, ok := l.(*ast.Ident); !ok {
				w.visitExpr(fr, conds, l)
			}
		}
		w.assign(fr, x.Lhs, x.Rhs, x.Tok)
	case *ast.DeclStmt:
		gd, ok := x.Decl.(*ast.GenDecl)
		if !ok {
			return
		}
		for _, sp := range gd.Specs {
			vs, ok := sp.(*ast.ValueSpec)
			if !ok {
				continue
			}
			for _, v := range vs.Values {
				w.visitExpr(fr, conds, v)
			}
			if len(vs.Values) > 0 {
				var lhs []ast.Expr
				for _, n := range vs.Names {
					lhs = append(lhs, n)
				}
				w.assign(fr, lhs, vs.Values, token.DEFINE)
			} else {
				tn := "?"
				if vs.Type != nil {
					tn = srcText(vs.Type)
					if i := strings.LastIndex(tn, "."); i >= 0 {
						tn = tn[i+1:]
					}
				}
				for _, n := range vs.Names {
					fr.env.set(n.Name, &Val{text: "new(" + tn + ")"})
				}
			}
		}
	case *ast.IncDecStmt:
		w.visitExpr(fr, conds, x.X)
		if id, ok := x.X.(*ast.Ident); ok {
			fr.env.set(id.Name, &Val{text: clip(w.norm(fr, x.X)+" "+x.Tok.String(), capMid)})
		}
	case *ast.ReturnStmt:
		for _, r := range x.Results {
			w.visitExpr(fr, conds, r)
		}
		if w.okReturn(fr, x) {
			return []Escape{{kind: "exit"}}, true, false
		}
		return nil, true, true
	case *ast.BranchStmt:
		switch x.Tok {
		case token.CONTINUE:
			return []Escape{{kind: "continue"}}, true, false
		case token.BREAK:
			return []Escape{{kind: "break"}}, true, false
		case token.GOTO, token.FALLTHROUGH:
			die("%s: %s not handled", fset.Position(x.Pos()), x.Tok)
		}
	case *ast.BlockStmt:
		return w.walkBlock(fr, x.List, conds)
	case *ast.LabeledStmt:
		return w.walkStmt(fr, x.Stmt, conds)
	case *ast.DeferStmt:
		w.visitExpr(fr, conds, x.Call)
	case *ast.GoStmt:
		w.visitExpr(fr, conds, x.Call)
	case *ast.IfStmt:
		return w.walkIf(fr, x, conds)
	case *ast.ForStmt:
		if x.Init != nil {
			w.walkStmt(fr, x.Init, conds)
		}
		ct := "for"
		if x.Cond != nil {
			w.visitExpr(fr, conds, x.Cond)
		}
		return w.walkLoop(fr, x.Body, x.Post, conds, func() string {
			if x.Cond != nil {
				return "for " + clip(w.norm(fr, x.Cond), 200)
			}
			return ct
		})
	case *ast.RangeStmt:
		w.visitExpr(fr, conds, x.X)
		rng := clip(w.norm(fr, x.X), 200)
		return w.walkLoop(fr, x.Body, nil, conds, func() string {
			if id, ok := x.Key.(*ast.Ident); ok && id.Name != "_" {
				fr.env.set(id.Name, &Val{text: "index(" + rng + ")"})
			}
			if id, ok := x.Value.(*ast.Ident); ok && id.Name != "_" {
				fr.env.set(id.Name, &Val{text: "each(" + rng + ")"})
			}
			return "range " + rng
		})
	case *ast.SwitchStmt:
		if x.Init != nil {
			w.walkStmt(fr, x.Init, conds)
		}
		tag := ""
		if x.Tag != nil {
			w.visitExpr(fr, conds, x.Tag)
			tag = w.norm(fr, x.Tag)
		}
		return w.walkCases(fr, x.Body, conds, func(cc *ast.CaseClause) string {
			var alts []string
			for _, e := range cc.List {
				w.visitExpr(fr, conds, e)
				if tag != "" {
					alts = append(alts, tag+" == "+w.norm(fr, e))
				} else {
					alts = append(alts, w.norm(fr, e))
				}
			}
			return strings.Join(alts, " || ")
		})
	case *ast.TypeSwitchStmt:
		if x.Init != nil {
			w.walkStmt(fr, x.Init, conds)
		}
		tag := srcText(x.Assign)
		return w.walkCases(fr, x.Body, conds, func(cc *ast.CaseClause) string {
			var alts []string
			for _, e := range cc.List {
				alts = append(alts, srcText(e))
			}
			return tag + " is " + strings.Join(alts, " | ")
		})
	case *ast.SendStmt, *ast.SelectStmt:
		die("%s: statement form %T not handled", fset.Position(s.Pos()), s)
	default:
		die("%s: statement form %T not handled", fset.Position(s.Pos()), s)
	}
	return
}

func (w *walker) walkLoop(fr *frame, body *ast.BlockStmt, post ast.Stmt, conds []Cond, head func() string) (esc []Escape, term, rej bool) {
	pre := fr.env
	fr.env = pre.clone()
	for _, n := range assignedIn(body) {
		if v, ok := fr.env.vars[n]; ok && !strings.HasPrefix(v.text, "acc(") {
			fr.env.set(n, &Val{text: clip("acc("+v.text+")", capMid)})
		}
	}
	h := head()
	lc := Cond{kind: "loop", pol: true, text: h}
	wasLoop := fr.inLoop
	fr.inLoop = true
	e, _, _ := w.walkBlock(fr, body.List, append(append([]Cond{}, conds...), lc))
	if post != nil {
		w.walkStmt(fr, post, append(append([]Cond{}, conds...), lc))
	}
	fr.inLoop = wasLoop
	// the variables the loop assigns keep their loop-carried form afterwards
	after := pre.clone()
	for _, n := range assignedIn(body) {
		if v, ok := fr.env.vars[n]; ok {
			if _, had := pre.vars[n]; had {
				t := v.text
				if !strings.HasPrefix(t, "acc(") {
					t = "acc(" + pre.vars[n].text + ")"
				}
				after.set(n, &Val{text: clip(t, capMid)})
			}
		}
	}
	for k := range fr.env.cache {
		after.cache[k] = true
	}
	fr.env = after
	for _, x := range e {
		if x.kind == "exit" { // a successful return from inside the loop leaves the function
			esc = append(esc, Escape{kind: "exit", path: append([]Cond{lc}, x.path...)})
		}
	}
	return esc, false, false
}

func (w *walker) walkIf(fr *frame, x *ast.IfStmt, conds []Cond) (esc []Escape, term, rej bool) {
	if x.Init != nil {
		w.walkStmt(fr, x.Init, conds)
	}
	w.visitExpr(fr, conds, x.Cond)
	ct := clip(w.norm(fr, x.Cond), capMid)
	cT := Cond{kind: "if", pol: true, text: ct}
	cF := Cond{kind: "if", pol: false, text: ct}
	pre := fr.env
	fr.env = pre.clone()
	nBefore := len(w.items)
	e1, t1, r1 := w.walkBlock(fr, x.Body.List, append(append([]Cond{}, conds...), cT))
	envT := fr.env
	fr.env = pre.clone()
	var e2 []Escape
	t2, r2 := false, false
	if x.Else != nil {
		e2, t2, r2 = w.walkStmt(fr, x.Else, append(append([]Cond{}, conds...), cF))
	}
	envF := fr.env
	switch {
	case t1 && t2:
		fr.env = envF
	case t1:
		fr.env = envF
	case t2:
		fr.env = envT
	default:
		fr.env = mergeEnv(ct, envT, envF)
	}
	// a rejecting guard met after the first effect
	if t1 && r1 && len(e1) == 0 && w.sawEffect && len(w.items) == nBefore && !isNilCheck(x.Cond) {
		saved := w.sawEffect
		w.emit(fr, conds, Item{kind: "guard", op: "reject", args: []string{clipMid(ct, 160)}}, x)
		w.sawEffect = saved
	}
	esc = append(prefixEsc(cT, e1), prefixEsc(cF, e2)...)
	return esc, t1 && t2, t1 && t2 && r1 && r2
}

func (w *walker) walkCases(fr *frame, body *ast.BlockStmt, conds []Cond, text func(*ast.CaseClause) string) (esc []Escape, term, rej bool) {
	pre := fr.env
	var envs []*Env
	var prev []string
	allTerm, hasDefault := true, false
	for _, st := range body.List {
		cc, ok := st.(*ast.CaseClause)
		if !ok {
			continue
		}
		fr.env = pre.clone()
		var c Cond
		if cc.List == nil {
			hasDefault = true
			c = Cond{kind: "case", pol: true, text: clip("default of "+strings.Join(prev, " | "), 300)}
		} else {
			t := clip(text(cc), 300)
			prev = append(prev, t)
			c = Cond{kind: "case", pol: true, text: t}
		}
		e, t, _ := w.walkBlock(fr, cc.Body, append(append([]Cond{}, conds...), c))
		esc = append(esc, prefixEsc(c, e)...)
		if !t {
			allTerm = false
			envs = append(envs, fr.env)
		}
	}
	if !hasDefault {
		allTerm = false
		envs = append(envs, pre)
	}
	fr.env = pre
	if len(envs) > 0 {
		m := envs[0]
		for _, o := range envs[1:] {
			m = mergeEnv("case", m, o)
		}
		fr.env = m
	}
	return esc, allTerm, false
}

// ---------------------------------------------------------------------------------------------
// handlers

type Handler struct {
	module, name, file string
	line               int
	items              []Item
}

type entry struct {
	module string // x/<module>/keeper
	recv   string // msgServer | Keeper | "" ; "*" = every exported msgServer method of msg_server*.go in source order
	names  []string
}

var entries = []entry{
	{"vault", "*", nil},
	{"locker", "*", nil},
	{"lend", "*", nil},
	{"auctionsV2", "Keeper", []string{"PlaceDutchAuctionBid", "LimitOrderBid", "PlaceEnglishAuctionBid", "CloseEnglishAuction", "DepositLimitAuctionBid", "CancelLimitAuctionBid", "WithdrawLimitAuctionBid"}},
	{"auction", "Keeper", []string{"PlaceDutchAuctionBid", "CloseDutchAuction", "PlaceSurplusAuctionBid", "closeSurplusAuction", "PlaceDebtAuctionBid", "closeDebtAuction", "PlaceLendDutchAuctionBid", "CloseDutchLendAuction"}},
	{"liquidationsV2", "Keeper", []string{"LiquidateIndividualVault", "LiquidateIndividualBorrow", "LiquidateVaults", "LiquidateBorrows"}},
	{"esm", "Keeper", []string{"SetUpDebtRedemptionForCollector", "SetUpCollateralRedemptionForVault", "SetUpCollateralRedemptionForStableVault", "CalculateCollateral"}},
	{"collector", "Keeper", []string{"GetAmountFromCollector", "DecreaseNetFeeCollectedData", "UpdateCollector", "SetNetFeeCollectedData", "LockerIterateRewards", "WasmMsgGetSurplusFund"}},
	{"rewards", "Keeper", []string{"CalculateLockerRewards", "CalculateVaultInterest"}},
	{"liquidity", "Keeper", []string{"FinishOrder", "FinishMMOrder", "ExecuteDepositRequest", "ExecuteWithdrawRequest", "Farm", "Unfarm"}},
}

func walkHandler(module string, fi *FuncInfo) Handler {
	w := &walker{handlerKey: module + "." + fi.key.name}
	fr := &frame{fi: fi, ft: fi.decl.Type, env: newEnv(), retErr: fi.retErr}
	ps := fi.decl.Type.Params.List
	if fi.key.recv == "msgServer" && len(ps) == 2 && len(ps[1].Names) == 1 {
		fr.env.set(ps[1].Names[0].Name, &Val{text: "msg"})
	}
	for _, p := range ps {
		for _, n := range p.Names {
			if isCtxName(n.Name) {
				fr.env.set(n.Name, &Val{text: "ctx"})
			}
		}
	}
	w.stack = []FuncKey{fi.key}
	w.walkBlock(fr, fi.decl.Body.List, nil)
	return Handler{module: module, name: fi.key.name, file: fi.file, line: line(fi.decl), items: w.items}
}

func extractHandlers() []Handler {
	var out []Handler
	for _, en := range entries {
		pkg := "x/" + en.module + "/keeper"
		if en.recv == "*" {
			var keys []FuncKey
			for k, fi := range index {
				if k.pkg == pkg && k.recv == "msgServer" && ast.IsExported(k.name) && strings.HasPrefix(filepath.Base(fi.file), "msg_server") {
					ps := fi.decl.Type.Params.List
					if len(ps) == 2 && fi.retErr {
						keys = append(keys, k)
					}
				}
			}
			if len(keys) == 0 {
				die("no MsgServer methods found in %s", pkg)
			}
			sort.Slice(keys, func(i, j int) bool { return line(index[keys[i]].decl) < line(index[keys[j]].decl) })
			for _, k := range keys {
				out = append(out, walkHandler(en.module, index[k]))
			}
			continue
		}
		for _, n := range en.names {
			fi := index[FuncKey{pkg, en.recv, n}]
			if fi == nil {
				die("entry point %s.%s not found in %s", en.recv, n, pkg)
			}
			out = append(out, walkHandler(en.module, fi))
		}
	}
	return out
}

// ---------------------------------------------------------------------------------------------
// output

func q(s string) string {
	s = strings.ReplaceAll(s, "\\", "\\\\")
	s = strings.ReplaceAll(s, "\"", "\\\"")
	s = strings.ReplaceAll(s, "\n", " ")
	s = strings.ReplaceAll(s, "\t", " ")
	return "\"" + s + "\""
}

func bl(b bool) string {
	if b {
		return "true"
	}
	return "false"
}

func strList(xs []string) string {
	qs := make([]string, len(xs))
	for i, x := range xs {
		qs[i] = q(x)
	}
	return "[" + strings.Join(qs, ", ") + "]"
}

func condList(cs []Cond) string {
	ps := make([]string, len(cs))
	for i, c := range cs {
		ps[i] = fmt.Sprintf("⟨%s, %s, %s, %d⟩", q(c.kind), bl(c.pol), q(clipMid(c.text, 160)), fnv32(c.text))
	}
	return "[" + strings.Join(ps, ", ") + "]"
}

func main() {
	out := flag.String("out", "", "output .lean file")
	dump := flag.Bool("dump", false, "print a readable listing instead")
	flag.StringVar(&repo, "repo", "/repo", "comdex source tree")
	flag.Parse()
	ents, _ := os.ReadDir(filepath.Join(repo, "x"))
	for _, e := range ents {
		if e.IsDir() {
			parseDir("x/" + e.Name())
			parseDir("x/" + e.Name() + "/keeper")
			parseDir("x/" + e.Name() + "/types")
			parseDir("x/" + e.Name() + "/expected")
		}
	}
	parseDir("types")
	hs := extractHandlers()

	if *dump {
		for _, h := range hs {
			fmt.Printf("== %s.%s (%s:%d)\n", h.module, h.name, h.file, h.line)
			for _, it := range h.items {
				flags := ""
				if it.inLoop {
					flags += " LOOP"
				}
				if it.cache {
					flags += " CACHE"
				}
				switch it.kind {
				case "bank":
					fmt.Printf("  bank  %s  %s -> %s  denom=%s  amt=%s%s  [%s:%d]\n", it.op, clipMid(it.src, 160), clipMid(it.dst, 160), clipMid(it.denom, 160), clipMid(it.amount, 160), flags, it.fn, it.line)
				default:
					fmt.Printf("  %-5s %s(%s)%s  [%s:%d]\n", it.kind, it.op, strings.Join(it.args, "; "), flags, it.fn, it.line)
				}
				for _, c := range it.conds {
					p := "+"
					if !c.pol {
						p = "-"
					}
					fmt.Printf("          %s %s: %s\n", p, c.kind, clipMid(c.text, 160))
				}
			}
		}
		return
	}

	if *out == "" {
		die("-out is required (or -dump)")
	}
	dir := filepath.Dir(*out)
	if err := os.MkdirAll(dir, 0o755); err != nil {
		die("%v", err)
	}
	base := strings.TrimSuffix(filepath.Base(*out), ".lean") // Effects
	write := func(name, text string) {
		if err := os.WriteFile(filepath.Join(dir, name+".lean"), []byte(text), 0o644); err != nil {
			die("%v", err)
		}
	}
	head := "/-! GENERATED by extract/effects from the comdex source tree — do not edit; regenerated on every run.\n" +
		"Ordered effect skeleton of every covered handler. Item kinds: bank | write | call | guard (see extract/effects/main.go).\n" +
		"Cond kinds: if | pos | case | loop | exit | continue | break | closure; pol = the condition holds on the item's path;\n" +
		"h = FNV-1a (32 bit) of the whole normalised condition text (the printed text is shortened head…hash…tail when long).\n" +
		"srcA / dstA / denomA = the party / denomination text with the argument lists of calls nested deeper than one level elided. -/\n"
	// the record types
	var t strings.Builder
	t.WriteString(head)
	t.WriteString("namespace Comdex.Gen.Effects\n\n")
	t.WriteString("structure Cond where\n  kind : String\n  pol : Bool\n  text : String\n  h : Nat\n  deriving Repr, DecidableEq\n\n")
	t.WriteString("structure Item where\n  kind : String\n  op : String\n  src : String\n  dst : String\n  denom : String\n  amount : String\n  srcA : String\n  dstA : String\n  denomA : String\n  args : List String\n  conds : List Cond\n  inLoop : Bool\n  cache : Bool\n  fn : String\n  line : Nat\n  deriving Repr, DecidableEq\n\n")
	t.WriteString("structure Handler where\n  module : String\n  name : String\n  file : String\n  line : Nat\n  items : List Item\n  deriving Repr\n\n")
	t.WriteString("end Comdex.Gen.Effects\n")
	write(base+"T", t.String())
	// one file per module (built in parallel; a property imports only the modules it ties)
	var mods []string
	byMod := map[string][]Handler{}
	for _, h := range hs {
		fk := h.module
		if h.module == "auction" && strings.Contains(h.name, "Lend") {
			fk = "auction_lend" // the first-generation lend auctions inline most of x/lend and x/liquidation: a file of their own
		}
		if _, ok := byMod[fk]; !ok {
			mods = append(mods, fk)
		}
		byMod[fk] = append(byMod[fk], h)
	}
	for _, m := range mods {
		var b strings.Builder
		fmt.Fprintf(&b, "import Comdex.Gen.%sT\n", base)
		b.WriteString(head)
		b.WriteString("namespace Comdex.Gen.Effects\n\n")
		for _, h := range byMod[m] {
			fmt.Fprintf(&b, "def h_%s_%s : Handler := { module := %s, name := %s, file := %s, line := %d, items := [\n", h.module, h.name, q(h.module), q(h.name), q(h.file), h.line)
			for i, it := range h.items {
				sep := ","
				if i == len(h.items)-1 {
					sep = ""
				}
				fmt.Fprintf(&b, "  ⟨%s, %s, %s, %s, %s, %s, %s, %s, %s, %s, %s, %s, %s, %s, %d⟩%s\n", q(it.kind), q(it.op), q(clipMid(it.src, 160)), q(clipMid(it.dst, 160)), q(clipMid(it.denom, 160)), q(clipMid(it.amount, 160)),
					q(clipMid(abstractText(it.src), 160)), q(clipMid(abstractText(it.dst), 160)), q(clipMid(abstractText(it.denom), 160)),
					strList(it.args), condList(it.conds), bl(it.inLoop), bl(it.cache), q(it.fn), it.line, sep)
			}
			b.WriteString("] }\n\n")
		}
		fmt.Fprintf(&b, "def handlers_%s : List Handler := [", m)
		for i, h := range byMod[m] {
			if i > 0 {
				b.WriteString(", ")
			}
			fmt.Fprintf(&b, "h_%s_%s", h.module, h.name)
		}
		b.WriteString("]\n\nend Comdex.Gen.Effects\n")
		write(base+"_"+m, b.String())
	}
	// the root: written last (./check tests its presence)
	var r strings.Builder
	fmt.Fprintf(&r, "import Comdex.Gen.%sT\n", base)
	for _, m := range mods {
		fmt.Fprintf(&r, "import Comdex.Gen.%s_%s\n", base, m)
	}
	r.WriteString(head)
	r.WriteString("namespace Comdex.Gen.Effects\n\ndef handlers : List Handler := ")
	for i, m := range mods {
		if i > 0 {
			r.WriteString(" ++ ")
		}
		r.WriteString("handlers_" + m)
	}
	r.WriteString("\n\nend Comdex.Gen.Effects\n")
	write(base, r.String())
}
