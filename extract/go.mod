module verifextract

go 1.20
