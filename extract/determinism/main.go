// Command determinism regenerates lean/Comdex/Gen/Determinism.lean from the Go source of comdex (property C16).
//
// It type-checks every non-test package under <repo>/x/..., <repo>/app/... and <repo>/types/... (excluding client/cli,
// simulation, testutil, *_test.go and protobuf-generated *.pb.go / *.pb.gw.go files) and emits finite fact tables:
//
//	mapRangeSites   every `range` over an expression whose type is a Go map: file, line, enclosing function, the
//	                ranged expression, a normalized summary ("shape") of what the loop body does, and the loop statement
//	                itself printed without comments and layout ("body")
//	goStatements    every `go` statement
//	wallClockUses   every reference to time.Now / time.Since / time.Until / time.After / time.AfterFunc / time.Tick / time.Sleep /
//	                time.NewTimer / time.NewTicker
//	randUses        every reference to an object of math/rand, math/rand/v2 or crypto/rand
//	taintedCallers  transitive closure: every scanned function that calls a scanned function which uses rand, the wall
//	                clock, the environment (os.…) or the machine's time zone (one entry per newly tainted function: file,
//	                function, the tainted callee it reaches)
//	envUses         every reference to os.Getenv / LookupEnv / Environ / ExpandEnv / Hostname / Getpid / Getppid / Getuid / Geteuid /
//	                Getgid / Getwd / Args / Executable / UserHomeDir / UserCacheDir / UserConfigDir / TempDir / ReadFile / ReadDir /
//	                Open / OpenFile / Stat / Lstat, runtime.NumGoroutine / NumCPU / GOMAXPROCS / Gosched / GOOS / GOARCH / Version /
//	                Caller / Callers / Stack / ReadMemStats / NumCgoCall / GC
//	selectStmts     every `select` statement
//	unsafeUses      every conversion of an unsafe.Pointer / pointer value to an integer type (uintptr …), and fmt %p verbs
//	chanOps         every channel make / send / receive (goroutine communication)
//	mapArgsExternal every call that hands a map-typed argument to a function outside the scanned packages (which could
//	                iterate it: maps.Keys, reflect, fmt, SDK constructors …)
//
//	sortSites       every call of sort.Slice / SliceStable / Sort / Stable / Strings / Ints / Float64s, slices.Sort* and of
//	                container/heap: file, function, sort function, whether it is STABLE, the sorted slice, the text of the
//	                comparison, the texts of the scanned methods the comparison calls (one level: HasPriority …) and the
//	                ORIGIN of the slice's order: "maprange" (appended to inside a map range of the same function),
//	                "param<-maprange(<caller>)" (a parameter, and some scanned caller passes a slice it appended to in a
//	                map range), "param", "local". A non-total comparison on an order that came out of a map is a classic
//	                nondeterminism (ties stay in / are permuted from the input order).
//	floatUses       every use of floating point: objects of package math, strconv.ParseFloat / FormatFloat, methods named
//	                MustFloat64 / Float64 / Float32, conversions to float32 / float64, %e %f %g verbs in string literals
//	reflectUses     every reference to an object of package reflect (reflect.Value.MapRange / MapKeys iterate maps in
//	                random order)
//	syncUses        every reference to an object of sync / sync/atomic (sync.Map.Range is unordered; a mutex or a
//	                WaitGroup in consensus code means there is concurrency to protect)
//	zoneUses        everything that reads the machine's time zone: time.Local, time.LoadLocation, time.Unix / UnixMilli /
//	                UnixMicro (their result is in the LOCAL zone: formatting it, or taking its date / clock, depends on TZ),
//	                methods Time.Local / Zone / ZoneBounds / Location
//
//	packageVars          number of package-level `var`s declared in the scanned files
//	mutablePackageState  every write, from a NON-init function of the scanned code, to a package-level variable of a
//	                     scanned package: plain / op= assignment, field or element write, ++/--, delete(), taking its
//	                     address, calling a pointer-receiver method of a comdex-defined or sync/atomic type on it.
//	                     State of this kind lives outside the stores and outlives an application instance: results then
//	                     depend on what the PROCESS did before, not only on the blocks. (file, function, "pkg.Var:kind")
//
// Shape vocabulary of a map-range body (joined by "+", in this fixed order):
//
//	mapwrite[:self|:other]   assigns m2[key] = …  (aggregates into a map; `self` = the map being ranged)
//	mapdelete                delete(m, k)
//	append:sorted(<fn>)      appends to a slice on which, after the loop and before any other use, a sort function is called
//	append:inorder           appends to a slice that is NOT sorted afterwards (iteration order leaks into the slice)
//	accum                    x = x.Add(…) / x += … / x++ on a variable declared outside the loop
//	assign                   plain assignment to a variable declared outside the loop (last-writer-wins)
//	call:ctx                 calls something passing an sdk.Context (keeper call: store reads/writes, bank transfers, events)
//	call:method              calls a method on the loop value / another object without a Context
//	exit:return|break        leaves the loop early (first match wins)
//	nested:maprange          contains another range over a map
//	readonly                 none of the above
package main

import (
	"bytes"
	"flag"
	"fmt"
	"go/ast"
	"go/printer"
	"go/token"
	"go/types"
	"os"
	"path/filepath"
	"sort"
	"strings"

	"golang.org/x/tools/go/packages"
)

type site struct {
	file, fn, expr, shape, keyT, valT, body string
	line                              int
}

type use struct {
	file, fn, what string
	line          int
}

type sortSite struct {
	file, fn, sortFn, slice, less, callees, origin string
	stable                                         bool
	line                                           int
}

// objName: pkg.Name, or pkg.Recv.Name for methods
func objName(obj types.Object) string {
	pp := ""
	if obj.Pkg() != nil {
		pp = obj.Pkg().Path()
	}
	if f, ok := obj.(*types.Func); ok {
		if sig, ok := f.Type().(*types.Signature); ok && sig.Recv() != nil {
			t := sig.Recv().Type()
			if p, ok := t.(*types.Pointer); ok {
				t = p.Elem()
			}
			if n, ok := t.(*types.Named); ok {
				return pp + "." + n.Obj().Name() + "." + obj.Name()
			}
		}
	}
	return pp + "." + obj.Name()
}

var stableSorts = map[string]bool{"sort.SliceStable": true, "sort.Stable": true, "slices.SortStableFunc": true}

// appendedInMapRange: does fn contain a range over a map whose body appends to the slice expression `target`?
func appendedInMapRange(info *types.Info, fn *ast.FuncDecl, target string) bool {
	found := false
	if fn == nil || fn.Body == nil {
		return false
	}
	ast.Inspect(fn.Body, func(n ast.Node) bool {
		rs, ok := n.(*ast.RangeStmt)
		if !ok || !isMap(info.TypeOf(rs.X)) {
			return true
		}
		ast.Inspect(rs.Body, func(m ast.Node) bool {
			as, ok := m.(*ast.AssignStmt)
			if !ok {
				return true
			}
			for i, lhs := range as.Lhs {
				var rhs ast.Expr
				if len(as.Rhs) == len(as.Lhs) {
					rhs = as.Rhs[i]
				} else if len(as.Rhs) == 1 {
					rhs = as.Rhs[0]
				}
				if ce, ok := rhs.(*ast.CallExpr); ok {
					if id, ok := ce.Fun.(*ast.Ident); ok && id.Name == "append" && nodeStr(lhs) == target {
						found = true
					}
				}
			}
			return true
		})
		return true
	})
	return found
}

var fset *token.FileSet

// declIndex maps a function object of a scanned package to its declaration (one-level look into callees).
var declIndex = map[types.Object]*ast.FuncDecl{}
var declInfo = map[types.Object]*types.Info{}

func nodeStr(n ast.Node) string {
	var b bytes.Buffer
	printer.Fprint(&b, fset, n)
	s := strings.Join(strings.Fields(b.String()), " ")
	return s
}

func leanStr(s string) string {
	s = strings.ReplaceAll(s, "\\", "\\\\")
	s = strings.ReplaceAll(s, "\"", "\\\"")
	return "\"" + s + "\""
}

func excludedPkg(path string) bool {
	for _, seg := range []string{"/client", "/simulation", "/testutil", "/test"} {
		if strings.Contains(path+"/", seg+"/") {
			return true
		}
	}
	return false
}

func excludedFile(name string) bool {
	return strings.HasSuffix(name, "_test.go") || strings.HasSuffix(name, ".pb.go") || strings.HasSuffix(name, ".pb.gw.go")
}

func funcName(fd *ast.FuncDecl) string {
	if fd.Recv != nil && len(fd.Recv.List) > 0 {
		t := fd.Recv.List[0].Type
		if st, ok := t.(*ast.StarExpr); ok {
			t = st.X
		}
		if ix, ok := t.(*ast.IndexExpr); ok {
			t = ix.X
		}
		if id, ok := t.(*ast.Ident); ok {
			return id.Name + "." + fd.Name.Name
		}
	}
	return fd.Name.Name
}

func isMap(t types.Type) bool {
	if t == nil {
		return false
	}
	_, ok := t.Underlying().(*types.Map)
	return ok
}

func isContext(t types.Type) bool {
	if t == nil {
		return false
	}
	s := t.String()
	return strings.HasSuffix(s, "cosmos-sdk/types.Context") || s == "context.Context"
}

// rootIdent returns the leftmost identifier of a selector/index chain.
func rootIdent(e ast.Expr) *ast.Ident {
	for {
		switch x := e.(type) {
		case *ast.Ident:
			return x
		case *ast.SelectorExpr:
			e = x.X
		case *ast.IndexExpr:
			e = x.X
		case *ast.StarExpr:
			e = x.X
		case *ast.ParenExpr:
			e = x.X
		default:
			return nil
		}
	}
}

var sortFuncs = map[string]bool{
	"sort.Slice": true, "sort.SliceStable": true, "sort.Strings": true, "sort.Ints": true, "sort.Sort": true, "sort.Stable": true,
	"slices.Sort": true, "slices.SortFunc": true, "slices.SortStableFunc": true,
}

// sortedAfter reports the name of the sort function applied to slice expression `target` (textual match) in the
// statements of fn that follow position `after`, provided no other statement mentions the slice before that call.
func sortedAfter(info *types.Info, fn *ast.FuncDecl, after token.Pos, target string) string {
	return sortedAfterDepth(info, fn, after, target, 0)
}

func sortedAfterDepth(info *types.Info, fn *ast.FuncDecl, after token.Pos, target string, depth int) string {
	found := ""
	firstOther := token.Pos(0)
	sortPos := token.Pos(0)
	ast.Inspect(fn.Body, func(n ast.Node) bool {
		if n == nil {
			return false
		}
		if n.End() <= after {
			return false
		}
		if ce, ok := n.(*ast.CallExpr); ok && ce.Pos() > after {
			if id, ok := ce.Fun.(*ast.Ident); ok && (id.Name == "len" || id.Name == "cap") {
				return false // order-insensitive use
			}
			name := nodeStr(ce.Fun)
			isSort := sortFuncs[name]
			if !isSort {
				// user-defined sorters: a function/method whose name starts with Sort and takes the slice
				base := name
				if i := strings.LastIndex(base, "."); i >= 0 {
					base = base[i+1:]
				}
				isSort = strings.HasPrefix(base, "Sort")
			}
			if isSort && len(ce.Args) > 0 && nodeStr(ce.Args[0]) == target {
				if sortPos == 0 || ce.Pos() < sortPos {
					sortPos = ce.Pos()
					found = name
				}
				return false
			}
		}
		if e, ok := n.(ast.Expr); ok && n.Pos() > after {
			if nodeStr(e) == target {
				if firstOther == 0 || n.Pos() < firstOther {
					firstOther = n.Pos()
				}
			}
		}
		return true
	})
	if found != "" && (firstOther == 0 || firstOther > sortPos) {
		return found
	}
	if depth > 0 || firstOther == 0 {
		return "" // used in iteration order before being sorted (or never sorted)
	}
	// the first use after the loop: is it an argument of a call to a scanned function that sorts that parameter first?
	res := ""
	ast.Inspect(fn.Body, func(n ast.Node) bool {
		ce, ok := n.(*ast.CallExpr)
		if !ok || res != "" {
			return res == ""
		}
		for i, a := range ce.Args {
			if a.Pos() != firstOther {
				continue
			}
			var obj types.Object
			switch f := ce.Fun.(type) {
			case *ast.Ident:
				obj = info.Uses[f]
			case *ast.SelectorExpr:
				obj = info.Uses[f.Sel]
			}
			decl := declIndex[obj]
			if decl == nil || decl.Body == nil {
				return false
			}
			idx := 0
			for _, fld := range decl.Type.Params.List {
				for _, nm := range fld.Names {
					if idx == i {
						if s := sortedAfterDepth(declInfo[obj], decl, decl.Body.Lbrace, nm.Name, 1); s != "" {
							res = s + "@" + decl.Name.Name
						}
					}
					idx++
				}
			}
		}
		return true
	})
	return res
}

func shapeOf(info *types.Info, fn *ast.FuncDecl, rs *ast.RangeStmt) string {
	var mapwrite, mapdelete, accum, assign, callCtx, callMethod, nested bool
	mapwriteKind := map[string]bool{}
	appends := map[string]bool{}
	exits := map[string]bool{}
	rangedStr := nodeStr(rs.X)
	declaredInside := func(id *ast.Ident) bool {
		if id == nil {
			return false
		}
		obj := info.ObjectOf(id)
		if obj == nil {
			return false
		}
		return obj.Pos() >= rs.Pos() && obj.Pos() <= rs.End()
	}
	depthLoop := 0
	var walk func(n ast.Node)
	walk = func(n ast.Node) {
		ast.Inspect(n, func(n ast.Node) bool {
			switch x := n.(type) {
			case *ast.FuncLit:
				return true
			case *ast.RangeStmt:
				if x != rs {
					if isMap(info.TypeOf(x.X)) {
						nested = true
					}
					depthLoop++
					walk(x.Body)
					depthLoop--
					return false
				}
			case *ast.ForStmt:
				depthLoop++
				if x.Init != nil {
					walk(x.Init)
				}
				if x.Cond != nil {
					walk(x.Cond)
				}
				if x.Post != nil {
					walk(x.Post)
				}
				walk(x.Body)
				depthLoop--
				return false
			case *ast.SwitchStmt, *ast.TypeSwitchStmt, *ast.SelectStmt:
				// a break inside a switch leaves the switch, not the loop
				depthLoop++
				switch y := x.(type) {
				case *ast.SwitchStmt:
					if y.Init != nil {
						walk(y.Init)
					}
					if y.Tag != nil {
						walk(y.Tag)
					}
					walk(y.Body)
				case *ast.TypeSwitchStmt:
					walk(y.Body)
				case *ast.SelectStmt:
					walk(y.Body)
				}
				depthLoop--
				return false
			case *ast.ReturnStmt:
				exits["return"] = true
			case *ast.BranchStmt:
				if x.Tok == token.BREAK && (depthLoop == 0 || x.Label != nil) {
					exits["break"] = true
				}
				if x.Tok == token.GOTO {
					exits["goto"] = true
				}
			case *ast.IncDecStmt:
				if !declaredInside(rootIdent(x.X)) {
					if ix, ok := x.X.(*ast.IndexExpr); ok && isMap(info.TypeOf(ix.X)) {
						mapwrite = true
						if nodeStr(ix.X) == rangedStr {
							mapwriteKind["self"] = true
						} else {
							mapwriteKind["other"] = true
						}
					} else {
						accum = true
					}
				}
			case *ast.AssignStmt:
				for i, lhs := range x.Lhs {
					if id, ok := lhs.(*ast.Ident); ok && id.Name == "_" {
						continue
					}
					if x.Tok == token.DEFINE {
						if id, ok := lhs.(*ast.Ident); ok {
							if obj := info.Defs[id]; obj != nil {
								continue // new variable
							}
						}
					}
					if ix, ok := lhs.(*ast.IndexExpr); ok && isMap(info.TypeOf(ix.X)) {
						mapwrite = true
						if nodeStr(ix.X) == rangedStr {
							mapwriteKind["self"] = true
						} else if declaredInside(rootIdent(ix.X)) {
							mapwriteKind["local"] = true
						} else {
							mapwriteKind["other"] = true
						}
						continue
					}
					if declaredInside(rootIdent(lhs)) {
						continue
					}
					// append?
					var rhs ast.Expr
					if len(x.Rhs) == len(x.Lhs) {
						rhs = x.Rhs[i]
					} else if len(x.Rhs) == 1 {
						rhs = x.Rhs[0]
					}
					if ce, ok := rhs.(*ast.CallExpr); ok {
						if id, ok := ce.Fun.(*ast.Ident); ok && id.Name == "append" {
							appends[nodeStr(lhs)] = true
							continue
						}
					}
					if x.Tok != token.ASSIGN && x.Tok != token.DEFINE {
						accum = true // += etc.
						continue
					}
					// x = x.Add(...) style accumulation: the rhs mentions the lhs
					if rhs != nil && strings.Contains(nodeStr(rhs), nodeStr(lhs)) {
						accum = true
					} else {
						assign = true
					}
				}
			case *ast.CallExpr:
				if id, ok := x.Fun.(*ast.Ident); ok {
					if id.Name == "delete" && len(x.Args) == 2 {
						mapdelete = true
						return true
					}
					if _, isBuiltin := info.ObjectOf(id).(*types.Builtin); isBuiltin {
						return true
					}
				}
				// conversion?
				if tv, ok := info.Types[x.Fun]; ok && tv.IsType() {
					return true
				}
				hasCtx := false
				for _, a := range x.Args {
					if isContext(info.TypeOf(a)) {
						hasCtx = true
					}
				}
				if hasCtx {
					callCtx = true
				} else {
					callMethod = true
				}
			}
			return true
		})
	}
	walk(rs.Body)
	var parts []string
	if mapwrite {
		ks := []string{}
		for k := range mapwriteKind {
			ks = append(ks, k)
		}
		sort.Strings(ks)
		parts = append(parts, "mapwrite:"+strings.Join(ks, ","))
	}
	if mapdelete {
		parts = append(parts, "mapdelete")
	}
	if len(appends) > 0 {
		ts := []string{}
		for t := range appends {
			ts = append(ts, t)
		}
		sort.Strings(ts)
		for _, t := range ts {
			if s := sortedAfter(info, fn, rs.End(), t); s != "" {
				parts = append(parts, "append:sorted("+s+")")
			} else {
				parts = append(parts, "append:inorder")
			}
		}
	}
	if accum {
		parts = append(parts, "accum")
	}
	if assign {
		parts = append(parts, "assign")
	}
	if callCtx {
		parts = append(parts, "call:ctx")
	}
	if callMethod {
		parts = append(parts, "call:method")
	}
	if len(exits) > 0 {
		es := []string{}
		for e := range exits {
			es = append(es, e)
		}
		sort.Strings(es)
		parts = append(parts, "exit:"+strings.Join(es, ","))
	}
	if nested {
		parts = append(parts, "nested:maprange")
	}
	if len(parts) == 0 {
		return "readonly"
	}
	return strings.Join(parts, "+")
}

type pf struct {
	p  *packages.Package
	f  *ast.File
	fn string
}
type pfRef = pf

func main() {
	repo := flag.String("repo", "/repo", "path to the comdex working tree")
	out := flag.String("out", "", "output Lean file")
	flag.Parse()
	if *out == "" {
		fmt.Fprintln(os.Stderr, "usage: determinism -repo <repo> -out <file.lean>")
		os.Exit(2)
	}
	abs, err := filepath.Abs(*repo)
	if err != nil {
		panic(err)
	}
	fset = token.NewFileSet()
	env := append(os.Environ(), "GOFLAGS=-mod=mod", "GOPROXY=off", "GOSUMDB=off", "GOTOOLCHAIN=local")
	cfg := &packages.Config{
		Mode: packages.NeedName | packages.NeedFiles | packages.NeedCompiledGoFiles | packages.NeedSyntax | packages.NeedTypes |
			packages.NeedTypesInfo | packages.NeedImports,
		Dir: abs, Fset: fset, Env: env, Tests: false,
	}
	pkgs, err := packages.Load(cfg, "./x/...", "./app/...", "./types/...")
	if err != nil {
		fmt.Fprintln(os.Stderr, "load:", err)
		os.Exit(1)
	}
	if len(pkgs) == 0 {
		fmt.Fprintln(os.Stderr, "no packages loaded")
		os.Exit(1)
	}
	sort.Slice(pkgs, func(i, j int) bool { return pkgs[i].PkgPath < pkgs[j].PkgPath })
	var sites []site
	var gos, clocks, rands, envs, selects, unsafes, chans, randCallers, mapArgs, floats, reflects, syncs, zones []use
	var sorts []sortSite
	type sortCall struct {
		x    pfRef
		fd   *ast.FuncDecl
		ce   *ast.CallExpr
		name string
		fn   string
	}
	var sortCalls []sortCall
	nPkgs, nFiles, nFuncs := 0, 0, 0
	randFuncs := map[types.Object]bool{}
	var files []pf
	for _, p := range pkgs {
		if excludedPkg(p.PkgPath) {
			continue
		}
		if len(p.Errors) > 0 {
			// a tree that does not type-check cannot be analysed: fail loudly (check reports a failing obligation)
			fmt.Fprintf(os.Stderr, "package %s has errors: %v\n", p.PkgPath, p.Errors[0])
			os.Exit(1)
		}
		nPkgs++
		for _, f := range p.Syntax {
			name := fset.Position(f.Pos()).Filename
			if excludedFile(name) {
				continue
			}
			rel, _ := filepath.Rel(abs, name)
			files = append(files, pf{p, f, filepath.ToSlash(rel)})
		}
	}
	sort.Slice(files, func(i, j int) bool { return files[i].fn < files[j].fn })
	scannedPkg := map[string]bool{}
	for _, x := range files {
		scannedPkg[x.p.PkgPath] = true
		for _, d := range x.f.Decls {
			if dd, ok := d.(*ast.FuncDecl); ok {
				if o := x.p.TypesInfo.Defs[dd.Name]; o != nil {
					declIndex[o] = dd
					declInfo[o] = x.p.TypesInfo
				}
			}
		}
	}
	for _, x := range files {
		nFiles++
		info := x.p.TypesInfo
		rel := x.fn
		for _, d := range x.f.Decls {
			var body ast.Node
			var fd *ast.FuncDecl
			fname := "<init>"
			switch dd := d.(type) {
			case *ast.FuncDecl:
				if dd.Body == nil {
					continue
				}
				fd = dd
				body = dd
				fname = funcName(dd)
				nFuncs++
			case *ast.GenDecl:
				body = dd
				fd = &ast.FuncDecl{Name: ast.NewIdent("<init>"), Body: &ast.BlockStmt{}}
			}
			pos := func(n ast.Node) int { return fset.Position(n.Pos()).Line }
			ast.Inspect(body, func(n ast.Node) bool {
				switch s := n.(type) {
				case *ast.RangeStmt:
					t := info.TypeOf(s.X)
					if isMap(t) {
						m := t.Underlying().(*types.Map)
						q := func(p *types.Package) string { return p.Name() }
						sites = append(sites, site{file: rel, fn: fname, expr: nodeStr(s.X), shape: shapeOf(info, fd, s),
							keyT: types.TypeString(m.Key(), q), valT: types.TypeString(m.Elem(), q), line: pos(s), body: nodeStr(s)})
					}
					if t != nil {
						if _, ok := t.Underlying().(*types.Chan); ok {
							chans = append(chans, use{rel, fname, "range-chan", pos(s)})
						}
					}
				case *ast.GoStmt:
					gos = append(gos, use{rel, fname, nodeStr(s.Call.Fun), pos(s)})
				case *ast.SelectStmt:
					selects = append(selects, use{rel, fname, "select", pos(s)})
				case *ast.SendStmt:
					chans = append(chans, use{rel, fname, "send", pos(s)})
				case *ast.UnaryExpr:
					if s.Op == token.ARROW {
						chans = append(chans, use{rel, fname, "recv", pos(s)})
					}
				case *ast.BasicLit:
					if s.Kind == token.STRING {
						for _, v := range []string{"%e", "%E", "%f", "%F", "%g", "%G"} {
							if strings.Contains(s.Value, v) {
								floats = append(floats, use{rel, fname, "fmt:" + v, pos(s)})
							}
						}
					}
				case *ast.CallExpr:
					// sort calls
					{
						name := nodeStr(s.Fun)
						if sortFuncs[name] || name == "heap.Init" || name == "heap.Push" || name == "heap.Pop" || name == "heap.Fix" || name == "sort.Float64s" {
							realFd, _ := d.(*ast.FuncDecl)
							sortCalls = append(sortCalls, sortCall{x, realFd, s, name, fname})
						}
					}
					// conversions to a floating-point type
					if tv, ok := info.Types[s.Fun]; ok && tv.IsType() && len(s.Args) == 1 {
						if b, ok := tv.Type.Underlying().(*types.Basic); ok && b.Info()&types.IsFloat != 0 {
							floats = append(floats, use{rel, fname, "conv:" + b.Name(), pos(s)})
						}
					}
					// a map handed to code outside the scanned packages (which may iterate it)
					{
						var obj types.Object
						switch f := s.Fun.(type) {
						case *ast.Ident:
							obj = info.Uses[f]
						case *ast.SelectorExpr:
							obj = info.Uses[f.Sel]
						}
						_, isBuiltin := obj.(*types.Builtin)
						tv, isConv := info.Types[s.Fun]
						if obj != nil && !isBuiltin && !(isConv && tv.IsType()) && (obj.Pkg() == nil || !scannedPkg[obj.Pkg().Path()]) {
							for _, a := range s.Args {
								if isMap(info.TypeOf(a)) {
									callee := obj.Name()
									if obj.Pkg() != nil {
										callee = obj.Pkg().Path() + "." + callee
									}
									mapArgs = append(mapArgs, use{rel, fname, callee, pos(s)})
								}
							}
						}
					}
					// make(chan …)
					if id, ok := s.Fun.(*ast.Ident); ok && id.Name == "make" && len(s.Args) > 0 {
						if t := info.TypeOf(s.Args[0]); t != nil {
							if _, ok := t.Underlying().(*types.Chan); ok {
								chans = append(chans, use{rel, fname, "make-chan", pos(s)})
							}
						}
					}
					// pointer → integer conversions
					if tv, ok := info.Types[s.Fun]; ok && tv.IsType() && len(s.Args) == 1 {
						if b, ok := tv.Type.Underlying().(*types.Basic); ok && b.Info()&types.IsInteger != 0 {
							at := info.TypeOf(s.Args[0])
							if at != nil {
								switch u := at.Underlying().(type) {
								case *types.Basic:
									if u.Kind() == types.UnsafePointer {
										unsafes = append(unsafes, use{rel, fname, "ptr-to-int", pos(s)})
									}
								case *types.Pointer:
									unsafes = append(unsafes, use{rel, fname, "ptr-to-int", pos(s)})
								}
							}
						}
					}
					// %p formatting leaks addresses
					for _, a := range s.Args {
						if bl, ok := a.(*ast.BasicLit); ok && bl.Kind == token.STRING && strings.Contains(bl.Value, "%p") {
							unsafes = append(unsafes, use{rel, fname, "fmt-%p", pos(s)})
						}
					}
				case *ast.Ident:
					obj := info.Uses[s]
					if obj == nil || obj.Pkg() == nil {
						return true
					}
					pp := obj.Pkg().Path()
					switch pp {
					case "math", "math/cmplx", "math/big":
						if _, isFn := obj.(*types.Func); isFn && (pp != "math/big" || strings.Contains(objName(obj), "Float")) {
							floats = append(floats, use{rel, fname, objName(obj), pos(s)})
						}
					case "strconv":
						if obj.Name() == "ParseFloat" || obj.Name() == "FormatFloat" || obj.Name() == "AppendFloat" {
							floats = append(floats, use{rel, fname, "strconv." + obj.Name(), pos(s)})
						}
					case "reflect":
						reflects = append(reflects, use{rel, fname, objName(obj), pos(s)})
					case "sync", "sync/atomic":
						syncs = append(syncs, use{rel, fname, objName(obj), pos(s)})
					}
					if f, isFn := obj.(*types.Func); isFn {
						switch f.Name() {
						case "MustFloat64", "Float64", "Float32":
							if sig, ok := f.Type().(*types.Signature); ok && sig.Recv() != nil {
								floats = append(floats, use{rel, fname, "method:" + objName(obj), pos(s)})
							}
						}
					}
					switch pp {
					case "time":
						switch objName(obj) {
						case "time.Local", "time.LoadLocation", "time.LoadLocationFromTZData", "time.Unix", "time.UnixMilli", "time.UnixMicro",
							"time.Time.Local", "time.Time.Zone", "time.Time.ZoneBounds", "time.Time.Location":
							zones = append(zones, use{rel, fname, objName(obj), pos(s)})
							if dd, ok := d.(*ast.FuncDecl); ok {
								if o := info.Defs[dd.Name]; o != nil {
									randFuncs[o] = true
								}
							}
						}
						switch obj.Name() {
						case "Now", "Since", "Until", "After", "Tick", "Sleep", "NewTimer", "NewTicker", "AfterFunc":
							if _, isFn := obj.(*types.Func); isFn && obj.Parent() == obj.Pkg().Scope() {
								clocks = append(clocks, use{rel, fname, "time." + obj.Name(), pos(s)})
								if dd, ok := d.(*ast.FuncDecl); ok {
									if o := info.Defs[dd.Name]; o != nil {
										randFuncs[o] = true
									}
								}
							}
						}
					case "math/rand", "math/rand/v2", "crypto/rand":
						rands = append(rands, use{rel, fname, pp + "." + obj.Name(), pos(s)})
						if dd, ok := d.(*ast.FuncDecl); ok {
							if o := info.Defs[dd.Name]; o != nil {
								randFuncs[o] = true
							}
						}
					case "os":
						switch obj.Name() {
						case "Getenv", "LookupEnv", "Environ", "ExpandEnv", "Hostname", "Getpid", "Getppid", "Getuid", "Geteuid", "Getgid", "Getwd", "Args",
							"Executable", "UserHomeDir", "UserCacheDir", "UserConfigDir", "TempDir", "ReadFile", "ReadDir", "Open", "OpenFile", "Stat", "Lstat":
							envs = append(envs, use{rel, fname, "os." + obj.Name(), pos(s)})
							if dd, ok := d.(*ast.FuncDecl); ok {
								if o := info.Defs[dd.Name]; o != nil {
									randFuncs[o] = true
								}
							}
						}
					case "unsafe":
						unsafes = append(unsafes, use{rel, fname, "unsafe." + obj.Name(), pos(s)})
					case "runtime":
						switch obj.Name() {
						case "NumGoroutine", "NumCPU", "GOMAXPROCS", "Gosched", "GOOS", "GOARCH", "Version", "Caller", "Callers", "Stack", "ReadMemStats", "NumCgoCall", "GC":
							envs = append(envs, use{rel, fname, "runtime." + obj.Name(), pos(s)})
						}
					}
				}
				return true
			})
		}
	}
	// sort sites: comparison text, called comparison methods, origin of the input order
	methodsByName := map[string][]string{}
	for obj, dd := range declIndex {
		if dd.Recv != nil && dd.Body != nil {
			_ = obj
			methodsByName[dd.Name.Name] = append(methodsByName[dd.Name.Name], funcName(dd)+nodeStr(dd.Body))
		}
	}
	for _, sc := range sortCalls {
		info := sc.x.p.TypesInfo
		st := sortSite{file: sc.x.fn, fn: sc.fn, sortFn: sc.name, stable: stableSorts[sc.name], line: fset.Position(sc.ce.Pos()).Line}
		if len(sc.ce.Args) == 0 {
			continue
		}
		st.slice = nodeStr(sc.ce.Args[0])
		var lessNode ast.Node
		if len(sc.ce.Args) >= 2 {
			if fl, ok := sc.ce.Args[1].(*ast.FuncLit); ok {
				lessNode = fl.Body
				st.less = nodeStr(fl.Body)
			} else {
				st.less = "<func value " + nodeStr(sc.ce.Args[1]) + ">"
			}
		} else if sc.name == "sort.Strings" || sc.name == "sort.Ints" || sc.name == "sort.Float64s" || sc.name == "slices.Sort" {
			st.less = "<whole element>"
		} else {
			// sort.Sort / sort.Stable / heap.*: the Less method of the argument's type, if it is scanned code
			st.less = "<interface>"
			t := info.TypeOf(sc.ce.Args[0])
			if t != nil {
				if p, ok := t.(*types.Pointer); ok {
					t = p.Elem()
				}
				if n, ok := t.(*types.Named); ok {
					for i := 0; i < n.NumMethods(); i++ {
						if m := n.Method(i); m.Name() == "Less" {
							if dd := declIndex[m]; dd != nil && dd.Body != nil {
								lessNode = dd.Body
								st.less = nodeStr(dd.Body)
							}
						}
					}
				}
			}
		}
		if lessNode != nil {
			seen := map[string]bool{}
			var cs []string
			ast.Inspect(lessNode, func(n ast.Node) bool {
				ce, ok := n.(*ast.CallExpr)
				if !ok {
					return true
				}
				sel, ok := ce.Fun.(*ast.SelectorExpr)
				if !ok {
					return true
				}
				obj := info.Uses[sel.Sel]
				if obj == nil || obj.Pkg() == nil || !scannedPkg[obj.Pkg().Path()] || seen[sel.Sel.Name] {
					return true
				}
				seen[sel.Sel.Name] = true
				cs = append(cs, methodsByName[sel.Sel.Name]...)
				return true
			})
			sort.Strings(cs)
			st.callees = strings.Join(cs, " | ")
		}
		// origin of the order of the slice
		st.origin = "local"
		if sc.fd == nil {
			st.origin = "init"
		} else if appendedInMapRange(info, sc.fd, st.slice) {
			st.origin = "maprange"
		} else if root := rootIdent(sc.ce.Args[0]); root != nil {
			paramIdx := -1
			idx := 0
			for _, fld := range sc.fd.Type.Params.List {
				for _, nm := range fld.Names {
					if info.Defs[nm] != nil && info.Defs[nm] == info.ObjectOf(root) {
						paramIdx = idx
					}
					idx++
				}
			}
			if paramIdx >= 0 {
				st.origin = "param"
				self := info.Defs[sc.fd.Name]
				for _, y := range files {
					yi := y.p.TypesInfo
					for _, d := range y.f.Decls {
						cd, ok := d.(*ast.FuncDecl)
						if !ok || cd.Body == nil {
							continue
						}
						ast.Inspect(cd.Body, func(n ast.Node) bool {
							ce, ok := n.(*ast.CallExpr)
							if !ok {
								return true
							}
							var obj types.Object
							switch f := ce.Fun.(type) {
							case *ast.Ident:
								obj = yi.Uses[f]
							case *ast.SelectorExpr:
								obj = yi.Uses[f.Sel]
							}
							if obj == nil || obj != self || paramIdx >= len(ce.Args) {
								return true
							}
							if appendedInMapRange(yi, cd, nodeStr(ce.Args[paramIdx])) {
								st.origin = "param<-maprange(" + funcName(cd) + ")"
							}
							return true
						})
					}
				}
			}
		}
		sorts = append(sorts, st)
	}
	sort.Slice(sorts, func(i, j int) bool {
		if sorts[i].file != sorts[j].file {
			return sorts[i].file < sorts[j].file
		}
		return sorts[i].line < sorts[j].line
	})

	// package-level mutable state
	var pkgState []use
	nPkgVars := 0
	isPkgVar := func(obj types.Object) bool {
		v, ok := obj.(*types.Var)
		if !ok || v.Pkg() == nil || v.IsField() {
			return false
		}
		return v.Parent() == v.Pkg().Scope() && scannedPkg[v.Pkg().Path()]
	}
	for _, x := range files {
		info := x.p.TypesInfo
		short := func(obj types.Object) string {
			pp := strings.TrimPrefix(obj.Pkg().Path(), "github.com/comdex-official/comdex/")
			return pp + "." + obj.Name()
		}
		rootVar := func(e ast.Expr) (types.Object, string) {
			kind := "assign"
			for {
				switch y := e.(type) {
				case *ast.Ident:
					if obj := info.Uses[y]; obj != nil && isPkgVar(obj) {
						return obj, kind
					}
					return nil, ""
				case *ast.SelectorExpr:
					// pkg.Var (qualified identifier) or value.field
					if id, ok := y.X.(*ast.Ident); ok {
						if _, isPkg := info.Uses[id].(*types.PkgName); isPkg {
							if obj := info.Uses[y.Sel]; obj != nil && isPkgVar(obj) {
								return obj, kind
							}
							return nil, ""
						}
					}
					kind = "field"
					e = y.X
				case *ast.IndexExpr:
					kind = "elem"
					e = y.X
				case *ast.StarExpr:
					kind = "deref"
					e = y.X
				case *ast.ParenExpr:
					e = y.X
				default:
					return nil, ""
				}
			}
		}
		scan := func(fname string, body ast.Node) {
			pos := func(n ast.Node) int { return fset.Position(n.Pos()).Line }
			ast.Inspect(body, func(n ast.Node) bool {
				switch s := n.(type) {
				case *ast.AssignStmt:
					if s.Tok == token.DEFINE {
						return true
					}
					for _, lhs := range s.Lhs {
						if obj, kind := rootVar(lhs); obj != nil {
							if s.Tok != token.ASSIGN {
								kind = "op" + kind
							}
							pkgState = append(pkgState, use{x.fn, fname, short(obj) + ":" + kind, pos(s)})
						}
					}
				case *ast.IncDecStmt:
					if obj, _ := rootVar(s.X); obj != nil {
						pkgState = append(pkgState, use{x.fn, fname, short(obj) + ":incdec", pos(s)})
					}
				case *ast.UnaryExpr:
					if s.Op == token.AND {
						if obj, _ := rootVar(s.X); obj != nil {
							pkgState = append(pkgState, use{x.fn, fname, short(obj) + ":addr", pos(s)})
						}
					}
				case *ast.CallExpr:
					if id, ok := s.Fun.(*ast.Ident); ok && id.Name == "delete" && len(s.Args) == 2 {
						if obj, _ := rootVar(s.Args[0]); obj != nil {
							pkgState = append(pkgState, use{x.fn, fname, short(obj) + ":delete", pos(s)})
						}
					}
					if sel, ok := s.Fun.(*ast.SelectorExpr); ok {
						if selInfo, ok := info.Selections[sel]; ok && selInfo.Kind() == types.MethodVal {
							if fn, ok := selInfo.Obj().(*types.Func); ok {
								sig := fn.Type().(*types.Signature)
								if sig.Recv() != nil {
									if _, isPtr := sig.Recv().Type().(*types.Pointer); isPtr {
										if obj, _ := rootVar(sel.X); obj != nil {
											// only types whose methods we can see / that are mutable by design
											t := sig.Recv().Type().(*types.Pointer).Elem()
											if nt, ok := t.(*types.Named); ok && nt.Obj().Pkg() != nil {
												tp := nt.Obj().Pkg().Path()
												if scannedPkg[tp] || tp == "sync" || tp == "sync/atomic" || tp == "container/list" || tp == "bytes" || tp == "strings" {
													pkgState = append(pkgState, use{x.fn, fname, short(obj) + ":ptrmethod." + fn.Name(), pos(s)})
												}
											}
										}
									}
								}
							}
						}
					}
				}
				return true
			})
		}
		for _, d := range x.f.Decls {
			switch dd := d.(type) {
			case *ast.FuncDecl:
				if dd.Body == nil || (dd.Recv == nil && dd.Name.Name == "init") {
					continue
				}
				scan(funcName(dd), dd.Body)
			case *ast.GenDecl:
				if dd.Tok == token.VAR {
					for _, sp := range dd.Specs {
						if vs, ok := sp.(*ast.ValueSpec); ok {
							nPkgVars += len(vs.Names)
						}
					}
				}
				// function literals stored in package-level variables run later, not at init
				ast.Inspect(dd, func(n ast.Node) bool {
					if fl, ok := n.(*ast.FuncLit); ok {
						scan("<func literal in package-level declaration>", fl.Body)
						return false
					}
					return true
				})
			}
		}
	}

	// second pass: taint closure — every scanned function that (transitively) calls a scanned function using
	// math/rand, crypto/rand or the wall clock
	for changed := true; changed; {
		changed = false
		for _, x := range files {
			info := x.p.TypesInfo
			for _, d := range x.f.Decls {
				dd, ok := d.(*ast.FuncDecl)
				if !ok || dd.Body == nil {
					continue
				}
				self := info.Defs[dd.Name]
				if self == nil || randFuncs[self] {
					continue
				}
				fname := funcName(dd)
				ast.Inspect(dd.Body, func(n ast.Node) bool {
					if id, ok := n.(*ast.Ident); ok && !randFuncs[self] {
						if obj := info.Uses[id]; obj != nil && randFuncs[obj] {
							randCallers = append(randCallers, use{x.fn, fname, obj.Name(), fset.Position(id.Pos()).Line})
							randFuncs[self] = true
							changed = true
						}
					}
					return true
				})
			}
		}
	}
	sort.Slice(randCallers, func(i, j int) bool {
		if randCallers[i].file != randCallers[j].file {
			return randCallers[i].file < randCallers[j].file
		}
		return randCallers[i].line < randCallers[j].line
	})

	var b strings.Builder
	b.WriteString("/-! GENERATED by extract/determinism from the Go source of comdex — do not edit.\n")
	b.WriteString("Sources of nondeterminism in consensus code (property C16). Scope: non-test, non-generated files of every package\n")
	b.WriteString("under x/…, app/… and types/… except client, simulation, testutil. -/\n")
	b.WriteString("namespace Comdex.Gen.Determinism\n\n")
	b.WriteString("structure MapRange where\n  file : String\n  line : Nat\n  fn : String\n  expr : String\n  keyT : String\n  valT : String\n  shape : String\n  body : String\n  deriving Repr, DecidableEq\n\n")
	b.WriteString("structure Use where\n  file : String\n  line : Nat\n  fn : String\n  what : String\n  deriving Repr, DecidableEq\n\n")
	fmt.Fprintf(&b, "def scannedPackages : Nat := %d\ndef scannedFiles : Nat := %d\ndef scannedFuncs : Nat := %d\n\n", nPkgs, nFiles, nFuncs)
	b.WriteString("def mapRangeSites : List MapRange := [\n")
	for i, s := range sites {
		sep := ","
		if i == len(sites)-1 {
			sep = ""
		}
		fmt.Fprintf(&b, "  { file := %s, line := %d, fn := %s, expr := %s, keyT := %s, valT := %s, shape := %s,\n    body := %s }%s\n",
			leanStr(s.file), s.line, leanStr(s.fn), leanStr(s.expr), leanStr(s.keyT), leanStr(s.valT), leanStr(s.shape), leanStr(s.body), sep)
	}
	b.WriteString("]\n\n")
	emit := func(name string, us []use) {
		fmt.Fprintf(&b, "def %s : List Use := [\n", name)
		for i, s := range us {
			sep := ","
			if i == len(us)-1 {
				sep = ""
			}
			fmt.Fprintf(&b, "  { file := %s, line := %d, fn := %s, what := %s }%s\n", leanStr(s.file), s.line, leanStr(s.fn), leanStr(s.what), sep)
		}
		b.WriteString("]\n\n")
	}
	emit("goStatements", gos)
	emit("wallClockUses", clocks)
	emit("randUses", rands)
	emit("taintedCallers", randCallers)
	emit("envUses", envs)
	emit("selectStmts", selects)
	emit("unsafeUses", unsafes)
	emit("chanOps", chans)
	emit("mapArgsExternal", mapArgs)
	emit("floatUses", floats)
	emit("reflectUses", reflects)
	emit("syncUses", syncs)
	emit("zoneUses", zones)
	b.WriteString("structure SortSite where\n  file : String\n  line : Nat\n  fn : String\n  sortFn : String\n  stable : Bool\n  slice : String\n  less : String\n  callees : String\n  origin : String\n  deriving Repr, DecidableEq\n\n")
	b.WriteString("def sortSites : List SortSite := [\n")
	for i, s := range sorts {
		sep := ","
		if i == len(sorts)-1 {
			sep = ""
		}
		fmt.Fprintf(&b, "  { file := %s, line := %d, fn := %s, sortFn := %s, stable := %v, slice := %s,\n    less := %s,\n    callees := %s,\n    origin := %s }%s\n",
			leanStr(s.file), s.line, leanStr(s.fn), leanStr(s.sortFn), s.stable, leanStr(s.slice), leanStr(s.less), leanStr(s.callees), leanStr(s.origin), sep)
	}
	b.WriteString("]\n\n")
	b.WriteString("/-- line-number-free key of a sort site -/\ndef SortSite.key (s : SortSite) : String × String × String × String := (s.file, s.fn, s.sortFn, s.origin)\n\n")
	fmt.Fprintf(&b, "def packageVars : Nat := %d\n\n", nPkgVars)
	emit("mutablePackageState", pkgState)
	// deduplicated (top-level directory, callee) pairs of mapArgsExternal: what the obligation is stated over
	{
		seen := map[string]bool{}
		var ks []string
		for _, m := range mapArgs {
			top := m.file
			if i := strings.Index(top, "/"); i >= 0 {
				top = top[:i]
			}
			k := top + "\x00" + m.what
			if !seen[k] {
				seen[k] = true
				ks = append(ks, k)
			}
		}
		sort.Strings(ks)
		b.WriteString("def mapArgsExternalSummary : List (String × String) := [\n")
		for i, k := range ks {
			sep := ","
			if i == len(ks)-1 {
				sep = ""
			}
			parts := strings.SplitN(k, "\x00", 2)
			fmt.Fprintf(&b, "  (%s, %s)%s\n", leanStr(parts[0]), leanStr(parts[1]), sep)
		}
		b.WriteString("]\n\n")
	}
	b.WriteString("/-- line-number-free keys used by the obligations in Props/C16.lean -/\n")
	b.WriteString("def MapRange.key (s : MapRange) : String × String × String := (s.file, s.fn, s.shape)\n/-- the loop statement itself (comments and layout removed): a changed loop has a different text -/\ndef MapRange.text (s : MapRange) : String × String := (s.fn, s.body)\n")
	b.WriteString("def Use.key (u : Use) : String × String × String := (u.file, u.fn, u.what)\n\n")
	b.WriteString("end Comdex.Gen.Determinism\n")
	if err := os.MkdirAll(filepath.Dir(*out), 0o755); err != nil {
		panic(err)
	}
	if err := os.WriteFile(*out, []byte(b.String()), 0o644); err != nil {
		panic(err)
	}
	fmt.Printf("determinism: %d packages, %d files, %d funcs; %d map ranges, %d go, %d clock, %d rand, %d env, %d select, %d unsafe, %d chan, %d sort, %d float, %d reflect, %d sync, %d zone\n",
		nPkgs, nFiles, nFuncs, len(sites), len(gos), len(clocks), len(rands), len(envs), len(selects), len(unsafes), len(chans), len(sorts), len(floats), len(reflects), len(syncs), len(zones))
}
