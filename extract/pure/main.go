// Command pure regenerates lean/Comdex/Gen/Pure.lean: a translation of the pure arithmetic kernels of comdex (the
// functions listed in `specs`) from Go to Lean 4 `do`-notation in the monad `GoSem.M = Except Fail`
// (lean/Comdex/Base/GoSem.lean holds the semantics of every Go / cosmossdk.io/math primitive the output mentions).
//
// The packages are type-checked with go/types (golang.org/x/tools/go/packages); the translation is driven by the
// types the Go compiler itself assigns, never by guesses from syntax.  Supported subset (notes/PURE.md has the table):
//
//	x := e   x, y := e1, e2   x = e   x, y = f()   x op= e   x++   var x T [= e]        let mut / reassignment
//	if c {…} else {…}   tagless switch {case c: … default: …}                           if … then … else …
//	return [e, …] (named results: bare return)   panic(…)                               return (…) / GoSem.goPanic
//	for i := a; i < b; i++ {…}  (i and the bound not assigned in the body)              for i in GoSem.rangeU64 a b do
//	for i, v := range xs {…}    break   continue                                        for (i, v) in GoSem.enumI xs do
//	utils.SafeMath(func(){…}, func(){…})                                                 … ← GoSem.safeMath (do …) (do …)
//	method / function calls that are GoSem primitives (table `prims`) or translated functions of this file;
//	machine-integer operators and conversions; constants (folded by go/types); append; len; xs[i]
//
// Everything else — go, defer, select, chan, map, pointers, closures other than the two of SafeMath, labels, goto,
// fallthrough, struct values, calls of unknown functions, reads of the dropped parameters (ctx, receiver) … — makes
// the program FAIL with file:line and the construct; it never skips or guesses.  Declarations in a function's spec
// (trusted, each one leaves a trace in the output):
//
//	drop   parameters that are not translated (sdk.Context, ids that only feed state reads); any other use is an error
//	skip   statement prefixes declared effect-only (event emission): replaced by a Lean COMMENT naming the statement
//	flat   struct-typed parameter / read variable -> the fields used; each becomes a Lean variable `v_Field`
//	reads  call prefixes declared state reads ("keeper reads become parameters"): `x, found := k.GetX(ctx, id)` is replaced
//	       by a comment and x, found become PARAMETERS of the Lean function (a re-assigned variable gets a fresh one)
//
// `error` values are translated to Bool ("is not nil"): nil -> false, a package-level error variable -> true.
package main

import (
	"bytes"
	"crypto/sha1"
	"flag"
	"fmt"
	"go/ast"
	"go/constant"
	"go/printer"
	"go/token"
	"go/types"
	"os"
	"path/filepath"
	"sort"
	"strings"

	"golang.org/x/tools/go/packages"
)

// ---- what is translated ------------------------------------------------------------------------------------------

type spec struct {
	pkg, recv, fn, lean string
	drop                []string            // parameters that are not translated (sdk.Context); any use is an error
	skip                []string            // source prefixes of statements declared effect-only (replaced by a comment)
	flat                map[string][]string // struct-typed parameter / read variable -> its fields, each becomes a parameter `p_Field`
	plainPanics         bool                // string panics of this function are declared NOT overflow-class
	reads               []string            // source prefixes of calls that READ state (`x, found := k.GetX(ctx, id)`): the statement
	//                                         is dropped and the variables it defines become parameters of the Lean function
}

var specs = []spec{
	{pkg: "x/liquidity/amm", fn: "Withdraw", lean: "ammWithdraw"},
	{pkg: "x/liquidity/amm", fn: "Deposit", lean: "ammDeposit"},
	{pkg: "x/liquidity/amm", fn: "InitialPoolCoinSupply", lean: "ammInitialPoolCoinSupply"},
	{pkg: "x/liquidity/amm", fn: "OfferCoinAmount", lean: "ammOfferCoinAmount", plainPanics: true},
	{pkg: "x/rewards/keeper", fn: "SplitTotalAmountPerEpoch", lean: "splitTotalAmountPerEpoch"},
	{pkg: "x/liquidationsV2/types", fn: "GetSliceStartEndForLiquidations", lean: "sliceStartEndV2"},
	{pkg: "x/liquidation/types", fn: "GetSliceStartEndForLiquidations", lean: "sliceStartEndV1"},
	{pkg: "x/market/keeper", recv: "Keeper", fn: "CalculateTwa", lean: "calculateTwa", drop: []string{"ctx"},
		skip: []string{"ctx.EventManager().EmitEvents("}, flat: map[string][]string{"twa": {"Twa", "PriceValue"}}},
	{pkg: "x/auction/keeper", fn: "Multiply", lean: "auctionMultiply"},
	{pkg: "x/lend/keeper", recv: "Keeper", fn: "GetUtilisationRatioByPoolIDAndAssetID", lean: "lendUtilisationRatio",
		drop: []string{"ctx", "poolID", "assetID"}, reads: []string{"k.GetPool(ctx, ", "k.Asset.GetAsset(ctx, ", "k.ModuleBalance(ctx, ",
			"k.GetAssetStatsByPoolIDAndAssetID(ctx, "},
		flat: map[string][]string{"pool": {}, "asset": {}, "assetStats": {"TotalBorrowed", "TotalStableBorrowed"}}},
	{pkg: "x/lend/keeper", recv: "Keeper", fn: "GetBorrowAPRByAssetID", lean: "lendBorrowAPR", drop: []string{"ctx", "poolID", "assetID"},
		reads: []string{"k.GetAssetRatesParams(ctx, ", "k.GetUtilisationRatioByPoolIDAndAssetID(ctx, "},
		flat:  map[string][]string{"assetRatesStats": {"UOptimal", "Base", "Slope1", "Slope2", "StableBase", "StableSlope1", "StableSlope2"}}},
	{pkg: "x/lend/keeper", recv: "Keeper", fn: "GetLendAPRByAssetIDAndPoolID", lean: "lendLendAPR", drop: []string{"ctx", "poolID", "assetID"},
		reads: []string{"k.GetAssetRatesParams(ctx, ", "k.GetBorrowAPRByAssetID(ctx, ", "k.GetUtilisationRatioByPoolIDAndAssetID(ctx, "},
		flat:  map[string][]string{"assetRatesStats": {"ReserveFactor"}}},
	{pkg: "x/vault/keeper", recv: "Keeper", fn: "GetAmountOfOtherToken", lean: "vaultAmountOfOtherToken", drop: []string{"ctx", "id1", "id2"},
		reads: []string{"k.asset.GetAsset(ctx, "}, flat: map[string][]string{"asset1": {"Decimals"}, "asset2": {"Decimals"}}},
	{pkg: "x/auction/keeper", recv: "Keeper", fn: "getOutflowTokenInitialPrice", lean: "auctionInitialPrice"},
	{pkg: "x/auction/keeper", recv: "Keeper", fn: "getOutflowTokenEndPrice", lean: "auctionEndPrice"},
	{pkg: "x/auction/keeper", recv: "Keeper", fn: "getPriceFromLinearDecreaseFunction", lean: "auctionLinearPrice"},
	{pkg: "x/auctionsV2/keeper", fn: "Multiply", lean: "auctionsV2Multiply"},
	{pkg: "x/auctionsV2/keeper", recv: "Keeper", fn: "GetCollalteralTokenInitialPrice", lean: "auctionsV2InitialPrice"},
	{pkg: "x/auctionsV2/keeper", recv: "Keeper", fn: "GetCollateralTokenEndPrice", lean: "auctionsV2EndPrice"},
	{pkg: "x/auctionsV2/keeper", recv: "Keeper", fn: "GetPriceFromLinearDecreaseFunction", lean: "auctionsV2LinearPrice"},
}

// ---- Go primitive -> GoSem definition ----------------------------------------------------------------------------

type prim struct {
	lean string // GoSem name; arguments are applied in Go order (receiver first)
	m    bool   // the step can panic: result in M, emitted as (← …)
	pred string // for bool results: a Prop template over the arguments ($1, $2)
}

const mth, sdk = "cosmossdk.io/math.", "github.com/cosmos/cosmos-sdk/types."

var prims = map[string]prim{}

func init() {
	dec := "(" + mth + "LegacyDec)."
	i := "(" + mth + "Int)."
	for name, p := range map[string]prim{
		dec + "Add": {lean: "decAdd", m: true}, dec + "Sub": {lean: "decSub", m: true}, dec + "Mul": {lean: "decMul", m: true},
		dec + "MulTruncate": {lean: "decMulTruncate", m: true}, dec + "MulRoundUp": {lean: "decMulRoundUp", m: true},
		dec + "MulInt": {lean: "decMulInt", m: true}, dec + "MulInt64": {lean: "decMulInt64", m: true},
		dec + "Quo": {lean: "decQuo", m: true}, dec + "QuoTruncate": {lean: "decQuoTruncate", m: true},
		dec + "QuoRoundUp": {lean: "decQuoRoundUp", m: true}, dec + "QuoInt": {lean: "decQuoInt", m: true},
		dec + "QuoInt64": {lean: "decQuoInt64", m: true}, dec + "Neg": {lean: "decNeg"}, dec + "Abs": {lean: "decAbs"},
		dec + "Ceil": {lean: "decCeil"}, dec + "TruncateDec": {lean: "decTruncateDec"},
		dec + "TruncateInt": {lean: "decTruncateInt", m: true}, dec + "RoundInt": {lean: "decRoundInt", m: true},
		dec + "TruncateInt64": {lean: "decTruncateInt64", m: true}, dec + "RoundInt64": {lean: "decRoundInt64", m: true},
		dec + "IsZero": {pred: "$1 = 0"}, dec + "IsPositive": {pred: "$1 > 0"}, dec + "IsNegative": {pred: "$1 < 0"},
		dec + "Equal": {pred: "$1 = $2"}, dec + "GT": {pred: "$1 > $2"}, dec + "GTE": {pred: "$1 ≥ $2"},
		dec + "LT": {pred: "$1 < $2"}, dec + "LTE": {pred: "$1 ≤ $2"},
		i + "Add": {lean: "intAdd", m: true}, i + "Sub": {lean: "intSub", m: true}, i + "Mul": {lean: "intMul", m: true},
		i + "Quo": {lean: "intQuo", m: true}, i + "Mod": {lean: "intMod", m: true}, i + "Neg": {lean: "intNeg"},
		i + "Abs": {lean: "intAbs"}, i + "Int64": {lean: "intInt64", m: true}, i + "Uint64": {lean: "intUint64", m: true},
		i + "ToLegacyDec": {lean: "intToDec"},
		i + "IsZero":      {pred: "$1 = 0"}, i + "IsPositive": {pred: "$1 > 0"}, i + "IsNegative": {pred: "$1 < 0"},
		i + "Equal": {pred: "$1 = $2"}, i + "GT": {pred: "$1 > $2"}, i + "GTE": {pred: "$1 ≥ $2"},
		i + "LT": {pred: "$1 < $2"}, i + "LTE": {pred: "$1 ≤ $2"},
		"math/bits.Add64": {lean: "bitsAdd64"}, "math/bits.Div64": {lean: "bitsDiv64", m: true},
		"math/big.NewInt": {lean: "bigNew"},
	} {
		prims[name] = p
	}
	// package-level constructors; the sdk names are `var X = sdkmath.Y` aliases (cosmos-sdk types/math.go)
	for _, c := range []struct {
		mathName, sdkName, lean string
		m                       bool
	}{
		{"LegacyZeroDec", "ZeroDec", "decZero", false}, {"LegacyOneDec", "OneDec", "decOne", false},
		{"LegacyNewDec", "NewDec", "decNew", false}, {"LegacyNewDecFromInt", "NewDecFromInt", "intToDec", false},
		{"LegacyMinDec", "MinDec", "decMin", false}, {"LegacyMaxDec", "MaxDec", "decMax", false},
		{"ZeroInt", "ZeroInt", "intZero", false}, {"OneInt", "OneInt", "intOne", false}, {"NewInt", "NewInt", "intNew", false},
		{"NewIntFromUint64", "NewIntFromUint64", "intNewFromUint64", false}, {"MinInt", "MinInt", "intMin", false},
		{"MaxInt", "MaxInt", "intMax", false}, {"NewIntFromBigInt", "NewIntFromBigInt", "intNewFromBigInt", true},
	} {
		prims[mth+c.mathName] = prim{lean: c.lean, m: c.m}
		prims[sdk+c.sdkName] = prim{lean: c.lean, m: c.m}
	}
}

// ---- kinds ---------------------------------------------------------------------------------------------------------

// kind of a Go type: the Lean type it is represented by, "" if unsupported
func leanType(t types.Type) string {
	t = types.Unalias(t)
	switch {
	case isI64(t):
		return "Int"
	case isU64(t):
		return "Nat"
	}
	switch t.String() {
	case mth + "Int", "*math/big.Int":
		return "Int"
	case mth + "LegacyDec":
		return "Dec"
	case "bool", "error": // an error value is represented by "is not nil"
		return "Bool"
	}
	if s, ok := t.(*types.Slice); ok {
		if e := leanType(s.Elem()); e != "" {
			return "List " + paren(e)
		}
	}
	return ""
}

func isErr(t types.Type) bool { return t != nil && types.Unalias(t).String() == "error" }

// a package-level variable of type error (sdkerrors.Register(...) values: never nil)
func (t *tr) isErrVar(o types.Object) bool {
	v, ok := o.(*types.Var)
	return ok && !v.IsField() && v.Pkg() != nil && v.Parent() == v.Pkg().Scope() &&
		(isErr(v.Type()) || types.Unalias(v.Type()).String() == "*cosmossdk.io/errors.Error")
}

// machine integers, incl. named types over them (`type OrderDirection int`)
func isU64(t types.Type) bool { return t != nil && types.Unalias(t).Underlying().String() == "uint64" }
func isI64(t types.Type) bool {
	if t == nil {
		return false
	}
	s := types.Unalias(t).Underlying().String()
	return s == "int" || s == "int64"
}

// a zero value of this type is a nil big.Int: using it before an assignment panics
func nilable(t types.Type) bool {
	s := types.Unalias(t).String()
	return s == mth+"Int" || s == mth+"LegacyDec" || s == "*math/big.Int"
}

func paren(s string) string {
	if strings.ContainsAny(s, " ") && !(strings.HasPrefix(s, "(") && strings.HasSuffix(s, ")") && balanced(s[1:len(s)-1])) {
		return "(" + s + ")"
	}
	return s
}

func balanced(s string) bool {
	d := 0
	for _, c := range s {
		if c == '(' {
			d++
		} else if c == ')' {
			if d--; d < 0 {
				return false
			}
		}
	}
	return d == 0
}

// ---- translator ------------------------------------------------------------------------------------------------------

type failure struct{ msg string }

type tr struct {
	fset    *token.FileSet
	info    *types.Info
	sp      spec
	out     *bytes.Buffer
	names   map[types.Object]string
	used    map[string]bool
	dropped map[types.Object]bool
	flat    map[types.Object]map[string]string // flattened struct parameter -> field -> Lean variable
	unset   map[types.Object]bool              // nil-zero variables that are not definitely assigned yet
	results []*types.Var                       // named results
	nres    int
	sig     *types.Signature
	inClos  bool
	inLoop  int
	extra   []string          // parameters created by `reads`
	fns     map[string]string // FullName of a translated function -> Lean name
}

func (t *tr) fail(n ast.Node, f string, a ...interface{}) {
	panic(failure{fmt.Sprintf("%s: unsupported: %s", t.fset.Position(n.Pos()), fmt.Sprintf(f, a...))})
}

func (t *tr) src(n ast.Node) string {
	var b bytes.Buffer
	printer.Fprint(&b, t.fset, n)
	return strings.Join(strings.Fields(b.String()), " ")
}

var leanKeywords = map[string]bool{"end": true, "at": true, "from": true, "fun": true, "match": true, "then": true, "do": true,
	"in": true, "let": true, "have": true, "show": true, "open": true, "where": true, "with": true, "if": true, "else": true,
	"by": true, "def": true, "theorem": true, "instance": true, "structure": true, "namespace": true, "section": true,
	"mut": true, "for": true, "return": true, "pure": true, "Type": true, "Prop": true, "universe": true, "variable": true,
	"example": true, "import": true, "deriving": true, "macro": true, "syntax": true, "set_option": true, "using": true}

func (t *tr) name(o types.Object) string {
	if n, ok := t.names[o]; ok {
		return n
	}
	n := o.Name()
	if leanKeywords[n] {
		n += "_"
	}
	for base, k := n, 1; t.used[n]; k++ {
		n = fmt.Sprintf("%s_%d", base, k)
	}
	t.used[n], t.names[o] = true, n
	return n
}

func (t *tr) line(ind int, f string, a ...interface{}) {
	fmt.Fprintf(t.out, "%s%s\n", strings.Repeat("  ", ind), fmt.Sprintf(f, a...))
}

// local variable (or parameter) object of an identifier, nil otherwise
func (t *tr) local(e ast.Expr) *types.Var {
	id, ok := e.(*ast.Ident)
	if !ok {
		return nil
	}
	o := t.info.Uses[id]
	if o == nil {
		o = t.info.Defs[id]
	}
	v, ok := o.(*types.Var)
	if !ok || v.IsField() || v.Parent() == nil || v.Parent() == v.Pkg().Scope() {
		return nil
	}
	return v
}

func constLit(v constant.Value, ty types.Type, n ast.Node, t *tr) string {
	switch {
	case v.Kind() == constant.Bool:
		return fmt.Sprint(constant.BoolVal(v))
	case v.Kind() == constant.Int && isU64(ty):
		return "(" + v.ExactString() + " : Nat)"
	case v.Kind() == constant.Int && isI64(ty):
		return "(" + v.ExactString() + " : Int)"
	}
	t.fail(n, "constant %s of type %s", v, ty)
	return ""
}

// expression in value position
func (t *tr) expr(e ast.Expr) string {
	if tv, ok := t.info.Types[e]; ok && tv.Value != nil {
		return constLit(tv.Value, tv.Type, e, t)
	}
	switch e := e.(type) {
	case *ast.ParenExpr:
		return t.expr(e.X)
	case *ast.Ident:
		if v := t.local(e); v != nil {
			if t.dropped[v] || t.flat[v] != nil {
				t.fail(e, "use of parameter %s, which is not translated", e.Name)
			}
			if t.unset[v] {
				t.fail(e, "%s may be read before it is assigned (zero value of %s is nil)", e.Name, v.Type())
			}
			return t.name(v)
		}
		if _, isNil := t.info.Uses[e].(*types.Nil); isNil && isErr(t.info.TypeOf(e)) {
			return "false"
		}
		if t.isErrVar(t.info.Uses[e]) {
			return "true"
		}
		t.fail(e, "identifier %s (%T)", e.Name, t.info.Uses[e])
	case *ast.SelectorExpr:
		if t.isErrVar(t.info.Uses[e.Sel]) {
			return "true"
		}
		if v := t.local(e.X); v != nil && t.flat[v] != nil {
			if n, ok := t.flat[v][e.Sel.Name]; ok {
				return n
			}
		}
		t.fail(e, "selector %s", t.src(e))
	case *ast.IndexExpr:
		if _, ok := types.Unalias(t.info.TypeOf(e.X)).(*types.Slice); ok && leanType(t.info.TypeOf(e)) != "" {
			f := "indexI"
			if isU64(t.info.TypeOf(e.Index)) {
				f = "indexU"
			} else if !isI64(t.info.TypeOf(e.Index)) {
				t.fail(e, "index of type %s", t.info.TypeOf(e.Index))
			}
			return fmt.Sprintf("(← GoSem.%s %s %s)", f, paren(t.expr(e.X)), paren(t.expr(e.Index)))
		}
		t.fail(e, "index expression %s", t.src(e))
	case *ast.UnaryExpr:
		if e.Op == token.SUB && isI64(t.info.TypeOf(e)) {
			return "(GoSem.i64Neg " + paren(t.expr(e.X)) + ")"
		}
		if e.Op == token.NOT {
			return "(decide " + paren(t.cond(e)) + ")"
		}
		t.fail(e, "unary operator %s", e.Op)
	case *ast.BinaryExpr:
		ty := t.info.TypeOf(e.X)
		pre := map[bool]string{true: "u64", false: "i64"}[isU64(ty)]
		op, ok := map[token.Token]string{token.ADD: "Add", token.SUB: "Sub", token.MUL: "Mul", token.QUO: "Div", token.REM: "Mod"}[e.Op]
		if ok && (isU64(ty) || isI64(ty)) {
			x, y := paren(t.expr(e.X)), paren(t.expr(e.Y))
			if e.Op == token.QUO || e.Op == token.REM {
				return fmt.Sprintf("(← GoSem.%s%s %s %s)", pre, op, x, y)
			}
			return fmt.Sprintf("(GoSem.%s%s %s %s)", pre, op, x, y)
		}
		if leanType(t.info.TypeOf(e)) == "Bool" {
			return "(decide " + paren(t.cond(e)) + ")"
		}
		t.fail(e, "binary operator %s on %s", e.Op, ty)
	case *ast.CallExpr:
		return t.call(e)
	}
	t.fail(e, "expression %s (%T)", t.src(e), e)
	return ""
}

func monadic(s string) bool { return strings.Contains(s, "(←") }

// expression in condition position: a Prop
func (t *tr) cond(e ast.Expr) string {
	if tv, ok := t.info.Types[e]; ok && tv.Value != nil {
		return map[bool]string{true: "True", false: "False"}[constant.BoolVal(tv.Value)]
	}
	switch e := e.(type) {
	case *ast.ParenExpr:
		return t.cond(e.X)
	case *ast.UnaryExpr:
		if e.Op == token.NOT {
			return "¬ " + paren(t.cond(e.X))
		}
	case *ast.BinaryExpr:
		switch e.Op {
		case token.LAND, token.LOR:
			x, y := t.cond(e.X), t.cond(e.Y)
			if monadic(y) {
				t.fail(e.Y, "right operand of %s can panic (short-circuit evaluation is not translated)", e.Op)
			}
			return paren(x) + map[token.Token]string{token.LAND: " ∧ ", token.LOR: " ∨ "}[e.Op] + paren(y)
		case token.EQL, token.NEQ, token.LSS, token.LEQ, token.GTR, token.GEQ:
			ty := t.info.TypeOf(e.X)
			if isErr(ty) && t.src(e.Y) == "nil" && (e.Op == token.EQL || e.Op == token.NEQ) {
				return paren(t.expr(e.X)) + " = " + map[token.Token]string{token.NEQ: "true", token.EQL: "false"}[e.Op]
			}
			if !(isU64(ty) || isI64(ty) || leanType(ty) == "Bool") {
				t.fail(e, "comparison %s on %s", e.Op, ty)
			}
			op := map[token.Token]string{token.EQL: "=", token.NEQ: "≠", token.LSS: "<", token.LEQ: "≤", token.GTR: ">", token.GEQ: "≥"}[e.Op]
			return paren(t.expr(e.X)) + " " + op + " " + paren(t.expr(e.Y))
		}
	case *ast.CallExpr:
		if p, args, ok := t.primOf(e); ok && p.pred != "" {
			s := p.pred
			for i, a := range args {
				s = strings.ReplaceAll(s, fmt.Sprintf("$%d", i+1), paren(a))
			}
			return s
		}
	}
	if leanType(t.info.TypeOf(e)) != "Bool" {
		t.fail(e, "condition %s", t.src(e))
	}
	return paren(t.expr(e)) + " = true"
}

// the primitive a call refers to, with its translated arguments (receiver first)
func (t *tr) primOf(c *ast.CallExpr) (prim, []string, bool) {
	var key string
	var recv ast.Expr
	switch f := c.Fun.(type) {
	case *ast.SelectorExpr:
		if sel := t.info.Selections[f]; sel != nil && sel.Kind() == types.MethodVal {
			key, recv = sel.Obj().(*types.Func).FullName(), f.X
		} else if o := t.info.Uses[f.Sel]; o != nil && o.Pkg() != nil {
			key = o.Pkg().Path() + "." + o.Name()
		}
	case *ast.Ident:
		if o := t.info.Uses[f]; o != nil && o.Pkg() != nil {
			key = o.Pkg().Path() + "." + o.Name()
		}
	}
	p, ok := prims[key]
	if !ok {
		if l, isFn := t.fns[key]; isFn && recv == nil {
			p, ok = prim{lean: "Gen.Pure." + l, m: true}, true
		}
	}
	if !ok {
		return prim{}, nil, false
	}
	var args []string
	if recv != nil {
		args = append(args, t.expr(recv))
	}
	for _, a := range c.Args {
		args = append(args, t.expr(a))
	}
	return p, args, true
}

func (t *tr) call(c *ast.CallExpr) string {
	// conversion T(x) between machine integer types
	if tv, ok := t.info.Types[c.Fun]; ok && tv.IsType() && len(c.Args) == 1 {
		from, to := t.info.TypeOf(c.Args[0]), tv.Type
		x := paren(t.expr(c.Args[0]))
		switch {
		case (isU64(from) && isU64(to)) || (isI64(from) && isI64(to)):
			return x
		case isU64(from) && isI64(to):
			return "(GoSem.u64ToI64 " + x + ")"
		case isI64(from) && isU64(to):
			return "(GoSem.i64ToU64 " + x + ")"
		}
		t.fail(c, "conversion %s -> %s", from, to)
	}
	if id, ok := c.Fun.(*ast.Ident); ok {
		if b, isB := t.info.Uses[id].(*types.Builtin); isB {
			switch {
			case b.Name() == "len" && t.bigText(c.Args[0]) != nil: // len(x.BigInt().Text(10)): decimal length of an sdk.Int
				return "(GoSem.intTextLen " + paren(t.expr(t.bigText(c.Args[0]))) + ")"
			case b.Name() == "len" && strings.HasPrefix(leanType(t.info.TypeOf(c.Args[0])), "List"):
				return "(GoSem.lenI " + paren(t.expr(c.Args[0])) + ")"
			case b.Name() == "append" && !c.Ellipsis.IsValid() && leanType(t.info.TypeOf(c)) != "":
				var el []string
				for _, a := range c.Args[1:] {
					el = append(el, t.expr(a))
				}
				return "(" + paren(t.expr(c.Args[0])) + " ++ [" + strings.Join(el, ", ") + "])"
			}
			t.fail(c, "builtin %s", t.src(c))
		}
	}
	if p, args, ok := t.primOf(c); ok {
		if p.pred != "" {
			return "(decide " + paren(t.cond(c)) + ")"
		}
		for i := range args {
			args[i] = paren(args[i])
		}
		s := strings.TrimSpace(p.lean + " " + strings.Join(args, " "))
		if !strings.HasPrefix(p.lean, "Gen.") {
			s = "GoSem." + s
		}
		if p.m {
			return "(← " + s + ")"
		}
		return paren(s)
	}
	t.fail(c, "call of %s", t.src(c.Fun))
	return ""
}

// x if e is x.BigInt().Text(10) with x an sdk.Int
func (t *tr) bigText(e ast.Expr) ast.Expr {
	full := func(c *ast.CallExpr) (string, ast.Expr) {
		if sel, ok := c.Fun.(*ast.SelectorExpr); ok {
			if f, ok := t.info.Uses[sel.Sel].(*types.Func); ok {
				return f.FullName(), sel.X
			}
		}
		return "", nil
	}
	if c, ok := e.(*ast.CallExpr); ok && len(c.Args) == 1 {
		if n, x := full(c); n == "(*math/big.Int).Text" && t.src(c.Args[0]) == "10" {
			if c2, ok := x.(*ast.CallExpr); ok && len(c2.Args) == 0 {
				if n2, x2 := full(c2); n2 == "("+mth+"Int).BigInt" {
					return x2
				}
			}
		}
	}
	return nil
}

// ---- statements ----------------------------------------------------------------------------------------------------

func (t *tr) snapshot() map[types.Object]bool {
	m := map[types.Object]bool{}
	for k, v := range t.unset {
		m[k] = v
	}
	return m
}

// unset after a two-way branch: a variable stays unset if it is unset on a path that continues
func join(a, b map[types.Object]bool, aEnds, bEnds bool) map[types.Object]bool {
	m := map[types.Object]bool{}
	for k := range a {
		if a[k] && !aEnds {
			m[k] = true
		}
	}
	for k := range b {
		if b[k] && !bEnds {
			m[k] = true
		}
	}
	return m
}

// the statement list cannot complete normally (Go spec "Terminating statements", the forms that are translated)
func ends(b []ast.Stmt) bool {
	if len(b) == 0 {
		return false
	}
	switch s := b[len(b)-1].(type) {
	case *ast.ReturnStmt:
		return true
	case *ast.BlockStmt:
		return ends(s.List)
	case *ast.IfStmt:
		switch e := s.Else.(type) {
		case *ast.BlockStmt:
			return ends(s.Body.List) && ends(e.List)
		case *ast.IfStmt:
			return ends(s.Body.List) && ends([]ast.Stmt{e})
		}
	case *ast.SwitchStmt:
		hasDefault := false
		for _, c := range s.Body.List {
			cc := c.(*ast.CaseClause)
			hasDefault = hasDefault || cc.List == nil
			if !ends(cc.Body) {
				return false
			}
		}
		return hasDefault
	case *ast.ExprStmt:
		if c, ok := s.X.(*ast.CallExpr); ok {
			if id, ok := c.Fun.(*ast.Ident); ok && id.Name == "panic" {
				return true
			}
		}
	}
	return false
}

func (t *tr) block(ind int, stmts []ast.Stmt) {
	n := t.out.Len()
	for _, s := range stmts {
		t.stmt(ind, s)
	}
	if !bytes.Contains(t.out.Bytes()[n:], []byte("\n")) || onlyComments(t.out.Bytes()[n:]) {
		t.line(ind, "pure ()")
	}
}

func onlyComments(b []byte) bool {
	for _, l := range strings.Split(strings.TrimSpace(string(b)), "\n") {
		if !strings.HasPrefix(strings.TrimSpace(l), "--") {
			return false
		}
	}
	return true
}

// the left-hand side of an assignment: a local variable or a field of a flattened struct parameter
func (t *tr) lhs(e ast.Expr) (string, types.Object) {
	if v := t.local(e); v != nil && !t.dropped[v] && t.flat[v] == nil {
		return t.name(v), v
	}
	if s, ok := e.(*ast.SelectorExpr); ok {
		if v := t.local(s.X); v != nil && t.flat[v] != nil && t.flat[v][s.Sel.Name] != "" {
			return t.flat[v][s.Sel.Name], nil
		}
	}
	t.fail(e, "assignment to %s", t.src(e))
	return "", nil
}

// `x, found := k.GetX(ctx, id)` with the call declared a state read: the defined variables become parameters
func (t *tr) read(ind int, s *ast.AssignStmt) bool {
	if len(s.Rhs) != 1 || (s.Tok != token.DEFINE && s.Tok != token.ASSIGN) {
		return false
	}
	text, hit := t.src(s.Rhs[0]), false
	for _, p := range t.sp.reads {
		hit = hit || strings.HasPrefix(text, p)
	}
	if _, isCall := s.Rhs[0].(*ast.CallExpr); !hit || !isCall {
		return false
	}
	if t.inClos || t.inLoop > 0 {
		t.fail(s, "state read inside a loop or closure")
	}
	t.line(ind, "-- state read, its results are parameters: %s", t.src(s))
	for _, l := range s.Lhs {
		id, ok := l.(*ast.Ident)
		if !ok {
			t.fail(l, "state read into %s", t.src(l))
		}
		if id.Name == "_" {
			continue
		}
		if o := t.info.Defs[id]; o != nil { // new variable
			if fields, isFlat := t.sp.flat[id.Name]; isFlat {
				t.flatten(ind, o.(*types.Var), fields, s)
			} else if leanType(o.Type()) == "" {
				t.dropped[o] = true // of a type that is not translated: any use outside state reads is an error
			} else {
				t.extra = append(t.extra, fmt.Sprintf("(%s : %s)", t.name(o), leanType(o.Type())))
				t.line(ind, "let mut %s := %s", t.name(o), t.name(o))
			}
			continue
		}
		v := t.local(id) // `:=` / `=` on an existing variable: a fresh parameter is assigned to it
		if v == nil || leanType(v.Type()) == "" {
			t.fail(l, "state read into %s", id.Name)
		}
		p := t.fresh(id.Name + "_r")
		t.extra = append(t.extra, fmt.Sprintf("(%s : %s)", p, leanType(v.Type())))
		t.line(ind, "%s := %s", t.name(v), p)
		delete(t.unset, v)
	}
	return true
}

func (t *tr) fresh(base string) string {
	n := base
	for k := 1; t.used[n]; k++ {
		n = fmt.Sprintf("%s%d", base, k)
	}
	t.used[n] = true
	return n
}

// struct-typed variable -> one Lean variable per listed field
func (t *tr) flatten(ind int, p *types.Var, fields []string, at ast.Node) {
	st, ok := types.Unalias(p.Type()).Underlying().(*types.Struct)
	if !ok {
		t.fail(at, "%s is not a struct", p.Name())
	}
	t.flat[p] = map[string]string{}
	for _, fname := range fields {
		var fv *types.Var
		for j := 0; j < st.NumFields(); j++ {
			if st.Field(j).Name() == fname {
				fv = st.Field(j)
			}
		}
		if fv == nil || leanType(fv.Type()) == "" {
			t.fail(at, "field %s.%s", p.Name(), fname)
		}
		n := t.fresh(p.Name() + "_" + fname)
		t.flat[p][fname] = n
		t.extra = append(t.extra, fmt.Sprintf("(%s : %s)", n, leanType(fv.Type())))
		t.line(ind, "let mut %s := %s", n, n)
	}
}

func (t *tr) assign(ind int, s *ast.AssignStmt) {
	if t.read(ind, s) {
		return
	}
	def := s.Tok == token.DEFINE
	if s.Tok != token.DEFINE && s.Tok != token.ASSIGN { // x op= e
		op, ok := map[token.Token]token.Token{token.ADD_ASSIGN: token.ADD, token.SUB_ASSIGN: token.SUB, token.MUL_ASSIGN: token.MUL,
			token.QUO_ASSIGN: token.QUO, token.REM_ASSIGN: token.REM}[s.Tok]
		if !ok || len(s.Lhs) != 1 {
			t.fail(s, "assignment operator %s", s.Tok)
		}
		be := &ast.BinaryExpr{X: s.Lhs[0], Op: op, Y: s.Rhs[0], OpPos: s.TokPos}
		t.info.Types[be] = types.TypeAndValue{Type: t.info.TypeOf(s.Lhs[0])}
		l, _ := t.lhs(s.Lhs[0])
		t.line(ind, "%s := %s", l, t.expr(be))
		return
	}
	var rhs []string
	for _, r := range s.Rhs {
		rhs = append(rhs, t.expr(r))
	}
	bind := func(i int) string { // Lean binder for the i-th left-hand side of a definition, "_" for blank
		id, ok := s.Lhs[i].(*ast.Ident)
		if !ok {
			t.fail(s.Lhs[i], "definition of %s", t.src(s.Lhs[i]))
		}
		if id.Name == "_" {
			return "_"
		}
		o := t.info.Defs[id]
		if o == nil { // `a, b := …` where a already exists in this scope: Go assigns; not translated
			t.fail(id, "redeclaration of %s in :=", id.Name)
		}
		if leanType(o.Type()) == "" {
			t.fail(id, "variable %s of type %s", id.Name, o.Type())
		}
		return t.name(o)
	}
	switch {
	case len(s.Lhs) == 1 && len(s.Rhs) == 1 && def:
		t.line(ind, "let mut %s := %s", bind(0), rhs[0])
	case len(s.Lhs) == 1 && len(s.Rhs) == 1:
		l, o := t.lhs(s.Lhs[0])
		t.line(ind, "%s := %s", l, rhs[0])
		delete(t.unset, o)
	default: // tuple: all right-hand sides are evaluated first (Go spec), then assigned left to right
		r := rhs[0]
		if len(s.Rhs) > 1 {
			if len(s.Rhs) != len(s.Lhs) {
				t.fail(s, "assignment count mismatch")
			}
			r = "(" + strings.Join(rhs, ", ") + ")"
		}
		var pat, after []string
		for i := range s.Lhs {
			if id, ok := s.Lhs[i].(*ast.Ident); ok && id.Name == "_" {
				pat = append(pat, "_")
			} else if def {
				pat = append(pat, bind(i))
			} else {
				l, o := t.lhs(s.Lhs[i])
				tmp := fmt.Sprintf("t%d__", i)
				pat, after = append(pat, tmp), append(after, l+" := "+tmp)
				delete(t.unset, o)
			}
		}
		t.line(ind, "let %s(%s) := %s", map[bool]string{true: "mut ", false: ""}[def], strings.Join(pat, ", "), r)
		for _, a := range after {
			t.line(ind, "%s", a)
		}
	}
}

func (t *tr) declare(ind int, v types.Object, n ast.Node) {
	lt := leanType(v.Type())
	if lt == "" {
		t.fail(n, "variable %s of type %s", v.Name(), v.Type())
	}
	zero := map[string]string{"Int": "0", "Dec": "0", "Nat": "0", "Bool": "false"}[lt]
	if strings.HasPrefix(lt, "List") {
		zero = "[]"
	}
	if nilable(v.Type()) {
		t.unset[v] = true
	}
	t.line(ind, "let mut %s : %s := %s", t.name(v), lt, zero)
}

func (t *tr) stmt(ind int, s ast.Stmt) {
	text := t.src(s)
	for _, p := range t.sp.skip {
		if strings.HasPrefix(text, p) {
			t.line(ind, "-- skipped (declared effect-only in extract/pure): %s …", p)
			return
		}
	}
	switch s := s.(type) {
	case *ast.AssignStmt:
		t.assign(ind, s)
	case *ast.IncDecStmt:
		one := &ast.BasicLit{Kind: token.INT, Value: "1"}
		t.info.Types[one] = types.TypeAndValue{Type: t.info.TypeOf(s.X), Value: constant.MakeInt64(1)}
		t.assign(ind, &ast.AssignStmt{Lhs: []ast.Expr{s.X}, Rhs: []ast.Expr{one}, TokPos: s.TokPos,
			Tok: map[token.Token]token.Token{token.INC: token.ADD_ASSIGN, token.DEC: token.SUB_ASSIGN}[s.Tok]})
	case *ast.DeclStmt:
		gd, ok := s.Decl.(*ast.GenDecl)
		if !ok || gd.Tok != token.VAR {
			t.fail(s, "declaration %s", text)
		}
		for _, sp := range gd.Specs {
			vs := sp.(*ast.ValueSpec)
			if len(vs.Values) != 0 && len(vs.Values) != len(vs.Names) {
				t.fail(s, "declaration %s", text)
			}
			for i, id := range vs.Names {
				if len(vs.Values) == 0 {
					t.declare(ind, t.info.Defs[id], id)
				} else {
					t.line(ind, "let mut %s : %s := %s", t.name(t.info.Defs[id]), leanType(t.info.Defs[id].Type()), t.expr(vs.Values[i]))
				}
			}
		}
	case *ast.BlockStmt:
		t.block(ind, s.List)
	case *ast.IfStmt:
		t.ifStmt(ind, s)
	case *ast.SwitchStmt:
		t.switchStmt(ind, s)
	case *ast.ReturnStmt:
		t.ret(ind, s)
	case *ast.ForStmt:
		t.forStmt(ind, s)
	case *ast.RangeStmt:
		t.rangeStmt(ind, s)
	case *ast.BranchStmt:
		if s.Label != nil || (s.Tok != token.BREAK && s.Tok != token.CONTINUE) {
			t.fail(s, "%s", text)
		}
		t.line(ind, "%s", s.Tok)
	case *ast.ExprStmt:
		t.exprStmt(ind, s)
	default:
		t.fail(s, "statement %T: %s", s, text)
	}
}

func (t *tr) ifStmt(ind int, s *ast.IfStmt) {
	if s.Init != nil {
		t.fail(s, "if with an init statement")
	}
	t.line(ind, "if %s then", t.cond(s.Cond))
	in := t.snapshot()
	t.block(ind+1, s.Body.List)
	a := t.unset
	t.unset = in
	elseEnds := false
	switch e := s.Else.(type) {
	case nil:
	case *ast.BlockStmt:
		t.unset = t.snapshot()
		t.line(ind, "else")
		t.block(ind+1, e.List)
		elseEnds = ends(e.List)
	case *ast.IfStmt:
		t.unset = t.snapshot()
		t.line(ind, "else")
		t.ifStmt(ind+1, e)
	}
	t.unset = join(a, t.unset, ends(s.Body.List), elseEnds)
}

func (t *tr) switchStmt(ind int, s *ast.SwitchStmt) {
	if s.Init != nil {
		t.fail(s, "switch with an init statement")
	}
	tag := ""
	if s.Tag != nil { // the tag is evaluated once; cases must be constants of a machine integer type
		if ty := t.info.TypeOf(s.Tag); !isI64(ty) && !isU64(ty) {
			t.fail(s.Tag, "switch on a value of type %s", ty)
		}
		tag = t.fresh("tag__")
		t.line(ind, "let %s := %s", tag, t.expr(s.Tag))
	}
	caseCond := func(cc *ast.CaseClause) string {
		if tag == "" {
			if len(cc.List) != 1 {
				t.fail(cc, "switch: one condition per case")
			}
			return t.cond(cc.List[0])
		}
		var alts []string
		for _, e := range cc.List {
			if tv := t.info.Types[e]; tv.Value == nil {
				t.fail(e, "switch: case that is not a constant")
			}
			alts = append(alts, tag+" = "+t.expr(e))
		}
		return strings.Join(alts, " ∨ ")
	}
	var cases []*ast.CaseClause
	var def *ast.CaseClause
	for _, c := range s.Body.List {
		cc := c.(*ast.CaseClause)
		for _, b := range cc.Body {
			if br, ok := b.(*ast.BranchStmt); ok {
				t.fail(br, "%s in switch", br.Tok)
			}
		}
		if cc.List == nil {
			def = cc
		} else if def != nil {
			t.fail(cc, "switch: default must be last")
		} else {
			cases = append(cases, cc)
		}
	}
	in := t.snapshot()
	var outs []map[types.Object]bool
	var outEnds []bool
	for i, cc := range cases {
		t.unset = copyOf(in)
		t.line(ind+i, "if %s then", caseCond(cc))
		t.block(ind+i+1, cc.Body)
		t.line(ind+i, "else")
		outs, outEnds = append(outs, t.unset), append(outEnds, ends(cc.Body))
	}
	t.unset = copyOf(in)
	if def != nil {
		t.block(ind+len(cases), def.Body)
		outEnds = append(outEnds, ends(def.Body))
	} else {
		t.line(ind+len(cases), "pure ()")
		outEnds = append(outEnds, false)
	}
	outs = append(outs, t.unset)
	res := map[types.Object]bool{}
	for i, o := range outs {
		for k, u := range o {
			if u && !outEnds[i] {
				res[k] = true
			}
		}
	}
	t.unset = res
}

func copyOf(m map[types.Object]bool) map[types.Object]bool {
	c := map[types.Object]bool{}
	for k, v := range m {
		c[k] = v
	}
	return c
}

func (t *tr) ret(ind int, s *ast.ReturnStmt) {
	if t.inClos {
		t.fail(s, "return inside a closure")
	}
	var vals []string
	if len(s.Results) == 0 {
		for _, r := range t.results {
			if t.unset[r] {
				t.fail(s, "bare return while result %s may be unassigned (nil)", r.Name())
			}
			vals = append(vals, t.name(r))
		}
	} else if len(s.Results) == t.nres {
		for i, r := range s.Results {
			if t.src(r) == "nil" && isErr(t.sig.Results().At(i).Type()) {
				vals = append(vals, "false")
			} else {
				vals = append(vals, t.expr(r))
			}
		}
	} else {
		t.fail(s, "return of a multi-value call")
	}
	if len(vals) == 0 {
		vals = []string{"()"}
	}
	t.line(ind, "return %s", tuple(vals))
}

func tuple(v []string) string {
	if len(v) == 1 {
		return v[0]
	}
	return "(" + strings.Join(v, ", ") + ")"
}

// variables assigned (=, op=, ++) anywhere below n
func (t *tr) assignedIn(n ast.Node) map[types.Object]bool {
	m := map[types.Object]bool{}
	ast.Inspect(n, func(x ast.Node) bool {
		var l []ast.Expr
		switch s := x.(type) {
		case *ast.AssignStmt:
			if s.Tok != token.DEFINE {
				l = s.Lhs
			}
		case *ast.IncDecStmt:
			l = []ast.Expr{s.X}
		}
		for _, e := range l {
			if v := t.local(e); v != nil {
				m[v] = true
			}
		}
		return true
	})
	return m
}

func (t *tr) mentions(n ast.Node, vars map[types.Object]bool) bool {
	found := false
	ast.Inspect(n, func(x ast.Node) bool {
		if id, ok := x.(*ast.Ident); ok && vars[t.info.Uses[id]] {
			found = true
		}
		return true
	})
	return found
}

func (t *tr) forStmt(ind int, s *ast.ForStmt) {
	init, ok1 := s.Init.(*ast.AssignStmt)
	cnd, ok2 := s.Cond.(*ast.BinaryExpr)
	post, ok3 := s.Post.(*ast.IncDecStmt)
	if !ok1 || !ok2 || !ok3 || init.Tok != token.DEFINE || len(init.Lhs) != 1 || cnd.Op != token.LSS || post.Tok != token.INC {
		t.fail(s, "for loop that is not `for i := a; i < b; i++`")
	}
	iv := t.info.Defs[init.Lhs[0].(*ast.Ident)]
	if t.local(cnd.X) != iv || t.local(post.X) != iv {
		t.fail(s, "for loop: condition and post statement must be on the loop variable")
	}
	asg := t.assignedIn(s.Body)
	if asg[iv] || t.mentions(cnd.Y, asg) || t.mentions(cnd.Y, map[types.Object]bool{iv: true}) {
		t.fail(s, "for loop: the body assigns the loop variable or a variable of the bound")
	}
	f := "rangeI64"
	if isU64(iv.Type()) {
		f = "rangeU64"
	} else if !isI64(iv.Type()) {
		t.fail(s, "loop variable of type %s", iv.Type())
	}
	t.line(ind, "for %s in GoSem.%s %s %s do", t.name(iv), f, paren(t.expr(init.Rhs[0])), paren(t.expr(cnd.Y)))
	in := t.snapshot()
	t.inLoop++
	t.block(ind+1, s.Body.List)
	t.inLoop--
	t.unset = in
}

func (t *tr) rangeStmt(ind int, s *ast.RangeStmt) {
	if s.Tok != token.DEFINE || !strings.HasPrefix(leanType(t.info.TypeOf(s.X)), "List") {
		t.fail(s, "range over %s", t.info.TypeOf(s.X))
	}
	if v := t.local(s.X); v == nil || t.assignedIn(s.Body)[v] {
		t.fail(s, "range: the ranged expression must be a variable the body does not assign")
	}
	b := func(e ast.Expr) string {
		if id, ok := e.(*ast.Ident); ok && id.Name != "_" {
			return t.name(t.info.Defs[id])
		}
		return "_"
	}
	switch {
	case s.Value == nil:
		t.line(ind, "for %s in GoSem.rangeI64 (0 : Int) (GoSem.lenI %s) do", b(s.Key), t.expr(s.X))
	case b(s.Key) == "_":
		t.line(ind, "for %s in %s do", b(s.Value), t.expr(s.X))
	default:
		t.line(ind, "for (%s, %s) in GoSem.enumI %s do", b(s.Key), b(s.Value), t.expr(s.X))
	}
	in := t.snapshot()
	t.inLoop++
	t.block(ind+1, s.Body.List)
	t.inLoop--
	t.unset = in
}

func (t *tr) exprStmt(ind int, s *ast.ExprStmt) {
	c, ok := s.X.(*ast.CallExpr)
	if !ok {
		t.fail(s, "expression statement %s", t.src(s))
	}
	if id, ok := c.Fun.(*ast.Ident); ok && id.Name == "panic" {
		if _, isB := t.info.Uses[id].(*types.Builtin); isB {
			if tv := t.info.Types[c.Args[0]]; (tv.Value != nil || types.Unalias(tv.Type).String() == "string") && !t.sp.plainPanics {
				t.fail(s, "panic with a string value (could be an overflow-class panic)")
			}
			t.line(ind, "GoSem.goPanic -- %s", t.src(c))
			return
		}
	}
	if sel, ok := c.Fun.(*ast.SelectorExpr); ok {
		if f, ok := t.info.Uses[sel.Sel].(*types.Func); ok {
			switch f.FullName() {
			case "github.com/comdex-official/comdex/types.SafeMath":
				t.safeMath(ind, c)
				return
			case "(*math/big.Int).Exp": // z.Exp(z, y, nil) as a statement: z = z**y
				z := t.local(sel.X)
				if z != nil && len(c.Args) == 3 && t.local(c.Args[0]) == z && t.src(c.Args[2]) == "nil" {
					t.line(ind, "%s := GoSem.bigExp %s %s", t.name(z), t.name(z), paren(t.expr(c.Args[1])))
					return
				}
			}
		}
	}
	t.fail(s, "call statement %s", t.src(c.Fun))
}

// utils.SafeMath(f, onOverflow): both closures run on copies of the captured variables they assign, the values are
// handed back through the result.  Lean's nested `do` cannot keep the partial assignments of a panicking `f`, so the
// translator demands that `onOverflow` consists of plain assignments that overwrite every variable `f` assigns.
func (t *tr) safeMath(ind int, c *ast.CallExpr) {
	if t.inClos || len(c.Args) != 2 {
		t.fail(c, "nested SafeMath")
	}
	var fl [2]*ast.FuncLit
	for i := range fl {
		l, ok := c.Args[i].(*ast.FuncLit)
		if !ok || l.Type.Params.NumFields() != 0 || l.Type.Results.NumFields() != 0 {
			t.fail(c.Args[i], "SafeMath argument that is not a func(){…} literal")
		}
		fl[i] = l
	}
	inF, inO := t.assignedIn(fl[0].Body), t.assignedIn(fl[1].Body)
	outer := func(v types.Object) bool { return !(fl[0].Pos() <= v.Pos() && v.Pos() < fl[1].End()) }
	var capt []types.Object
	for v := range inF {
		if outer(v) {
			capt = append(capt, v)
			if !inO[v] {
				t.fail(fl[1], "SafeMath: onOverflow does not reassign %s, which the closure assigns", v.Name())
			}
		}
	}
	for v := range inO {
		if outer(v) && !inF[v] {
			capt = append(capt, v)
		}
	}
	sort.Slice(capt, func(i, j int) bool { return capt[i].Pos() < capt[j].Pos() })
	cm := map[types.Object]bool{}
	var names []string
	for _, v := range capt {
		cm[v] = true
		names = append(names, t.name(v))
	}
	for _, st := range fl[1].Body.List {
		a, ok := st.(*ast.AssignStmt)
		if !ok || a.Tok != token.ASSIGN {
			t.fail(st, "SafeMath: onOverflow may only contain plain assignments")
		}
		for _, r := range a.Rhs {
			if t.mentions(r, cm) {
				t.fail(r, "SafeMath: onOverflow reads a variable the closures assign")
			}
		}
	}
	res := tuple(names)
	if len(names) == 0 {
		res = "()"
		t.line(ind, "GoSem.safeMath (do")
	} else {
		t.line(ind, "%s ← GoSem.safeMath (do", res)
	}
	in := t.snapshot()
	var outs [2]map[types.Object]bool
	for i, l := range fl {
		t.unset, t.inClos = copyOf(in), true
		for _, n := range names {
			t.line(ind+2, "let mut %s := %s", n, n)
		}
		for _, st := range l.Body.List {
			t.stmt(ind+2, st)
		}
		t.line(ind+2, "pure %s)", res)
		if i == 0 {
			t.line(ind+1, "(do")
		}
		outs[i], t.inClos = t.unset, false
	}
	t.unset = join(outs[0], outs[1], false, false)
}

// ---- one function ------------------------------------------------------------------------------------------------

func translate(fset *token.FileSet, pkg *packages.Package, sp spec, fd *ast.FuncDecl, file []byte, rel string, fns map[string]string) (res string, err error) {
	defer func() {
		if r := recover(); r != nil {
			f, ok := r.(failure)
			if !ok {
				panic(r)
			}
			err = fmt.Errorf("%s", f.msg)
		}
	}()
	t := &tr{fset: fset, info: pkg.TypesInfo, sp: sp, out: &bytes.Buffer{}, names: map[types.Object]string{}, used: map[string]bool{},
		dropped: map[types.Object]bool{}, flat: map[types.Object]map[string]string{}, unset: map[types.Object]bool{}, fns: fns}
	sig := pkg.TypesInfo.Defs[fd.Name].(*types.Func).Type().(*types.Signature)
	t.sig = sig
	if sig.Variadic() || sig.TypeParams() != nil {
		t.fail(fd, "variadic or generic function")
	}
	if r := sig.Recv(); r != nil {
		t.dropped[r] = true
	}
	for i := 0; i < sig.Params().Len(); i++ {
		p := sig.Params().At(i)
		switch {
		case contains(sp.drop, p.Name()):
			t.dropped[p] = true
		case sp.flat[p.Name()] != nil:
			t.flatten(1, p, sp.flat[p.Name()], fd)
		case leanType(p.Type()) == "":
			t.fail(fd, "parameter %s of type %s", p.Name(), p.Type())
		default:
			t.extra = append(t.extra, fmt.Sprintf("(%s : %s)", t.name(p), leanType(p.Type())))
		}
	}
	var rts []string
	t.nres = sig.Results().Len()
	for i := 0; i < t.nres; i++ {
		r := sig.Results().At(i)
		if leanType(r.Type()) == "" {
			t.fail(fd, "result of type %s", r.Type())
		}
		rts = append(rts, leanType(r.Type()))
		if r.Name() != "" && r.Name() != "_" {
			t.results = append(t.results, r)
		}
	}
	if len(t.results) != 0 && len(t.results) != t.nres {
		t.fail(fd, "partly named results")
	}
	rt := strings.Join(rts, " × ")
	if t.nres == 0 {
		rt = "Unit"
	}
	sum := sha1.Sum(file[fset.Position(fd.Pos()).Offset:fset.Position(fd.End()).Offset])
	head := &bytes.Buffer{}
	fmt.Fprintf(head, "/-- %s:%d-%d  `%s`  sha1 %x -/\n", rel, fset.Position(fd.Pos()).Line, fset.Position(fd.End()).Line,
		t.src(&ast.FuncDecl{Recv: fd.Recv, Name: fd.Name, Type: fd.Type}), sum)
	// parameters the body assigns become mutable copies; named results start at their zero value
	asg := t.assignedIn(fd.Body)
	for i := 0; i < sig.Params().Len(); i++ {
		if p := sig.Params().At(i); asg[p] && !t.dropped[p] && t.flat[p] == nil {
			t.line(1, "let mut %s := %s", t.name(p), t.name(p))
		}
	}
	for _, r := range t.results {
		t.declare(1, r, fd)
	}
	for _, s := range fd.Body.List {
		t.stmt(1, s)
	}
	if !ends(fd.Body.List) {
		if t.nres != 0 {
			t.fail(fd, "function body does not end in return")
		}
		t.line(1, "return ()")
	}
	fmt.Fprintf(head, "def %s %s : GoSem.M %s := do\n", sp.lean, strings.Join(t.extra, " "), paren(rt))
	return head.String() + t.out.String(), nil
}

func contains(l []string, s string) bool {
	for _, x := range l {
		if x == s {
			return true
		}
	}
	return false
}

func main() {
	repo := flag.String("repo", "/repo", "comdex source tree")
	out := flag.String("out", "", "output Lean file")
	flag.Parse()
	abs, _ := filepath.Abs(*repo)
	var pats []string
	seen := map[string]bool{}
	fns := map[string]string{}
	for _, s := range specs {
		if !seen[s.pkg] {
			seen[s.pkg] = true
			pats = append(pats, "./"+s.pkg)
		}
		if s.recv == "" {
			fns["github.com/comdex-official/comdex/"+s.pkg+"."+s.fn] = s.lean
		}
	}
	fset := token.NewFileSet()
	cfg := &packages.Config{Mode: packages.NeedName | packages.NeedFiles | packages.NeedCompiledGoFiles | packages.NeedSyntax |
		packages.NeedTypes | packages.NeedTypesInfo | packages.NeedImports, Dir: abs, Fset: fset, Tests: false,
		Env: append(os.Environ(), "GOFLAGS=-mod=mod", "GOPROXY=off", "GOSUMDB=off", "GOTOOLCHAIN=local")}
	pkgs, err := packages.Load(cfg, pats...)
	if err != nil {
		fmt.Println("extract/pure: load:", err)
		os.Exit(1)
	}
	byPath := map[string]*packages.Package{}
	bad := 0
	for _, p := range pkgs {
		for _, e := range p.Errors {
			fmt.Println("extract/pure: package error:", e)
			bad++
		}
		byPath[strings.TrimPrefix(p.PkgPath, "github.com/comdex-official/comdex/")] = p
	}
	var b bytes.Buffer
	b.WriteString("import Comdex.Base.GoSem\n/-! GENERATED by extract/pure from the Go source of comdex — do not edit; regenerated on every run.\n" +
		"Each definition is the translation of one Go function (file, lines and sha1 of its source text in the doc comment). -/\n" +
		"set_option linter.unusedVariables false\nnamespace Comdex.Gen.Pure\nopen Comdex\n\n")
	for _, sp := range specs {
		p := byPath[sp.pkg]
		var fd *ast.FuncDecl
		var file *ast.File
		if p != nil {
			for _, f := range p.Syntax {
				for _, d := range f.Decls {
					if d, ok := d.(*ast.FuncDecl); ok && d.Name.Name == sp.fn && d.Body != nil && recvName(d) == sp.recv {
						fd, file = d, f
					}
				}
			}
		}
		if fd == nil {
			fmt.Printf("extract/pure: %s: function %s.%s not found\n", sp.pkg, sp.recv, sp.fn)
			bad++
			continue
		}
		path := fset.Position(file.Pos()).Filename
		src, _ := os.ReadFile(path)
		rel, _ := filepath.Rel(abs, path)
		s, err := translate(fset, p, sp, fd, src, rel, fns)
		if err != nil {
			fmt.Printf("extract/pure: cannot translate %s (%s): %v\n", sp.fn, sp.lean, err)
			bad++
			continue
		}
		b.WriteString(s + "\n")
	}
	b.WriteString("end Comdex.Gen.Pure\n")
	if bad != 0 {
		fmt.Printf("extract/pure: %d error(s); no output written\n", bad)
		os.Exit(1)
	}
	if err := os.WriteFile(*out, b.Bytes(), 0o644); err != nil {
		fmt.Println(err)
		os.Exit(1)
	}
	fmt.Printf("extract/pure: %d functions translated\n", len(specs))
}

func recvName(d *ast.FuncDecl) string {
	if d.Recv == nil || len(d.Recv.List) == 0 {
		return ""
	}
	e := d.Recv.List[0].Type
	if s, ok := e.(*ast.StarExpr); ok {
		e = s.X
	}
	if id, ok := e.(*ast.Ident); ok {
		return id.Name
	}
	return "?"
}
