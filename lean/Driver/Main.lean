import Comdex.Drv.Twa
/-! Line-protocol driver: reads trace lines `seq <TAB> kind <TAB> fields…` on stdin, replays them on
the Lean models, prints `DIFF` / `MON` / `BAD` lines and a final `SUMMARY`. Core Lean only. -/
open Comdex

structure DSt where
  twa : Drv.Twa.St := {}
  lines : Nat := 0
  diffs : Nat := 0
  mons : Nat := 0
  bads : Nat := 0

def dispatch (st : DSt) (line : String) : DSt × List String :=
  match Line.splitTab line with
  | seq :: kind :: rest =>
    let f := kind :: rest
    if kind.startsWith "twa." then
      let (t, out) := Drv.Twa.handle st.twa seq f
      ({ st with twa := t }, out)
    else (st, [s!"BAD\t{seq}\tunknown kind {kind}"])
  | _ => (st, [s!"BAD\t?\tmalformed line"])

partial def loop (h : IO.FS.Stream) (out : IO.FS.Stream) (st : DSt) : IO DSt := do
  let line ← h.getLine
  if line.isEmpty then return st
  let line := (line.dropEndWhile (· == '\n')).toString
  if line.isEmpty || line.startsWith "#" then loop h out st else
  let (st', outs) := dispatch st line
  let mut st' := { st' with lines := st'.lines + 1 }
  for o in outs do
    out.putStrLn o
    if o.startsWith "DIFF" then st' := { st' with diffs := st'.diffs + 1 }
    else if o.startsWith "MON" then st' := { st' with mons := st'.mons + 1 }
    else if o.startsWith "BAD" then st' := { st' with bads := st'.bads + 1 }
  loop h out st'

def main : IO UInt32 := do
  let stdin ← IO.getStdin
  let stdout ← IO.getStdout
  let st ← loop stdin stdout {}
  stdout.putStrLn s!"SUMMARY\tlines={st.lines}\tdiffs={st.diffs}\tmons={st.mons}\tbads={st.bads}"
  return 0
