import Comdex.Base.Dec
/-!
# Model of batch matching — `x/liquidity/amm` (match.go, orderbook.go, util.go)

Hand-written from the Go source, function by function (Go names in the doc comments).  Core Lean only.

* An order is a record; `id` stands for the Go pointer identity of the order object (the harness numbers the
  orders; the code keys `matchedAmtByOrder` by the interface value = pointer).  `kind`/`oid` carry what
  `HasPriority` looks at beside the amount (`UserOrder.OrderID`, `PoolOrder.PoolID`, user before pool).
  `fills` is a ghost counter (number of `FillOrder` calls that touched the order) — never compared with Go.
* Prices are `Dec` raws (value × 10^18), amounts are `Int` (`sdk.Int`).
* Every mutation of an order goes through `fillOrder`, which is `none` exactly where `FillOrder` panics.
  The distribution functions first compute a *plan* (`List (Order × Int)`: which order is filled by how much —
  the Go map `matchedAmtByOrder` / the `FulfillOrders` loop) and then apply it (`applyPlan`); in Go the orders of
  one plan are pairwise distinct objects, so computing the whole plan before applying it is the same as Go's
  interleaving.
* `none` of an `Option` result = a Go panic (or exhausted fuel, proved unreachable in `Lemmas/AmmMatch.lean`).
* Not modelled: `Dec`/`Int` overflow panics (> 315 / 256 bits; unreachable for amounts ≤ 10^40 and prices in
  [10^-14, 10^20], the generator range), a zero price (`QuoTruncate` by zero; prices are ticks > 0).
-/
namespace Comdex.Amm
open Comdex

inductive Dir | buy | sell
deriving DecidableEq, Repr

structure Order where
  id : Nat
  kind : Nat            -- 0 = UserOrder, 1 = PoolOrder, 2 = plain BaseOrder
  oid : Nat             -- OrderID / PoolID (priority tie-break)
  dir : Dir
  price : Int           -- Dec raw
  amount : Int
  offer : Int
  opn : Int             -- OpenAmount
  paid : Int            -- PaidOfferCoinAmount
  received : Int        -- ReceivedDemandCoinAmount
  batchId : Nat
  fills : Nat := 0      -- ghost
deriving DecidableEq, Repr

/-- `Order.IsMatched` (order.go:142) -/
def Order.isMatched (o : Order) : Bool := decide (o.opn < o.amount)

/-- `price.MulInt(amt).TruncateInt()` -/
def quoteFloor (p a : Int) : Int := Dec.truncateInt (Dec.mulInt p a)
/-- `price.MulInt(amt).Ceil().TruncateInt()` -/
def quoteCeil (p a : Int) : Int := Dec.truncateInt (Dec.ceil (Dec.mulInt p a))

/-- `OfferCoinAmount` (util.go:20) -/
def offerCoinAmount (d : Dir) (p a : Int) : Int :=
  match d with
  | .buy => quoteCeil p a
  | .sell => a

/-- `remainingOfferCoinAmt.ToLegacyDec().QuoTruncate(price).TruncateInt()` -/
def affordable (rem p : Int) : Int := Dec.truncateInt (Dec.quoTruncate (Dec.ofInt rem) p)

/-- `MatchableAmount` (util.go:33) -/
def matchableAmount (o : Order) (p : Int) : Int :=
  let m := match o.dir with
    | .buy => min o.opn (affordable (o.offer - o.paid) p)
    | .sell => o.opn
  if quoteFloor p m = 0 then 0 else m

/-- the arithmetic of `FillOrder` (match.go:32) after its guard -/
def fillRaw (o : Order) (a p : Int) : Order × Int :=
  match o.dir with
  | .buy =>
    let paid := quoteCeil p a
    ({ o with paid := o.paid + paid, received := o.received + a, opn := o.opn - a, fills := o.fills + 1 }, paid)
  | .sell =>
    let rcv := quoteFloor p a
    ({ o with paid := o.paid + a, received := o.received + rcv, opn := o.opn - a, fills := o.fills + 1 }, - rcv)

/-- `FillOrder`; `none` = `panic("cannot match more than open amount")` -/
def fillOrder (o : Order) (a p : Int) : Option (Order × Int) :=
  if a > matchableAmount o p then none else some (fillRaw o a p)

def sumInt : List Int → Int
  | [] => 0
  | x :: xs => x + sumInt xs

/-- `TotalAmount` -/
def totalAmount (os : List Order) : Int := sumInt (os.map (·.amount))
/-- `TotalMatchableAmount` -/
def totalMatchable (os : List Order) (p : Int) : Int := sumInt (os.map (matchableAmount · p))

/-- `HasPriority` of BaseOrder / UserOrder / PoolOrder (amm/order.go:149, types/order.go:67,113) -/
def hasPriority (a b : Order) : Bool :=
  decide (a.amount > b.amount) ||
  (decide (a.amount = b.amount) && decide (a.kind < 2) && decide (b.kind < 2) &&
    (decide (a.kind < b.kind) || (decide (a.kind = b.kind) && decide (a.oid < b.oid))))

def insertSorted (x : Order) : List Order → List Order
  | [] => [x]
  | y :: ys => if hasPriority y x then y :: insertSorted x ys else x :: y :: ys

/-- `SortOrders` = `sort.SliceStable` by `HasPriority` (a strict weak order ⇒ the stable result is unique) -/
def sortOrders : List Order → List Order
  | [] => []
  | x :: xs => insertSorted x (sortOrders xs)

/-- position of a new batch id among the groups: ascending, `0` (current batch) last (util.go:80-88) -/
def keyBefore (k x : Nat) : Bool := if k = 0 then false else (x == 0 || decide (k ≤ x))

/-- `sort.Search` + insert of a NEW batch id (util.go:79-92) -/
def insertKey (k : Nat) : List Nat → List Nat
  | [] => [k]
  | x :: xs => if keyBefore k x then k :: x :: xs else x :: insertKey k xs

/-- the batch ids in group order: a batch id already in the map `groupByBatchID` is not inserted again -/
def batchKeys (os : List Order) : List Nat :=
  os.foldl (fun ks o => if ks.contains o.batchId then ks else insertKey o.batchId ks) []

/-- `GroupOrdersByBatchID` -/
def groupOrders (os : List Order) : List (List Order) :=
  (batchKeys os).map fun k => os.filter (fun o => o.batchId == k)

/-! ### DistributeOrderAmountToOrders (match.go:337-396) -/

/-- `proportion.MulInt(amt).TruncateInt()` with `proportion = orderAmt.QuoTruncate(totalAmt)` -/
def proportionShare (o : Order) (total amt : Int) : Int :=
  Dec.truncateInt (Dec.mulInt (Dec.quoTruncate (Dec.ofInt o.amount) (Dec.ofInt total)) amt)

/-- first loop: pro-rata share (absent from the Go map ≙ 0) -/
def share1 (o : Order) (total amt p : Int) : Int :=
  let m := matchableAmount o p
  if m = 0 then 0 else
    let x := min m (proportionShare o total amt)
    if x > 0 then x else 0

def pass1 (os : List Order) (total amt p : Int) : List Int := os.map (share1 · total amt p)

/-- second loop: hand the remainder out by priority -/
def pass2 : List Order → List Int → Int → Int → List Int
  | o :: os, prev :: ps, rem, p =>
    if rem = 0 then prev :: ps
    else
      let x := min rem (matchableAmount o p - prev)
      (prev + x) :: pass2 os ps (rem - x) p
  | _, _, _, _ => []

/-- third loop's test: the order counts as matched -/
def shareOk (o : Order) (a p : Int) : Bool :=
  a != 0 && (o.dir == .buy || decide (quoteFloor p a > 0))

/-- the shares after both passes, paired with their orders -/
def shares (os : List Order) (amt p : Int) : List (Order × Int) :=
  let m1 := pass1 os (totalAmount os) amt p
  os.zip (pass2 os m1 (amt - sumInt m1) p)

/-- Go evaluates `QuoTruncate(totalAmt)` for every order with a non-zero matchable amount: a zero total panics -/
def divByZero (os : List Order) (p : Int) : Bool :=
  totalAmount os == 0 && os.any (fun o => matchableAmount o p != 0)

/-- `DistributeOrderAmountToOrders` up to (not including) the final `FillOrder` loop: the plan.
Re-runs on the matched orders only (or without the last order when none matched) — with the SAME amount. -/
def planOrders : Nat → List Order → Int → Int → Option (List (Order × Int))
  | 0, _, _, _ => none
  | fuel+1, os, amt, p =>
    if divByZero os p then none else
    let z := shares os amt p
    let matched := z.filter (fun oa => shareOk oa.1 oa.2 p)
    if matched.length = z.length then some z
    else if matched.isEmpty then planOrders fuel os.dropLast amt p
    else planOrders fuel (matched.map (·.1)) amt p

/-- `FulfillOrders`: every order with a positive matchable amount is filled by it -/
def fulfillPlan (os : List Order) (p : Int) : List (Order × Int) :=
  os.filterMap fun o => let m := matchableAmount o p; if m > 0 then some (o, m) else none

/-- the group loop of `DistributeOrderAmountToTick` (match.go:305-327) -/
def planGroups : List (List Order) → Int → Int → Option (List (Order × Int))
  | [], _, _ => some []
  | g :: gs, rem, p =>
    let openAmt := totalMatchable g p
    if openAmt = 0 then planGroups gs rem p
    else if rem ≥ openAmt then
      if rem - openAmt = 0 then some (fulfillPlan g p)
      else match planGroups gs (rem - openAmt) p with
        | none => none
        | some rest => some (fulfillPlan g p ++ rest)
    else planOrders (g.length + 1) (sortOrders g) rem p

/-- run the `FillOrder` calls of a plan on a list of orders (each order is looked up in the plan) -/
def applyPlan : List Order → List (Order × Int) → Int → Option (List Order × Int)
  | [], _, _ => some ([], 0)
  | o :: os, plan, p =>
    match applyPlan os plan p with
    | none => none
    | some (os', q) =>
      match plan.lookup o with
      | none => some (o :: os', q)
      | some a =>
        match fillOrder o a p with
        | none => none
        | some (o', d) => some (o' :: os', q + d)

/-- `FulfillOrders` on a tick / group -/
def fulfillOrders (os : List Order) (p : Int) : Option (List Order × Int) :=
  applyPlan os (fulfillPlan os p) p

/-- `DistributeOrderAmountToTick` -/
def distributeToTick (os : List Order) (amt p : Int) : Option (List Order × Int) :=
  match planGroups (groupOrders os) amt p with
  | none => none
  | some plan => applyPlan os plan p

/-- `DistributeOrderAmountToOrders` (the caller has sorted) -/
def distributeToOrders (os : List Order) (amt p : Int) : Option (List Order × Int) :=
  match planOrders (os.length + 1) os amt p with
  | none => none
  | some plan => applyPlan os plan p

/-! ### ghost predicates: nothing is lost in the re-runs (used by the accounting theorems) -/

/-- total of the amounts of a plan -/
def planSum (plan : List (Order × Int)) : Int := sumInt (plan.map (·.2))

/-- `DistributeOrderAmountToOrders os amt p` loses nothing: the orders that are finally filled (after the re-runs on
fewer orders) can absorb the whole `amt`.  Mirrors the recursion of `planOrders`. -/
def lossless : Nat → List Order → Int → Int → Bool
  | 0, _, _, _ => true
  | fuel+1, os, amt, p =>
    let z := shares os amt p
    let matched := z.filter (fun oa => shareOk oa.1 oa.2 p)
    if matched.length = z.length then decide (amt ≤ totalMatchable os p)
    else if matched.isEmpty then lossless fuel os.dropLast amt p
    else lossless fuel (matched.map (·.1)) amt p

/-- the same for the group loop of `DistributeOrderAmountToTick` -/
def groupsLossless : List (List Order) → Int → Int → Bool
  | [], rem, _ => decide (rem ≤ 0)
  | g :: gs, rem, p =>
    let openAmt := totalMatchable g p
    if openAmt = 0 then groupsLossless gs rem p
    else if rem ≥ openAmt then
      if rem - openAmt = 0 then true else groupsLossless gs (rem - openAmt) p
    else lossless (g.length + 1) (sortOrders g) rem p

/-! ### Order book (orderbook.go) -/

structure Tick where
  price : Int
  orders : List Order
deriving DecidableEq, Repr

structure Book where
  buys : List Tick      -- price decreasing
  sells : List Tick     -- price increasing
deriving DecidableEq, Repr

def Book.orders (b : Book) : List Order :=
  (b.buys.map (·.orders)).flatten ++ (b.sells.map (·.orders)).flatten

/-- `orderBookTicks.addOrder` -/
def insertTick (incr : Bool) (o : Order) : List Tick → List Tick
  | [] => [{ price := o.price, orders := [o] }]
  | t :: ts =>
    if t.price = o.price then { t with orders := t.orders ++ [o] } :: ts
    else if (if incr then decide (t.price > o.price) else decide (t.price < o.price)) then
      { price := o.price, orders := [o] } :: t :: ts
    else t :: insertTick incr o ts

/-- `OrderBook.AddOrder` for one order -/
def addOrder (b : Book) (o : Order) : Book :=
  if matchableAmount o o.price > 0 then
    match o.dir with
    | .buy => { b with buys := insertTick false o b.buys }
    | .sell => { b with sells := insertTick true o b.sells }
  else b

/-- `NewOrderBook(orders...)` -/
def newBook (os : List Order) : Book := os.foldl addOrder ⟨[], []⟩

/-! ### FindMatchableAmountAtSinglePrice (match.go:111-172) -/

/-- `buildSide`: matchable totals of the leading ticks whose price is within the match price -/
def buildSide (incr : Bool) (p : Int) : List Tick → List Int
  | [] => []
  | t :: ts =>
    if (incr && decide (t.price > p)) || (!incr && decide (t.price < p)) then []
    else totalMatchable t.orders p :: buildSide incr p ts

/-- the drop loop; the sides are the *reversed* tick totals (head = tick `side.i`). -/
def fmaLoop : Nat → List Int → Int → List Int → Int → Int → Option Int
  | 0, _, _, _, _, _ => none
  | fuel+1, bs, bT, ss, sT, p =>
    match bs, ss with
    | tb :: bRest, ts :: sRest =>
      let m := min bT sT
      let dropB := decide (bT - tb ≥ m)
      if dropB && bRest.isEmpty then none else
      let bs' := if dropB then bRest else bs
      let bT' := if dropB then bT - tb else bT
      let m' := min bT' sT
      let otherS := sT - ts
      let dropS := decide (otherS ≥ m') || quoteFloor p (m' - otherS) == 0
      if dropS && sRest.isEmpty then none else
      if !dropB && !dropS then some m'
      else fmaLoop fuel bs' bT' (if dropS then sRest else ss) (if dropS then sT - ts else sT) p
    | _, _ => none

/-- `OrderBook.FindMatchableAmountAtSinglePrice`; `none` = not found -/
def findMatchableAmount (b : Book) (p : Int) : Option Int :=
  let bA := buildSide false p b.buys
  let sA := buildSide true p b.sells
  if bA.isEmpty || sA.isEmpty then none
  else fmaLoop (bA.length + sA.length + 1) bA.reverse (sumInt bA) sA.reverse (sumInt sA) p

/-! ### MatchAtSinglePrice (match.go:178-207) -/

/-- `distributeToTicks` -/
def distTicks : List Tick → Int → Int → Option (List Tick × Int)
  | [], _, _ => some ([], 0)
  | t :: ts, rem, p =>
    let tickAmt := totalMatchable t.orders p
    if tickAmt ≤ rem then
      match fulfillOrders t.orders p with
      | none => none
      | some (os', q) =>
        if rem - tickAmt = 0 then some ({ t with orders := os' } :: ts, q)
        else match distTicks ts (rem - tickAmt) p with
          | none => none
          | some (ts', q') => some ({ t with orders := os' } :: ts', q + q')
    else
      match distributeToTick t.orders rem p with
      | none => none
      | some (os', q) => some ({ t with orders := os' } :: ts, q)

inductive SRes
  | panic
  | noMatch
  | ok (b : Book) (q : Int)
deriving DecidableEq, Repr

/-- `OrderBook.MatchAtSinglePrice` -/
def matchAtSinglePrice (b : Book) (p : Int) : SRes :=
  match findMatchableAmount b p with
  | none => .noMatch
  | some x =>
    match distTicks b.buys x p with
    | none => .panic
    | some (buys', q1) =>
      match distTicks b.sells x p with
      | none => .panic
      | some (sells', q2) => .ok ⟨buys', sells'⟩ (q1 + q2)

/-! ### PriceDirection and Match (match.go:211-299) -/

inductive PDir | staying | increasing | decreasing
deriving DecidableEq, Repr

/-- the buy-side scan of `PriceDirection`: (amount over, amount at) the last price -/
def scanBuys (lp : Int) : List Tick → Int → Int × Int
  | [], over => (over, 0)
  | t :: ts, over =>
    if t.price < lp then (over, 0)
    else if t.price = lp then (over, totalMatchable t.orders lp)
    else scanBuys lp ts (over + totalMatchable t.orders lp)

def scanSells (lp : Int) : List Tick → Int → Int × Int
  | [], under => (under, 0)
  | t :: ts, under =>
    if t.price > lp then (under, 0)
    else if t.price = lp then (under, totalMatchable t.orders lp)
    else scanSells lp ts (under + totalMatchable t.orders lp)

/-- `OrderBook.PriceDirection` -/
def priceDirection (b : Book) (lp : Int) : PDir :=
  let (buyOver, buyAt) := scanBuys lp b.buys 0
  let (sellUnder, sellAt) := scanSells lp b.sells 0
  if buyOver > sellAt + sellUnder then .increasing
  else if sellUnder > buyAt + buyOver then .decreasing
  else .staying

/-- what the two-sided loop leaves behind: the ticks (same shape as before), the quote dust it added and the price of
its last iteration that matched (`none`: no iteration matched) -/
structure LoopRes where
  buys : List Tick
  sells : List Tick
  q : Int
  last : Option Int
  /-- ghost (not compared with Go): no sell-side distribution of the loop lost a remainder (`groupsLossless`) -/
  lossless : Bool := true
deriving DecidableEq, Repr

/-- the two-sided loop of `Match` (match.go:262-297) from tick positions `bi`, `si` on: the arguments are
`ob.buys.ticks[bi:]`, `ob.sells.ticks[si:]`; `none` = panic.  Written as a recursion that hands back the
ticks in place (Go mutates them in place); every iteration advances `bi` or `si`, so `fuel` = number of ticks. -/
def matchLoop : Nat → Bool → List Tick → List Tick → Option LoopRes
  | 0, _, bs, ss => some ⟨bs, ss, 0, none, true⟩
  | fuel+1, incr, bt :: bts, st :: sts =>
    if bt.price < st.price then some ⟨bt :: bts, st :: sts, 0, none, true⟩ else
    let p := if incr then st.price else bt.price
    let bo := totalMatchable bt.orders p
    let so := totalMatchable st.orders p
    if ¬ (bo > 0) then
      match matchLoop fuel incr bts (st :: sts) with
      | none => none
      | some r => some { r with buys := bt :: r.buys }
    else if ¬ (so > 0) then
      match matchLoop fuel incr (bt :: bts) sts with
      | none => none
      | some r => some { r with sells := st :: r.sells }
    else
      match distributeToTick bt.orders (if bo ≤ so then bo else so) p with
      | none => none
      | some (bos, q1) =>
        match distributeToTick st.orders (if so ≤ bo then so else bo) p with
        | none => none
        | some (sos, q2) =>
          let bt' : Tick := { bt with orders := bos }
          let st' : Tick := { st with orders := sos }
          match matchLoop fuel incr (if bo ≤ so then bts else bt' :: bts) (if so ≤ bo then sts else st' :: sts) with
          | none => none
          | some r =>
            some { buys := if bo ≤ so then bt' :: r.buys else r.buys,
                   sells := if so ≤ bo then st' :: r.sells else r.sells,
                   q := q1 + q2 + r.q,
                   last := some (r.last.getD p),
                   lossless := groupsLossless (groupOrders st.orders) (if so ≤ bo then so else bo) p && r.lossless }
  | _, _, bs, ss => some ⟨bs, ss, 0, none, true⟩

inductive MRes
  | panic
  | noMatch
  | ok (b : Book) (matchPrice : Int) (q : Int)
deriving DecidableEq, Repr

/-- `OrderBook.Match`; returns also the price direction it computed -/
def matchBook (b : Book) (lp : Int) : MRes :=
  if b.buys.isEmpty || b.sells.isEmpty then .noMatch else
  let dir := priceDirection b lp
  match matchAtSinglePrice b lp with
  | .panic => .panic
  | r =>
    if dir = .staying then
      match r with
      | .ok b' q => .ok b' lp q
      | _ => .noMatch
    else
      let (b1, q0, m0) := match r with
        | .ok b' q => (b', q, true)
        | _ => (b, 0, false)
      match matchLoop (b1.buys.length + b1.sells.length) (dir == .increasing) b1.buys b1.sells with
      | none => .panic
      | some r =>
        match r.last with
        | some mp => .ok ⟨r.buys, r.sells⟩ mp (q0 + r.q)
        | none => if m0 then .ok ⟨r.buys, r.sells⟩ lp (q0 + r.q) else .noMatch

/-! ### Decidable forms of the property clauses (evaluated by the driver on REAL results)

`pre`/`post` are the same orders before and after one call of the real code (`post.fills − pre.fills` is the
number of individual fills the order took part in — taken from the model's run, Go does not expose it). -/

def wfB (o : Order) : Bool :=
  decide (0 ≤ o.paid) && decide (o.paid ≤ o.offer) && decide (0 ≤ o.opn) && decide (o.opn ≤ o.amount)

/-- no order pays more than its offer coin or is filled beyond its amount (and a fill never gives back) -/
def monFillWithinLimits (pre post : List Order) : Bool :=
  (pre.zip post).all fun (o, o') => wfB o' && decide (o'.opn ≤ o.opn) && decide (o.paid ≤ o'.paid)

def monUntouched (pre post : List Order) : Bool :=
  (pre.zip post).all fun (o, o') => decide (o'.opn = o.opn) && decide (o'.paid = o.paid) && decide (o'.received = o.received)

/-- base coin received by buyers -/
def buyReceived (pre post : List Order) : Int :=
  sumInt ((pre.zip post).map fun (o, o') => if o.dir = .buy then o'.received - o.received else 0)
/-- base coin paid by sellers -/
def sellPaid (pre post : List Order) : Int :=
  sumInt ((pre.zip post).map fun (o, o') => if o.dir = .sell then o'.paid - o.paid else 0)
/-- quote coin paid by buyers -/
def buyPaid (pre post : List Order) : Int :=
  sumInt ((pre.zip post).map fun (o, o') => if o.dir = .buy then o'.paid - o.paid else 0)
/-- quote coin received by sellers -/
def sellReceived (pre post : List Order) : Int :=
  sumInt ((pre.zip post).map fun (o, o') => if o.dir = .sell then o'.received - o.received else 0)
def fillCount (pre post : List Order) : Int :=
  sumInt ((pre.zip post).map fun (o, o') => (o'.fills : Int) - o.fills)

def monBaseConserved (pre post : List Order) : Bool := buyReceived pre post == sellPaid pre post

/-- `quoteCoinDiff` is what buyers paid minus what sellers received, it is never negative, and — when base coin is
conserved — smaller than the number of individual fills -/
def monQuoteDust (pre post : List Order) (q : Int) : Bool :=
  q == buyPaid pre post - sellReceived pre post && decide (0 ≤ q) &&
  (!monBaseConserved pre post || decide (q < max (fillCount pre post) 1))

/-- no order trades worse than its limit price by more than one smallest quote unit per individual fill -/
def monFillPriceWithinLimit (pre post : List Order) : Bool :=
  (pre.zip post).all fun (o, o') =>
    let f := o.opn - o'.opn
    let n : Int := (o'.fills : Int) - o.fills
    match o.dir with
    | .buy => decide ((o'.paid - o.paid) * Dec.P ≤ o.price * f + n * (Dec.P - 1))
    | .sell => decide (o.price * f ≤ (o'.received - o.received) * Dec.P + n * (Dec.P - 1))

/-- an order that was filled received a strictly positive amount -/
def monMatchedReceivesPositive (pre post : List Order) : Bool :=
  (pre.zip post).all fun (o, o') => !(decide (o'.opn < o.opn)) || decide (o'.received > o.received)


/-! ### Specification vocabulary (used by `Lemmas/AmmMatch.lean` and `Props/C05.lean`) -/

/-- a well-formed order state: what `NewBaseOrder` / `NewUserOrder` / `NewPoolOrder` establish and every fill keeps.
For a sell order the offer coin is the base coin itself, so what is still open must be covered by what is left of
the offer (`MatchableAmount` does not look at the offer coin of a sell order). -/
structure Wf (o : Order) : Prop where
  price_pos : 0 < o.price
  paid_nonneg : 0 ≤ o.paid
  opn_nonneg : 0 ≤ o.opn
  opn_le : o.opn ≤ o.amount
  paid_le : o.paid + (if o.dir = .sell then o.opn else 0) ≤ o.offer

/-- the fill price is not worse than the order's limit price -/
def Within (o : Order) (p : Int) : Prop :=
  match o.dir with
  | .buy => p ≤ o.price
  | .sell => o.price ≤ p

/-- a `FillOrder` call the engine is allowed to make -/
structure GoodFill (o : Order) (a p : Int) : Prop where
  price_pos : 0 < p
  pos : 0 < a
  le : a ≤ matchableAmount o p                      -- the guard of `FillOrder`: no panic
  worth : o.dir = .sell → 0 < quoteFloor p a        -- a seller is never filled for nothing
  within : Within o p

/-- `o'` is `o` after a finite sequence of allowed fills -/
inductive Reach : Order → Order → Prop
  | refl (o : Order) : Reach o o
  | fill {o o₁ : Order} (a p : Int) : Reach o o₁ → GoodFill o₁ a p → Reach o (fillRaw o₁ a p).1

/-- pointwise relation of two lists of the same length -/
def All2 {α β : Type} (R : α → β → Prop) : List α → List β → Prop
  | [], [] => True
  | a :: as, b :: bs => R a b ∧ All2 R as bs
  | _, _ => False

/-- a tick after matching: same price, every order reached by allowed fills -/
def TickReach (t t' : Tick) : Prop := t'.price = t.price ∧ All2 Reach t.orders t'.orders

def BookReach (b b' : Book) : Prop := All2 TickReach b.buys b'.buys ∧ All2 TickReach b.sells b'.sells

/-- a well-formed tick of one side: every order well-formed, of that side, at the tick's price -/
def TickOk (d : Dir) (t : Tick) : Prop := ∀ o ∈ t.orders, Wf o ∧ o.dir = d ∧ o.price = t.price

def BookOk (b : Book) : Prop := (∀ t ∈ b.buys, TickOk .buy t) ∧ (∀ t ∈ b.sells, TickOk .sell t)


/-- the same for `distributeToTicks` of `MatchAtSinglePrice` -/
def ticksLossless : List Tick → Int → Int → Bool
  | [], rem, _ => decide (rem ≤ 0)
  | t :: ts, rem, p =>
    let tickAmt := totalMatchable t.orders p
    if tickAmt ≤ rem then
      if rem - tickAmt = 0 then true else ticksLossless ts (rem - tickAmt) p
    else groupsLossless (groupOrders t.orders) rem p


/-- nothing is lost on the sell side during `OrderBook.Match b lp` (ghost, decidable) -/
def matchLossless (b : Book) (lp : Int) : Bool :=
  let s := match findMatchableAmount b lp with
    | none => true
    | some x => ticksLossless b.sells x lp
  if priceDirection b lp = .staying then s else
    let b1 := match matchAtSinglePrice b lp with
      | .ok b' _ => b'
      | _ => b
    s && (match matchLoop (b1.buys.length + b1.sells.length) (priceDirection b lp == .increasing) b1.buys b1.sells with
      | some r => r.lossless
      | none => true)

end Comdex.Amm
