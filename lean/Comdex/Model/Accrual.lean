import Comdex.Base.Dec
/-!
# Floating-point accrual (x/rewards/keeper/iter.go:178-207 `CalculationOfRewards`) — C18 family (b)

```go
yearsElapsed := sdk.NewDec(secondsElapsed).QuoInt64(types.SecondsPerYear)
factor1 := 1 + lsr
intPerBlockFactor := math.Pow(factor1.MustFloat64(), yearsElapsed.MustFloat64())   // <- NOT modelled: an input
intAccPerBlock := intPerBlockFactor - 1.0
amtFloat := sdk.NewDec(amount.Int64()).MustFloat64()
newAmount := intAccPerBlock * amtFloat
s := strconv.FormatFloat(newAmount, 'f', 18, 64);  newAm, err := sdk.NewDecFromStr(s)
```

A finite `float64` is represented EXACTLY as a (signed) integer count of `2^-1074` (the smallest subnormal), so
`1.0 = U = 2^1074`, order on floats = order on `Int`. Everything except `math.Pow` is modelled exactly:

* `Dec.MustFloat64` = `strconv.ParseFloat(d.String())` = nearest double, ties to even, of `raw/10^18`  → `ofDec`
* float `-` and `*` (IEEE-754 binary64, round to nearest even, no fused operation in this expression)     → `fsub`, `fmul`
* `FormatFloat(x,'f',18,64)` = the exact binary value rounded half-even to 18 decimals (strconv's
  multi-precision `decimal.Round`), read back by `NewDecFromStr`                                           → `fmt18`
* tracker accumulation "≥ 1 ⇒ pay whole units, carry the fraction" (rewards.go:566-584, 664-676)            → `trackerStep`

`math.Pow` enters as an explicit value (decoded from the bit pattern the real run obtained) in the executable
model, and as the field `pow` of `FloatOps` (with hypotheses) in the theorems. Core Lean only.
-/
namespace Comdex.Accrual
open Comdex

/-- `1.0` in units of `2^-1074` -/
def U : Nat := 2 ^ 1074
def P18 : Nat := 10 ^ 18
/-- `2^1024` in units of `2^-1074`: results of this size or larger are `±Inf` -/
def maxU : Nat := 2 ^ 2098

/-- round `p/q` to the nearest integer, ties to even -/
def rhe (p q : Nat) : Nat :=
  let f := p / q
  let r := p % q
  if 2 * r < q then f else if q < 2 * r then f + 1 else if f % 2 = 0 then f else f + 1

/-- number of low bits a value with integer part `f` (in units) loses: bit length − 53, at least 0.
Below `2^53` units (subnormals and the first normal binade) the spacing is one unit. -/
def expo (f : Nat) : Nat := (Nat.log2 f + 1) - 53

/-- nearest double (as units, exponent range unbounded above) to the rational `p/q` units; ties to even -/
def roundNat (p q : Nat) : Nat :=
  let k := expo (p / q)
  rhe p (q * 2 ^ k) * 2 ^ k

/-- sign-symmetric rounding of the rational `p/q` -/
def fround (p : Int) (q : Nat) : Int :=
  if p < 0 then - (roundNat p.natAbs q : Int) else (roundNat p.toNat q : Int)

def fsub (a b : Int) : Int := fround (a - b) 1
def fmul (a b : Int) : Int := fround (a * b) U
/-- `LegacyDec.MustFloat64` -/
def ofDec (raw : Int) : Int := fround (raw * U) P18
/-- `FormatFloat(·,'f',18,64)` followed by `NewDecFromStr`: raw 10^-18 integer -/
def fmt18 (x : Int) : Int :=
  if x < 0 then - (rhe (x.natAbs * P18) U : Int) else (rhe (x.toNat * P18) U : Int)

def finite (x : Int) : Bool := x.natAbs < maxU

/-- decode an IEEE-754 binary64 bit pattern; `none` = NaN or ±Inf -/
def ofBits (b : Nat) : Option Int :=
  let sign := (b / 2 ^ 63) % 2
  let e := (b / 2 ^ 52) % 2 ^ 11
  let m := b % 2 ^ 52
  if e = 2047 then none
  else
    let mag : Nat := if e = 0 then m else (2 ^ 52 + m) * 2 ^ (e - 1)
    some (if sign = 1 then - (mag : Int) else (mag : Int))

/-! ## the code around the power function -/

def secondsPerYear : Int := 31557600
/-- `sdk.NewDec(secs).QuoInt64(SecondsPerYear)` (truncating) -/
def yearsDec (secs : Int) : Dec := Dec.quoInt (Dec.ofInt secs) secondsPerYear
/-- first argument of `math.Pow` -/
def xF (lsr : Dec) : Int := ofDec (Dec.one + lsr)
/-- second argument of `math.Pow` -/
def yF (secs : Int) : Int := ofDec (yearsDec secs)
/-- `sdk.NewDec(amount.Int64()).MustFloat64()` -/
def aF (amount : Int) : Int := ofDec (Dec.ofInt amount)

/-- the float product before formatting -/
def productOfPow (p a : Int) : Int := fmul (fsub p (U : Int)) a
/-- everything after the power function, on the success path -/
def interestOfPow (p a : Int) : Dec := fmt18 (productOfPow p a)

inductive Out where
  | ok (d : Dec)
  | err
  | panic
  deriving Repr, DecidableEq

def isInt64 (x : Int) : Bool := decide (-(2 ^ 63 : Int) ≤ x) && decide (x < (2 ^ 63 : Int))

/-- `CalculationOfRewards(ctx, amount, lsr, bTime)` with `secs = ctx.BlockTime().Unix() - bTime` and the value
`pw` returned by `math.Pow (xF lsr) (yF secs)` (`none` = NaN/±Inf). -/
def calcRewards (amount : Int) (_lsr : Dec) (secs : Int) (pw : Option Int) : Out :=
  if secs < 0 then .err                       -- ErrNegativeTimeElapsed
  else if !isInt64 amount then .panic         -- amount.Int64() panics
  else match pw with
    | none => .err                            -- "NaN"/"+Inf" is not a decimal string
    | some p =>
      let m := productOfPow p (aF amount)
      if !finite m then .err
      else
        let d := fmt18 m
        if Dec.fits d then .ok d else .err    -- NewDecFromStr: more than 315 bits

/-! ## tracker: whole units are paid, the fraction is carried -/

/-- `tracker += x; if tracker ≥ 1 { paid = TruncateInt(tracker); tracker -= paid }` → `(paid, tracker')` -/
def trackerStep (tr x : Dec) : Int × Dec :=
  let t := tr + x
  if Dec.one ≤ t then (Dec.truncateInt t, t - Dec.ofInt (Dec.truncateInt t)) else (0, t)

/-- run a list of accrued amounts through the tracker: total paid and final tracker -/
def trackerRun (tr : Dec) : List Dec → Int × Dec
  | [] => (0, tr)
  | x :: xs =>
    let (p, tr') := trackerStep tr x
    let (ps, tr'') := trackerRun tr' xs
    (p + ps, tr'')

/-- decidable form of "whole units paid, fraction carried" for one real step (monitor) -/
def carryOk (trBefore x : Dec) (paid : Int) (trAfter : Dec) : Bool :=
  decide (0 ≤ paid) && decide (0 ≤ trAfter) && decide (trAfter < Dec.one) &&
    decide (paid * Dec.P + trAfter = trBefore + x)

/-! ## hypotheses about the power function -/

/-- What the theorems assume of `math.Pow`, on exactly the arguments `CalculationOfRewards` can pass
(`xF lsr`, `yF secs`). `E` is the reciprocal of the relative slack `ε = 1/E` of quasi-multiplicativity. -/
structure FloatOps where
  pow : Int → Int → Int
  E : Nat
  E_pos : 0 < E
  pow_ge_one : ∀ lsr secs, 0 ≤ lsr → 0 ≤ secs → (U : Int) ≤ pow (xF lsr) (yF secs)
  pow_zero : ∀ lsr, 0 ≤ lsr → pow (xF lsr) (yF 0) = (U : Int)
  pow_submult : ∀ lsr s1 s2, 0 ≤ lsr → 0 ≤ s1 → 0 ≤ s2 →
    pow (xF lsr) (yF s1) * pow (xF lsr) (yF s2) * (E : Int) ≤ pow (xF lsr) (yF (s1 + s2)) * (U : Int) * ((E : Int) + 1)

/-- monotone in the exponent on the reachable grid (whole seconds) -/
def PowMonoTime (ops : FloatOps) : Prop :=
  ∀ lsr s1 s2, 0 ≤ lsr → 0 ≤ s1 → s1 ≤ s2 → ops.pow (xF lsr) (yF s1) ≤ ops.pow (xF lsr) (yF s2)
/-- monotone in the base on the reachable grid (18-digit rates) -/
def PowMonoRate (ops : FloatOps) : Prop :=
  ∀ l1 l2 s, 0 ≤ l1 → l1 ≤ l2 → 0 ≤ s → ops.pow (xF l1) (yF s) ≤ ops.pow (xF l2) (yF s)

/-- Explicit error term of the two-interval law (`C18.more_frequent_accrual_not_more`), in raw 10^-18 units:
`10^18 · a · ( c·ε·(1+u)² + (c−1)·4u ) + 2` with `a` the principal and `c` the power value of the combined
interval (both as real numbers), `ε = 1/E` the slack of `pow_submult`, `u = 2^-53` the unit round-off. The `2`
covers three half-ulp roundings of the 18-digit formatting and the `2^-1075` absolute errors. -/
def subaddErr (E : Nat) (a c : Int) : Rat :=
  let ar : Rat := (a : Rat) / (U : Rat)
  let cr : Rat := (c : Rat) / (U : Rat)
  let u : Rat := 1 / ((2 ^ 53 : Nat) : Rat)
  (P18 : Rat) * ar * (cr * (1 / (E : Rat)) * ((1 + u) * (1 + u)) + (cr - 1) * (4 * u)) + 2

/-- the accrued amount as a function of the inputs, on the success path of `calcRewards` -/
def interest (ops : FloatOps) (amount : Int) (lsr : Dec) (secs : Int) : Dec :=
  interestOfPow (ops.pow (xF lsr) (yF secs)) (aF amount)

end Comdex.Accrual
