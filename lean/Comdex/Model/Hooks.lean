/-!
# Model of the block hooks (C15) — core Lean only

`types/utils.go:241-264`

```go
func ApplyFuncIfNoError(ctx sdk.Context, f func(ctx sdk.Context) error) (err error) {
	defer func() { if r := recover(); r != nil { …; err = errors.New("panic occurred during execution") } }()
	cacheCtx, writeCache := ctx.CacheContext()
	err = f(cacheCtx)
	if err == nil { writeCache() } else { ctx.Logger().Error(err.Error()) }
	return err
}
```

* `Fail` — how a piece of code can end other than normally: a returned error or a Go panic.
* `Raw σ` — a piece of hook code as it really runs: it performs writes one after the other and may stop in
  the middle; the result is the state *with the writes made so far* and how it ended.
* `applyShaped` — what a wrapper of a given *shape* (the five booleans the extractor reads off the source)
  makes of a `Raw` step; `applyIfNoError` — the wrapper the design speaks about (`σ → Except Fail σ` units).
* `Part`, `runBlocker` — a blocker: wrapped units interleaved with unwrapped top-level code; an unwrapped
  part that panics takes the whole blocker (and on chain the node) down.
* `sliceStartEnd`, `sweepBounds`, `goSliceOk` — the unwrapped prelude of the liquidation sweeps
  (`x/liquidation/types/liquidations.go:21-31`, `x/liquidation/keeper/liquidate_vaults.go:35-48`,
  `x/liquidationsV2/keeper/liquidate.go:48-57`) over Go `int`s, with Go's rule for `s[a:b]`.
-/
namespace Comdex.Hooks

inductive Fail where
  | err    -- the step returned a non-nil error
  | panic  -- the step panicked
deriving DecidableEq, Repr

/-! ## The wrapper -/

/-- `Base/Apply` of the design: the exact content of `ApplyFuncIfNoError` for a unit given as a function
to `Except`: state replaced only on success; the flag is `err == nil`. -/
def applyIfNoError {σ : Type} (f : σ → Except Fail σ) (s : σ) : σ × Bool :=
  match f s with
  | .ok s' => (s', true)
  | .error _ => (s, false)

/-- code as it runs: state including the writes made so far, and how it ended (`none` = normally) -/
abbrev Raw (σ : Type) := σ → σ × Option Fail

/-- what a correct cache context shows of a raw step -/
def Raw.toExcept {σ : Type} (f : Raw σ) : σ → Except Fail σ := fun s =>
  match f s with
  | (s', none) => .ok s'
  | (_, some e) => .error e

/-- The facts the extractor reads off `types/utils.go` (see `Gen/Hooks.lean`, `wrapper`). -/
structure WrapperShape where
  deferRecover : Bool     -- a deferred closure calls `recover()`
  recoverSetsErr : Bool   -- … and assigns the named result `err` when something was recovered
  runsOnCache : Bool      -- `f` is applied to the context returned by `ctx.CacheContext()`
  writeInErrNil : Bool    -- `writeCache()` is called in the then-branch of `if err == nil`
  writeElsewhere : Bool   -- `writeCache()` is called anywhere else (else-branch, before the test, deferred)
deriving DecidableEq, Repr

def goodShape : WrapperShape :=
  { deferRecover := true, recoverSetsErr := true, runsOnCache := true, writeInErrNil := true, writeElsewhere := false }

/-- Result of one wrapper call of a given shape: `(state afterwards, err == nil, a panic escaped)`. -/
def applyShaped {σ : Type} (sh : WrapperShape) (f : Raw σ) (s : σ) : σ × Bool × Bool :=
  match f s with
  | (s', none) =>
    -- normal return, err == nil
    ((if !sh.runsOnCache || sh.writeInErrNil || sh.writeElsewhere then s' else s), true, false)
  | (s', some .err) =>
    ((if !sh.runsOnCache || sh.writeElsewhere then s' else s), false, false)
  | (s', some .panic) =>
    -- a panic skips the rest of the body: no write call is reached at all
    ((if !sh.runsOnCache then s' else s), false, !(sh.deferRecover))

/-! ## Blockers -/

/-- all-wrapped loop (`for _, item := range items { _ = ApplyFuncIfNoError(ctx, …) }`):
final state and, per unit in order, whether it committed -/
def runUnits {σ : Type} : List (σ → Except Fail σ) → σ → σ × List Bool
  | [], s => (s, [])
  | f :: fs, s =>
    let r := applyIfNoError f s
    let t := runUnits fs r.1
    (t.1, r.2 :: t.2)

inductive Part (σ : Type) where
  | wrapped (f : σ → Except Fail σ)   -- one unit under ApplyFuncIfNoError
  | plain (g : σ → Option σ)          -- unwrapped code; `none` = a panic escapes the blocker

/-- `none` = the blocker panicked (chain halt) -/
def runBlocker {σ : Type} : List (Part σ) → σ → Option σ
  | [], s => some s
  | .wrapped f :: ps, s => runBlocker ps (applyIfNoError f s).1
  | .plain g :: ps, s =>
    match g s with
    | none => none
    | some s' => runBlocker ps s'

/-- number of parts that were started (for "the remaining units are still processed") -/
def startedParts {σ : Type} : List (Part σ) → σ → Nat
  | [], _ => 0
  | .wrapped f :: ps, s => 1 + startedParts ps (applyIfNoError f s).1
  | .plain g :: ps, s =>
    match g s with
    | none => 1
    | some s' => 1 + startedParts ps s'

/-- An *unwrapped* loop as in `x/liquidationsV2/keeper/liquidate.go:248-254`
(`for … { err := k.LiquidateIndividualBorrow(…); if err != nil { return err } }`): runs on the live state,
stops at the first failure. Result: state, how it ended, number of items started. -/
def runUnwrappedLoop {σ : Type} : List (Raw σ) → σ → σ × Option Fail × Nat
  | [], s => (s, none, 0)
  | f :: fs, s =>
    match f s with
    | (s', none) => let t := runUnwrappedLoop fs s'; (t.1, t.2.1, t.2.2 + 1)
    | (s', some e) => (s', some e, 1)

/-! ## The sweep prelude over Go ints -/

/-- Go `int` (64 bit) addition wraps around silently -/
def wrap64 (x : Int) : Int := (x + 2 ^ 63) % 2 ^ 64 - 2 ^ 63

/-- `GetSliceStartEndForLiquidations(sliceLen, offset, batchSize)` (both generations, same text; `offset + batchSize` is a
Go `int` addition) -/
def sliceStartEnd (sliceLen offset batch : Int) : Int × Int :=
  if offset ≥ sliceLen || offset < 0 || batch < 0 then (sliceLen, sliceLen)
  else if wrap64 (offset + batch) ≥ sliceLen then (offset, sliceLen)
  else (offset, wrap64 (offset + batch))

/-- the two calls around `if start == end { offset = 0; … }` -/
def sweepBounds (sliceLen offset batch : Int) : Int × Int :=
  let r := sliceStartEnd sliceLen offset batch
  if r.1 = r.2 then sliceStartEnd sliceLen 0 batch else r

/-- Go: `s[a:b]` on a slice is legal iff `0 ≤ a ≤ b ≤ cap(s)`; otherwise a run-time panic -/
def goSliceOk (cap : Nat) (a b : Int) : Bool := decide (0 ≤ a) && decide (a ≤ b) && decide (b ≤ (cap : Int))

/-- `int(x)` of a `uint64` on a 64-bit platform -/
def intOfU64 (x : Nat) : Int := if x < 2 ^ 63 then (x : Int) else (x : Int) - 2 ^ 64

/-- does `totalVaults[start:end]` survive? `cap` = capacity of the list read from the store,
`counter`/`offset`/`batch` the stored `uint64`s. -/
def sweepSliceOk (cap counter offset batch : Nat) : Bool :=
  let r := sweepBounds (intOfU64 counter) (intOfU64 offset) (intOfU64 batch)
  goSliceOk cap r.1 r.2

end Comdex.Hooks

namespace Comdex.Hooks

/-! ## Nested units (a wrapped pass whose body contains wrapped per-item steps, `x/auctionsV2/abci.go`)

Units are numbered 1…n in the order they start; `parent i = 0` for a top-level unit. The body of a unit runs its
sub-units, each under `applyIfNoError`, and then succeeds (`ok i`) or fails. The state is the list of unit
numbers whose writes are visible. -/

/-- the direct sub-units of `p`, in start order -/
def childrenOf (parents : List Nat) (p : Nat) : List Nat :=
  (List.range parents.length).filterMap fun i => if parents.getD i 0 = p then some (i + 1) else none

def unitBody (parents : List Nat) (ok : Nat → Bool) : Nat → Nat → List Nat → Except Fail (List Nat)
  | 0, _, _ => .error .err   -- out of fuel (never reached for fuel ≥ nesting depth)
  | fuel + 1, i, s =>
    let s' := (runUnits ((childrenOf parents i).map fun c => unitBody parents ok fuel c) s).1
    if ok i then .ok (s' ++ [i]) else .error .err

/-- the units whose writes are visible after the blocker, as the model computes them -/
def visibleUnits (parents : List Nat) (ok : Nat → Bool) : List Nat :=
  (runUnits ((childrenOf parents 0).map fun c => unitBody parents ok (parents.length + 1) c) []).1

/-- is `v` the unit `u` or nested inside it? -/
def insideOf (parents : List Nat) : Nat → Nat → Nat → Bool
  | 0, _, _ => false
  | fuel + 1, v, u => if v = 0 then false else if v = u then true else insideOf parents fuel (parents.getD (v - 1) 0) u

end Comdex.Hooks

namespace Comdex.Hooks

/-! ## Per-item loops: every item under its own wrapper, or ONE wrapper around the whole loop

`x/liquidity/abci.go:18-27` is `for _, app := range allApps { _ = ApplyFuncIfNoError(ctx, func … app.Id …) }`: the
item loop is OUTSIDE the wrapper, `runUnits`. Swapping the two lines gives `ApplyFuncIfNoError(ctx, func … { for … })`:
all items run on one cache context (`seqAll`) and are committed or dropped together (`runAsOne`). -/

/-- the steps one after the other on ONE context, stopping at the first failure -/
def seqAll {σ : Type} : List (σ → Except Fail σ) → σ → Except Fail σ
  | [], s => .ok s
  | f :: fs, s =>
    match f s with
    | .ok s' => seqAll fs s'
    | .error e => .error e

/-- one wrapper around the whole loop -/
def runAsOne {σ : Type} (us : List (σ → Except Fail σ)) (s : σ) : σ × Bool := applyIfNoError (seqAll us) s

/-- item number `i` in the abstract: it appends its number to the log of processed items, or fails (`ok = false`:
poisoned state, injected fault) -/
def itemUnit (ok : Bool) (i : Nat) : List Nat → Except Fail (List Nat) :=
  fun s => if ok then .ok (s ++ [i]) else .error .err

/-- the items numbered `i, i+1, …` with the given outcomes -/
def itemUnits : List Bool → Nat → List (List Nat → Except Fail (List Nat))
  | [], _ => []
  | ok :: rest, i => itemUnit ok i :: itemUnits rest (i + 1)

/-- the numbers of the items that do not fail -/
def okItems : List Bool → Nat → List Nat
  | [], _ => []
  | ok :: rest, i => if ok then i :: okItems rest (i + 1) else okItems rest (i + 1)

end Comdex.Hooks

namespace Comdex.Hooks

/-! ## The surplus kick-off of the second generation (`x/liquidationsV2/keeper/liquidate.go:450-521`) — UNWRAPPED

`LiquidateForSurplusAndDebt` ranges over the auction-mapping entries on the live context and returns at the first error
(`runUnwrappedLoop`). For a due entry `CheckStatsForSurplusAndDebt` first calls `collector.GetAmountFromCollector`, which
MOVES the lot to the first-generation auction module account and lowers the net-fee record
(`x/collector/keeper/collector.go:28-32`), and only then `CreateLockedVault`, whose first test is whether English auctions
are activated for the app (`liquidate.go:210-215`). -/

structure Kick where
  collector : Int      -- coins of the collector asset in the collector module account
  parked : Int         -- … in the first-generation auction module account
  netFees : Int        -- the collector's net-fee record of the entry
  lockedVaults : Nat
  auctions : Nat
  active : Bool        -- the entry's `IsAuctionActive`
deriving DecidableEq, Repr

/-- one due entry, as the code runs it -/
def surplusKickRaw (lot : Int) (english : Bool) : Raw Kick := fun s =>
  let s1 := { s with collector := s.collector - lot, parked := s.parked + lot, netFees := s.netFees - lot }
  if !english then (s1, some .err)
  else ({ s1 with lockedVaults := s1.lockedVaults + 1, auctions := s1.auctions + 1, active := true }, none)

/-- is the entry due? (`liquidate.go:437-441, 503`) -/
def kickDue (s : Kick) (threshold lot : Int) : Bool := !s.active && decide (s.netFees ≥ threshold + lot)

/-- `n` consecutive blocks of one entry whose app cannot start an English auction -/
def kickBlocks (threshold lot : Int) : Nat → Kick → Kick
  | 0, s => s
  | n + 1, s => kickBlocks threshold lot n (if kickDue s threshold lot then (surplusKickRaw lot false s).1 else s)

end Comdex.Hooks

