import Comdex.Base.Dec
/-!
# Model of the pool share arithmetic of `x/liquidity/amm/pool.go`

* `deposit`  — `amm.Deposit`  (pool.go:477-509)
* `withdraw` — `amm.Withdraw` (pool.go:514-532)
* `validateRangedPoolParams`, `createRangedPool`, `deriveTranslation`, `rangedPrice`, `initialPoolCoinSupply`
  — pool.go:231-294, 331-336, 534-584, 675-682

`sdk.Int` is `Int`, `sdk.Dec` is `Comdex.Dec` (raw integer × 10^18).  Every `Dec` primitive of the library
that checks its result (`BitLen > 315 ⇒ panic "Int overflow"`), every `TruncateInt` (`NewIntFromBigInt`:
`BitLen > 256 ⇒ panic "... out of bound"`) and every division (`big.Int` division by zero: a runtime
panic) is a step of the `Except Fail` monad, in the evaluation order of the Go code.  `utils.SafeMath`
(types/utils.go:211-232) turns an *overflow* panic (message contains "overflow" / ends in "out of bound")
into the zero result and re-throws every other panic: `Fail.overflow` vs `Fail.panic`.
`ToLegacyDec`, `Ceil`, `Abs`, `QuoInt64`, comparisons do not check anything in the library and do not here.

Core Lean only (this file is linked into the driver executable).
-/
namespace Comdex.Pool
open Comdex

/-- why a Go computation did not return normally -/
inductive Fail where
  | overflow   -- a panic that `utils.IsOverflow` recognises
  | panic      -- any other panic (division by zero, nil dereference, explicit `panic`)
  deriving DecidableEq, Repr

abbrev M := Except Fail

def chk (x : Dec) : M Dec := if Dec.fits x then .ok x else .error .overflow
def chkInt (x : Int) : M Int := if Dec.fitsInt x then .ok x else .error .overflow

def toDec (i : Int) : Dec := Dec.ofInt i
def add (a b : Dec) : M Dec := chk (Dec.add a b)
def sub (a b : Dec) : M Dec := chk (Dec.sub a b)
def mul (a b : Dec) : M Dec := chk (Dec.mul a b)
def mulTruncate (a b : Dec) : M Dec := chk (Dec.mulTruncate a b)
def quo (a b : Dec) : M Dec := if b = 0 then .error .panic else chk (Dec.quo a b)
def quoTruncate (a b : Dec) : M Dec := if b = 0 then .error .panic else chk (Dec.quoTruncate a b)
def truncateInt (a : Dec) : M Int := chkInt (Dec.truncateInt a)
def minDec (a b : Dec) : Dec := if a < b then a else b      -- LegacyMinDec

/-- the computation ended in the overflow arm of `SafeMath` -/
def overflows {α : Type} (m : M α) : Bool :=
  match m with
  | .error .overflow => true
  | _ => false

/-! ## Deposit -/

/-- `ratio` of `amm.Deposit`: the truncated offer/reserve quotient, the smaller one when both reserves exist -/
def depositRatio (rx ry x y : Int) : M Dec :=
  if toDec rx = 0 then quoTruncate (toDec y) (toDec ry)
  else if toDec ry = 0 then quoTruncate (toDec x) (toDec rx)
  else do
    let a ← quoTruncate (toDec x) (toDec rx)
    let b ← quoTruncate (toDec y) (toDec ry)
    pure (minDec a b)

/-- the body of the closure passed to `SafeMath` in `amm.Deposit`; result `(ax, ay, pc)` -/
def depositCore (rx ry ps x y : Int) : M (Int × Int × Int) := do
  let rxD := toDec rx
  let ryD := toDec ry
  let psD := toDec ps
  let ratio ← depositRatio rx ry x y
  let pcD ← mulTruncate psD ratio
  let pc ← truncateInt pcD
  let mp ← quo (toDec pc) psD                       -- mintProportion, half-even rounding
  let axD ← mul rxD mp
  let ax ← truncateInt (Dec.ceil axD)
  let ayD ← mul ryD mp
  let ay ← truncateInt (Dec.ceil ayD)
  pure (ax, ay, pc)

/-- `amm.Deposit`: `none` = the call panics (re-thrown non-overflow panic). -/
def deposit (rx ry ps x y : Int) : Option (Int × Int × Int) :=
  match depositCore rx ry ps x y with
  | .ok r => some r
  | .error .overflow => some (0, 0, 0)
  | .error .panic => none

/-! ## Withdraw -/

/-- the body of the closure passed to `SafeMath` in `amm.Withdraw`; result `(x, y)` -/
def withdrawCore (rx ry ps pc : Int) (fee : Dec) : M (Int × Int) := do
  let prop ← quoTruncate (toDec pc) (toDec ps)
  let mult ← sub Dec.one fee
  let x1 ← mulTruncate (toDec rx) prop
  let x2 ← mulTruncate x1 mult
  let x ← truncateInt x2
  let y1 ← mulTruncate (toDec ry) prop
  let y2 ← mulTruncate y1 mult
  let y ← truncateInt y2
  pure (x, y)

/-- `amm.Withdraw`: `none` = the call panics. -/
def withdraw (rx ry ps pc : Int) (fee : Dec) : Option (Int × Int) :=
  if pc = ps then some (rx, ry)
  else match withdrawCore rx ry ps pc fee with
    | .ok r => some r
    | .error .overflow => some (0, 0)
    | .error .panic => none

/-! ## Ranged pools -/

def minPoolPrice : Dec := 1000                                  -- 10^-15
def maxPoolPrice : Dec := 100000000000000000000 * Dec.P         -- 10^20
def minGapRatio : Dec := 1000000000000000                       -- 0.001
def four : Dec := 4 * Dec.P

/-- `utils.DecApproxSqrt` on a non-negative argument (`Dec.approxSqrt`, Newton, ≤ 300 rounds). -/
def sqrt (d : Dec) : M Dec := if d < 0 then .error .panic else pure (Dec.approxSqrt d)
def inv (d : Dec) : M Dec := quo Dec.one d
def power2 (d : Dec) : M Dec := do let s ← mul d d; mul s Dec.one   -- `Power(2)`

/-- `ValidateRangedPoolParams`: `true` = accepted (the guards in source order) -/
def validateRangedPoolParams (minP maxP initP : Dec) : M Bool :=
  if ¬ initP > 0 then pure false
  else if minP < minPoolPrice then pure false
  else if ¬ maxP > 0 then pure false
  else if maxP > maxPoolPrice then pure false
  else if ¬ maxP > minP then pure false
  else do
    let d ← sub maxP minP
    let g ← quo d minP
    pure (decide (¬ g < minGapRatio ∧ ¬ initP < minP ∧ ¬ initP > maxP))

/-- number of decimal digits of `|i|` (`len(Text(10))` without the sign) -/
def digits (i : Int) : Nat := (toString i.natAbs).length

/-- `InitialPoolCoinSupply` (the value `10^c`; the library's 256-bit check on it is applied by the caller below) -/
def initialPoolCoinSupply (x y : Int) : Int :=
  let lx := digits x + (if x < 0 then 1 else 0)
  let ly := digits y + (if y < 0 then 1 else 0)
  (10 : Int) ^ ((lx + ly + 1) / 2)

/-- `DeriveTranslation` -/
def deriveTranslation (rx ry : Int) (minP maxP : Dec) : M (Dec × Dec) := do
  let rxD := toDec rx
  let ryD := toDec ry
  let sqrtM ← sqrt minP
  let sqrtL ← sqrt maxP
  let normal : M Dec := do
    let q ← quo rxD ryD
    let sxy ← sqrt q
    let a1 ← quo sqrtM sxy
    let a2 ← quo sxy sqrtL
    let alpha ← sub a1 a2
    let a3 ← power2 alpha
    let a4 ← add a3 four
    let s ← sqrt a4
    let a5 ← add alpha s
    mul (Dec.quoInt a5 2) sxy
  let sqrtP ←
    if rxD = 0 then pure sqrtM
    else if ryD = 0 then pure sqrtL
    else do
      let q ← quo rxD ryD
      if q = 0 then pure sqrtM else do
        let q2 ← quo ryD rxD
        if q2 = 0 then pure sqrtL else normal
  let sqrtK1 : Option Dec ←
    if sqrtP ≠ sqrtM then do
      let d ← sub sqrtP sqrtM
      let k ← quo rxD d
      pure (some k)
    else pure none
  let sqrtK : Option Dec ←
    if sqrtP ≠ sqrtL then do
      let i1 ← inv sqrtP
      let i2 ← inv sqrtL
      let d ← sub i1 i2
      let k2 ← quo ryD d
      match sqrtK1 with
      | none => pure (some k2)
      | some k => do
        let p ← power2 sqrtP
        let n1 ← mul k sqrtM
        let n1 ← add rxD n1
        let d1 ← quo k sqrtL
        let d1 ← add ryD d1
        let p1 ← quo n1 d1
        let n2 ← mul k2 sqrtM
        let n2 ← add rxD n2
        let d2 ← quo k2 sqrtL
        let d2 ← add ryD d2
        let p2 ← quo n2 d2
        let e1 ← sub p p1
        let e2 ← sub p p2
        pure (some (if e1.natAbs > e2.natAbs then k2 else k))
    else pure sqrtK1
  match sqrtK with
  | none => .error .panic                    -- nil `sqrtK.Mul`
  | some k => do
    let tx ← mul k sqrtM
    let ty ← quo k sqrtL
    pure (tx, ty)

structure RPool where
  rx : Int
  ry : Int
  ps : Int
  minP : Dec
  maxP : Dec
  transX : Dec
  transY : Dec
  xComp : Dec
  yComp : Dec
  deriving DecidableEq, Repr

/-- `NewRangedPool` -/
def newRangedPool (rx ry ps : Int) (minP maxP : Dec) : M RPool := do
  let (tx, ty) ← deriveTranslation rx ry minP maxP
  let xc ← add (toDec rx) tx
  let yc ← add (toDec ry) ty
  pure { rx := rx, ry := ry, ps := ps, minP := minP, maxP := maxP, transX := tx, transY := ty, xComp := xc, yComp := yc }

/-- `RangedPool.Price` -/
def rangedPrice (p : RPool) : M Dec :=
  if p.rx = 0 ∧ p.ry = 0 then .error .panic else quo p.xComp p.yComp

/-- `RangedPool.SetBalances(rx, ry, derive)` (pool.go:301-310): with `derive = false` the translation is KEPT (the pool
moves along its own curve — this is how `PoolBuyOrders` / `PoolSellOrders` walk a pool through the ticks of one batch);
with `derive = true` it is recomputed from the new reserves by `DeriveTranslation` (the first catch-up order of a batch,
and — through `NewRangedPool` — every construction of the pool object from the bank balances in the next block). -/
def setBalances (p : RPool) (rx ry : Int) (derive : Bool) : M RPool := do
  let (tx, ty) ← if derive then deriveTranslation rx ry p.minP p.maxP else pure (p.transX, p.transY)
  let xc ← add (toDec rx) tx
  let yc ← add (toDec ry) ty
  pure { p with rx := rx, ry := ry, transX := tx, transY := ty, xComp := xc, yComp := yc }

/-- the accepted amounts `(ax, ay)` of `CreateRangedPool` -/
def createAmounts (x y : Int) (minP maxP initP : Dec) : M (Int × Int) :=
  if initP = minP then pure (0, y)            -- single y asset pool
  else if initP = maxP then pure (x, 0)       -- single x asset pool
  else do
    let xD := toDec x
    let yD := toDec y
    let sqrtP ← sqrt initP
    let sqrtM ← sqrt minP
    let sqrtL ← sqrt maxP
    let dPM ← sub sqrtP sqrtM
    let t1 ← quo xD dPM
    let iP ← inv sqrtP
    let iL ← inv sqrtL
    let dI ← sub iP iL
    let t2 ← mul t1 dI
    let ay ← truncateInt (Dec.ceil t2)
    if ay > y then do
      let iP ← inv sqrtP
      let iL ← inv sqrtL
      let dI ← sub iP iL
      let u1 ← quo yD dI
      let dPM ← sub sqrtP sqrtM
      let u2 ← mul u1 dPM
      let ax ← truncateInt (Dec.ceil u2)
      pure (ax, y)
    else pure (x, ay)

/-- `CreateRangedPool`: `.ok none` = an error is returned -/
def createRangedPool (x y : Int) (minP maxP initP : Dec) : M (Option RPool) :=
  if ¬ x > 0 ∧ ¬ y > 0 then pure none
  else do
    let v ← validateRangedPoolParams minP maxP initP
    if v = false then pure none
    else do
      let a ← createAmounts x y minP maxP initP
      -- `NewIntFromBigInt(10^c)` in `InitialPoolCoinSupply` panics above 256 bits (both amounts ≥ 10^77); found by
      -- the regenerated translation (Props/C06Pure.lean `pure_ammInitialPoolCoinSupply_eq_model`)
      let ps ← chkInt (initialPoolCoinSupply a.1 a.2)
      let p ← newRangedPool a.1 a.2 ps minP maxP
      pure (some p)

/-- the price of a freshly created ranged pool, `none` if creation or `Price()` fails -/
def createdPrice (x y : Int) (minP maxP initP : Dec) : Option Dec :=
  match createRangedPool x y minP maxP initP with
  | .ok (some p) => (match rangedPrice p with | .ok v => some v | .error _ => none)
  | _ => none

/-- the reserves of a freshly created ranged pool -/
def createdReserves (x y : Int) (minP maxP initP : Dec) : Option (Int × Int) :=
  match createRangedPool x y minP maxP initP with
  | .ok (some p) => some (p.rx, p.ry)
  | _ => none

/-! ## The decidable laws of property C06 (evaluated by the driver on REAL outputs, proved of the model in Props/C06) -/

/-- admissible arguments of `amm.Deposit`: a pool that is not depleted (keeper/pool.go:506), non-negative offer -/
abbrev DepositDom (rx ry ps x y : Int) : Prop :=
  0 ≤ rx ∧ 0 ≤ ry ∧ (0 < rx ∨ 0 < ry) ∧ 0 < ps ∧ 0 ≤ x ∧ 0 ≤ y

/-- admissible arguments of `amm.Withdraw`: not depleted, at most the whole supply, fee rate in [0,1] -/
abbrev WithdrawDom (rx ry ps pc : Int) (fee : Dec) : Prop :=
  0 ≤ rx ∧ 0 ≤ ry ∧ 0 < ps ∧ 0 ≤ pc ∧ pc ≤ ps ∧ 0 ≤ fee ∧ fee ≤ Dec.one

/-- accepted amount `a` of a coin with offer `off` -/
abbrev TakesAtMostOffered (off a : Int) : Prop := 0 ≤ a ∧ a ≤ off

/-- shares `pc` are minted for `a` coins at a rate no better than reserve `r` per supply `ps`:
`pc/ps ≤ a/r + (10^18+2)/(2·10^36)`  (the half-ulp of `mintProportion`), denominators cleared. -/
abbrev RateNotBetter (r ps a pc : Int) : Prop :=
  2 * Dec.PP * (pc * r) ≤ 2 * Dec.PP * (a * ps) + r * ps * (Dec.P + 2)

/-- reserve per share after a deposit is at least `(1 - 10^-17)` × reserve per share before -/
abbrev PerShareAfterDeposit (r ps a pc : Int) : Prop :=
  (100000000000000000 - 1) * (r * (ps + pc)) ≤ 100000000000000000 * ((r + a) * ps)

/-- withdrawn amount `out` is at most the pro-rata part reduced by the fee: `out ≤ r·(pc/ps)·(1-fee)`
(law of every withdrawal except the redemption of the whole supply, which the property specifies separately:
"redeeming the last outstanding shares returns the entire remaining reserves") -/
abbrev AtMostProrata (r ps pc : Int) (fee : Dec) (out : Int) : Prop :=
  0 ≤ out ∧ out * ps * Dec.P ≤ r * pc * (Dec.P - fee)

/-- reserve per share after a withdrawal is at least reserve per share before (exact) -/
abbrev PerShareAfterWithdraw (r ps pc out : Int) : Prop :=
  r * (ps - pc) ≤ (r - out) * ps

abbrev PriceInRange (minP maxP price : Dec) : Prop := minP ≤ price ∧ price ≤ maxP

end Comdex.Pool
