import Comdex.Model.Gauge
/-!
Model of the three external reward programme distributions of the rewards BeginBlocker (property C19, last clause).
Core Lean only.

* `Prog`            one programme record (`LockerExternalRewards` / `VaultExternalRewards` / `LendExternalRewards`) together
                    with its `EpochTime` record (`EpochId` → `StartingTime`, `Count`)
* `value`           x/rewards/keeper/iter.go:209-228 `OraclePriceForRewards`
* `shareOutcome`    iter.go:15-95 `DistributeExtRewardLocker` and iter.go:97-175 `DistributeExtRewardVault`, one programme
                    (the two loops are the same arithmetic on (NetBalance, DepositedAmount) resp. (AmountOut, TokenMintedAmount))
* `shareBlock`      the loop over all programmes of the kind, in store order, with the kill-switch / ESM `return`
* `lendOne`, `lendBlock`   iter.go:230-314 `DistributeExtRewardLend`: `addrArr`, `amountArr`, `totalAmount` are declared BEFORE the
                    loop over the programmes and keep accumulating across the programmes handled in one block (`Acc`)
* `Prog.apply`      what is stored: `AvailableRewards -= tracker`, `Count + 1`, `StartingTime = now + 86400`, or `IsActive = false`

Times are unix seconds.  `sdk.Int.Int64()` panics outside int64 (`I63`); `Dec.Quo` by zero panics.  A panic anywhere in the
begin blocker discards the whole block (`ApplyFuncIfNoError`); an `error` return of one of the three functions is only logged
by the begin blocker, the writes made before it stay.
-/
namespace Comdex.ExtReward
open Comdex Comdex.Gauge

def DAY : Int := 86400
/-- `ctx.BlockTime().Unix() + 84600` in `AddLendExternalRewards` (keeper.go:317) — 23.5 h, as the code has it -/
def LENDFIRST : Int := 84600
def I63 : Int := 9223372036854775808

def fits64 (x : Int) : Bool := decide (-I63 ≤ x) && decide (x < I63)

structure Prog where
  total   : Int      -- TotalRewards.Amount (the funding)
  avail   : Int      -- AvailableRewards.Amount
  days    : Int      -- DurationDays
  minLock : Int      -- MinLockupTimeSeconds
  active  : Bool     -- IsActive
  start   : Int      -- EpochTime.StartingTime
  count   : Nat      -- EpochTime.Count
  deriving Repr, DecidableEq

/-- programme as created by `ActExternalRewardsLockers` / `…Vaults` (`first = DAY`) / `AddLendExternalRewards` (`first = LENDFIRST`) -/
def newProg (amount days minLock now first : Int) : Prog :=
  { total := amount, avail := amount, days := days, minLock := minLock, active := true, start := now + first, count := 0 }

/-- guards of the three activation messages that involve amounts: `TotalRewards.IsZero()` refused, `DurationDays ≤ 0` refused
(ValidateBasic, tx.go:112-129, 169-186, 231-246), the depositor must own the coins (bank).  `aux` = the lookups (locker product
mapping / vault app mapping / cswap pool, assets, lend pool, reward asset) and, for locker and vault, `MinLockupTimeSeconds > 0`. -/
def createGuard (amount days funds : Int) (aux : Bool) : Bool :=
  decide (0 < amount) && decide (1 ≤ days) && decide (amount ≤ funds) && aux

/-- what one visit of a programme by its `DistributeExtReward…` function does -/
inductive Outcome where
  | skip                      -- inactive, not due, or a `continue`
  | off                       -- duration over: `IsActive = false`
  | pay (pays : List Int)     -- one epoch paid; `pays` per candidate in iteration order, `0` = nothing sent to that one
  deriving Repr, DecidableEq

def Prog.apply (p : Prog) (now : Int) : Outcome → Prog
  | .skip => p
  | .off => { p with active := false }
  | .pay pays => { p with avail := p.avail - sumL pays, count := p.count + 1, start := now + DAY }

/-- days left, `DurationDays - int64(epoch.Count)` -/
def Prog.daysLeft (p : Prog) : Int := p.days - (p.count : Int)

/-- the clause as worded, for one epoch: what is booked as paid is at most the epoch allocation `AvailableRewards / daysLeft`
(a rational; compared cross-multiplied); booking nothing is always fine -/
def capOk (p : Prog) (paid : Int) : Bool := decide (paid = 0) || (decide (0 ≤ paid) && decide (paid * p.daysLeft ≤ p.avail))

/-! ## Locker and vault programmes -/

/-- a locker (`NetBalance`, `CreatedAt`) or a vault (`AmountOut`, `CreatedAt`) in the order of the lookup table -/
structure User where
  amt     : Int
  created : Int
  deriving Repr, DecidableEq

/-- "last day don't check min lockup time" (iter.go:56-60, 137-141) -/
def eligible (p : Prog) (now : Int) (u : User) : Bool :=
  if (p.count : Int) ≠ p.days - 1 then !decide (now - u.created < p.minLock) else true

/-- `finalDailyRewards` if positive else nothing -/
def posPart (r : Int) : Int := if r > 0 then r else 0

/-- what the share arithmetic needs: every operand of an `.Int64()` call in range, divisor non-zero -/
def shareInputsOk (p : Prog) (totalShare : Int) (u : User) : Bool :=
  fits64 u.amt && fits64 totalShare && fits64 p.avail && decide (totalShare ≠ 0)

def userPay (p : Prog) (now : Int) (totalShare : Int) (u : User) : Int :=
  if eligible p now u then posPart (extShare p.avail p.daysLeft totalShare u.amt) else 0

/-- one programme of the locker / vault kind at block time `now`; `totalShare` = `DepositedAmount` / `TokenMintedAmount`.
(The vault loop converts `TokenMintedAmount` with `NewDecFromInt`, which cannot panic; the harness keeps it in int64.) -/
def shareOutcome (p : Prog) (now : Int) (totalShare : Int) (users : List User) : Except String Outcome :=
  if p.active = false then .ok .skip
  else if ¬ (p.start < now) then .ok .skip
  else if ¬ ((p.count : Int) < p.days) then .ok .off
  else if (users.filter (eligible p now)).all (shareInputsOk p totalShare) = false then .error "Int64() out of range / division by zero"
  else .ok (.pay (users.map (userPay p now totalShare)))

/-- environment of one programme of the locker / vault kind -/
structure ShareEnv where
  halt  : Bool          -- kill switch or ESM executed for the programme's app: the function RETURNS here
  total : Int
  users : List User
  deriving Repr

/-- the loop over the programmes; after a `return` the remaining programmes are not visited -/
def shareBlock (now : Int) : List (Prog × ShareEnv) → Except String (List Outcome)
  | [] => .ok []
  | (p, e) :: rest =>
    if e.halt then .ok ((p, e) :: rest |>.map (fun _ => Outcome.skip))
    else match shareOutcome p now e.total e.users with
      | .error m => .error m
      | .ok o => match shareBlock now rest with
        | .error m => .error m
        | .ok os => .ok (o :: os)

/-! ## Lend programmes -/

/-- `GetAsset` + `GetTwa` as `OraclePriceForRewards` sees them -/
structure Price where
  found  : Bool       -- asset and TWA record exist
  active : Bool       -- IsPriceActive
  twa    : Int
  dec    : Int        -- asset.Decimals
  deriving Repr, DecidableEq

/-- `OraclePriceForRewards`: `Dec(amt).Mul(Dec(twa)).Quo(Dec(decimals))`; "if price is not active and twa is 0 return false" -/
def value (pr : Price) (amt : Int) : Option Dec :=
  if pr.found = false then none
  else if pr.active = false ∧ pr.twa ≤ 0 then none
  else some (Dec.quo (Dec.mul (Dec.ofInt amt) (Dec.ofInt pr.twa)) (Dec.ofInt pr.dec))

/-- one id of `AssetStats.BorrowIds` whose borrow position exists -/
structure Borrower where
  liquidated : Bool
  amt    : Int        -- borrowPos.AmountOut.Amount
  farmed : Bool       -- active farmer of the master pool found, pool not depleted, `CalculateXYFromPoolCoin` ok
  x      : Int        -- redeemable quote coins of the farmed pool coins
  y      : Int        -- redeemable base coins
  deriving Repr, DecidableEq

structure LendEnv where
  halt   : Bool            -- kill switch: `return`
  stats  : Bool            -- `GetAssetStatsByPoolIDAndAssetID` found (else `return nil`)
  asset  : Price           -- of `RewardsAssetPoolData.AssetId[0]`
  quote  : Price           -- of the master pool's quote coin
  base   : Price           -- of the master pool's base coin
  borrowers : List Borrower
  rewardAsset : Bool       -- `GetAssetForDenom(TotalRewards.Denom)` found
  reward : Price
  deriving Repr

/-- `CheckMinOfBorrowersLiquidityAndBorrow` after the borrow was valued: `min(value(x) + value(y), value(borrow))` -/
def borrowerWeight (e : LendEnv) (b : Borrower) : Option Dec :=
  if b.liquidated then none else
  match value e.asset b.amt with
  | none => none
  | some bv =>
    if b.farmed = false then none else
    match value e.quote b.x, value e.base b.y with
    | some q, some s => some (minD (q + s) bv)
    | _, _ => none

/-- `amountArr` and `totalAmount` (`addrArr` runs parallel to `ws`; the driver keeps it) -/
structure Acc where
  ws  : List Dec
  tot : Int
  deriving Repr, DecidableEq

def Acc.empty : Acc := { ws := [], tot := 0 }

/-- `amountArr = append(amountArr, minAmt)`, `totalAmount = totalAmount.Add(minAmt.TruncateInt())` -/
def Acc.push (a : Acc) (w : Dec) : Acc := { ws := a.ws ++ [w], tot := a.tot + Dec.truncateInt w }

def Acc.pushAll (e : LendEnv) (a : Acc) : List Borrower → Acc
  | [] => a
  | b :: bs => match borrowerWeight e b with
    | some w => Acc.pushAll e (a.push w) bs
    | none => Acc.pushAll e a bs

/-- `totalAPR = dailyRewardAmt.Quo(Dec(totalAmount))`, per entry `amountArr[i].Mul(totalAPR).TruncateInt()` if positive -/
def lendPays (ws : List Dec) (tot : Int) (daily : Dec) : List Int :=
  ws.map (fun w => posPart (Dec.truncateInt (Dec.mul w (Dec.quo daily (Dec.ofInt tot)))))

/-- `dailyRewardAmt`: the oracle VALUE of the available rewards divided by the days left -/
def lendDaily (p : Prog) (tr : Dec) : Dec := Dec.quo tr (Dec.ofInt p.daysLeft)

/-- one programme of the lend kind: new accumulator, outcome, and whether the function returned -/
def lendOne (p : Prog) (now : Int) (e : LendEnv) (a : Acc) : Acc × Outcome × Bool :=
  if e.halt then (a, .skip, true)
  else if p.active = false then (a, .skip, false)
  else if ¬ (p.start < now) then (a, .skip, false)
  else if ¬ ((p.count : Int) < p.days) then (a, .off, false)
  else if e.stats = false then (a, .skip, true)
  else
    let a' := Acc.pushAll e a e.borrowers
    if e.rewardAsset = false then (a', .skip, false)
    else match value e.reward p.avail with
      | none => (a', .skip, false)
      | some tr =>
        if a'.tot ≤ 0 then (a', .skip, false)
        else (a', .pay (lendPays a'.ws a'.tot (lendDaily p tr)), false)

/-- the loop over the lend programmes: per programme the accumulator its payout was computed from, and the outcome -/
def lendBlock (now : Int) : List (Prog × LendEnv) → Acc → List (Acc × Outcome)
  | [], _ => []
  | (p, e) :: rest, a =>
    match lendOne p now e a with
    | (a', o, true) => (a', o) :: rest.map (fun _ => (a', Outcome.skip))
    | (a', o, false) => (a', o) :: lendBlock now rest a'

/-! ## A programme's life -/

/-- a programme driven through any sequence of visits `(now, outcome)` -/
def runProg (p : Prog) : List (Int × Outcome) → Prog
  | [] => p
  | (now, o) :: rest => runProg (p.apply now o) rest

/-- everything the visits booked as paid -/
def paidTotal : List (Int × Outcome) → Int
  | [] => 0
  | (_, .pay pays) :: rest => sumL pays + paidTotal rest
  | _ :: rest => paidTotal rest

/-! ## Decidable forms (evaluated by the driver on REAL records; the theorems are stated with them) -/

def availOk (p : Prog) : Bool := decide (0 ≤ p.avail)

/-- `epochRewards = Dec(avail).Quo(Dec(daysLeft))` of the locker / vault loops -/
def epochRewards (p : Prog) : Dec := Dec.quo (Dec.ofInt p.avail) (Dec.ofInt p.daysLeft)

/-- the bound PROVED for a locker / vault programme with `n` eligible positions whose amounts sum to at most the total share:
`paid ≤ epochRewards · (1 + n/(2·10¹⁸)) + n/(2·10¹⁸)`, cross-multiplied -/
def shareBoundOk (p : Prog) (n : Nat) (paid : Int) : Bool :=
  decide (paid * (2 * Dec.P * Dec.P) ≤ epochRewards p * (2 * Dec.P + n) + n * Dec.P)

/-- the bound PROVED for a lend programme paying from the accumulator `(ws, tot)` with the daily reward VALUE `daily`:
`paid ≤ (daily/tot + ½ulp) · Σ ws + n/(2·10¹⁸)`, cross-multiplied -/
def lendBoundOk (ws : List Dec) (tot : Int) (daily : Dec) (paid : Int) : Bool :=
  decide (paid * (2 * Dec.P * Dec.P * tot) ≤ (2 * daily + tot) * sumL ws + (ws.length : Int) * Dec.P * tot)

/-- the accumulator is consistent: `totalAmount` is the sum of the truncated entries of `amountArr`, all non-negative -/
def accOk (a : Acc) : Bool := decide (a.tot = sumL (a.ws.map Dec.truncateInt)) && a.ws.all (fun w => decide (0 ≤ w))

end Comdex.ExtReward
