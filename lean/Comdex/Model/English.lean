import Comdex.Base.Dec
/-!
# English-style auctions (model)

Hand-written from
* `x/auction/keeper/surplus.go` (bid 292-349, close 196-290, restart 167-194, window test 147-165),
* `x/auction/keeper/debt.go`    (bid 277-349, close 189-275, restart 164-187, window test 144-162),
* `x/auctionsV2/keeper/bid.go:321-403` (`PlaceEnglishAuctionBid`),
  `x/auctionsV2/keeper/auctions.go:222-233,337-485` (window test, restart, `CloseEnglishAuction`),
* stateless validation: `x/auction/types/msg.go:37-49,78-87`, `x/auctionsV2/types/tx.go:20-32`.

Four kinds of auction share one shape:

| kind        | bidders pay (`payDenom`)            | standing bid                 | lot (`lotDenom`) comes from        | at close `pay` goes to |
|-------------|-------------------------------------|------------------------------|-------------------------------------|------------------------|
| `surplusV1` | their bid, increasing               | `pay`  (= `Bid.Amount`)      | custody (moved in at start)         | burnt                  |
| `debtV1`    | fixed `pay` (= `ExpectedUserToken`) | `lot` (= `ExpectedMintedToken`), decreasing | minted at close      | collector              |
| `surplusV2` | their bid, increasing               | `pay`  (= `DebtToken.Amount`)| collector (moved at close)          | burnt                  |
| `debtV2`    | fixed `pay` (= `DebtToken`)         | `lot` (= `CollateralToken.Amount`), decreasing | minted at close   | collector              |

The bank is a small association list (first match wins, default 0).  Time is an integer (block time in
seconds); an auction is *due* when the block time has passed its window(s).  The block hook is split into
`tick` (time advances) and one `settle` per live auction (close when there is a bid, restart otherwise; under
emergency shutdown of the app the first-generation hook closes at once and refunds the standing bidder); the
real hook is `tick` followed by `settle` of every live auction (`blockOps`), so every statement proved for
arbitrary op lists holds for the real schedule.  Core Lean only.
-/
namespace Comdex.English

abbrev Acct := Nat
abbrev Denom := Nat
abbrev Bank := List ((Acct × Denom) × Int)

def bal : Bank → Acct → Denom → Int
  | [], _, _ => 0
  | ((a', d'), v) :: t, a, d => if a' = a ∧ d' = d then v else bal t a d

def credit (b : Bank) (a : Acct) (d : Denom) (x : Int) : Bank := ((a, d), bal b a d + x) :: b

/-- `SendCoins`: a negative amount is not a valid coin (`sdk.NewCoins` panics), a zero coin is dropped,
otherwise the sender needs the funds. -/
def send (b : Bank) (src dst : Acct) (d : Denom) (x : Int) : Option Bank :=
  if x < 0 then none
  else if x = 0 then some b
  else if bal b src d < x then none
  else some (credit (credit b src d (-x)) dst d x)

/-- send to the token-mint module and burn there (`BurnTokensForApp` refuses a non-positive amount). -/
def burn (b : Bank) (src : Acct) (d : Denom) (x : Int) : Option Bank :=
  if x ≤ 0 then none
  else if bal b src d < x then none
  else some (credit b src d (-x))

/-- `MintNewTokensForApp`: mints and pays only a positive amount, otherwise does nothing (and succeeds). -/
def mint (b : Bank) (dst : Acct) (d : Denom) (x : Int) : Bank :=
  if x > 0 then credit b dst d x else b

inductive Kind where
  | surplusV1 | debtV1 | surplusV2 | debtV2
deriving DecidableEq, Repr

def Kind.increasing : Kind → Bool
  | .surplusV1 | .surplusV2 => true
  | _ => false

def Kind.v1 : Kind → Bool
  | .surplusV1 | .debtV1 => true
  | _ => false

structure Auction where
  app : Nat
  mapping : Nat
  id : Nat
  kind : Kind
  payDenom : Denom
  lotDenom : Denom
  pay : Int
  lot : Int
  lot0 : Int            -- `AuctionedToken.Amount` (cap of the first debt bid, x/auction)
  bidder : Option Acct
  nbids : Nat
  factor : Dec
  endT : Int
  bidEndT : Int
  dur : Int
  bidDur : Int
deriving DecidableEq, Repr

structure State where
  bank : Bank
  cust : Acct            -- module account of the auction module
  coll : Acct            -- module account of the collector
  live : List Auction
  closed : List Auction  -- ghost: final records of the auctions closed so far (latest first)
  now : Int
  esm : Bool := false    -- emergency shutdown status of the app (x/esm), read by the x/auction block hook
  /-- what `MsgPlaceDebtBidRequest.ValidateBasic` demands of the bid amount: `none` = nothing (the tree as found:
  zero and negative bids reach the keeper), `some 1` = positive.  Read off the real `ValidateBasic` by the harness. -/
  debtFloor : Option Int := none
deriving Repr

def findAuc : List Auction → Nat → Option Auction
  | [], _ => none
  | a :: t, id => if a.id = id then some a else findAuc t id

def setAuc : List Auction → Auction → List Auction
  | [], _ => []
  | a :: t, a' => if a.id = a'.id then a' :: t else a :: setAuc t a'

def delAuc : List Auction → Nat → List Auction
  | [], _ => []
  | a :: t, id => if a.id = id then t else a :: delAuc t id

def sumBy (f : Auction → Int) : List Auction → Int
  | [] => 0
  | a :: t => f a + sumBy f t

/-- `BidFactor.MulInt(x).Ceil().TruncateInt()` -/
def ceilChange (f : Dec) (x : Int) : Int := Dec.truncateInt (Dec.ceil (Dec.mulInt f x))

inductive Op where
  /-- the activator created auction `a` (environment) -/
  | start (a : Auction)
  /-- `MsgPlaceSurplusBid` (x/auction) / `MsgPlaceMarketBid` on an English auction (x/auctionsV2) -/
  | bid (who : Acct) (app mapping id : Nat) (denom : Denom) (amt : Int)
  /-- `MsgPlaceDebtBid` (x/auction) -/
  | dbid (who : Acct) (app mapping id : Nat) (denom : Denom) (amt : Int) (expDenom : Denom) (expAmt : Int)
  /-- a new block with this block time -/
  | tick (now : Int)
  /-- the block hook looks at one live auction -/
  | settle (id : Nat)
  /-- the app's emergency shutdown status changes (environment) -/
  | esm (on : Bool)
deriving Repr

/-- take `payIn` from the new bidder, refund the previous bidder in full, store the new record -/
def accept (s : State) (a : Auction) (who : Acct) (a' : Auction) (payIn : Int) : Option State :=
  match send s.bank who s.cust a.payDenom payIn with
  | none => none
  | some b1 =>
    match a.bidder with
    | none => some { s with bank := b1, live := setAuc s.live a' }
    | some p =>
      match send b1 s.cust p a.payDenom a.pay with
      | none => none
      | some b2 => some { s with bank := b2, live := setAuc s.live a' }

def minNext (a : Auction) : Int := a.pay + ceilChange a.factor a.pay
def maxNext (a : Auction) : Int := a.lot - ceilChange a.factor a.lot

/-- the increasing-bid guard: with a standing bid the factor rule, otherwise the opening rule
(`LTE` in x/auction, `LT` in x/auctionsV2) -/
def tooLow (a : Auction) (amt : Int) (strictFirst : Bool) : Bool :=
  match a.bidder with
  | some _ => decide (amt < minNext a)
  | none => if strictFirst then decide (amt ≤ a.pay) else decide (amt < a.pay)

/-- the decreasing-bid guard -/
def tooHigh (a : Auction) (amt cap : Int) : Bool :=
  match a.bidder with
  | some _ => decide (amt > maxNext a)
  | none => decide (amt > cap)

def capEnd (s : State) (a : Auction) : Int :=
  if s.now + a.bidDur > a.endT then a.endT else s.now + a.bidDur

def bidStep (s : State) (who : Acct) (app mapping id : Nat) (denom : Denom) (amt : Int) : Option State :=
  match findAuc s.live id with
  | none => none
  | some a =>
    if a.app ≠ app ∨ a.mapping ≠ mapping then none else
    match a.kind with
    | .surplusV1 =>
      if amt < 0 then none                                   -- ValidateBasic: `Amount.IsValid()`
      else if denom ≠ a.payDenom then none
      else if tooLow a amt true then none
      else accept s a who { a with pay := amt, bidder := some who, nbids := a.nbids + 1, bidEndT := capEnd s a } amt
    | .surplusV2 =>
      if amt ≤ 0 then none                                   -- ValidateBasic: positive
      else if denom ≠ a.payDenom then none
      else if tooLow a amt false then none
      else accept s a who { a with pay := amt, bidder := some who, nbids := a.nbids + 1 } amt
    | .debtV2 =>
      if amt ≤ 0 then none
      else if denom ≠ a.lotDenom then none
      else if tooHigh a amt a.lot then none
      else accept s a who { a with lot := amt, bidder := some who, nbids := a.nbids + 1 } a.pay
    | .debtV1 => none                                        -- no surplus auction under this id

def belowFloor (s : State) (amt : Int) : Bool :=
  match s.debtFloor with
  | some fl => decide (amt < fl)
  | none => false

def dbidStep (s : State) (who : Acct) (app mapping id : Nat) (denom : Denom) (amt : Int)
    (expDenom : Denom) (expAmt : Int) : Option State :=
  match findAuc s.live id with
  | none => none
  | some a =>
    if a.app ≠ app ∨ a.mapping ≠ mapping then none else
    match a.kind with
    | .debtV1 =>
      if belowFloor s amt then none                          -- ValidateBasic
      else if expDenom ≠ a.payDenom then none
      else if expAmt ≠ a.pay then none
      else if denom ≠ a.lotDenom then none
      else if tooHigh a amt a.lot0 then none
      else accept s a who { a with lot := amt, bidder := some who, nbids := a.nbids + 1, bidEndT := capEnd s a } a.pay
    | _ => none

def due (now : Int) (a : Auction) : Bool :=
  if a.kind.v1 then decide (now > a.endT) || decide (now > a.bidEndT) else decide (now > a.endT)

def restartRec (now : Int) (a : Auction) : Auction :=
  match a.kind with
  | .surplusV1 => { a with pay := 0, endT := now + a.dur, bidEndT := now + a.dur }
  | _ => { a with endT := now + a.dur, bidEndT := now + a.dur }

/-- what the winner receives -/
def payout (a : Auction) : Int :=
  if a.kind.increasing then a.lot else if a.lot > 0 then a.lot else 0

def closeBank (s : State) (a : Auction) (w : Acct) : Option Bank :=
  match a.kind with
  | .surplusV1 =>
    match send s.bank s.cust w a.lotDenom a.lot with
    | none => none
    | some b1 => burn b1 s.cust a.payDenom a.pay
  | .surplusV2 =>
    match send s.bank s.coll s.cust a.lotDenom a.lot with
    | none => none
    | some b1 =>
      match send b1 s.cust w a.lotDenom a.lot with
      | none => none
      | some b2 => burn b2 s.cust a.payDenom a.pay
  | .debtV1 | .debtV2 =>
    send (mint s.bank w a.lotDenom a.lot) s.cust s.coll a.payDenom a.pay

/-- emergency close of a first-generation auction (`closeSurplusAuction` / `closeDebtAuction` with
`statusEsm = true`): the standing bidder gets its stake back, a surplus lot returns to the collector, nobody wins -/
def esmBank (s : State) (a : Auction) : Option Bank :=
  match a.kind with
  | .surplusV1 =>
    match a.bidder with
    | some w =>
      match send s.bank s.cust w a.payDenom a.pay with
      | none => none
      | some b1 => send b1 s.cust s.coll a.lotDenom a.lot
    | none => send s.bank s.cust s.coll a.lotDenom a.lot
  | .debtV1 =>
    match a.bidder with
    | some w => send s.bank s.cust w a.payDenom a.pay
    | none => some s.bank
  | _ => none

/-- the x/auction hook closes every auction of the app at once when the app is in emergency shutdown; the
x/auctionsV2 hook does not look at the status for English auctions -/
def emergency (s : State) (a : Auction) : Bool := a.kind.v1 && s.esm

def settleStep (s : State) (id : Nat) : Option State :=
  match findAuc s.live id with
  | none => none
  | some a =>
    if emergency s a then
      match esmBank s a with
      | none => none
      | some b => some { s with bank := b, live := delAuc s.live id }
    else if ¬ due s.now a then none else
    match a.bidder with
    | none => some { s with live := setAuc s.live (restartRec s.now a) }
    | some w =>
      match closeBank s a w with
      | none => none               -- the wrapped hook rolls back; the auction stays
      | some b => some { s with bank := b, live := delAuc s.live id, closed := a :: s.closed }

/-- the collector pays `x` to an account this model does not track -/
def sendAway (b : Bank) (src : Acct) (d : Denom) (x : Int) : Option Bank :=
  if x < 0 then none
  else if x = 0 then some b
  else if bal b src d < x then none
  else some (credit b src d (-x))

/-- The activator created auction `a`.  `surplusV1`: the lot moves from the collector into custody
(`GetAmountFromCollector`, surplus.go:84).  `surplusV2`: `CheckStatsForSurplusAndDebt` (liquidationsV2
liquidate.go:505) calls the same `GetAmountFromCollector`, which pays the lot to the *first-generation* auction
module account (not tracked here); the auction's own lot is taken from the collector again at close. -/
def startStep (s : State) (a : Auction) : Option State :=
  if a.bidder.isSome then none
  else if (findAuc s.live a.id).isSome then none
  else if emergency s a then none                         -- the x/auction activators do not start under shutdown
  else match a.kind with
    | .surplusV1 =>
      match send s.bank s.coll s.cust a.lotDenom a.lot with
      | none => none
      | some b => some { s with bank := b, live := a :: s.live }
    | .surplusV2 =>
      match sendAway s.bank s.coll a.lotDenom a.lot with
      | none => none
      | some b => some { s with bank := b, live := a :: s.live }
    | _ => some { s with live := a :: s.live }

def step (s : State) : Op → Option State
  | .start a => startStep s a
  | .bid who app mapping id denom amt => bidStep s who app mapping id denom amt
  | .dbid who app mapping id denom amt ed ea => dbidStep s who app mapping id denom amt ed ea
  | .tick now => if now < s.now then none else some { s with now := now }
  | .settle id => settleStep s id
  | .esm on => some { s with esm := on }

/-- a rejected message / a failed hook leaves the state as it was -/
def apply (s : State) (op : Op) : State :=
  match step s op with
  | some s' => s'
  | none => s

def run (s : State) (ops : List Op) : State := ops.foldl apply s

/-- the real block hook at block time `now`: look at every live auction -/
def blockOps (s : State) (now : Int) : List Op := Op.tick now :: s.live.map (fun a => Op.settle a.id)

/-- custody that an auction accounts for: the standing bid, and for `surplusV1` the lot -/
def held (d : Denom) (a : Auction) : Int :=
  (if a.bidder.isSome ∧ a.payDenom = d then a.pay else 0) +
  (if a.kind = .surplusV1 ∧ a.lotDenom = d then a.lot else 0)

/-- what account `x` has locked in auction `a` -/
def stakeOf (x : Acct) (d : Denom) (a : Auction) : Int :=
  if a.bidder = some x ∧ a.payDenom = d then a.pay else 0

/-- what account `x` gained from the closed auction `c`: the lot, against its own last payment -/
def gainOf (x : Acct) (d : Denom) (c : Auction) : Int :=
  if c.bidder = some x then
    (if c.lotDenom = d then payout c else 0) - (if c.payDenom = d then c.pay else 0)
  else 0

/-- the bidder named in a user message -/
def Op.sender? : Op → Option Acct
  | .bid who .. => some who
  | .dbid who .. => some who
  | _ => none

end Comdex.English
