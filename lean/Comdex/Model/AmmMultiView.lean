import Comdex.Model.AmmRanged
/-!
# `FindMatchPrice` over the keeper's view of a pair WITH pools — `amm.MultipleOrderViews` (view.go:179-217),
`keeper.Match` without a last price (swap.go:673-694)

The keeper's first batch of a pair looks at the order book AND at the continuous curves of the pair's pools:
`ov = MultipleOrderViews{ob.MakeView(), pool₁, pool₂, …}`; every pool is an `OrderView` through its own
`HighestBuyPrice` / `LowestSellPrice` (= `Price()`), `BuyAmountOver`, `SellAmountUnder` — the curve functions of
`Model/AmmPool.lean` (basic) and `Model/AmmRanged.lean` (ranged).  After the price is found each pool places ONE buy and ONE sell
order at that price (`pool.Order(dir, matchPrice, amount)`), then `MatchAtSinglePrice`.

The pools are not depleted (the keeper disables depleted pools before: swap.go:649-652), so none of the curve functions panics
for a positive tick; a `none` of a curve function is totalised to 0 here and reported by the driver as `panic` beforehand
(`PoolV.ok`).  Core Lean only.
-/
namespace Comdex.Amm
open Comdex

inductive PoolV
  | basic (pl : BPool)
  | ranged (pl : RPool)
deriving Repr

def PoolV.price : PoolV → Option Int
  | .basic pl => pl.price
  | .ranged pl => pl.price

def PoolV.buyAmountOver : PoolV → Int → Option Int
  | .basic pl, p => pl.buyAmountOver p
  | .ranged pl, p => pl.buyAmountOver p

def PoolV.sellAmountUnder : PoolV → Int → Option Int
  | .basic pl, p => pl.sellAmountUnder p
  | .ranged pl, p => pl.sellAmountUnder p

/-- the pool has a price (is not depleted) -/
def PoolV.ok (p : PoolV) : Bool := p.price.isSome

/-- `MultipleOrderViews{ob.MakeView(), pools…}` -/
structure MView where
  book : View
  pools : List PoolV

/-- `MultipleOrderViews.HighestBuyPrice`: the highest of the views' prices that are found -/
def MView.highestBuyPrice (v : MView) : Option Int :=
  (v.pools.map (·.price)).foldl (fun acc p => match acc, p with
    | none, p => p
    | some a, some b => if b > a then some b else some a
    | some a, none => some a) v.book.highestBuyPrice

/-- `MultipleOrderViews.LowestSellPrice` -/
def MView.lowestSellPrice (v : MView) : Option Int :=
  (v.pools.map (·.price)).foldl (fun acc p => match acc, p with
    | none, p => p
    | some a, some b => if b < a then some b else some a
    | some a, none => some a) v.book.lowestSellPrice

def MView.buyAmountOver (v : MView) (price : Int) : Int :=
  v.book.buyAmountOver price + sumInt (v.pools.map fun p => (p.buyAmountOver price).getD 0)

def MView.sellAmountUnder (v : MView) (price : Int) : Int :=
  v.book.sellAmountUnder price + sumInt (v.pools.map fun p => (p.sellAmountUnder price).getD 0)

/-- `FindMatchPrice(ov, tickPrec)` for the keeper's multiple view (the same walk as `findMatchPrice`) -/
def findMatchPriceM (v : MView) (prec : Nat) : Option Int :=
  match v.highestBuyPrice with
  | none => none
  | some hb =>
    match v.lowestSellPrice with
    | none => none
    | some ls =>
      if hb < ls then none else
      let lo := tickToIndex (lowestTick prec) prec
      let hi := tickToIndex (highestTick prec) prec
      match findFirstTrue lo hi (fun i =>
          let sellAmt := v.sellAmountUnder (tickFromIndex i prec)
          decide (sellAmt > 0) && decide (v.buyAmountOver (tickFromIndex (i + 1) prec) ≤ sellAmt)) with
      | none => none
      | some i =>
        match findFirstTrue hi lo (fun i =>
            let buyAmt := v.buyAmountOver (tickFromIndex i prec)
            decide (buyAmt > 0) && decide (buyAmt ≥ v.sellAmountUnder (tickFromIndex (i - 1) prec))) with
        | none => none
        | some j =>
          let midTick := Dec.quoInt (tickFromIndex i prec + tickFromIndex j prec) 2
          some (roundPrice midTick prec)

/-- the orders the pools place at the match price (swap.go:684-693): per pool a buy order when `BuyAmountOver(p) > 0`, then a
sell order when `SellAmountUnder(p) > 0`; `firstId` = id of the first of them, `poolIds` the pools' ids -/
def poolOrdersAt (pools : List (Nat × PoolV)) (p : Int) (firstId : Nat) : List Order :=
  match pools with
  | [] => []
  | (pid, pl) :: rest =>
    let b := (pl.buyAmountOver p).getD 0
    let s := (pl.sellAmountUnder p).getD 0
    let ob : List Order := if b > 0 then
      [{ id := firstId, kind := 1, oid := pid, dir := .buy, price := p, amount := b, offer := offerCoinAmount .buy p b,
         opn := b, paid := 0, received := 0, batchId := 0 }] else []
    let os : List Order := if s > 0 then
      [{ id := firstId + ob.length, kind := 1, oid := pid, dir := .sell, price := p, amount := s, offer := offerCoinAmount .sell p s,
         opn := s, paid := 0, received := 0, batchId := 0 }] else []
    ob ++ os ++ poolOrdersAt rest p (firstId + ob.length + os.length)

/-- the keeper's first batch of a pair with pools: the user orders `os` (ids `< firstId`), the pools with their ids -/
def matchFirstBatchPools (os : List Order) (pools : List (Nat × PoolV)) (prec firstId : Nat) :
    Option Int × List Order × SRes :=
  let b := newBook os
  match findMatchPriceM ⟨makeView b, pools.map (·.2)⟩ prec with
  | none => (none, [], .noMatch)
  | some p =>
    let pos := poolOrdersAt pools p firstId
    (some p, pos, matchAtSinglePrice (pos.foldl addOrder b) p)

end Comdex.Amm
