import Comdex.Model.DutchV2
import Comdex.Model.LimitBid
/-!
# Limit-bid book joined with the second-generation Dutch auction and the custody account (model)

One market (debt asset, collateral asset), one Dutch auction of that pair, the shared module account of x/auctionsV2.

* the auction side is `Model/DutchV2.lean` unchanged (`placeBid`, `tickIter`, `tickIterEsm`, `bidE`, reserve top-up);
* the book: `deps` = `LimitOrderBid.DebtToken.Amount` keyed by (premium, bidder), `bv` = `LimitBidProtocolData.BidValue` of the
  market, fee rates; `DepositLimitAuctionBid` / `CancelLimitAuctionBid` / `WithdrawLimitAuctionBid` from
  `x/auctionsV2/keeper/bid.go:496-683` (ValidateBasic `tx.go:57-152`, premium cap, the key encoder's panic on a negative premium,
  the full-amount withdraw taking the cancel path, fees `rate.Mul(NewDecFromInt(x)).TruncateInt()`, the guard of `fix: 8cbf115`);
* `fillJ` — `LimitOrderBid` (`auctions.go:535-605`) for this auction: the bucket `⌊(oracle − price)/oracle·100⌋`, the SNAPSHOT of the
  records of that premium taken before the loop (`GetUserLimitBidDataByPremium`, in the store's order = order of the bidders'
  address strings, `JEnv.order`), and for every snapshot entry `PlaceDutchAuctionBid` with the auction VALUE read before the loop
  (never refreshed — D7) and the entry's snapshot amount, followed by the book update of the code's three branches:
    deposit > remaining debt : record := deposit − remaining debt, BidValue −= remaining debt          (`:567-576`)
    deposit = remaining debt : record deleted, BidValue NOT touched, `return nil`                       (`:561-566`)
    deposit < remaining debt : record deleted, BidValue −= deposit                                      (`:578-595`)
  where "remaining debt" is the stale value's; an error anywhere rolls the whole closure back.

Ghosts (written, never read): `fees` retained in the module account, `over` = debited from deposits beyond what the auction really
charged (a fill clipped by exhausted collateral charges less than it debits — D24), `exact` = deposits consumed by exact fills
whose `BidValue` was left as it was.  Core Lean only.
-/
namespace Comdex.LimitFill
open Comdex Comdex.DutchV2
open Comdex.LimitBid (getK putK delK sumK getD0 fee)

/-- (premium, bidder) -/
abbrev RKey := Int × Nat

structure JEnv where
  e : Env := {}
  closingFee : Dec := 0
  withdrawalFee : Dec := 0
  /-- the bidders in the order of their address strings (the store's iteration order inside one premium) -/
  order : List Nat := []
  deriving Repr, Inhabited

structure JSt where
  d : St := {}
  deps : List (RKey × Int) := []
  bv : Int := 0
  fees : Int := 0
  over : Int := 0
  exact : Int := 0
  deriving Inhabited

def maxPremium : Int := 30

/-- Σ of all outstanding deposits of the market -/
def total (deps : List (RKey × Int)) : Int := sumK (fun _ => true) deps

/-! ### user messages on the book -/

def depositStep (s : JSt) (who : Nat) (prem amt : Int) : Except Unit JSt :=
  if amt ≤ 0 then .error ()                                       -- ValidateBasic
  else if prem > maxPremium then .error ()
  else if prem < 0 then .error ()                                 -- the key encoder panics
  else
    match send s.d.bank (.bidder who) .auction .debt amt with
    | .error _ => .error ()
    | .ok b =>
      .ok { s with d := { s.d with bank := b, otherD := s.d.otherD + amt },
                   deps := putK s.deps (prem, who) (getD0 s.deps (prem, who) + amt), bv := s.bv + amt }

/-- `CancelLimitAuctionBid` once the record `rec` has been found -/
def cancelCore (je : JEnv) (s : JSt) (k : RKey) (rec : Int) : Except Unit JSt :=
  if rec > 0 then
    let f := fee je.closingFee rec
    match send s.d.bank .auction (.bidder k.2) .debt (rec - f) with
    | .error _ => .error ()
    | .ok b =>
      .ok { s with d := { s.d with bank := b, otherD := s.d.otherD - (rec - f) },
                   deps := delK s.deps k, bv := s.bv - rec, fees := s.fees + f }
  else .ok { s with deps := delK s.deps k, bv := s.bv - rec }

def cancelStep (je : JEnv) (s : JSt) (who : Nat) (prem : Int) : Except Unit JSt :=
  if prem < 0 then .error ()
  else match getK s.deps (prem, who) with
    | none => .error ()
    | some rec => cancelCore je s (prem, who) rec

def withdrawStep (je : JEnv) (s : JSt) (who : Nat) (prem amt : Int) : Except Unit JSt :=
  if amt ≤ 0 then .error ()                                       -- ValidateBasic
  else if prem < 0 then .error ()
  else match getK s.deps (prem, who) with
    | none => .error ()
    | some rec =>
      if amt > rec then .error ()                                  -- bid.go:636 (fix 8cbf115)
      else if amt = rec then cancelCore je s (prem, who) rec
      else if rec > 0 then
        let f := fee je.withdrawalFee amt
        match send s.d.bank .auction (.bidder who) .debt (amt - f) with
        | .error _ => .error ()
        | .ok b =>
          .ok { s with d := { s.d with bank := b, otherD := s.d.otherD - (amt - f) },
                       deps := putK s.deps (prem, who) (rec - amt), bv := s.bv - amt, fees := s.fees + f }
      else .ok { s with deps := putK s.deps (prem, who) (rec - amt), bv := s.bv - amt }

/-! ### `LimitOrderBid` for this auction -/

/-- `GetUserLimitBidDataByPremium`: the records of premium `k`, in the store's order, with their amounts AT THIS MOMENT -/
def snapshot (deps : List (RKey × Int)) (k : Int) : List Nat → List (Nat × Int)
  | [] => []
  | w :: r => match getK deps (k, w) with
    | some amt => (w, amt) :: snapshot deps k r
    | none => snapshot deps k r

/-- the loop of auctions.go:552-598 over the snapshot; `a` is the auction value read before the loop -/
def fillLoopJ (je : JEnv) (a : Auc) (dt : Int) (k : Int) : JSt → List (Nat × Int) → Except Unit JSt
  | s, [] => .ok s
  | s, (who, amt) :: rest =>
    match placeBid je.e s.d a who amt dt true with
    | .error _ => .error ()
    | .ok d' =>
      let charged := d'.paid - s.d.paid
      if amt ≥ a.debt then
        if amt = a.debt then
          .ok { s with d := d', deps := delK s.deps (k, who), over := s.over + (amt - charged), exact := s.exact + amt }
        else
          fillLoopJ je a dt k { s with d := d', deps := putK s.deps (k, who) (amt - a.debt), bv := s.bv - a.debt,
                                       over := s.over + (a.debt - charged) } rest
      else
        fillLoopJ je a dt k { s with d := d', deps := delK s.deps (k, who), bv := s.bv - amt,
                                     over := s.over + (amt - charged) } rest

def fillJ (je : JEnv) (s : JSt) (dt : Int) : Except Unit JSt :=
  match s.d.auc with
  | none => .ok s
  | some a =>
    match bucket a with
    | .error _ => .error ()
    | .ok none => .ok s
    | .ok (some k) => fillLoopJ je a dt k s (snapshot s.deps k je.order)

/-! ### operations -/
inductive Op
  | bid (who : Nat) (amt : Int) (debtTwa : Int)                                     -- MsgPlaceMarketBid
  | tick (esm : Bool) (now twaC : Int) (actC : Bool) (twaD : Int) (actD : Bool)     -- the begin-blocker of x/auctionsV2
  | reserve (who : Nat) (amt : Int)                                                 -- MsgAppReserveFunds
  | deposit (who : Nat) (prem amt : Int)                                            -- MsgDepositLimitBid
  | cancel (who : Nat) (prem : Int)                                                 -- MsgCancelLimitBid
  | withdraw (who : Nat) (prem amt : Int)                                           -- MsgWithdrawLimitBid
  deriving Repr, Inhabited

def orElseJ (s : JSt) (r : Except Unit JSt) : JSt := match r with | .ok s' => s' | .error _ => s

def stepE (je : JEnv) (s : JSt) : Op → Except Unit JSt
  | .bid who amt dt => match bidE je.e s.d who amt dt with | .ok d' => .ok { s with d := d' } | .error _ => .error ()
  | .tick esm now twaC actC twaD actD =>
    let d1 := if esm then tickIterEsm je.e s.d now twaC actC twaD actD else tickIter je.e s.d now twaC actC twaD actD
    let s1 := { s with d := d1 }
    .ok (orElseJ s1 (fillJ je s1 twaD))
  | .reserve who amt => .ok { s with d := DutchV2.step je.e s.d (.reserve who amt) }
  | .deposit who prem amt => depositStep s who prem amt
  | .cancel who prem => cancelStep je s who prem
  | .withdraw who prem amt => withdrawStep je s who prem amt

/-- a rejected message leaves the state as it was -/
def step (je : JEnv) (s : JSt) (op : Op) : JSt := orElseJ s (stepE je s op)

def run (je : JEnv) (s : JSt) (ops : List Op) : JSt := ops.foldl (step je) s

/-- right after the activator: the auction of `DutchV2.initSt`, an empty book -/
def initJ (je : JEnv) (a : Auc) (b : Bank) (reserve : Option Int) : JSt := { d := initSt je.e a b reserve }

/-! ### decidable monitors (evaluated by the driver on REAL values) -/

/-- `bidvalue_sum`: recorded total = Σ deposits, every deposit positive -/
def monBvSum (bv : Int) (deps : List (RKey × Int)) : Bool := decide (bv = total deps) && deps.all (fun kv => decide (kv.2 > 0))

end Comdex.LimitFill
