import Comdex.Model.AmmTick
/-!
# Model of the keeper's glue around the matcher — stored orders over several batches

`x/liquidity/types/order.go` (`NewUserOrder`: which amounts of a stored order are offered to the matcher),
`x/liquidity/keeper/swap.go` (`LimitOrder` → `NewOrderForLimitOrder`; `ExecuteMatching`; `Match`; `ApplyMatchResult`: the
write-back of a match result to the stored order), `x/liquidity/keeper/batch.go` (`ExecuteRequests`: expiry of orders after
matching; `DeleteOutdatedRequests`), for ONE pair without pools.

A stored order keeps `Amount`, `OpenAmount`, `OfferCoin`, `RemainingOfferCoin`, `ReceivedCoin`, `Price`, direction, status,
batch id and expiry over its life; every batch converts the live orders to fresh amm orders, runs the modelled matcher
(`matchFirstBatch` when the pair has no last price, `matchBook` otherwise), and writes the result back.
Not modelled: bank transfers, swap fees, cancel messages, market / MM orders, pools (a pair with pools takes the pool orders
as further input orders; the stored-order glue is the same).  Core Lean only.
-/
namespace Comdex.Amm
open Comdex

inductive OStatus
  | notExecuted | notMatched | partiallyMatched | completed | canceled | expired
deriving DecidableEq, Repr

/-- `OrderStatus.IsMatchable` = `CanBeExpired` -/
def OStatus.live : OStatus → Bool
  | .notExecuted | .notMatched | .partiallyMatched => true
  | _ => false

/-- `OrderStatus.ShouldBeDeleted` -/
def OStatus.finished (s : OStatus) : Bool := !s.live

def OStatus.code : OStatus → Nat
  | .notExecuted => 1 | .notMatched => 2 | .partiallyMatched => 3 | .completed => 4 | .canceled => 5 | .expired => 6

/-- `types.Order` (the stored order) -/
structure SOrder where
  id : Nat
  dir : Dir
  price : Int          -- Dec raw, fitted to a tick when the order was placed
  amount : Int         -- Amount
  openAmt : Int        -- OpenAmount
  offer : Int          -- OfferCoin.Amount
  remaining : Int      -- RemainingOfferCoin.Amount
  received : Int       -- ReceivedCoin.Amount
  batchId : Nat
  expireAt : Int       -- unix seconds
  status : OStatus
  fills : Nat := 0     -- ghost: number of individual fills over the order's life
deriving DecidableEq, Repr

/-- `NewUserOrder` (types/order.go:33-64): the amm order the matcher sees for a stored order.  Buy: the amount is what is still
open, capped by what the remaining offer coin buys at the order's own price; the offer coin is the REMAINING offer coin. -/
def newUserOrder (so : SOrder) : Order :=
  let amt := match so.dir with
    | .buy => min so.openAmt (affordable so.remaining so.price)
    | .sell => so.openAmt
  { id := so.id, kind := 0, oid := so.id, dir := so.dir, price := so.price, amount := amt, offer := so.remaining,
    opn := amt, paid := 0, received := 0, batchId := so.batchId }

/-- `ApplyMatchResult` for one stored order (swap.go:741-765): `res` are the amm orders of the book after matching -/
def writeBack (so : SOrder) (res : List Order) : SOrder :=
  match res.find? (fun o => o.id == so.id) with
  | none => so
  | some o' =>
    if o'.isMatched then
      let matched := o'.amount - o'.opn
      let open' := so.openAmt - matched
      { so with openAmt := open', remaining := so.remaining - o'.paid, received := so.received + o'.received,
                status := if open' = 0 then .completed else .partiallyMatched, fills := so.fills + o'.fills }
    else so

/-- `IsTooSmallOrderAmount` -/
def tooSmall (amt price : Int) : Bool := decide (amt < 100) || decide (Dec.mulInt price amt < 100 * Dec.P)

structure KState where
  orders : List SOrder          -- ascending id (store iteration order)
  lastPrice : Option Int
  batchId : Nat                 -- pair.CurrentBatchId
  nextId : Nat                  -- pair.LastOrderId + 1
deriving Repr

def KState.init : KState := { orders := [], lastPrice := none, batchId := 1, nextId := 1 }

/-- a limit order as `ValidateMsgLimitOrder` + `NewOrderForLimitOrder` store it: the price is fitted to a tick (down for a buy, up
for a sell), the offer coin is the minimum offer coin for price × amount -/
def placeOrder (s : KState) (prec : Nat) (dir : Dir) (msgPrice amount expireAt : Int) : KState × SOrder :=
  let price := match dir with
    | .buy => priceToDownTick msgPrice prec
    | .sell => priceToUpTick msgPrice prec
  let offer := offerCoinAmount dir price amount
  let so : SOrder := { id := s.nextId, dir, price, amount, openAmt := amount, offer, remaining := offer, received := 0,
                       batchId := s.batchId, expireAt, status := .notExecuted }
  ({ s with orders := s.orders ++ [so], nextId := s.nextId + 1 }, so)

/-- the first loop of `ExecuteMatching`: orders that were already in a batch and are past their expiry are finished (expired), the
others go into the book -/
def expireBefore (now : Int) (so : SOrder) : SOrder :=
  if so.status.live && so.status != .notExecuted && decide (so.expireAt ≤ now) then { so with status := .expired } else so

/-- …and a not-yet-executed order becomes not-matched -/
def markExecuted (so : SOrder) : SOrder :=
  if so.status = .notExecuted then { so with status := .notMatched } else so

/-- the second loop of `ExecuteRequests` (batch.go:20-31) -/
def expireAfter (now : Int) (so : SOrder) : SOrder :=
  if so.status.live && decide (so.expireAt ≤ now) then { so with status := .expired }
  else if so.status.live && tooSmall so.openAmt so.price then { so with status := .expired }
  else so

/-- what the matcher returned, as `keeper.Match` uses it -/
def runMatcher (b : Book) (lastPrice : Option Int) (prec : Nat) : Option (Book × Int) :=
  match lastPrice with
  | none =>
    match findMatchPrice (makeView b) prec with
    | none => none
    | some p => match matchAtSinglePrice b p with
      | .ok b' _ => some (b', p)
      | _ => none
  | some lp =>
    match matchBook b lp with
    | .ok b' mp _ => some (b', mp)
    | _ => none

/-- one batch: `EndBlocker` → `ExecuteRequests` → `ExecuteMatching` + expiry (the state between `EndBlocker` and the next
`BeginBlocker`, finished orders still present) -/
def batchStep (s : KState) (prec : Nat) (now : Int) : KState :=
  let os1 := s.orders.map (expireBefore now)
  let live := os1.filter (fun (so : SOrder) => so.status.live)
  let book := newBook (live.map newUserOrder)
  let os2 := os1.map fun (so : SOrder) => if so.status.live then markExecuted so else so
  let (os3, lp) := match runMatcher book s.lastPrice prec with
    | none => (os2, s.lastPrice)
    | some (b', mp) => (os2.map fun (so : SOrder) => if so.status.live then writeBack so b'.orders else so, some mp)
  { s with orders := os3.map (expireAfter now), lastPrice := lp, batchId := s.batchId + 1 }

/-- `BeginBlocker` → `DeleteOutdatedRequests` -/
def prune (s : KState) : KState := { s with orders := s.orders.filter (fun so => so.status.live) }

/-- a batch as the world sees it: the limit orders placed during the block, then the end of the block -/
structure Batch where
  placed : List (Dir × Int × Int × Int)      -- direction, message price, amount, expiry
  now : Int

def placeAll (s : KState) (prec : Nat) : List (Dir × Int × Int × Int) → KState
  | [] => s
  | (d, p, a, e) :: rest => placeAll (placeOrder s prec d p a e).1 prec rest

/-- a multi-batch run: repeat (place the block's orders, convert all live orders, match, write back, expire, prune) -/
def runBatches (s : KState) (prec : Nat) : List Batch → KState
  | [] => s
  | b :: bs => runBatches (prune (batchStep (placeAll s prec b.placed) prec b.now)) prec bs

/-! ### decidable form (monitor on the REAL stored orders) -/

/-- **no stored order is ever filled beyond its amount or pays more than its offer coin** -/
def monOrderWithinAmount (so : SOrder) : Bool :=
  decide (0 ≤ so.openAmt) && decide (so.openAmt ≤ so.amount) &&
  decide (0 ≤ so.remaining) && decide (so.remaining ≤ so.offer) && decide (0 ≤ so.received) &&
  (match so.dir with
   | .buy => decide (so.received ≤ so.amount) && decide (so.received = so.amount - so.openAmt)
   | .sell => decide (so.offer - so.remaining = so.amount - so.openAmt))

/-- **limit respected over the order's life**: a buyer paid at most `limit × filled` plus less than one quote unit per fill; a
seller received at least `limit × filled` minus less than one quote unit per fill -/
def monOrderLimit (so : SOrder) : Bool :=
  match so.dir with
  | .buy => decide ((so.offer - so.remaining) * Dec.P ≤ so.price * (so.amount - so.openAmt) + (so.fills : Int) * (Dec.P - 1))
  | .sell => decide (so.price * (so.amount - so.openAmt) ≤ so.received * Dec.P + (so.fills : Int) * (Dec.P - 1))

end Comdex.Amm
