import Comdex.Model.AmmMatch
/-!
# Model of the tick grid, the order-book view and `FindMatchPrice` — `x/liquidity/amm` (tick.go, view.go, match.go:74-109, util.go:106-125)

Prices are `Dec` raws (value × 10^18).  Go `int` arithmetic (`/`, `%` truncate toward zero) is `Int.tdiv` / `Int.tmod`.
`sort.Search` is modelled literally (`search`: the bisection loop) where the searched range is large (the tick walk of
`FindMatchPrice`, up to ~8·10^6 indices); on the short, sorted slices of the order-book view it is modelled by the
first-true scan it computes there (`Lemmas/AmmTick.lean: search_eq_first` — bisection of a monotone predicate finds the
first true index; the view's slices are strictly sorted by price and their accumulated sums are non-decreasing).
Core Lean only.
-/
namespace Comdex.Amm
open Comdex

/-! ### tick.go -/

/-- number of decimal digits (`len(b.Text(10))`, for `b ≥ 0`; "0" has one digit) -/
def ndigitsAux : Nat → Nat → Nat
  | 0, _ => 1
  | f+1, n => if n < 10 then 1 else ndigitsAux f (n / 10) + 1

/-- fuel `n` is more than enough (`n / 10 < n`); no bound on the size of `n` is needed -/
def ndigits (n : Nat) : Nat := ndigitsAux n n

/-- `char`: characteristic of log10 of the raw value (`len(x.BigInt().Text(10)) - 1`; Go panics on 0) -/
def char (x : Int) : Int := (ndigits x.toNat : Int) - 1

/-- `pow10(n)` as a raw: `big.Int.Exp` with a non-positive exponent yields 1 -/
def pow10 (n : Int) : Int := 10 ^ n.toNat

/-- `isPow10` -/
def isPow10 (x : Int) : Bool := decide (0 < x) && x == 10 ^ (ndigits x.toNat - 1)

/-- `PriceToDownTick` -/
def priceToDownTick (price : Int) (prec : Nat) : Int :=
  let d := char price - prec
  if d > 0 then price.tdiv (10 ^ d.toNat) * 10 ^ d.toNat else price

/-- `UpTick` -/
def upTick (price : Int) (prec : Nat) : Int :=
  let tick := priceToDownTick price prec
  if tick = price then price + pow10 (char price - prec) else tick + pow10 (char tick - prec)

/-- `PriceToUpTick` -/
def priceToUpTick (price : Int) (prec : Nat) : Int :=
  let tick := priceToDownTick price prec
  if tick ≠ price then upTick tick prec else tick

/-- `DownTick` -/
def downTick (price : Int) (prec : Nat) : Int :=
  let tick := priceToDownTick price prec
  if tick = price then
    let l := char price
    let d := if isPow10 price then pow10 (l - prec - 1) else pow10 (l - prec)
    price - d
  else tick

/-- `LowestTick` -/
def lowestTick (prec : Nat) : Int := 10 ^ prec
/-- `HighestTick` -/
def highestTick (prec : Nat) : Int :=
  priceToDownTick 2037035976334486086268445688409378161051468393665936250636140449354381299763336706183397375 prec   -- 2^300 - 1

/-- `TickToIndex` -/
def tickToIndex (price : Int) (prec : Nat) : Int :=
  let l := char price
  let d := l - prec
  let b := if d > 0 then price.tdiv (10 ^ d.toNat) else price
  let p : Int := 10 ^ prec
  (l - prec) * 9 * p + (b - p)

/-- `TickFromIndex` (Go `int` division and remainder truncate toward zero) -/
def tickFromIndex (i : Int) (prec : Nat) : Int :=
  let p : Int := 10 ^ prec
  let l := i.tdiv (9 * p) + prec
  let t := p + i.tmod (p * 9)
  if l > prec then t * 10 ^ (l - prec).toNat else t

/-- `RoundTickIndex` -/
def roundTickIndex (i : Int) : Int := ((i + 1).tdiv 2) * 2

/-- `RoundPrice` -/
def roundPrice (price : Int) (prec : Nat) : Int :=
  let tick := priceToDownTick price prec
  if price = tick then price else tickFromIndex (roundTickIndex (tickToIndex tick prec)) prec

/-! ### sort.Search and findFirstTrueCondition (util.go:106-125) -/

/-- the loop of `sort.Search`: `for i < j { h := (i+j)/2; if !f(h) { i = h+1 } else { j = h } }` -/
def searchLoop (f : Nat → Bool) : Nat → Nat → Nat → Nat
  | 0, i, _ => i
  | fuel+1, i, j =>
    if i < j then
      let h := (i + j) / 2
      if !f h then searchLoop f fuel (h + 1) j else searchLoop f fuel i h
    else i

/-- `sort.Search(n, f)`; every round halves `j - i`, so `n + 1` rounds of fuel are plenty -/
def search (n : Nat) (f : Nat → Bool) : Nat := searchLoop f (n + 1) 0 n

/-- `findFirstTrueCondition(start, end, f)`; `none` = not found -/
def findFirstTrue (start stop : Int) (f : Int → Bool) : Option Int :=
  if start < stop then
    let i := start + search (stop - start + 1).toNat (fun k => f (start + k))
    if i > stop then none else some i
  else
    let i := start - search (start - stop + 1).toNat (fun k => f (start - k))
    if i < stop then none else some i

/-! ### OrderBookView (view.go) -/

/-- one side of `OrderBookView`: (tick price, accumulated matchable amount up to and including the tick) -/
abbrev AccSums := List (Int × Int)

def accSums : List Tick → Int → AccSums
  | [], _ => []
  | t :: ts, prev =>
    let s := prev + totalMatchable t.orders t.price
    (t.price, s) :: accSums ts s

structure View where
  buys : AccSums     -- price decreasing
  sells : AccSums    -- price increasing
deriving Repr

/-- `OrderBook.MakeView` -/
def makeView (b : Book) : View := ⟨accSums b.buys 0, accSums b.sells 0⟩

/-- `HighestBuyPrice` / `LowestSellPrice`: price of the first entry whose accumulated sum is positive -/
def firstPositive : AccSums → Option Int
  | [] => none
  | (p, s) :: rest => if s > 0 then some p else firstPositive rest

def View.highestBuyPrice (v : View) : Option Int := firstPositive v.buys
def View.lowestSellPrice (v : View) : Option Int := firstPositive v.sells

/-- accumulated sum of the last entry before the first one that satisfies `stop` (0 if the first entry already does) -/
def sumBefore (stop : Int → Bool) : AccSums → Int → Int
  | [], last => last
  | (p, s) :: rest, last => if stop p then last else sumBefore stop rest s

/-- `BuyAmountOver(price, inclusive = true)`: buy amount at prices `≥ price` -/
def View.buyAmountOver (v : View) (price : Int) : Int := sumBefore (fun p => decide (p < price)) v.buys 0
/-- `SellAmountUnder(price, inclusive = true)`: sell amount at prices `≤ price` -/
def View.sellAmountUnder (v : View) (price : Int) : Int := sumBefore (fun p => decide (p > price)) v.sells 0

/-! ### FindMatchPrice (match.go:74-109) -/

/-- `FindMatchPrice(ov, tickPrec)` for an order-book view; `none` = not found -/
def findMatchPrice (v : View) (prec : Nat) : Option Int :=
  match v.highestBuyPrice with
  | none => none
  | some hb =>
    match v.lowestSellPrice with
    | none => none
    | some ls =>
      if hb < ls then none else
      let lo := tickToIndex (lowestTick prec) prec
      let hi := tickToIndex (highestTick prec) prec
      match findFirstTrue lo hi (fun i =>
          let sellAmt := v.sellAmountUnder (tickFromIndex i prec)
          decide (sellAmt > 0) && decide (v.buyAmountOver (tickFromIndex (i + 1) prec) ≤ sellAmt)) with
      | none => none
      | some i =>
        match findFirstTrue hi lo (fun i =>
            let buyAmt := v.buyAmountOver (tickFromIndex i prec)
            decide (buyAmt > 0) && decide (buyAmt ≥ v.sellAmountUnder (tickFromIndex (i - 1) prec))) with
        | none => none
        | some j =>
          let midTick := Dec.quoInt (tickFromIndex i prec + tickFromIndex j prec) 2
          some (roundPrice midTick prec)

/-- the keeper's first batch of a pair (keeper/swap.go:673-694, without pools): price from `FindMatchPrice`, then
`MatchAtSinglePrice` at that price -/
def matchFirstBatch (b : Book) (prec : Nat) : SRes :=
  match findMatchPrice (makeView b) prec with
  | none => .noMatch
  | some p => matchAtSinglePrice b p


/-! ### decidable forms (monitors) -/

/-- on the tick grid of precision `prec` -/
def isTick (x : Int) (prec : Nat) : Bool := priceToDownTick x prec == x

/-- the book crosses: there is a buy and a sell and the highest buy price is not below the lowest sell price -/
def monCrossing (v : View) : Bool :=
  match v.highestBuyPrice, v.lowestSellPrice with
  | some hb, some ls => decide (ls ≤ hb)
  | _, _ => false

/-- a match price is positive, on the tick grid, and lies between the lowest sell and the highest buy price (inclusive) -/
def monMatchPrice (v : View) (prec : Nat) (p : Int) : Bool :=
  match v.highestBuyPrice, v.lowestSellPrice with
  | some hb, some ls => decide (0 < p) && isTick p prec && decide (ls ≤ p) && decide (p ≤ hb)
  | _, _ => false

end Comdex.Amm
