import Comdex.Model.Twa
/-
Model of the price feed pipeline around the per-asset window (C17):

* x/bandoracle/abci.go `BeginBlocker` (every 20th block: request a price, validate that the previous request was
  answered, keep the outage / discard bookkeeping),
* x/bandoracle/oracle.go `handleOracleAcknowledgment` (last request id) and `handleOraclePacket` (result of a request),
* x/market/abci.go `BeginBlocker` (every 20th block with a validated feed: optional discard of every window, then one
  sample per oracle-priced asset, taken from the result list BY RANK among the oracle-priced assets in asset-id order;
  with an unvalidated feed: every price is switched off).

Core Lean only. `FetchPrice` (the IBC send) has no effect on this state and is not modelled.
-/
namespace Comdex.Feed
open Comdex.Twa

structure Band where
  lastBlock     : Int := 0              -- GetLastBlockHeight: 0 until the feed is configured (AddFetchPriceRecords)
  checkFlag     : Bool := false
  tempId        : Int := 0              -- the request id seen at the previous validation
  lastId        : Int := 0              -- GetLastFetchPriceID (set by the acknowledgment of a request)
  results       : List (Int × List Nat) := []   -- request id ↦ rates (set when the oracle's response arrives)
  discardHeight : Int := 0              -- DiscardData.BlockHeight: height at which the outage began, -1 = no outage (0 before the feed is configured)
  discardBool   : Bool := false         -- DiscardData.DiscardBool: every window is to be cleared at the next sampling
  validation    : Bool := false         -- OracleValidationResult
  deriving Repr, DecidableEq

/-- `AddFetchPriceRecords` (the governance proposal that configures the feed) at `height`; the caller also clears all windows -/
def Band.configure (b : Band) (height : Int) : Band :=
  { b with lastBlock := height, checkFlag := false, discardHeight := -1, discardBool := false }

def Band.ack (b : Band) (id : Int) : Band := { b with lastId := id }
def Band.response (b : Band) (id : Int) (rates : List Nat) : Band :=
  { b with results := (id, rates) :: b.results.filter (fun x => x.1 ≠ id) }

def Band.result (b : Band) (id : Int) : Option (List Nat) := (b.results.find? (fun x => x.1 = id)).map (·.2)

/-- is this a sampling block: the feed is configured and the height is a multiple of twenty -/
def sampling (b : Band) (height : Int) : Bool := b.lastBlock ≠ 0 && height % 20 = 0

/-- x/bandoracle/abci.go `BeginBlocker` -/
def bandBegin (b : Band) (height acc : Int) : Band :=
  if !sampling b height then b
  else if !b.checkFlag then { b with tempId := 0, checkFlag := true, validation := false }
  else
    let res := b.lastId ≠ b.tempId          -- OraclePriceValidationByRequestID: a NEW request id since the last check
    let b1 : Band :=
      if !res ∧ b.discardHeight < 0 then { b with discardHeight := height }
      else if res ∧ b.discardHeight > 0 then
        if height - b.discardHeight < acc then { b with discardHeight := -1 }
        else { b with discardBool := true, discardHeight := -1 }
      else b
    { b1 with validation := res, tempId := b.lastId }

/-- the windows of all assets, keyed by asset id -/
abbrev Books := List (Nat × Rec)

def Books.get (bk : Books) (id : Nat) : Option Rec := (bk.find? (fun x => x.1 = id)).map (·.2)
def Books.put (bk : Books) (id : Nat) (r : Option Rec) : Books :=
  match r with
  | some v => if bk.any (fun x => x.1 = id) then bk.map (fun x => if x.1 = id then (id, v) else x) else bk ++ [(id, v)]
  | none => bk

/-- the sampling loop of x/market/abci.go:37-48: `index` counts the oracle-priced assets seen so far -/
def feedLoop (N : Nat) (acc height : Int) (rates : List Nat) : List (Nat × Bool) → Nat → Books → Except Panic Books
  | [], _, bk => .ok bk
  | (id, required) :: rest, rank, bk =>
    if required then
      match rates[rank]? with
      | some rate => do
          let r ← update (bk.get id) rate N height acc
          feedLoop N acc height rates rest (rank + 1) (bk.put id r)
      | none => feedLoop N acc height rates rest (rank + 1) bk
    else feedLoop N acc height rates rest rank bk

/-- abci.go:24-30: every window is emptied and switched off -/
def clearAll (bk : Books) : Books := bk.map fun x => (x.1, { x.2 with active := false, idx := 0, values := [] })

/-- abci.go:22-33: a pending discard is executed (and consumed) before sampling -/
def afterDiscard (b : Band) (bk : Books) : Band × Books :=
  if b.discardBool then ({ b with discardBool := false }, clearAll bk) else (b, bk)

/-- abci.go:51-61: every listed asset's price is switched off -/
def switchOff (assets : List (Nat × Bool)) (bk : Books) : Books :=
  bk.map fun x => if assets.any (fun a => a.1 = x.1) then (x.1, { x.2 with active := false }) else x

/-- x/market/abci.go `BeginBlocker`. `assets`: (id, IsOraclePriceRequired) in asset-id order. A missing result or an empty
rate list feeds nothing (`data.Rates != nil`). -/
def marketBegin (b : Band) (N : Nat) (acc height : Int) (assets : List (Nat × Bool)) (bk : Books) : Except Panic (Band × Books) :=
  if b.validation then
    if sampling b height then
      match b.result b.lastId with
      | some (r0 :: rs) => (feedLoop N acc height (r0 :: rs) assets 0 (afterDiscard b bk).2).map fun bk2 => ((afterDiscard b bk).1, bk2)
      | _ => .ok (afterDiscard b bk)
    else .ok (b, bk)
  else
    .ok (b, switchOff assets bk)

/-- rank of an asset among the oracle-priced assets listed before it -/
def rankOf (assets : List (Nat × Bool)) (id : Nat) : Nat :=
  ((assets.takeWhile (fun a => a.1 ≠ id)).filter (·.2)).length

/-- what the sampling loop does to one asset's window -/
def fedWith (assets : List (Nat × Bool)) (rates : List Nat) (rank : Nat) (id : Nat) : Option Nat :=
  match assets with
  | [] => none
  | (a, required) :: rest =>
    if a = id then (if required then rates[rank]? else none)
    else fedWith rest rates (if required then rank + 1 else rank) id


/-! ## The chain as a whole: (re)configuration by governance, asset-list changes, genesis

`x/bandoracle/keeper/oracle.go:167-177 AddFetchPriceRecords` (handler of the `FetchPriceProposal`): installs the window
parameters, re-arms the band side and deletes EVERY stored window. `x/asset/keeper/asset.go:212,278,322`: adding / updating
an oracle-priced asset re-arms the request/response check (`SetCheckFlag(false)`); the windows are kept. `x/market/genesis.go`:
`InitGenesis` stores whatever windows the genesis file lists; `x/bandoracle/genesis.go` restores only the check flag, so a
chain started from genesis has an UNCONFIGURED feed (`lastBlock = 0`, not validated) until the first proposal. -/

/-- `DeleteTwaData` -/
def Books.erase (bk : Books) (id : Nat) : Books := bk.filter (fun x => x.1 ≠ id)

/-- the delete loop of `AddFetchPriceRecords` over the snapshot `GetAllTwa` took -/
def deleteKeys (keys : List Nat) (bk : Books) : Books := keys.foldl Books.erase bk

/-- oracle.go:172-175 as written: `for _, data := range allTwa { DeleteTwaData(ctx, data.AssetID) }` (a record is stored
under its own `AssetID`) -/
def deleteAllWindows (bk : Books) : Books := deleteKeys (bk.map (·.1)) bk

/-- the COUNTERFACTUAL loop keyed by another id carried by the record (`data.ScriptID`, the same for every record) -/
def deleteByScript (script : Nat) (bk : Books) : Books := deleteKeys (bk.map (fun _ => script)) bk

/-- asset.go: an asset was added / updated with `IsOraclePriceRequired = oraclePriced` -/
def Band.assetChange (b : Band) (oraclePriced : Bool) : Band := if oraclePriced then { b with checkFlag := false } else b

structure Chain where
  cfg : Cfg := { N := 0, acc := 0 }     -- `GetFetchPriceMsg` of an empty store: TwaBatchSize 0, AcceptedHeightDiff 0
  b   : Band := {}
  bk  : Books := []
  deriving Repr

/-- a chain started from a genesis file: any stored windows, any check flag, feed not configured -/
def Chain.genesis (flag : Bool) (bk : Books) : Chain := { b := { checkFlag := flag }, bk := bk }

inductive ChainOp where
  | configure (cfg : Cfg) (height : Int)            -- FetchPriceProposal passed at `height`
  | ack (id : Int)
  | response (id : Int) (rates : List Nat)
  | assetChange (oraclePriced : Bool)
  | band (height : Int)                             -- bandoracle.BeginBlocker
  | market (height : Int) (assets : List (Nat × Bool))   -- market.BeginBlocker with the asset list of that block
  deriving Repr

def chainStep (c : Chain) : ChainOp → Except Panic Chain
  | .configure cfg h => .ok { cfg := cfg, b := c.b.configure h, bk := deleteAllWindows c.bk }
  | .ack id => .ok { c with b := c.b.ack id }
  | .response id rates => .ok { c with b := c.b.response id rates }
  | .assetChange q => .ok { c with b := c.b.assetChange q }
  | .band h => .ok { c with b := bandBegin c.b h c.cfg.acc }
  | .market h assets => (marketBegin c.b c.cfg.N c.cfg.acc h assets c.bk).map fun r => { c with b := r.1, bk := r.2 }

def chainRun : Chain → List ChainOp → Except Panic Chain
  | c, [] => .ok c
  | c, o :: os => do let c' ← chainStep c o; chainRun c' os

/-- the counterfactual chain: the proposal handler deletes by script id -/
def chainStepStale (script : Nat) (c : Chain) : ChainOp → Except Panic Chain
  | .configure cfg h => .ok { cfg := cfg, b := c.b.configure h, bk := deleteByScript script c.bk }
  | o => chainStep c o

def chainRunStale (script : Nat) : Chain → List ChainOp → Except Panic Chain
  | c, [] => .ok c
  | c, o :: os => do let c' ← chainStepStale script c o; chainRunStale script c' os

/-- what the market begin-blocker does to ONE window, as a list of single-window ops -/
def marketOps (b : Band) (h : Int) (assets : List (Nat × Bool)) (id : Nat) : List Op :=
  if b.validation then
    if sampling b h then
      (if b.discardBool then [Op.discardAll] else []) ++
        (match b.result b.lastId with
         | some (r0 :: rs) => (match fedWith assets (r0 :: rs) 0 id with | some rate => [Op.sample rate h] | none => [])
         | _ => [])
    else []
  else if assets.any (fun a => a.1 = id) then [Op.deactivate] else []

/-! ## Consumers of a price (last clause of C17)

Every production reader of a window, by what makes it hand out a value. `listed`: the asset exists in x/asset. -/
inductive Reader where
  | calc           -- x/market/keeper/oracle.go CalcAssetPrice (vault, lend, liquidation, auction value assets through it)
  | latest         -- x/market/keeper/oracle.go GetLatestPrice (no production caller)
  | vaultRatio     -- x/vault/keeper/vault.go CalculateCollateralizationRatio → CalcAssetPrice (fixed-price debt side)
  | rewardsOracle  -- x/rewards/keeper/gauge.go OraclePrice: `!found || !price.IsPriceActive ⇒ false`
  | liqCalc        -- x/liquidity/keeper/rewards.go CalcAssetPrice: `found && twa.Twa > 0`
  | liqOracle      -- x/liquidity/keeper/rewards.go OraclePrice: refuses only `!IsPriceActive && Twa <= 0`
  | rewardsPrice   -- x/rewards/keeper/iter.go OraclePriceForRewards: refuses only `!IsPriceActive && Twa <= 0`
  deriving Repr, DecidableEq

/-- readers that test the activity flag -/
def Reader.strict : Reader → Bool
  | .calc | .latest | .vaultRatio | .rewardsOracle => true
  | _ => false

/-- does the reader hand out a value for this stored window -/
def Reader.answers (r : Reader) (s : Option Rec) (listed : Bool) : Bool :=
  match s with
  | none => false
  | some w =>
    match r with
    | .latest => w.active
    | .calc | .vaultRatio | .rewardsOracle => listed && w.active
    | .liqCalc => listed && decide (w.twa > 0)
    | .liqOracle | .rewardsPrice => listed && (w.active || decide (w.twa > 0))

/-- one chain op seen from the window of asset `id` -/
def projectOp (id : Nat) (c : Chain) : ChainOp → List COp
  | .configure cfg _ => [COp.reconfigure cfg]
  | .market h assets => (marketOps c.b h assets id).map COp.op
  | _ => []

/-- a chain history seen from the window of asset `id`: its history of samples, bulk operations and reconfigurations -/
def projectRun (id : Nat) : Chain → List ChainOp → List COp
  | _, [] => []
  | c, o :: os => projectOp id c o ++ (match chainStep c o with | .ok c' => projectRun id c' os | .error _ => [])

end Comdex.Feed
