import Comdex.Model.AmmTick
/-!
# Model of the basic pool's side of a batch — `x/liquidity/amm/pool.go` (BasicPool: 85-200; PoolOrders: 586-672) and
`util.go:133-163` (`poolOrderPriceGapRatio`)

`rx` = quote coin reserve, `ry` = base coin reserve.  `none` of an `Option` = a Go panic (`Price()` of a depleted pool); inside
`PoolBuyOrders` / `PoolSellOrders` a panic is recovered and yields no orders at all.  Not modelled: `Dec` overflow (the
`SafeMath` fallback to `MaxCoinAmount`; unreachable for reserves ≤ 10^40 and tick prices ≥ 10^-14), ranged pools.
Core Lean only.
-/
namespace Comdex.Amm
open Comdex

structure BPool where
  rx : Int
  ry : Int
deriving DecidableEq, Repr

def minPoolPrice : Int := 1000                                   -- 10^-15
def maxPoolPrice : Int := 100000000000000000000 * Dec.P          -- 10^20
def minCoinAmount : Int := 100
def maxCoinAmount : Int := 10 ^ 40

/-- `BasicPool.Price` -/
def BPool.price (pl : BPool) : Option Int :=
  if pl.rx = 0 ∨ pl.ry = 0 then none else some (Dec.quo (Dec.ofInt pl.rx) (Dec.ofInt pl.ry))

/-- `BasicPool.BuyAmountOver(price, _)`: `(X - P·Y)/P` -/
def BPool.buyAmountOver (pl : BPool) (price : Int) : Option Int :=
  match pl.price with
  | none => none
  | some pp =>
    let p := if price < minPoolPrice then minPoolPrice else price
    if p ≥ pp then some 0 else
    let dx := Dec.ofInt pl.rx - Dec.mulInt p pl.ry
    if dx ≤ 0 then some 0 else
    let amt := Dec.truncateInt (Dec.quoTruncate dx price)
    some (if amt > maxCoinAmount then maxCoinAmount else amt)

/-- `BasicPool.SellAmountUnder(price, _)`: `Y - X/P` -/
def BPool.sellAmountUnder (pl : BPool) (price : Int) : Option Int :=
  match pl.price with
  | none => none
  | some pp =>
    let p := if price > maxPoolPrice then maxPoolPrice else price
    if p ≤ pp then some 0 else
    let amt := Dec.truncateInt (Dec.ofInt pl.ry - Dec.quoRoundUp (Dec.ofInt pl.rx) p)
    some (if amt > 0 then amt else 0)

/-- `BasicPool.BuyAmountTo(price)`: `(X - sqrt(P·X·Y))/P` -/
def BPool.buyAmountTo (pl : BPool) (price : Int) : Option Int :=
  match pl.price with
  | none => none
  | some pp =>
    let p := if price < minPoolPrice then minPoolPrice else price
    if p ≥ pp then some 0 else
    let sqrtRx := Dec.approxSqrt (Dec.ofInt pl.rx)
    let sqrtRy := Dec.approxSqrt (Dec.ofInt pl.ry)
    let sqrtPrice := Dec.approxSqrt p
    let dx := Dec.ofInt pl.rx - Dec.mul sqrtPrice (Dec.mul sqrtRx sqrtRy)
    if dx ≤ 0 then some 0 else
    let amt := Dec.truncateInt (Dec.quoTruncate dx price)
    some (if amt > maxCoinAmount then maxCoinAmount else amt)

/-- `BasicPool.SellAmountTo(price)`: `Y - sqrt(X·Y/P)` -/
def BPool.sellAmountTo (pl : BPool) (price : Int) : Option Int :=
  match pl.price with
  | none => none
  | some pp =>
    let p := if price > maxPoolPrice then maxPoolPrice else price
    if p ≤ pp then some 0 else
    let sqrtRx := Dec.approxSqrt (Dec.ofInt pl.rx)
    let sqrtRy := Dec.approxSqrt (Dec.ofInt pl.ry)
    let sqrtPrice := Dec.approxSqrt p
    let amt := Dec.truncateInt (Dec.ofInt pl.ry - Dec.quo (Dec.mul sqrtRx sqrtRy) sqrtPrice)
    some (if amt > 0 then amt else 0)

/-- `poolOrderPriceGapRatio(poolPrice, currentPrice)` (util.go:147) -/
def gapRatio (poolPrice cur : Int) : Int :=
  let pp := if poolPrice = 0 then 1 else poolPrice
  let x := Dec.quo ((cur - pp).natAbs : Int) pp
  if x ≤ 10000000000000000 then Dec.mul 7000000000000000 x + 30000000000000            -- x ≤ 0.01: 0.007·x + 0.00003
  else if x ≤ 20000000000000000 then Dec.mul 90000000000000000 x + (-800000000000000)    -- x ≤ 0.02: 0.09·x − 0.0008
  else if x ≤ 100000000000000000 then Dec.mul 50000000000000000 x                         -- x ≤ 0.1 : 0.05·x
  else 5000000000000000                                                                   -- 0.005

/-- the tick loop of `PoolBuyOrders` (pool.go:616-628): `(price, amount)` of the orders placed, the running reserves -/
def buyLoop : Nat → BPool → Int → Int → Int → Nat → List (Int × Int) → Option (List (Int × Int))
  | 0, _, _, _, _, _, acc => some acc
  | fuel+1, pl, poolPrice, lowest, tick, prec, acc =>
    if tick < lowest then some acc else
    match pl.buyAmountOver tick with
    | none => none
    | some amt =>
      if amt < minCoinAmount then buyLoop fuel pl poolPrice lowest (downTick tick prec) prec acc
      else
        let pl' : BPool := ⟨pl.rx - quoteCeil tick amt, pl.ry + amt⟩      -- quote coin ceiling
        let acc' := acc ++ [(tick, amt)]
        if ¬ (pl'.rx > 0) then some acc'
        else buyLoop fuel pl' poolPrice lowest
          (priceToDownTick (Dec.mul tick (Dec.one - gapRatio poolPrice tick)) prec) prec acc'

/-- `PoolBuyOrders` for a basic pool; a recovered panic yields `[]` -/
def poolBuyOrders (pl : BPool) (lowest highest : Int) (prec : Nat) : List (Int × Int) :=
  match pl.price with
  | none => []
  | some poolPrice =>
    if poolPrice ≤ lowest then [] else
    let first : Option (BPool × List (Int × Int)) :=
      if poolPrice > highest then
        match pl.buyAmountTo highest with
        | none => none
        | some amt =>
          if amt ≥ minCoinAmount then some (⟨pl.rx - quoteCeil highest amt, pl.ry + amt⟩, [(highest, amt)])
          else some (pl, [])
      else some (pl, [])
    match first with
    | none => []
    | some (pl1, acc) =>
      match pl1.price with
      | none => []
      | some p1 =>
        let start := priceToDownTick (if highest < p1 then highest else p1) prec
        match buyLoop ((tickToIndex start prec - tickToIndex lowest prec).toNat + 3) pl1 poolPrice lowest start prec acc with
        | none => []
        | some os => os

/-- the tick loop of `PoolSellOrders` (pool.go:657-669) -/
def sellLoop : Nat → BPool → Int → Int → Int → Nat → List (Int × Int) → Option (List (Int × Int))
  | 0, _, _, _, _, _, acc => some acc
  | fuel+1, pl, poolPrice, highest, tick, prec, acc =>
    if tick > highest then some acc else
    match pl.sellAmountUnder tick with
    | none => none
    | some amt =>
      if amt < minCoinAmount ∨ quoteFloor tick amt = 0 then sellLoop fuel pl poolPrice highest (upTick tick prec) prec acc
      else
        let pl' : BPool := ⟨pl.rx + quoteFloor tick amt, pl.ry - amt⟩     -- quote coin truncation
        let acc' := acc ++ [(tick, amt)]
        if ¬ (pl'.ry > minCoinAmount) then some acc'
        else sellLoop fuel pl' poolPrice highest
          (priceToUpTick (Dec.mul tick (Dec.one + gapRatio poolPrice tick)) prec) prec acc'

/-- `PoolSellOrders` for a basic pool -/
def poolSellOrders (pl : BPool) (lowest highest : Int) (prec : Nat) : List (Int × Int) :=
  match pl.price with
  | none => []
  | some poolPrice =>
    if poolPrice ≥ highest then [] else
    let first : Option (BPool × List (Int × Int)) :=
      if poolPrice < lowest then
        match pl.sellAmountTo lowest with
        | none => none
        | some amt =>
          if amt ≥ minCoinAmount ∧ quoteFloor lowest amt > 0 then
            some (⟨pl.rx + quoteFloor lowest amt, pl.ry - amt⟩, [(lowest, amt)])
          else some (pl, [])
      else some (pl, [])
    match first with
    | none => []
    | some (pl1, acc) =>
      match pl1.price with
      | none => []
      | some p1 =>
        let start := priceToUpTick (if lowest > p1 then lowest else p1) prec
        match sellLoop ((tickToIndex highest prec - tickToIndex start prec).toNat + 3) pl1 poolPrice highest start prec acc with
        | none => []
        | some os => os

/-! ### decidable forms (monitors): what a list of pool orders must satisfy against the pool's reserves -/

/-- buy orders, replayed on the running reserves: every order's quote cost is covered by the quote reserve, and the price paid
is not above `quote reserve / (base reserve + amount)` — buying `amount` at that price does not decrease `x·y` (before the
rounding-up of the payment) -/
def monPoolBuys : BPool → List (Int × Int) → Bool
  | _, [] => true
  | pl, (price, amt) :: rest =>
    decide (0 < amt) && decide (quoteCeil price amt ≤ pl.rx) &&
    decide (price * (pl.ry + amt) ≤ pl.rx * Dec.P) &&
    monPoolBuys ⟨pl.rx - quoteCeil price amt, pl.ry + amt⟩ rest

/-- sell orders: every order's amount is covered by the base reserve, and the price received is not below
`quote reserve / (base reserve − amount)` -/
def monPoolSells : BPool → List (Int × Int) → Bool
  | _, [] => true
  | pl, (price, amt) :: rest =>
    decide (0 < amt) && decide (amt ≤ pl.ry) &&
    decide (pl.rx * Dec.P ≤ price * (pl.ry - amt)) &&
    monPoolSells ⟨pl.rx + quoteFloor price amt, pl.ry - amt⟩ rest

end Comdex.Amm
