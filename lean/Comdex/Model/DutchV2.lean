import Comdex.Base.Dec
import Comdex.Model.DutchPrice
/-!
Model of the second-generation Dutch auction (`x/auctionsV2`), one auction at a time.

* `conv`            — `x/vault/keeper/vault.go:679-697` GetAmountOfOtherToken (the price conversion every bid uses)
* `plan`/`apply`    — `x/auctionsV2/keeper/bid.go:14-293` PlaceDutchAuctionBid: clip to the remaining target, clip to the
                      remaining collateral (reserve draw), dust rule, bonus share, full/closing and partial branches, and the
                      closing distribution for vault-, lend- and externally-initiated auctions
                      (`bid.go:89-233`, `x/liquidationsV2/keeper/liquidate.go:721-813` for the lend transfer,
                      `liquidate.go:605-633` WithdrawAppReserveFundsFn)
* `iterate`         — `auctions.go:143-238` AuctionIterator for one Dutch auction, app NOT under emergency shutdown: restart
                      (`:240-285`) or price update (`:287-335`), errors roll the auction back (`ApplyFuncIfNoError`)
* `tickIterEsm`     — the same iterator when the app IS under emergency shutdown (`auctions.go:153-182`): inside the window the
                      ordinary price update; past the end of the window a vault-initiated auction gets `TriggerEsm`
                      (`:487-533`), an auction of any other initiator is left exactly as it is (no update, no restart)
* `fill`            — `auctions.go:535-605` LimitOrderBid for one auction: the loop places every matching limit bid with the
                      auction value read BEFORE the loop (the code never re-reads it — DESIGN §7 D7)

State = auction record (or closed), bank balances (association list, default 0), collector net fees, booked external fees,
app reserve record, burned total.  Ghost fields (`paid recv otherC otherD booked short`) are written but never read by the
transition functions; the theorems are stated over them and over the bank (`need` likewise).  Core Lean only.
-/
namespace Comdex.DutchV2
open Comdex

inductive Kind | vault | lend | external
  deriving DecidableEq, Repr, Inhabited

inductive Acct
  | bidder (n : Nat) | auction | collector | owner | keeper | initiator | reserve | pool | vaultMod
  | lendres      -- the lend module account (lend reserve)
  | poolIn       -- the pool the collateral was lent to, when it is not the debt pool (cross-pool borrow)
  | esm          -- the emergency-shutdown module account (first-generation wind-down)
  deriving DecidableEq, Repr, Inhabited

inductive Denom | coll | debt
  | transit      -- the bridge asset of a cross-pool borrow
  deriving DecidableEq, Repr, Inhabited

/-! ### bank: association list, first match wins, default 0 -/
abbrev Bank := List ((Acct × Denom) × Int)

def Bank.get (b : Bank) (a : Acct) (d : Denom) : Int :=
  match b.lookup (a, d) with
  | some v => v
  | none => 0

def Bank.set (b : Bank) (a : Acct) (d : Denom) (v : Int) : Bank := ((a, d), v) :: b

/-- x/bank SendCoins: invalid (negative) coins and insufficient funds are errors -/
def send (b : Bank) (frm to : Acct) (d : Denom) (amt : Int) : Except Unit Bank :=
  if amt < 0 then .error ()
  else if b.get frm d < amt then .error ()
  else
    let b1 := b.set frm d (b.get frm d - amt)
    .ok (b1.set to d (b1.get to d + amt))

/-- the code's `if amt.GT(0) { send }` idiom -/
def sendPos (b : Bank) (frm to : Acct) (d : Denom) (amt : Int) : Except Unit Bank :=
  if amt > 0 then send b frm to d amt else .ok b

def burn (b : Bank) (a : Acct) (d : Denom) (amt : Int) : Except Unit Bank :=
  if amt < 0 then .error ()
  else if b.get a d < amt then .error ()
  else .ok (b.set a d (b.get a d - amt))

/-! ### static data of one auction -/
structure Env where
  kind : Kind := .vault
  decC : Int := 1000000         -- collateral asset `Decimals`
  decD : Int := 1000000         -- debt asset `Decimals`
  target : Int := 0             -- LockedVault.TargetDebt
  fee : Int := 0                -- LockedVault.FeeToBeCollected
  bonus0 : Int := 0             -- LockedVault.BonusToBeGiven
  coll0 : Int := 0              -- LockedVault.CollateralToken
  isKeeper : Bool := false      -- LockedVault.IsInternalKeeper
  incentive : Dec := 0          -- LiquidationWhiteListing.KeeeperIncentive
  minUsd : Int := 0             -- AuctionParams.MinUsdValueLeft
  T : Int := 0                  -- AuctionParams.AuctionDurationSeconds
  premium : Dec := 0            -- DutchAuctionParam.Premium
  discount : Dec := 0           -- DutchAuctionParam.Discount
  cmst : Bool := false          -- LockedVault.IsDebtCmst
  -- lend close (liquidate.go:721-813), values the lend module holds at close time (external, printed by the harness):
  lendPen : Int := 0            -- ⌊borrow.AmountOut · LiquidationPenalty(collateral asset)⌋, sent pool → lend reserve
  lendInt : Int := 0            -- ⌊BorrowInterestTracker.ReservePoolInterest⌋, sent pool → lend reserve
  bridged : Int := 0            -- BorrowAsset.BridgedAssetAmount, returned debt pool → collateral's pool (cross-pool borrow)
  deriving Repr, Inhabited

structure Auc where
  coll : Int
  debt : Int
  bonus : Int
  price : Dec      -- CollateralTokenAuctionPrice (the posted price)
  init : Dec       -- CollateralTokenInitialPrice
  orc : Dec        -- CollateralTokenOraclePrice
  ord : Dec        -- DebtTokenOraclePrice
  start : Int      -- unix seconds
  end_ : Int
  deriving DecidableEq, Repr, Inhabited

structure St where
  auc : Option Auc := none         -- `none` = record deleted (auction closed; locked vault deleted with it)
  bank : Bank := []
  netFees : Int := 0               -- collector NetFeesCollected(app, collateral asset)
  extFees : Int := 0               -- AuctionLimitBidFeeDataExternal(debt asset)
  reserve : Option Int := none     -- AppReserveFunds(app, debt asset)
  burned : Int := 0
  -- ghost
  paid : Int := 0                  -- Σ debt charged to bidders of this auction
  recv : Int := 0                  -- Σ collateral handed to bidders of this auction
  otherC : Int := 0                -- collateral in the module account that does not belong to this auction
  otherD : Int := 0                -- debt denom in the module account that does not belong to this auction (limit deposits, other auctions)
  booked : Int := 0                -- penalty of an external auction left in the module and booked as fee data
  short : Int := 0                 -- reserve draw that was needed but silently not made (liquidate.go:611-617)
  need : Int := 0                  -- Σ reserve draws ASKED for by closing bids (`debtGettingLeft`, bid.go:62-65), made or not
  esmOut : Int := 0                -- Σ debt `TriggerEsm` burned / sent to the collector (auctions.go:487-533)
  deriving Inhabited

/-! ### price conversion -/

/-- `GetAmountOfOtherToken(id1, rate1, amt1, id2, rate2)`: value (`t1dAmount`) and amount of the other token.
`d1`/`d2` are the assets' `Decimals`. Division by zero panics. -/
def conv (amt : Int) (r1 : Dec) (d1 : Int) (r2 : Dec) (d2 : Int) : Except Unit (Dec × Int) :=
  if d1 = 0 ∨ r2 = 0 then .error () else
  let num := Dec.mul (Dec.ofInt amt) r1
  let t1 := Dec.quo num (Dec.ofInt d1)
  let na := Dec.quo t1 r2
  let ta := Dec.mul na (Dec.ofInt d2)
  .ok (t1, Dec.truncateInt ta)

/-- auctionsV2 `CalcDollarValueForToken` -/
def usdValue (amt : Int) (rate : Dec) (d : Int) : Except Unit Dec :=
  if d = 0 then .error () else .ok (Dec.quo (Dec.mul (Dec.ofInt amt) rate) (Dec.ofInt d))

def debtPrice (e : Env) (debtTwa : Int) : Dec := if e.cmst then Dec.ofInt 1000000 else Dec.ofInt debtTwa

/-! ### PlaceDutchAuctionBid, first half: what is exchanged -/
structure Plan where
  close : Bool       -- the bid closes the auction (bid.go:52-233) / partial (bid.go:234-290)
  clipped : Bool     -- collateral exhausted: bid recomputed from the left-over collateral, reserve asked for `need`
  pay : Int          -- bid.Amount finally charged
  total : Int        -- collateral handed to the bidder
  share : Int        -- bonus consumed by a partial bid
  need : Int         -- debtGettingLeft asked from the app reserve
  deriving DecidableEq, Repr, Inhabited

/-- collateral (or debt) amount of `conv` only -/
def convC (amt : Int) (r1 : Dec) (d1 : Int) (r2 : Dec) (d2 : Int) : Except Unit Int :=
  match conv amt r1 d1 r2 d2 with
  | .ok (_, c) => .ok c
  | .error _ => .error ()

def plan (e : Env) (a : Auc) (amt0 : Int) (dp : Dec) : Except Unit Plan :=
  if amt0 = 0 then .error () else                                  -- ErrBidCannotBeZero
  let full := decide (amt0 ≥ a.debt)
  let amt := if full then a.debt else amt0
  match convC amt dp e.decD a.price e.decC, convC a.bonus dp e.decD a.price e.decC with
  | .ok c, .ok cB =>
    let total := c + cB
    if full ∨ ¬ (total ≤ a.coll) then
      if ¬ (total ≤ a.coll) then
        -- collateral exhausted: the bid is recomputed from what is left, the app reserve is asked for the rest
        match convC (a.coll - cB) a.price e.decC dp e.decD with
        | .ok d' =>
          -- sdk.NewCoin panics on a negative amount (bid, collateral), Coin.Sub on a negative difference
          if d' < 0 ∨ a.debt - d' < 0 ∨ a.coll < 0 then .error ()
          else .ok { close := true, clipped := true, pay := d', total := a.coll, share := 0, need := a.debt - d' }
        | .error _ => .error ()
      else
        if total < 0 ∨ amt < 0 then .error ()                      -- sdk.NewCoin (CreateUserBid)
        else .ok { close := true, clipped := false, pay := amt, total := total, share := 0, need := 0 }
    else
      match usdValue (a.debt - amt) dp e.decD with
      | .ok usd =>
        if ¬ (usd > Dec.ofInt e.minUsd) then .error ()              -- ErrCannotLeaveDebtLessThanDust
        else if a.debt = 0 then .error ()                          -- Int.Quo by zero
        else
          let ratio := amt.tdiv a.debt                             -- sdk.Int quotient (integer!)
          let sh0 := e.bonus0 * ratio
          let share := if sh0 > a.bonus then a.bonus else sh0
          match convC share dp e.decD a.price e.decC with
          | .ok cS =>
            if c + cS < 0 ∨ amt < 0 then .error ()                 -- sdk.NewCoin (send / CreateUserBid)
            else .ok { close := false, clipped := false, pay := amt, total := c + cS, share := share, need := 0 }
          | .error _ => .error ()
      | .error _ => .error ()
  | _, _ => .error ()

/-! ### PlaceDutchAuctionBid, second half: moving the money -/

/-- `WithdrawAppReserveFundsFn` (liquidate.go:605-633): no record ⇒ error; enough ⇒ transfer; NOT enough ⇒ no transfer,
no error, record still decremented. Returns the new state and the amount really drawn. -/
def withdrawReserve (s : St) (need : Int) : Except Unit St :=
  match s.reserve with
  | none => .error ()
  | some q =>
    if q - need ≥ 0 then
      match sendPos s.bank .reserve .auction .debt need with
      | .ok b => .ok { s with bank := b, reserve := some (q - need), need := s.need + need }
      | .error _ => .error ()
    else
      .ok { s with reserve := some (q - need), short := s.short + need, need := s.need + need }

def keeperCut (e : Env) : Int := Dec.truncateInt (Dec.mul e.incentive (Dec.ofInt e.fee))

/-- the keeper's cut and what is left of the penalty (`Coin.Sub` panics if the cut exceeds the penalty) -/
def cutOf (e : Env) (enabled : Bool) : Int := if enabled ∧ keeperCut e > 0 then keeperCut e else 0

/-- closing distribution of the debt side (bid.go:89-202) -/
def distribute (e : Env) (s : St) : Except Unit St :=
  if e.target - e.fee < 0 then .error () else                      -- TargetDebt.Sub(penalty) panics
  match e.kind with
  | .vault =>
    let inc := cutOf e e.isKeeper
    let pen := e.fee - inc
    if pen < 0 then .error () else
    match (if e.target - e.fee > 0 then burn s.bank .auction .debt (e.target - e.fee) else .ok s.bank) with
    | .error _ => .error ()
    | .ok b1 =>
    match sendPos b1 .auction .keeper .debt inc with
    | .error _ => .error ()
    | .ok b2 =>
    match sendPos b2 .auction .collector .debt pen with
    | .error _ => .error ()
    | .ok b3 => .ok { s with bank := b3, burned := s.burned + (e.target - e.fee), netFees := s.netFees + pen }
  | .external =>
    let inc := cutOf e true
    let pen := e.fee - inc
    if pen < 0 then .error () else
    -- an externally initiated position has InternalKeeperAddress = "" (liquidate.go:715): the incentive transfer goes to
    -- the empty address and the bank panics ("key is nil") — the closing bid is then rejected as a whole
    if inc > 0 then .error () else
    match send s.bank .auction .initiator .debt (e.target - e.fee) with
    | .error _ => .error ()
    | .ok b => .ok { s with bank := b, extFees := s.extFees + pen, booked := s.booked + pen }
  | .lend =>
    -- MsgCloseDutchAuctionForBorrow (liquidate.go:721-813): the whole target goes to the debt pool; from there the liquidation
    -- penalty and the reserve's share of the interest go to the lend reserve (`UpdateReserveBalances`), and the bridge asset of
    -- a cross-pool borrow goes back to the pool the collateral was lent to.  (cTokens minted for the lenders' share of the
    -- interest are another denomination and are not tracked.)
    match send s.bank .auction .pool .debt e.target with
    | .error _ => .error ()
    | .ok b1 =>
    match send b1 .pool .lendres .debt e.lendPen with
    | .error _ => .error ()
    | .ok b2 =>
    match sendPos b2 .pool .lendres .debt e.lendInt with
    | .error _ => .error ()
    | .ok b3 =>
    match sendPos b3 .pool .poolIn .transit e.bridged with
    | .error _ => .error ()
    | .ok b4 => .ok { s with bank := b4 }

def apply (e : Env) (s : St) (a : Auc) (who : Nat) (p : Plan) (auto : Bool) : Except Unit St :=
  if s.auc.isNone then .error () else                               -- ErrorInGettingLockedVault (deleted with the auction)
  match (if p.clipped then withdrawReserve s p.need else .ok s) with
  | .error _ => .error ()
  | .ok s1 =>
  match (if auto then .ok s1.bank else sendPos s1.bank (.bidder who) .auction .debt p.pay) with
  | .error _ => .error ()
  | .ok b1 =>
  match sendPos b1 .auction (.bidder who) .coll p.total with
  | .error _ => .error ()
  | .ok b2 =>
  let s2 := { s1 with bank := b2, paid := s1.paid + p.pay, recv := s1.recv + p.total,
                      otherD := if auto then s1.otherD - p.pay else s1.otherD }
  if p.close then
    match distribute e s2 with
    | .error _ => .error ()
    | .ok s3 =>
    match sendPos s3.bank .auction .owner .coll (a.coll - p.total) with
    | .error _ => .error ()
    | .ok b4 => .ok { s3 with bank := b4, auc := none }
  else
    .ok { s2 with auc := some { a with coll := a.coll - p.total, debt := a.debt - p.pay, bonus := a.bonus - p.share } }

/-- `PlaceDutchAuctionBid(ctx, id, bidder, bid, auctionData, isAutoBid)`; `a` is the auction VALUE the caller passes -/
def placeBid (e : Env) (s : St) (a : Auc) (who : Nat) (amt0 : Int) (debtTwa : Int) (auto : Bool) : Except Unit St :=
  match plan e a amt0 (debtPrice e debtTwa) with
  | .ok p => apply e s a who p auto
  | .error _ => .error ()

/-! ### AuctionIterator for one auction -/
def iterate (e : Env) (a : Auc) (now twaC : Int) (actC : Bool) (twaD : Int) (actD : Bool) : Except Unit Auc := do
  if !actC || !actD then throw ()                                  -- ErrorPriceNotFound
  let twaD' := if e.cmst then 1000000 else twaD
  if now > a.end_ then
    let p0 ← DutchPrice.startPrice twaC e.premium
    pure { a with price := p0, init := p0, orc := Dec.ofInt twaC, ord := Dec.ofInt twaD', start := now, end_ := now + e.T }
  else
    let p ← DutchPrice.priceV2 a.init e.discount e.T (now - a.start)
    pure { a with price := p, orc := Dec.ofInt twaC, ord := Dec.ofInt twaD' }

/-! ### LimitOrderBid for one auction -/
abbrev LBid := Int × Nat × Int      -- premium, bidder, deposited amount

def bucket (a : Auc) : Except Unit (Option Int) :=
  if a.orc > a.price then
    if a.orc = 0 then .error () else
    .ok (some (Dec.truncateInt (Dec.mul (Dec.quo (a.orc - a.price) a.orc) (Dec.ofInt 100))))
  else .ok none

/-- the loop of auctions.go:552-598; `a` is the auction value read before the loop and never refreshed -/
def fillLoop (e : Env) (a : Auc) (debtTwa : Int) : St → List LBid → Except Unit St
  | s, [] => .ok s
  | s, (_, who, amt) :: rest => do
    let s' ← placeBid e s a who amt debtTwa true
    if amt ≥ a.debt ∧ amt = a.debt then pure s'                    -- `return nil` after an exact fill
    else fillLoop e a debtTwa s' rest

def fill (e : Env) (s : St) (debtTwa : Int) (lbids : List LBid) : Except Unit St :=
  match s.auc with
  | none => .ok s
  | some a => do
    match ← bucket a with
    | none => pure s
    | some k => fillLoop e a debtTwa s (lbids.filter (fun l => l.1 = k))

/-! ### operations -/
inductive Op
  | bid (who : Nat) (amt : Int) (debtTwa : Int)
  | tick (now twaC : Int) (actC : Bool) (twaD : Int) (actD : Bool) (lbids : List LBid)
  | tickEsm (now twaC : Int) (actC : Bool) (twaD : Int) (actD : Bool) (lbids : List LBid)   -- a block while the app's ESM status is on
  | reserve (who : Nat) (amt : Int)                 -- MsgAppReserveFunds
  | limit (who : Nat) (prem : Int) (amt : Int)       -- MsgDepositLimitBid: deposit parked in the module account
  deriving Repr, Inhabited

/-- total: a failing step leaves the state unchanged (cached context dropped) -/
def orElse (s : St) (r : Except Unit St) : St := match r with | .ok s' => s' | .error _ => s

/-- MsgPlaceMarketBid: ValidateBasic (amount > 0), GetAuction, PlaceDutchAuctionBid with the STORED auction -/
def bidE (e : Env) (s : St) (who : Nat) (amt : Int) (debtTwa : Int) : Except Unit St :=
  if amt ≤ 0 then .error () else
  match s.auc with
  | none => .error ()
  | some a => placeBid e s a who amt debtTwa false

def tickIter (e : Env) (s : St) (now twaC : Int) (actC : Bool) (twaD : Int) (actD : Bool) : St :=
  match s.auc with
  | none => s
  | some a => match iterate e a now twaC actC twaD actD with
    | .ok a' => { s with auc := some a' }
    | .error _ => s

/-- `TriggerEsm` (auctions.go:487-533) as far as the tracked accounts go: what was collected so far (`TargetDebt − DebtToken`,
`Coin.Sub` panics on a negative difference) leaves the module account — up to the penalty to the collector (and its net-fee
record), the rest burned.  The auction record and the locked vault are NOT deleted and the collateral is NOT moved
(`CreateNewVault` only writes vault records), so the next block does all of this again. -/
def triggerEsm (e : Env) (s : St) (a : Auc) : Except Unit St :=
  let collected := e.target - a.debt
  if collected < 0 then .error () else
  let toBurn := if collected > e.fee then collected - e.fee else 0
  let transfer := if collected > e.fee then e.fee else collected
  if transfer < 0 then .error () else                               -- sdk.NewCoin
  match (if toBurn > 0 then burn s.bank .auction .debt toBurn else .ok s.bank) with
  | .error _ => .error ()
  | .ok b1 =>
  match sendPos b1 .auction .collector .debt transfer with
  | .error _ => .error ()
  | .ok b2 => .ok { s with bank := b2, burned := s.burned + toBurn, netFees := s.netFees + transfer,
                           esmOut := s.esmOut + toBurn + transfer }

/-- `AuctionIterator` for one Dutch auction of an app under emergency shutdown (auctions.go:153-182) -/
def tickIterEsm (e : Env) (s : St) (now twaC : Int) (actC : Bool) (twaD : Int) (actD : Bool) : St :=
  match s.auc with
  | none => s
  | some a =>
    if now > a.end_ then
      match e.kind with
      | .vault => orElse s (triggerEsm e s a)
      | _ => s                                    -- lend / external: nothing at all happens past the end of the window
    else
      match iterate e a now twaC actC twaD actD with   -- `now ≤ end`: `iterate` is the plain price update
      | .ok a' => { s with auc := some a' }
      | .error _ => s

def step (e : Env) (s : St) : Op → St
  | .bid who amt dt => orElse s (bidE e s who amt dt)
  | .tick now twaC actC twaD actD lbids =>
    let s1 := tickIter e s now twaC actC twaD actD
    orElse s1 (fill e s1 twaD lbids)
  | .tickEsm now twaC actC twaD actD lbids =>
    let s1 := tickIterEsm e s now twaC actC twaD actD
    orElse s1 (fill e s1 twaD lbids)          -- `LimitOrderBid` does not look at the ESM status
  | .reserve who amt =>
    if amt ≤ 0 then s else
    match send s.bank (.bidder who) .reserve .debt amt with
    | .ok b => { s with bank := b, reserve := some ((match s.reserve with | some q => q | none => 0) + amt) }
    | .error _ => s
  | .limit who prem amt =>
    if amt ≤ 0 ∨ prem > 30 then s else
    match send s.bank (.bidder who) .auction .debt amt with
    | .ok b => { s with bank := b, otherD := s.otherD + amt }
    | .error _ => s

def run (e : Env) (s : St) (ops : List Op) : St := ops.foldl (step e) s

/-- state right after `DutchAuctionActivator`: the module holds the seized collateral on top of whatever it held before -/
def initSt (e : Env) (a : Auc) (b : Bank) (reserve : Option Int) : St :=
  { auc := some a, bank := b, reserve := reserve,
    otherC := b.get .auction .coll - e.coll0, otherD := b.get .auction .debt }

/-! ### decidable monitors (evaluated by the driver on REAL values) -/

/-- exact rational bound of the posted price, cross-multiplied:
`recv ≤ (paid + bonus)·pDebt·decC / (decD·pColl) + 1` -/
def monPosted (recv paid bonus : Int) (pDebt : Dec) (decD : Int) (pColl : Dec) (decC : Int) : Bool :=
  decide ((recv - 1) * (decD * pColl) ≤ (paid + bonus) * pDebt * decC)

/-- `price_in_range_slack` on one auction record, whatever the elapsed time: `price ≤ start` and
`(price + 1)·tau ≥ end·tau − (start − end)` with `end`, `tau` recomputed from the record's start price as the code does
(true when `end` / `tau` cannot be computed: then no price update can have happened) -/
def monBand (e : Env) (a : Auc) : Bool :=
  decide (a.price ≤ a.init) &&
  (match DutchPrice.endPrice a.init e.discount with
   | .ok endP => (match DutchPrice.tau a.init endP e.T with
     | .ok t => DutchPrice.monGeEndSlack a.init endP t a.price
     | .error _ => true)
   | .error _ => true)

/-- side condition under which `monPosted` is a theorem of the model: the two half-even roundings cost < 1 unit -/
def roundingSmall (pColl : Dec) (decC : Int) : Bool :=
  decide (0 < pColl) && decide (0 < decC) && decide (decC * (pColl + Dec.P) ≤ pColl * Dec.P)

/-- side condition for the bound of the amount charged when the collateral is exhausted (debt side: one debt unit is worth
at least ~two ulps): `decD·(pDebt + 10¹⁸)·(10¹⁸ + 2) ≤ pDebt·10³⁶` -/
def roundingSmallBack (pDebt : Dec) (decD : Int) : Bool :=
  decide (0 < pDebt) && decide (decD * (pDebt + Dec.P) * (Dec.P + 2) ≤ pDebt * (Dec.P * Dec.P))

end Comdex.DutchV2
