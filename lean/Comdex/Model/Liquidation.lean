import Comdex.Base.Dec
/-!
# Model of the liquidation sweeps and liquidate messages (both generations)

Sources (read-only tree /repo):
* generation 1 `x/liquidation`: `keeper/liquidate_vaults.go:15-104` (sweep), `:106-137` (CreateLockedVault),
  `keeper/msg_server.go:25-91` (MsgLiquidateVault), `:92-199` (MsgLiquidateBorrow), `keeper/liquidate_borrow.go:14-163` (borrow
  sweep, complete), `:166-198` (CreateLockedBorrow), `:200-352` (UpdateLockedBorrows), `types/liquidations.go:21-31`
  (GetSliceStartEndForLiquidations), `abci.go`; auction starts `x/auction/keeper/dutch.go:22-162`, `dutch_lend.go:18-133`.
* generation 2 `x/liquidationsV2`: `keeper/liquidate.go:15-32` (Liquidate), `:37-82` (vault sweep), `:84-167`
  (LiquidateIndividualVault), `:174-228` (CreateLockedVault, incl. the English branch), `:237-263` (borrow sweep), `:265-356`
  (borrow decision), `:358-404` (UpdateLockedBorrows), `:406-420` (MsgLiquidate), `:549-601` (MsgAppReserveFundsFn), `:681-720`
  (MsgLiquidateExternal), `types/params.go:55-66` (batch-size validator), `types/offset.go:19-29`, `keeper/offset.go`;
  auction start `x/auctionsV2/keeper/auctions.go:16-140` (Dutch and English activators).
* `x/vault/keeper/vault.go:300-373` CalculateCollateralizationRatio, `x/market/keeper/oracle.go:167-179` CalcAssetPrice,
  `x/lend/keeper/rates.go:30-47`, `types/utils.go:246-264` ApplyFuncIfNoError.

The model is the code as it IS (guard order, strictness, roundings, which store key an offset is written to).
`none` of a per-position step = the Go function returned an error or panicked; under `ApplyFuncIfNoError`
(and under a transaction) that means: no state change.  Core Lean only.
-/
namespace Comdex.Liquidation
open Comdex

/-! ## (i) decisions -/

/-- `market.CalcAssetPrice` on an active price: `NewDecFromInt(amt).Mul(NewDecFromInt(twa)).Quo(NewDecFromInt(decimals))` -/
def assetValue (amt price decimals : Int) : Dec :=
  Dec.quo (Dec.mul (Dec.ofInt amt) (Dec.ofInt price)) (Dec.ofInt decimals)

structure Asset where
  id : Nat
  decimals : Int
  /-- `some twa` iff the record is found and `IsPriceActive` -/
  price : Option Int
deriving Repr, DecidableEq, Inhabited

/-- extended pair vault ("product") joined with its pair -/
structure Product where
  id : Nat
  app : Nat
  minCr : Dec
  assetIn : Nat
  assetOut : Nat
  outOracle : Bool
  outFixed : Int
  /-- `LiquidationPenalty` of the extended pair vault -/
  penalty : Dec := 0
deriving Repr, DecidableEq, Inhabited

structure App where
  id : Nat
  esm : Bool := false      -- ESM status found ∧ Status
  kill : Bool := false     -- kill switch BreakerEnable
  wl2 : Bool := false      -- generation 2: LiquidationWhiteListing found
  dutch2 : Bool := false   -- generation 2: IsDutchActivated
  wl1 : Bool := false      -- generation 1: app id whitelisted for liquidation
  auc1 : Bool := false     -- generation 1: auction params found for the app
  english2 : Bool := false -- generation 2: IsEnglishActivated
  lendAuc1 : Bool := false -- generation 1: x/lend auction params (`GetAddAuctionParamsData`) found for the app
deriving Repr, DecidableEq, Inhabited

structure Env where
  assets : List Asset := []
  products : List Product := []
  apps : List App := []
  /-- x/auctionsV2 `AuctionParams` when found: (`LiquidationPenalty`, `AuctionBonus`) — used by the external-keeper message only -/
  aucParams2 : Option (Dec × Dec) := none
deriving Repr, Inhabited

def Env.asset? (e : Env) (id : Nat) : Option Asset := e.assets.find? (·.id == id)
def Env.product? (e : Env) (id : Nat) : Option Product := e.products.find? (·.id == id)
/-- a missing ESM / kill-switch / whitelisting record reads as "off" in the Go code -/
def Env.app (e : Env) (id : Nat) : App := (e.apps.find? (·.id == id)).getD { id := id }
def Env.priceActive (e : Env) (id : Nat) : Bool :=
  match e.asset? id with
  | some a => a.price.isSome
  | none => false

/-- `CalcAssetPrice(id, amt)`; `none` = asset missing, price inactive, or division by zero decimals (a Go panic) -/
def Env.valueOf (e : Env) (id : Nat) (amt : Int) : Option Dec :=
  match e.asset? id with
  | none => none
  | some a =>
    match a.price with
    | none => none
    | some p => if a.decimals = 0 then none else some (assetValue amt p a.decimals)

/-- `vault.CalculateCollateralizationRatio` with ESM off (every caller below refuses before when ESM is on). -/
def vaultCR (e : Env) (p : Product) (amountIn totalOut : Int) : Option Dec :=
  match e.asset? p.assetIn, e.asset? p.assetOut with
  | some _, some ao =>
    match e.valueOf p.assetIn amountIn with
    | none => none
    | some vin =>
      let vout? : Option Dec :=
        if p.outOracle then e.valueOf p.assetOut totalOut
        else if ao.decimals = 0 then none else some (assetValue totalOut p.outFixed ao.decimals)
      match vout? with
      | none => none
      | some vout =>
        if vin ≤ 0 then none else if vout ≤ 0 then none else some (Dec.quo vin vout)
  | _, _ => none

structure Vault where
  id : Nat
  app : Nat
  prod : Nat
  amountIn : Int
  amountOut : Int
  interest : Int
  closingFee : Int
  /-- `InterestAccumulated` after the accrual a seizure books first (`rewards.CalculateVaultInterest`, float arithmetic:
  external value obtained from the real keeper); equals `interest` when nothing accrues -/
  intPost : Int := 0
deriving Repr, DecidableEq, Inhabited

/-- principal + accrued interest + closing fee, as recorded -/
def Vault.totalOut (v : Vault) : Int := v.amountOut + v.interest + v.closingFee

/-- the same after the accrual booked by the seizure itself -/
def Vault.totalOutPost (v : Vault) : Int := v.amountOut + v.intPost + v.closingFee

def vaultCRof (e : Env) (v : Vault) : Option Dec :=
  match e.product? v.prod with
  | none => none
  | some p => vaultCR e p v.amountIn v.totalOut

/-- the test `collateralizationRatio.LT(liqRatio)` (liquidate.go:109, liquidate_vaults.go:72, msg_server.go:64) -/
def vaultUnsafe (e : Env) (v : Vault) : Bool :=
  match e.product? v.prod, vaultCRof e v with
  | some p, some cr => decide (cr < p.minCr)
  | _, _ => false

/-- which of the three threshold cases a borrow falls in (liquidate.go:320-356) -/
inductive Bridge | same | first | second
deriving Repr, DecidableEq, Inhabited

structure Borrow where
  id : Nat
  app : Nat
  pool : Nat
  assetIn : Nat
  assetOut : Nat
  amountIn : Int
  /-- `AmountOut.Amount`, the principal -/
  principal : Int
  /-- `InterestAccumulated` (a `Dec`) AFTER the in-memory accrual `CalculateBorrowInterestForLiquidation` performs before
  the decision (external value obtained from the real keeper) -/
  interestPost : Dec := 0
  /-- `BridgedAssetAmount.Amount` (zero for a same-pool borrow) -/
  bridgedAmount : Int
  /-- id of the asset whose denom is `BridgedAssetAmount.Denom` -/
  bridgedAsset : Nat
  /-- the lender's pool's assets with `AssetTransitType` 2 resp. 3 (0 = none) -/
  firstTransit : Nat
  secondTransit : Nat
  liquidated : Bool
  /-- the lend pair's `IsEModeEnabled` -/
  emode : Bool
  /-- `LiquidationThreshold` / `ELiquidationThreshold` of the collateral asset (`lendPair.AssetIn`) -/
  lt : Dec
  elt : Dec
  /-- `LiquidationThreshold` of the first / second transit asset -/
  ltFirst : Dec
  ltSecond : Dec
  /-- `LiquidationPenalty`, `LiquidationBonus` of the collateral asset's rates, its cToken asset, the lend position and
  the pool the debt asset was borrowed from -/
  pen : Dec := 0
  bon : Dec := 0
  cAsset : Nat := 0
  lendId : Nat := 0
  outPool : Nat := 0
  /-- generation 1 sell-off: `Ltv` of the collateral asset and of the two transit assets, `ELiquidationPenalty` -/
  ltv : Dec := 0
  ltvFirst : Dec := 0
  ltvSecond : Dec := 0
  epen : Dec := 0
deriving Repr, DecidableEq, Inhabited

/-- the debt the decision looks at: `AmountOut + InterestAccumulated.TruncateInt()` after the accrual -/
def Borrow.debt (b : Borrow) : Int := b.principal + Dec.truncateInt b.interestPost

/-- `lend.CalculateCollateralizationRatio`: debt value / collateral value. `Quo` by a zero collateral value panics. -/
def borrowRatio (e : Env) (b : Borrow) : Option Dec :=
  match e.valueOf b.assetIn b.amountIn, e.valueOf b.assetOut b.debt with
  | some tin, some tout => if tin = 0 then none else some (Dec.quo tout tin)
  | _, _ => none

/-- the branch of liquidate.go:320-356: no bridged amount ⇒ same pool; bridged denom = denom of the FIRST transit asset
of the lender's pool ⇒ first; anything else ⇒ second -/
def Borrow.bridge (b : Borrow) : Bridge :=
  if b.bridgedAmount = 0 then .same
  else if b.bridgedAsset == b.firstTransit then .first else .second

/-- liquidate.go:300-303: the collateral asset's threshold, its e-mode threshold when the pair is in e-mode -/
def Borrow.baseThreshold (b : Borrow) : Dec := if b.emode then b.elt else b.lt

/-- the applicable threshold of the three cases -/
def borrowThreshold (b : Borrow) : Dec :=
  match b.bridge with
  | .same => b.baseThreshold
  | .first => Dec.mul b.baseThreshold b.ltFirst
  | .second => Dec.mul b.baseThreshold b.ltSecond

/-- `sdk.Dec.GT(currentCollateralizationRatio, threshold)` -/
def borrowUnsafe (e : Env) (b : Borrow) : Bool :=
  match borrowRatio e b with
  | some r => decide (r > borrowThreshold b)
  | none => false

/-! ## (ii) the sweep -/

/-- two's-complement wrap-around of Go `int` (64-bit) arithmetic -/
def wrapInt (x : Int) : Int := (x + 9223372036854775808) % 18446744073709551616 - 9223372036854775808

/-- `GetSliceStartEndForLiquidations` on Go `int`s, verbatim: `end := offset + batchSize` wraps at 2^63 (then `end` is
negative and the caller's slice expression panics; needs `LiquidationBatchSize ≥ 2^63 − offset`).  The wrap was found by
the regenerated translation of the function, `Props/C09Pure.lean`. -/
def sliceBoundsI (len off batch : Int) : Int × Int :=
  if off ≥ len ∨ off < 0 ∨ batch < 0 then (len, len)
  else if wrapInt (off + batch) ≥ len then (off, len) else (off, wrapInt (off + batch))

/-- the same on naturals (every caller passes a non-negative offset and batch unless a uint64 ≥ 2^63 is cast) -/
def sliceBounds (len off batch : Nat) : Nat × Nat :=
  if off ≥ len then (len, len)
  else if off + batch ≥ len then (off, len) else (off, off + batch)

/-- bounds used by a sweep: a second call with offset 0 when the first gave an empty range -/
def sweepBoundsI (cnt off batch : Int) : Int × Int :=
  let b := sliceBoundsI cnt off batch
  if b.1 = b.2 then sliceBoundsI cnt 0 batch else b

def sweepBounds (cnt off batch : Nat) : Nat × Nat :=
  let b := sliceBounds cnt off batch
  if b.1 = b.2 then sliceBounds cnt 0 batch else b

/-- Go `l[s:e]`: `none` = "slice bounds out of range" (for a slice the limit is its capacity; the model uses the
length, see notes/C09.md: between length and capacity the Go code reads zero-valued phantom entries) -/
def goSlice {α} (l : List α) (s e : Int) : Option (List α) :=
  if 0 ≤ s ∧ s ≤ e ∧ e ≤ (l.length : Int) then some ((l.drop s.toNat).take (e.toNat - s.toNat)) else none

/-- `int(x)` of a `uint64` on a 64-bit platform -/
def toGoInt (x : Nat) : Int := if x < 2 ^ 63 then (x : Int) else (x : Int) - 2 ^ 64

/-- `uint64` decrement (`length-1` wraps at zero) -/
def decU64 (x : Nat) : Nat := if x = 0 then 2 ^ 64 - 1 else x - 1

abbrev Bal := List (Nat × Int)
def Bal.get (b : Bal) (k : Nat) : Int := ((b.find? (·.1 == k)).map (·.2)).getD 0
def Bal.add (b : Bal) (k : Nat) (d : Int) : Bal :=
  if b.any (·.1 == k) then b.map (fun x => if x.1 == k then (x.1, x.2 + d) else x) else b ++ [(k, d)]

abbrev Offsets := List (Nat × Nat)
def Offsets.get? (o : Offsets) (k : Nat) : Option Nat := (o.find? (·.1 == k)).map (·.2)
def Offsets.set (o : Offsets) (k v : Nat) : Offsets :=
  if o.any (·.1 == k) then o.map (fun x => if x.1 == k then (k, v) else x) else o ++ [(k, v)]

structure Auction where
  id : Nat
  locked : Nat
  asset : Nat
  amount : Int
  /-- the debt the auction is to raise (`DebtToken` = locked vault's `TargetDebt`; generation 1 `InflowTokenTargetAmount`) -/
  target : Int := 0
  /-- generation 2 `AuctionType`: true = Dutch, false = English (generation 1: always Dutch) -/
  dutch : Bool := true
deriving Repr, DecidableEq, Inhabited

structure Locked where
  id : Nat
  orig : Nat
  app : Nat
  amountIn : Int
  isBorrow : Bool
  /-- generation 2: `DebtToken`; generation 1: `AmountOut` (principal) -/
  debt : Int := 0
  /-- generation 2: `TargetDebt`; generation 1: the auction's inflow target -/
  target : Int := 0
  /-- generation 2: `FeeToBeCollected`; generation 1: `InterestAccumulated` (interest + closing fee) -/
  fee : Int := 0
  bonus : Int := 0
  /-- `CurrentCollaterlisationRatio` / `CrAtLiquidation` -/
  cr : Dec := 0
  /-- `CollateralToBeAuctioned`: generation 1 the collateral's VALUE (a `Dec`), generation 2 the amount (an integer) -/
  collValue : Dec := 0
  /-- generation 2 `IsInternalKeeper` (seizure initiated by a liquidate message; the sender is recorded as keeper) -/
  viaMsg : Bool := false
deriving Repr, DecidableEq, Inhabited

/-- what is written on the locked vault and the auction besides the collateral -/
structure Amounts where
  debt : Int := 0
  target : Int := 0
  fee : Int := 0
  bonus : Int := 0
  cr : Dec := 0
  collValue : Dec := 0
deriving Repr, DecidableEq, Inhabited

def statKey (pool asset : Nat) : Nat := pool * 4294967296 + asset

def Bal.remove (b : Bal) (k : Nat) : Bal := b.filter (fun x => !(x.1 == k))

structure World where
  vaults : List Vault := []          -- in store order (`GetVaults`: big-endian id keys ⇒ ascending ids)
  counter : Nat := 0                 -- `LengthOfVault`, an independent uint64
  offsets : Offsets := []            -- `LiquidationOffsetHolder.CurrentOffset` by the id in its store key
  vaultBal : Bal := []               -- x/vault module account, by collateral asset id
  poolBal : Bal := []                -- lend pool module accounts, by collateral asset id (one pool in the harness)
  auctionBal : Bal := []             -- auction module account (x/auction resp. x/auctionsV2), by asset id
  lockedId : Nat := 0
  auctionId : Nat := 0
  newLocked : List Locked := []
  newAuctions : List Auction := []
  borrows : List Borrow := []        -- in `GetBorrows` order
  lendBal : Bal := []                -- lend positions: id ↦ `AmountIn.Amount` (absent = deleted)
  totalLend : Bal := []              -- `PoolAssetLBMapping.TotalLend` by `statKey pool asset`
  totalBorrowed : Bal := []          -- `PoolAssetLBMapping.TotalBorrowed` by `statKey pool asset`
  lendAuctionId : Nat := 0           -- generation 1: x/auction `LendAuctionID` (borrow auctions have their own counter)
  reserveBal : Bal := []             -- generation 1: x/lend module account (reserve), by asset id
  appReserve : Bal := []             -- generation 2: `AppReserveFunds.TokenQuantity` by `statKey app asset`
  liqBal : Bal := []                 -- generation 2: x/liquidationsV2 module account, by asset id
deriving Repr, Inhabited

/-- `ApplyFuncIfNoError`: cache context written back only on success; a panic is turned into an error -/
def applyIfNoError (f : World → Option World) (w : World) : World := (f w).getD w

/-- the hand-over common to both generations: collateral to the auction account, locked vault, one auction -/
def handOver (w : World) (v : Vault) (asset : Nat) (k : Amounts := {}) : Option World :=
  if v.amountIn > 0 ∧ w.vaultBal.get asset < v.amountIn then none else
  some { w with
    vaults := w.vaults.filter (·.id != v.id)
    counter := decU64 w.counter
    vaultBal := if v.amountIn > 0 then w.vaultBal.add asset (- v.amountIn) else w.vaultBal
    auctionBal := if v.amountIn > 0 then w.auctionBal.add asset v.amountIn else w.auctionBal
    lockedId := w.lockedId + 1
    auctionId := w.auctionId + 1
    newLocked := w.newLocked ++ [{ id := w.lockedId + 1, orig := v.id, app := v.app, amountIn := v.amountIn, isBorrow := false,
                                   debt := k.debt, target := k.target, fee := k.fee, bonus := k.bonus, cr := k.cr, collValue := k.collValue }]
    newAuctions := w.newAuctions ++ [{ id := w.auctionId + 1, locked := w.lockedId + 1, asset := asset, amount := v.amountIn, target := k.target }] }

/-- generation 2, what `LiquidateIndividualVault` computes after the accrual (liquidate.go:118-128, 174-190): total debt
with the booked interest, ratio recomputed, `FeeToBeCollected = trunc(totalOut · LiquidationPenalty)`, no bonus,
`TargetDebt = totalOut + fee` -/
def amountsV2 (e : Env) (p : Product) (v : Vault) : Option Amounts :=
  match vaultCR e p v.amountIn v.totalOutPost with
  | none => none
  | some cr =>
    let fee := Dec.truncateInt (Dec.mul (Dec.ofInt v.totalOutPost) p.penalty)
    some { debt := v.totalOutPost, target := v.totalOutPost + fee, fee := fee, bonus := 0, cr := cr, collValue := v.amountIn }

/-- generation 1 (liquidate_vaults.go:74-90,106-137, dutch.go:99-104): locked vault `AmountOut` = principal,
`InterestAccumulated` = interest + closing fee, `CollateralToBeAuctioned` = value of the collateral, auction inflow target =
principal + trunc(principal · penalty) + interest + closing fee -/
def amountsV1 (e : Env) (p : Product) (v : Vault) : Option Amounts :=
  match vaultCR e p v.amountIn v.totalOutPost, e.valueOf p.assetIn v.amountIn with
  | some cr, some tin =>
    let fees := v.intPost + v.closingFee
    some { debt := v.amountOut, target := v.amountOut + Dec.truncateInt (Dec.mul (Dec.ofInt v.amountOut) p.penalty) + fees,
           fee := fees, bonus := 0, cr := cr, collValue := tin }
  | _, _ => none

/-- generation 2 `LiquidateIndividualVault` (liquidate.go:84-167). The DECISION is taken on the recorded debt (:104-109); the interest
accrual at :110-118 follows and only enters the amounts written on the locked vault (`intPost`, external value). -/
def liquidateVaultV2 (e : Env) (id : Nat) (w : World) : Option World :=
  match w.vaults.find? (·.id == id) with
  | none => none
  | some v =>
    let a := e.app v.app
    if a.esm || a.kill then none else
    if !a.wl2 then none else
    match e.product? v.prod with
    | none => none
    | some p =>
      match vaultCR e p v.amountIn v.totalOut with
      | none => none
      | some cr =>
        if cr < p.minCr then
          if !a.dutch2 then none else
          -- DutchAuctionActivator (auctions.go:35-59): whitelisting + dutch again, both oracle records active
          if !(e.priceActive p.assetIn && e.priceActive p.assetOut) then none else
          match amountsV2 e p v with
          | none => none
          | some k => handOver w v p.assetIn k
        else some w

/-- generation 1, the wrapped body of the sweep for app `a` (liquidate_vaults.go:50-98) on the snapshot `v` -/
def liquidateVaultV1 (e : Env) (a : Nat) (v : Vault) (w : World) : Option World :=
  if v.app != a then none else
  match e.product? v.prod with
  | none => none
  | some p =>
    match vaultCR e p v.amountIn v.totalOut with
    | none => none
    | some cr =>
      if cr < p.minCr then
        -- StartDutchAuction (dutch.go:49-162): debt price when oracle-priced, auction params, transfer, collateral price
        if p.outOracle && !e.priceActive p.assetOut then none else
        if !(e.app a).auc1 then none else
        if !e.priceActive p.assetIn then none else
        match amountsV1 e p v with
        | none => none
        | some k => handOver w v p.assetIn k
      else some w

/-- generation 1 `MsgLiquidateVault` (msg_server.go:25-91); `none` = the transaction fails -/
def msgLiquidateVaultV1 (e : Env) (app id : Nat) (w : World) : Option World :=
  let a := e.app app
  if !a.wl1 then none else
  if a.kill || a.esm then none else
  match w.vaults.find? (·.id == id) with
  | none => none
  | some v => liquidateVaultV1 e app v w

/-- one offset-driven pass over the vault list: bounds from the independent counter, slice, per-vault wrapped step,
store the end as the new offset under `key`. `none` = the slice expression panicked (outside any wrapper). -/
def vaultPass (batch : Nat) (key : Nat) (off : Nat) (f : Vault → World → Option World) (w : World) : Option World :=
  let b := sweepBoundsI (toGoInt w.counter) (toGoInt off) (toGoInt batch)
  match goSlice w.vaults b.1 b.2 with
  | none => none
  | some sl =>
    let w' := sl.foldl (fun acc v => applyIfNoError (f v) acc) w
    some { w' with offsets := w'.offsets.set key b.2.toNat }

/-- generation 2 `LiquidateIndividualBorrow` + `UpdateLockedBorrows` for one borrow (liquidate.go:265-404).
`none` = error; both callers discard the writes of a failing step (the sweep wraps every borrow in
`ApplyFuncIfNoError` since fix c15713f, a message runs in a transaction), so only complete steps are visible.
Only what the property speaks about is kept: flag, collateral custody, locked vault, auction (with its type). -/
def liquidateBorrowV2 (e : Env) (id : Nat) (w : World) : Option World :=
  match w.borrows.find? (·.id == id) with
  | none => none
  | some b =>
    if b.liquidated then some w else
    if (e.app b.app).kill then none else
    match borrowRatio e b with
    | none => none
    | some r =>
      if r > borrowThreshold b then
        let a := e.app b.app
        if !a.wl2 then none else
        if w.poolBal.get b.assetIn < b.amountIn then none else
        if w.poolBal.get b.cAsset < b.amountIn then none else     -- the cTokens are burnt from the pool account
        -- CreateLockedVault with AuctionType = IsDutchActivated: Dutch when activated (its activator needs both oracle
        -- records active), otherwise English when THAT is activated (liquidate.go:210-215; `EnglishAuctionActivator` reads no
        -- price), otherwise the error of liquidate.go:213 — nothing is seized when no auction type is enabled
        if !a.dutch2 && !a.english2 then none else
        if a.dutch2 && !(e.priceActive b.assetIn && e.priceActive b.assetOut) then none else
        -- liquidate.go:372-375, 386: fee and bonus on the PRINCIPAL, debt token = principal (the accrued interest is not auctioned)
        let fee := Dec.truncateInt (Dec.mul (Dec.ofInt b.principal) b.pen)
        let bonus := Dec.truncateInt (Dec.mul (Dec.ofInt b.principal) b.bon)
        let lendLeft := w.lendBal.get b.lendId - b.amountIn
        some { w with
          borrows := w.borrows.map (fun x => if x.id == id then { x with liquidated := true } else x)
          poolBal := (w.poolBal.add b.assetIn (- b.amountIn)).add b.cAsset (- b.amountIn)
          auctionBal := w.auctionBal.add b.assetIn b.amountIn
          lockedId := w.lockedId + 1
          auctionId := w.auctionId + 1
          newLocked := w.newLocked ++ [{ id := w.lockedId + 1, orig := b.id, app := b.app, amountIn := b.amountIn, isBorrow := true,
                                         debt := b.principal, target := b.principal + fee, fee := fee, bonus := bonus, cr := r, collValue := b.amountIn }]
          newAuctions := w.newAuctions ++ [{ id := w.auctionId + 1, locked := w.lockedId + 1, asset := b.assetIn, amount := b.amountIn,
                                             target := b.principal + fee, dutch := a.dutch2 }]
          -- :392-402 pool totals and the lend position shrink by exactly what left
          totalBorrowed := w.totalBorrowed.add (statKey b.outPool b.assetOut) (- b.principal)
          totalLend := w.totalLend.add (statKey b.pool b.assetIn) (- b.amountIn)
          lendBal := if lendLeft > 0 then w.lendBal.add b.lendId (- b.amountIn) else w.lendBal.remove b.lendId }
      else some w

/-- Result of a block hook -/
inductive Outcome
  | ok (w : World)
  | panic
deriving Inhabited

/-- generation 2 borrow pass (liquidate.go:230-260 after fixes 16be2e4, c15713f): its own offset under id 1, every
borrow of the range in its own `ApplyFuncIfNoError` — a failing borrow leaves no writes and the rest is still processed -/
def borrowPassV2 (e : Env) (batch : Nat) (w : World) : Outcome :=
  let off := (w.offsets.get? 1).getD 0
  let ids := w.borrows.map (·.id)
  let b := sweepBoundsI (ids.length : Int) (toGoInt off) (toGoInt batch)
  match goSlice ids b.1 b.2 with
  | none => .panic
  | some sl =>
    let w' := sl.foldl (fun acc id => applyIfNoError (liquidateBorrowV2 e id) acc) w
    .ok { w' with offsets := w'.offsets.set 1 b.2.toNat }

/-- generation 2 `Liquidate` = BeginBlocker: vault pass under key 0, then borrow pass (surplus/debt auctions are
outside this property; the harness configures none). -/
def blockV2 (e : Env) (batch : Nat) (w : World) : Outcome :=
  let off := (w.offsets.get? 0).getD 0
  match vaultPass batch 0 off (fun v => liquidateVaultV2 e v.id) w with
  | none => .panic
  | some w1 => borrowPassV2 e batch w1

/-- generation 2 `MsgLiquidateInternalKeeper`: liqType 0 vault, 1 borrow, anything else a successful no-op -/
def msgLiquidateV2 (e : Env) (liqType id : Nat) (w : World) : Option World :=
  if liqType = 0 then liquidateVaultV2 e id w
  else if liqType = 1 then liquidateBorrowV2 e id w
  else some w

/-- generation 1 vault sweep: for every whitelisted app in store order (ascending id), its own offset -/
def appsLoopV1 (e : Env) (batch : Nat) : List App → World → Option World
  | [], w => some w
  | a :: rest, w =>
    if a.kill || a.esm then appsLoopV1 e batch rest w else
    let off := (w.offsets.get? a.id).getD 0
    match vaultPass batch a.id off (fun v => liquidateVaultV1 e a.id v) w with
    | none => none
    | some w' => appsLoopV1 e batch rest w'

/-- the lend app id under which generation 1 keeps the borrow-sweep offset (`lendtypes.AppID`) -/
def lendAppId : Nat := 3

/-! ## generation 1: the borrow sell-off (`UpdateLockedBorrows`, liquidate_borrow.go:196-351)

Generation 1 does not hand the whole collateral of a borrow over: it computes the dollar amount `selloff` that brings the
position back to its loan-to-value, moves `trunc(bonus + selloff)` collateral units pool → auction account, `trunc(penalty)`
units pool → reserve, and reduces the locked vault, the borrow and the lend position by
`totalDeduction = trunc(deduction + selloff)` units (capped at what the position holds — the TRANSFERS are not capped). -/

structure SellOffIn where
  amountIn : Int        -- locked vault `AmountIn` (= the borrow's collateral)
  updatedOut : Int      -- `UpdatedAmountOut` = principal + trunc(interest)
  pIn : Int             -- active prices and decimals of the collateral / debt asset
  pOut : Int
  dIn : Int
  dOut : Int
  c : Dec               -- `Ltv` of the collateral asset (× `Ltv` of the transit asset for a cross-pool borrow); NOT the e-mode LTV
  pen : Dec             -- `LiquidationPenalty` (`ELiquidationPenalty` in e-mode)
  bon : Dec             -- `LiquidationBonus`
deriving Repr, DecidableEq, Inhabited

structure SellOffOut where
  cr : Dec              -- ratio written on the locked vault
  selloff : Dec         -- `CollateralToBeAuctioned` (a dollar value)
  toAuction : Int       -- collateral units sent pool → auction account
  toReserve : Int       -- collateral units sent pool → reserve (penalty)
  totalDeduction : Int  -- burnt cTokens
  newAmountIn : Int     -- what stays on the locked vault / the borrow as collateral
  lendReduction : Int   -- what the lend position and `TotalLend` lose
deriving Repr, DecidableEq, Inhabited

/-- `none` = an error / panic before anything is written (zero value of the collateral, zero unit price, zero divisor) -/
def sellOffV1 (i : SellOffIn) : Option SellOffOut :=
  if i.dIn = 0 ∨ i.dOut = 0 then none else
  let totalIn := assetValue i.amountIn i.pIn i.dIn
  let totalOut := assetValue i.updatedOut i.pOut i.dOut
  if totalIn = 0 then none else
  let cr := Dec.quo totalOut totalIn
  let b := Dec.one + (i.pen + i.bon)
  let factor1 := Dec.mul i.c totalIn
  let factor2 := Dec.mul b i.c
  let numerator := totalOut - factor1
  let denominator := Dec.one - factor2
  if denominator = 0 then none else
  let selloff := Dec.quo numerator denominator
  let aip := assetValue 1 i.pIn i.dIn
  if aip = 0 then none else
  let deduction := Dec.quo (Dec.mul selloff (i.pen + i.bon)) aip
  let bonusToBidder := Dec.quo (Dec.mul selloff i.bon) aip
  let penaltyToReserve := Dec.quo (Dec.mul selloff i.pen) aip
  let sellOffAmt := Dec.quo selloff aip
  let totalDeduction := Dec.truncateInt (deduction + sellOffAmt)
  -- `sdk.NewCoin` panics on a negative amount (a borrow that is not under water)
  if Dec.truncateInt (bonusToBidder + sellOffAmt) < 0 ∨ Dec.truncateInt penaltyToReserve < 0 ∨ totalDeduction < 0 then none else
  some { cr := cr, selloff := selloff
         toAuction := Dec.truncateInt (bonusToBidder + sellOffAmt)
         toReserve := Dec.truncateInt penaltyToReserve
         totalDeduction := totalDeduction
         newAmountIn := if totalDeduction ≥ i.amountIn then 0 else i.amountIn - totalDeduction
         lendReduction := if totalDeduction ≥ i.amountIn then i.amountIn else totalDeduction }

/-! ## generation 1: borrow liquidation end to end (`LiquidateBorrows` sweep, `MsgLiquidateBorrow`)

liquidate_borrow.go:33-158 (sweep body inside `ApplyFuncIfNoError`), msg_server.go:92-204 (message, as repaired by f18ae51), `CreateLockedBorrow`,
`UpdateLockedBorrows` (the sell-off above), `x/auction LendDutchActivator` / `StartLendDutchAuction` (dutch_lend.go:18-133).
Generation 1 has NO whitelisting for borrows; the only guard is the kill switch of the lend position's app. -/

/-- PRE-FIX behaviour, kept only for `C09.v1_msg_borrow_ignored_emode_before_fix_counterexample`: the threshold generation-1
`MsgLiquidateBorrow` compared with until fix f18ae51 (finding D38): ALWAYS `LiquidationThreshold` — the pair's e-mode was
ignored, where the sweep (liquidate_borrow.go:82-85) and generation 2 use `ELiquidationThreshold` for an e-mode pair.
Since the fix the message computes `liquidationThreshold` exactly like the sweep (msg_server.go:144-148) = `borrowThreshold`. -/
def borrowThresholdMsgV1BeforeFix (b : Borrow) : Dec :=
  match b.bridge with
  | .same => b.lt
  | .first => Dec.mul b.lt b.ltFirst
  | .second => Dec.mul b.lt b.ltSecond

/-- inputs of the sell-off for borrow `b` (liquidate_borrow.go:219-264): `c` = `Ltv` (× transit asset's `Ltv`), penalty =
`ELiquidationPenalty` in e-mode -/
def Borrow.sellOffIn (e : Env) (b : Borrow) : Option SellOffIn :=
  match e.asset? b.assetIn, e.asset? b.assetOut with
  | some ai, some ao =>
    match ai.price, ao.price with
    | some pi, some po =>
      some { amountIn := b.amountIn, updatedOut := b.debt, pIn := pi, pOut := po, dIn := ai.decimals, dOut := ao.decimals,
             c := (match b.bridge with
                   | .same => b.ltv
                   | .first => Dec.mul b.ltv b.ltvFirst
                   | .second => Dec.mul b.ltv b.ltvSecond),
             pen := if b.emode then b.epen else b.pen, bon := b.bon }
    | _, _ => none
  | _, _ => none

/-- `CreateLockedBorrow` + `UpdateLockedBorrows` + `LendDutchActivator` for the unflagged borrow `b` judged unsafe at ratio `r`.
`none` = error / panic somewhere (both callers then drop all writes). `sweep` = called from the block hook (which also
reduces `TotalBorrowed`, liquidate_borrow.go:111 — the message does not). -/
def seizeBorrowV1 (e : Env) (sweep : Bool) (b : Borrow) (r : Dec) (w : World) : Option World :=
  match b.sellOffIn e with
  | none => none
  | some i =>
    match sellOffV1 i with
    | none => none
    | some o =>
      -- bank: pool → auction account, pool → reserve (x/lend module account), cTokens burnt from the pool account
      if w.poolBal.get b.assetIn < o.toAuction + o.toReserve then none else
      if w.poolBal.get b.cAsset < o.totalDeduction then none else
      -- LendDutchActivator: unit values of both assets (division by a zero unit value panics), the app's x/lend auction params
      let aipIn := assetValue 1 i.pIn i.dIn
      let aipOut := assetValue 1 i.pOut i.dOut
      if aipOut = 0 then none else
      if !(e.app b.app).lendAuc1 then none else
      let outflow := Dec.truncateInt (Dec.quo o.selloff aipIn)
      let inflow := Dec.truncateInt (Dec.quo o.selloff aipOut)
      if outflow < 0 ∨ inflow < 0 then none else
      some { w with
        borrows := w.borrows.map (fun x => if x.id == b.id then { x with liquidated := true, amountIn := o.newAmountIn } else x)
        poolBal := (w.poolBal.add b.assetIn (- (o.toAuction + o.toReserve))).add b.cAsset (- o.totalDeduction)
        auctionBal := w.auctionBal.add b.assetIn o.toAuction
        reserveBal := w.reserveBal.add b.assetIn o.toReserve
        lockedId := w.lockedId + 1
        lendAuctionId := w.lendAuctionId + 1
        newLocked := w.newLocked ++ [{ id := w.lockedId + 1, orig := b.id, app := b.app, amountIn := o.newAmountIn, isBorrow := true,
                                       debt := b.principal, target := inflow, fee := 0, bonus := 0, cr := r, collValue := o.selloff }]
        newAuctions := w.newAuctions ++ [{ id := w.lendAuctionId + 1, locked := w.lockedId + 1, asset := b.assetIn, amount := outflow,
                                           target := inflow }]
        lendBal := w.lendBal.add b.lendId (- o.lendReduction)
        totalLend := w.totalLend.add (statKey b.pool b.assetIn) (- o.lendReduction)
        totalBorrowed := if sweep then w.totalBorrowed.add (statKey b.outPool b.assetOut) (- b.principal) else w.totalBorrowed }

/-- one generation-1 borrow step. `sweep = true`: the wrapped body of `LiquidateBorrows` (a missing or flagged borrow is a
successful no-op); `sweep = false`: `MsgLiquidateBorrow` (missing / flagged = error, and for a cross-pool borrow the error of the
ratio computation is discarded: the ratio reads 0). BOTH judge against `borrowThreshold` (e-mode aware, three bridge cases) —
the message since fix f18ae51. -/
def liquidateBorrowV1 (e : Env) (sweep : Bool) (id : Nat) (w : World) : Option World :=
  match w.borrows.find? (·.id == id) with
  | none => if sweep then some w else none
  | some b =>
    if b.liquidated then (if sweep then some w else none) else
    if (e.app b.app).kill then none else
    match e.valueOf b.assetIn b.amountIn, e.valueOf b.assetOut b.debt with
    | some tin, some tout =>
      if tin = 0 then none else
      if Dec.quo tout tin > borrowThreshold b then seizeBorrowV1 e sweep b (Dec.quo tout tin) w else some w
    | _, _ => if !sweep && b.bridgedAmount != 0 then some w else none

/-- PRE-FIX `MsgLiquidateBorrow` (before f18ae51), kept only for the counterexample theorem: identical to
`liquidateBorrowV1 e false` except for the threshold -/
def msgLiquidateBorrowV1BeforeFix (e : Env) (id : Nat) (w : World) : Option World :=
  match w.borrows.find? (·.id == id) with
  | none => none
  | some b =>
    if b.liquidated then none else
    if (e.app b.app).kill then none else
    match e.valueOf b.assetIn b.amountIn, e.valueOf b.assetOut b.debt with
    | some tin, some tout =>
      if tin = 0 then none else
      if Dec.quo tout tin > borrowThresholdMsgV1BeforeFix b then seizeBorrowV1 e false b (Dec.quo tout tin) w else some w
    | _, _ => if b.bridgedAmount != 0 then some w else none

/-- generation-1 borrow pass: offset under `lendtypes.AppID` in the VAULT sweep's key space (defect 4 of the notes), every
borrow of the range in its own `ApplyFuncIfNoError` -/
def borrowPassV1 (e : Env) (batch : Nat) (w : World) : Outcome :=
  let off := (w.offsets.get? lendAppId).getD 0
  let ids := w.borrows.map (·.id)
  let b := sweepBoundsI (ids.length : Int) (toGoInt off) (toGoInt batch)
  match goSlice ids b.1 b.2 with
  | none => .panic
  | some sl =>
    let w' := sl.foldl (fun acc id => applyIfNoError (liquidateBorrowV1 e true id) acc) w
    .ok { w' with offsets := w'.offsets.set lendAppId b.2.toNat }

/-- generation 1 BeginBlocker: vault sweep, then the borrow sweep -/
def blockV1 (e : Env) (batch : Nat) (w : World) : Outcome :=
  match appsLoopV1 e batch (e.apps.filter (·.wl1)) w with
  | none => .panic
  | some w1 => borrowPassV1 e batch w1

/-- generation 1 `MsgLiquidateBorrow` -/
def msgLiquidateBorrowV1 (e : Env) (id : Nat) (w : World) : Option World := liquidateBorrowV1 e false id w

/-! ## generation 2: the remaining messages

`MsgLiquidateInternalKeeper` records the sender as keeper on the locked vault (`IsInternalKeeper`); `MsgAppReserveFunds`
(liquidate.go:549-601) and `MsgLiquidateExternalKeeper` (liquidate.go:681-720): an outside keeper brings collateral of his own
and has it auctioned — no vault and no borrow is touched. -/

/-- set `IsInternalKeeper` on the locked vaults appended after the first `n` -/
def markViaMsg (n : Nat) (w : World) : World :=
  { w with newLocked := w.newLocked.take n ++ (w.newLocked.drop n).map (fun l => { l with viaMsg := true }) }

/-- `MsgLiquidateInternalKeeper` as delivered: the step of `msgLiquidateV2`, the new locked vault marked -/
def msgLiquidateV2K (e : Env) (liqType id : Nat) (w : World) : Option World :=
  (msgLiquidateV2 e liqType id w).map (markViaMsg w.newLocked.length)

/-- `MsgAppReserveFunds`: asset and app must exist, the coin's denom must be the asset's (`denomOk`), the sender must hold
the amount (`userBal`); funds go to the x/liquidationsV2 module account, the per-(app, asset) reserve grows. -/
def msgAppReserveFunds (e : Env) (app asset : Nat) (denomOk : Bool) (amt userBal : Int) (w : World) : Option World :=
  match e.asset? asset with
  | none => none
  | some _ =>
    if !denomOk then none else
    if !(e.apps.any (·.id == app)) then none else
    if userBal < amt then none else
    some { w with appReserve := w.appReserve.add (statKey app asset) amt
                  liqBal := if amt = 0 then w.liqBal else w.liqBal.add asset amt }

/-- `MsgLiquidateExternalKeeper`: guards in code order — auction params, both assets, reserve funds of (app, debt asset)
positive, the sender's collateral, then `CreateLockedVault` with Dutch type: whitelisting with Dutch activated, both oracle
records active. Effect: exactly `collAmt` sender → auction account, one locked vault (original id 0) and one Dutch auction;
fee / bonus from the x/auctionsV2 parameters; NO vault, borrow, vault custody or pool custody is touched. -/
def msgLiquidateExternalV2 (e : Env) (app collAsset debtAsset : Nat) (collAmt debtAmt userBal : Int) (w : World) : Option World :=
  match e.aucParams2 with
  | none => none
  | some (pen, bon) =>
    match e.asset? collAsset, e.asset? debtAsset with
    | some _, some _ =>
      if w.appReserve.get (statKey app debtAsset) ≤ 0 then none else
      if collAmt < 0 ∨ debtAmt < 0 then none else
      if userBal < collAmt then none else
      let a := e.app app
      if !a.wl2 || !a.dutch2 then none else
      if !(e.priceActive collAsset && e.priceActive debtAsset) then none else
      let fee := Dec.truncateInt (Dec.mul (Dec.ofInt debtAmt) pen)
      let bonus := Dec.truncateInt (Dec.mul (Dec.ofInt debtAmt) bon)
      some { w with
        auctionBal := if collAmt = 0 then w.auctionBal else w.auctionBal.add collAsset collAmt
        lockedId := w.lockedId + 1
        auctionId := w.auctionId + 1
        newLocked := w.newLocked ++ [{ id := w.lockedId + 1, orig := 0, app := app, amountIn := collAmt, isBorrow := false,
                                       debt := debtAmt, target := debtAmt + fee, fee := fee, bonus := bonus, cr := 0, collValue := collAmt }]
        newAuctions := w.newAuctions ++ [{ id := w.auctionId + 1, locked := w.lockedId + 1, asset := collAsset, amount := collAmt,
                                           target := debtAmt + fee }] }
    | _, _ => none

/-! ## the abstract sweep used for the liveness theorems

Positions are ids; between two sweeps the list changes by deletions anywhere and appends at the end. -/

structure Sw where
  l : List Nat
  off : Nat
deriving Repr, DecidableEq, Inhabited

/-- the ids handed to the per-position step in this block -/
def Sw.processed (batch : Nat) (s : Sw) : List Nat :=
  let b := sweepBounds s.l.length s.off batch
  (s.l.drop b.1).take (b.2 - b.1)

/-- a block starts a new full sweep when its range begins at index 0 -/
def Sw.starts (batch : Nat) (s : Sw) : Bool := (sweepBounds s.l.length s.off batch).1 == 0

/-- one block of the abstract sweep followed by the changes until the next block: processed positions for which
`unsafe` holds are seized (deleted), then `del` ids are closed by their owners and `app` new ids are appended -/
def Sw.step (batch : Nat) (isUnsafe : Nat → Bool) (del app : List Nat) (s : Sw) : Sw :=
  let b := sweepBounds s.l.length s.off batch
  let seized := (s.processed batch).filter isUnsafe
  { l := (s.l.filter (fun x => !(seized.contains x) && !(del.contains x))) ++ app, off := b.2 }

/-- run a schedule of (deletions, appends) per block; returns the states BEFORE each block and the final one -/
def Sw.run (batch : Nat) (isUnsafe : Nat → Bool) : List (List Nat × List Nat) → Sw → List Sw
  | [], s => [s]
  | (d, a) :: rest, s => s :: Sw.run batch isUnsafe rest (s.step batch isUnsafe d a)

end Comdex.Liquidation
