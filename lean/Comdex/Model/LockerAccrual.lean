import Comdex.Model.Accrual
/-!
# Locker savings: the time stamps of the accrual as a state machine — C18 (state level), C13 (what is paid out of net fees)

Sources: `x/rewards/keeper/rewards.go:538-637` (`CalculateLockerRewards`), `x/locker/keeper/msg_server.go:26-399` (the five locker
messages: which of them call it, what they stamp afterwards), `x/collector/keeper/collector.go:679-811`
(`WasmUpdateCollectorLookupTable` — the wasm / governance binding that changes the locker saving rate — and `LockerIterateRewards`,
the sweep it runs over the lockers), `x/collector/keeper/collector.go:41-61` (`DecreaseNetFeeCollectedData`),
`x/rewards/keeper/keeper.go:93-106, 226-246` (internal-rewards whitelist on / off).

The savings FORMULA is `Comdex.Accrual.calcRewards` (value of `math.Pow` = the only input). This file models WHICH interval is
accrued at WHICH rate and what is stamped afterwards, exactly as the code keeps it:

* collector lookup entry of the (app, asset): `LockerSavingRate`, `BlockHeight`, `BlockTime`;
* the locker: `NetBalance`, `ReturnsAccumulated`, `BlockHeight`, `BlockTime`; `BlockHeight = 0` is a FLAG meaning "take the start of
  the next interval from the collector entry's `BlockTime`" (set at creation while the rate is zero and by the sweep that switches
  the rate off);
* the fractional reward tracker; the recorded net fees the whole units are paid from.

One collector entry, one locker (the sweep treats the lockers of an entry independently; the multi-locker ledger is C13's
`Model/Locker.lean`). Quirks modelled as they are: deposit and withdraw re-stamp the locker with the CURRENT height even while the
rate is zero (so the flag is lost — see `C18.zero_rate_window_touched_counterexample`); a reward-calc message at rate zero stamps
nothing; the sweep `continue`s after lowering the tracker when the net fees cannot pay (whole units lost, stamp not renewed) and
`return`s on a calculation error; `LockerSavingRate != LSR` compares two `sdk.Dec` structs (pointers), i.e. is always true, so an
update with an unchanged rate takes the same branches. Core Lean only.
-/
namespace Comdex.LockerAccrual
open Comdex Comdex.Accrual

/-- collector lookup entry: saving rate and time stamp -/
structure Coll where
  lsr : Dec              -- LockerSavingRate
  bh : Int               -- BlockHeight
  bt : Int               -- BlockTime (Unix seconds)
  deriving DecidableEq, Repr

structure Locker where
  net : Int              -- NetBalance
  ret : Int              -- ReturnsAccumulated
  bh : Int               -- BlockHeight: 0 = "accrue from the collector entry's BlockTime"
  bt : Int               -- BlockTime (Unix seconds)
  deriving DecidableEq, Repr

structure St where
  wl : Bool              -- (app, asset) whitelisted for internal rewards (`GetReward` found)
  coll : Coll
  fees : Int             -- NetFeesCollected of the (app, asset): savings are paid out of it
  locker : Option Locker
  tracker : Option Dec   -- LockerRewardsTracker.RewardsAccumulated of the current locker, `none` = no record
  deriving DecidableEq, Repr

structure Ctx where
  now : Int              -- ctx.BlockTime().Unix()
  height : Int           -- ctx.BlockHeight()
  deriving DecidableEq, Repr

/-- start of the interval that is accrued -/
def since (collBt bh bt : Int) : Int := if bh = 0 then collBt else bt

/-- the locker's clock: where its next accrual interval starts -/
def clock (s : St) (l : Locker) : Int := since s.coll.bt l.bh l.bt

inductive Res where
  | ok (s : St)
  | err
  | panic
  deriving DecidableEq, Repr

/-- the tail of `CalculateLockerRewards` / of one sweep iteration once `x` has been computed: tracker, whole units out of the net
fees into the balance, stamp `(h, t)`. `none`: the net fees cannot pay the whole units (`DecreaseNetFeeCollectedData` fails). -/
def book (s : St) (l : Locker) (x : Dec) (h t : Int) : Option St :=
  let tr := s.tracker.getD 0
  if Dec.one ≤ tr + x then
    let r := trackerStep tr x
    if s.fees - r.1 < 0 then none
    else some { s with tracker := some r.2, fees := s.fees - r.1,
                       locker := some { net := l.net + r.1, ret := l.ret + r.1, bh := h, bt := t } }
  else some { s with tracker := some (tr + x), locker := some { l with bh := h, bt := t } }

/-- `CalculateLockerRewards(ctx, app, asset, id, _, NetBalance, BlockHeight, BlockTime)` as called by the messages (arguments =
the stored locker). `pw` = the value `math.Pow` returns for this call (`none` = NaN/±Inf). -/
def accrue (s : St) (ctx : Ctx) (l : Locker) (pw : Option Int) : Res :=
  if !s.wl then .ok s
  else if s.coll.lsr = 0 then .ok s
  else match calcRewards l.net s.coll.lsr (ctx.now - clock s l) pw with
    | .ok x => match book s l x ctx.height ctx.now with
      | some s1 => .ok s1
      | none => .err
    | .err => .err
    | .panic => .panic

/-- one locker of `LockerIterateRewards(ctx, rate, _, collBt, app, asset, changeTypes)`. `none` = panic. -/
def iter (s : St) (ctx : Ctx) (rate : Dec) (collBt : Int) (changeTypes : Bool) (pw : Option Int) : Option St :=
  match s.locker with
  | none => some s
  | some l =>
    match calcRewards l.net rate (ctx.now - since collBt l.bh l.bt) pw with
    | .panic => none
    | .err => some s                                  -- `return`: nothing written
    | .ok x =>
      match book s l x (if changeTypes then ctx.height else 0) ctx.now with
      | some s1 => some s1
      | none =>                                       -- `continue` after `SetLockerRewardTracker`: whole units lost, no stamp
        some { s with tracker := some (trackerStep (s.tracker.getD 0) x).2 }

inductive Op where
  | create (amt : Int)
  | deposit (amt : Int)
  | withdraw (amt : Int)
  | close
  | rewardCalc
  | lsrUpdate (newRate : Dec)      -- WasmUpdateCollectorLookupTable
  | wlOn                           -- WhitelistAssetForInternalRewards
  | wlOff                          -- WasmRemoveWhitelistAssetLocker
  deriving DecidableEq, Repr

def Res.map (r : Res) (f : St → St) : Res :=
  match r with
  | .ok s => .ok (f s)
  | .err => .err
  | .panic => .panic

/-- stamp written by deposit / withdraw after the accrual -/
def restamp (s : St) (ctx : Ctx) (delta : Int) : St :=
  match s.locker with
  | some l => { s with locker := some { l with net := l.net + delta, bh := ctx.height, bt := ctx.now } }
  | none => s

/-- result of a rate update whose sweep returned `o`: the collector entry is written afterwards; a panic aborts the contract call -/
def sweepRes (o : Option St) (c : Coll) : Res :=
  match o with
  | some s1 => .ok { s1 with coll := c }
  | none => .panic

/-- one message / binding call; `pw` = value of the one `math.Pow` call it makes (if it makes one) -/
def step (s : St) (ctx : Ctx) (op : Op) (pw : Option Int) : Res :=
  match op with
  | .create amt =>
    if amt ≤ 0 then .err                                            -- ValidateBasic
    else match s.locker with
      | some _ => .err                                              -- ErrorUserLockerAlreadyExists
      | none =>
        .ok { s with locker := some { net := amt, ret := 0, bh := if s.coll.lsr = 0 then 0 else ctx.height, bt := ctx.now },
                     tracker := none }
  | .deposit amt =>
    if amt ≤ 0 then .err
    else match s.locker with
      | none => .err
      | some l => (accrue s ctx l pw).map fun s1 => restamp s1 ctx amt
  | .withdraw amt =>
    if amt ≤ 0 then .err
    else match s.locker with
      | none => .err
      | some l =>
        if l.net < amt then .err                                    -- checked BEFORE the accrual
        else (accrue s ctx l pw).map fun s1 => restamp s1 ctx (-amt)
  | .close =>
    match s.locker with
    | none => .err
    | some l => (accrue s ctx l pw).map fun s1 => { s1 with locker := none, tracker := none }
  | .rewardCalc =>
    match s.locker with
    | none => .err
    | some l => accrue s ctx l pw
  | .lsrUpdate nr =>
    if s.wl then
      if nr = 0 then sweepRes (iter s ctx s.coll.lsr s.coll.bt false pw) ⟨nr, 0, ctx.now⟩
      else if s.coll.lsr = 0 then .ok { s with coll := ⟨nr, ctx.height, ctx.now⟩ }
      else if 0 < s.coll.lsr ∧ 0 < nr then sweepRes (iter s ctx s.coll.lsr s.coll.bt true pw) ⟨nr, ctx.height, ctx.now⟩
      else .ok { s with coll := ⟨nr, s.coll.bh, s.coll.bt⟩ }
    else .ok { s with coll := ⟨nr, s.coll.bh, s.coll.bt⟩ }
  | .wlOn => .ok { s with wl := true }
  | .wlOff => if s.wl then .ok { s with wl := false } else .err       -- ErrInternalRewardsNotFound

/-- what the locker has been credited so far: whole units (`ReturnsAccumulated`) plus the tracker fraction, raw 10^-18 -/
def booked (s : St) : Int :=
  (match s.locker with | some l => l.ret | none => 0) * Dec.P + s.tracker.getD 0

/-! ## the same steps with the power function supplied by `FloatOps` (for the theorems): the arguments of `math.Pow` are
computed from the state exactly as the code does -/

/-- the value `math.Pow` returns for the call `op` makes in state `s` -/
def powOf (ops : FloatOps) (s : St) (ctx : Ctx) : Option Int :=
  match s.locker with
  | some l => some (ops.pow (xF s.coll.lsr) (yF (ctx.now - clock s l)))
  | none => none

def stepWith (ops : FloatOps) (s : St) (ctx : Ctx) (op : Op) : Res := step s ctx op (powOf ops s ctx)

/-- rejected calls leave the state as it was (messages run on a cache context that is written back on success only) -/
def Res.getD (r : Res) (s : St) : St := match r with | .ok s1 => s1 | _ => s

/-- a history: block context, operation, power value -/
abbrev Hist := List (Ctx × Op × Option Int)

def run (s : St) : Hist → St
  | [] => s
  | (ctx, op, pw) :: h => run ((step s ctx op pw).getD s) h

def runWith (ops : FloatOps) (s : St) : List (Ctx × Op) → St
  | [] => s
  | (ctx, op) :: h => runWith ops ((stepWith ops s ctx op).getD s) h

/-! ## ghost time accounting (specification side, independent of the stamps)

For a fixed rate value `r`: `pos` = seconds that have passed while the saving rate was `r`; `acc` = seconds for which the locker
has been credited savings at rate `r`. The theorems bound `acc` (plus what the locker could still claim) by `pos`. -/

structure Ghost where
  last : Int             -- time of the previous step
  pos : Int
  acc : Int
  deriving DecidableEq, Repr

def Op.accruing : Op → Bool
  | .deposit _ | .withdraw _ | .close | .rewardCalc | .lsrUpdate _ => true
  | _ => false

/-- the accepted step `op` in state `s` runs the savings formula for the locker (at the rate in force BEFORE the step) -/
def accrues (s : St) (op : Op) : Bool :=
  s.wl && s.coll.lsr != 0 && s.locker.isSome && op.accruing

def accepted (r : Res) : Bool := match r with | .ok _ => true | _ => false

/-- the span the locker could claim if it accrued now (time `t`), at rate `r` -/
def pending (r : Dec) (s : St) (t : Int) : Int :=
  match s.locker with
  | some l => if s.coll.lsr = r then t - clock s l else 0
  | none => 0

/-- seconds credited at rate `r` by the step: the accrued interval, if the step is accepted, accrues, and the rate in force is `r` -/
def accTerm (r : Dec) (s : St) (ctx : Ctx) (op : Op) (pw : Option Int) : Int :=
  if accepted (step s ctx op pw) && accrues s op && decide (s.coll.lsr = r)
  then (match s.locker with | some l => ctx.now - clock s l | none => 0) else 0

def gstep (r : Dec) (s : St) (g : Ghost) (ctx : Ctx) (op : Op) (pw : Option Int) : Ghost :=
  { last := ctx.now,
    pos := g.pos + (if s.coll.lsr = r then ctx.now - g.last else 0),
    acc := g.acc + accTerm r s ctx op pw }

def grun (r : Dec) (s : St) (g : Ghost) : Hist → St × Ghost
  | [] => (s, g)
  | (ctx, op, pw) :: h => grun r ((step s ctx op pw).getD s) (gstep r s g ctx op pw) h

/-- the sweep of a rate update reaches the locker and pays it: the calculation succeeds and the net fees cover the whole units -/
def sweepFine (s : St) (ctx : Ctx) (pw : Option Int) : Bool :=
  match s.locker with
  | none => true
  | some l =>
    match calcRewards l.net s.coll.lsr (ctx.now - clock s l) pw with
    | .ok x => (book s l x 0 ctx.now).isSome
    | _ => false

/-- side conditions of a step of a history the time-budget theorem speaks about: the chain's clock does not run backwards,
heights are non-zero, rates are not negative, the whitelist is not switched, a rate update's sweep reaches the locker, and — the
ONE restriction that excludes real behaviour of real users — no deposit / withdraw while the saving rate is zero. -/
def opCond (s : St) (ctx : Ctx) (op : Op) (pw : Option Int) : Bool :=
  match op with
  | .deposit _ | .withdraw _ => s.coll.lsr != 0
  | .lsrUpdate nr => decide (0 ≤ nr) && (s.coll.lsr == 0 || sweepFine s ctx pw)
  | .wlOff => false
  | _ => true

def goodStep (s : St) (last : Int) (ctx : Ctx) (op : Op) (pw : Option Int) : Bool :=
  decide (last ≤ ctx.now) && decide (ctx.height ≠ 0) && opCond s ctx op pw

def goodHist (s : St) (last : Int) : Hist → Bool
  | [] => true
  | (ctx, op, pw) :: h => goodStep s last ctx op pw && goodHist ((step s ctx op pw).getD s) ctx.now h


/-! ## the repair of defect D45 (notes/C18.md): deposit / withdraw write the flag while the rate is zero, as create does

`stepFix` is NOT what the code does; it is the model of the three-line patch given in the notes. The driver accepts it as well as
`step` for deposit / withdraw (so that a repaired tree checks clean), and `C18.savings_only_for_time_at_positive_rate_repaired`
proves that with it the time-budget theorem needs no restriction on deposits and withdrawals. -/

def restampFix (s : St) (ctx : Ctx) (delta : Int) : St :=
  match s.locker with
  | some l => { s with locker := some { l with net := l.net + delta, bh := if s.coll.lsr = 0 then 0 else ctx.height, bt := ctx.now } }
  | none => s

def stepFix (s : St) (ctx : Ctx) (op : Op) (pw : Option Int) : Res :=
  match op with
  | .deposit amt =>
    if amt ≤ 0 then .err
    else match s.locker with
      | none => .err
      | some l => (accrue s ctx l pw).map fun s1 => restampFix s1 ctx amt
  | .withdraw amt =>
    if amt ≤ 0 then .err
    else match s.locker with
      | none => .err
      | some l =>
        if l.net < amt then .err
        else (accrue s ctx l pw).map fun s1 => restampFix s1 ctx (-amt)
  | op => step s ctx op pw

def accTermFix (r : Dec) (s : St) (ctx : Ctx) (op : Op) (pw : Option Int) : Int :=
  if accepted (stepFix s ctx op pw) && accrues s op && decide (s.coll.lsr = r)
  then (match s.locker with | some l => ctx.now - clock s l | none => 0) else 0

def gstepFix (r : Dec) (s : St) (g : Ghost) (ctx : Ctx) (op : Op) (pw : Option Int) : Ghost :=
  { last := ctx.now,
    pos := g.pos + (if s.coll.lsr = r then ctx.now - g.last else 0),
    acc := g.acc + accTermFix r s ctx op pw }

def grunFix (r : Dec) (s : St) (g : Ghost) : Hist → St × Ghost
  | [] => (s, g)
  | (ctx, op, pw) :: h => grunFix r ((stepFix s ctx op pw).getD s) (gstepFix r s g ctx op pw) h

/-- `goodStep` without the restriction on deposit / withdraw -/
def opCondFix (s : St) (ctx : Ctx) (op : Op) (pw : Option Int) : Bool :=
  match op with
  | .lsrUpdate nr => decide (0 ≤ nr) && (s.coll.lsr == 0 || sweepFine s ctx pw)
  | .wlOff => false
  | _ => true

def goodStepFix (s : St) (last : Int) (ctx : Ctx) (op : Op) (pw : Option Int) : Bool :=
  decide (last ≤ ctx.now) && decide (ctx.height ≠ 0) && opCondFix s ctx op pw

def goodHistFix (s : St) (last : Int) : Hist → Bool
  | [] => true
  | (ctx, op, pw) :: h => goodStepFix s last ctx op pw && goodHistFix ((stepFix s ctx op pw).getD s) ctx.now h

end Comdex.LockerAccrual
