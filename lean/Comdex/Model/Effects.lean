import Comdex.Gen.EffectsT
/-! # Effects — projections of the regenerated effect skeletons (`Gen/Effects.lean`, extract/effects)

Core Lean only.  Used by `Props/C01Effects.lean`, `C02Effects`, `C13Effects`, `C08Effects`, `C10Effects`, `C11Effects`.

The generated table lists, per handler, the ordered effect items (bank calls, record writes, opaque calls, mid-effect guards)
with normalised argument texts and path conditions.  Here:

* `Skel R D` — what a tie compares of one bank call: kind (send / mint / burn), source and destination ROLE, denomination ROLE
  and the class "executed only if its own amount is positive".  Amount expressions are NOT compared (the correspondence runs do
  that).
* `Roles R D` — the reviewed table text ↦ role of one handler family (in the `Props` file of the property).
* a *valuation* `String → Option Bool` gives the truth value of the branch conditions a path depends on (`none` = the text is
  not in the reviewed table: the projection fails, so a NEW condition in the source makes the obligation fail).
* `goSkel roles val h` — the bank skeleton of handler `h` on the path selected by `val`; `none` if some bank item or condition is
  not classified.
* table-wide checks: `allBankClassified`, `opaqueCalls`, `ownWritesAfterBank`, `ownWrites`.
-/
namespace Comdex.Effects
open Comdex.Gen.Effects

inductive BKind where
  | send | mint | burn
  deriving DecidableEq, Repr

def bkindOf : String → Option BKind
  | "SendCoins" => some .send
  | "SendCoinsFromAccountToModule" => some .send
  | "SendCoinsFromModuleToAccount" => some .send
  | "SendCoinsFromModuleToModule" => some .send
  | "MintCoins" => some .mint
  | "BurnCoins" => some .burn
  | _ => none

/-- one bank call as the ties see it -/
structure Skel (R D : Type) where
  kind  : BKind
  src   : Option R      -- `none` for a mint
  dst   : Option R      -- `none` for a burn
  denom : D
  pos   : Bool          -- guarded by a positivity test of its own amount (`if amt.GT(0) { … }`)
  deriving DecidableEq, Repr

/-- reviewed text ↦ role tables of one handler family -/
structure Roles (R D : Type) where
  acct  : String → Option R
  denom : String → Option D
  /-- match on the ABSTRACT party / denomination texts (`srcA`, `dstA`, `denomA`: argument lists of calls nested deeper than
  one level elided) instead of the full ones — for modules whose parties are looked up through long chains -/
  abstract : Bool := false

abbrev Val := String → Option Bool

/-- lookup in an association list of condition texts -/
def valOf (tbl : List (String × Bool)) : Val := fun t => (tbl.find? (·.1 == t)).map (·.2)

def bankItems (h : Handler) : List Item := h.items.filter (·.kind == "bank")

/-- truth of one path condition under the valuation.  A positivity test of the item's own amount (`pos`) does not select a
path when the valuation is silent about it: it becomes the CLASS of the item (`isPos`).  When the valuation knows its value
(the amount was validated positive before, or the model branches on the same test) it is an ordinary branch condition. -/
def condHolds (val : Val) (c : Cond) : Option Bool :=
  if c.kind == "pos" then some ((val c.text).getD true) else (val c.text).map (· == c.pol)

/-- `some true` = the item is executed on the selected path; `none` = a condition of the item is not in the table
(unless another one already excludes the item) -/
def onPath (val : Val) (it : Item) : Option Bool :=
  if it.conds.any (fun c => condHolds val c == some false) then some false
  else if it.conds.all (fun c => condHolds val c == some true) then some true
  else none

def isPos (val : Val) (it : Item) : Bool :=
  it.conds.any (fun c => c.kind == "pos" && (val c.text).isNone)

def skelOf {R D : Type} (r : Roles R D) (val : Val) (it : Item) : Option (Skel R D) :=
  match bkindOf it.op with
  | none => none
  | some k =>
    let src : Option (Option R) := if k == .mint then some none else (r.acct (if r.abstract then it.srcA else it.src)).map some
    let dst : Option (Option R) := if k == .burn then some none else (r.acct (if r.abstract then it.dstA else it.dst)).map some
    match src, dst, r.denom (if r.abstract then it.denomA else it.denom) with
    | some s, some d, some dn => some ⟨k, s, d, dn, isPos val it⟩
    | _, _, _ => none

def goSkelItems {R D : Type} (r : Roles R D) (val : Val) : List Item → Option (List (Skel R D))
  | [] => some []
  | it :: rest =>
    match onPath val it, goSkelItems r val rest with
    | some true, some l => (skelOf r val it).map (· :: l)
    | some false, some l => some l
    | _, _ => none

/-- the bank skeleton of `h` on the path selected by `val` -/
def goSkel {R D : Type} (r : Roles R D) (val : Val) (h : Handler) : Option (List (Skel R D)) :=
  goSkelItems r val (bankItems h)

/-- every bank item of the handler has a kind, parties and a denomination the role table knows -/
def allBankClassified {R D : Type} (r : Roles R D) (h : Handler) : Bool :=
  (bankItems h).all fun it => (skelOf r (fun _ => none) it).isSome

/-- bank items whose op the projection does not know (must be empty in a covered handler) -/
def unknownBankOps (h : Handler) : List String :=
  ((bankItems h).filter fun it => (bkindOf it.op).isNone).map (·.op)

def opaqueCalls (h : Handler) : List String := (h.items.filter (·.kind == "call")).map (·.op)

/-! ## order of record writes and bank calls -/

/-- two items can lie on one execution path: no condition text occurs in both with opposite polarity -/
def compatible (a b : Item) : Bool :=
  !(a.conds.any fun c => b.conds.any fun d => c.text == d.text && c.pol != d.pol)

/-- a write of the handler's OWN module made by the handler body itself (not by an inlined helper of another keeper) -/
def isOwnWrite (h : Handler) (it : Item) : Bool :=
  it.kind == "write" && it.fn == h.name && it.op.startsWith (h.module ++ ".")

def violatesBankFirst (h : Handler) : List Item → Bool
  | [] => false
  | it :: rest =>
    (isOwnWrite h it && rest.any fun b => b.kind == "bank" && compatible it b) || violatesBankFirst h rest

/-- on every path, the handler body writes its own records only after its last bank call -/
def ownWritesAfterBank (h : Handler) : Bool := !violatesBankFirst h h.items

/-- names of the own record writes of the handler body, in source order -/
def ownWrites (h : Handler) : List String := (h.items.filter (isOwnWrite h)).map (·.op)

/-- all writes (any module, any depth), in source order -/
def allWrites (h : Handler) : List String := (h.items.filter (·.kind == "write")).map (·.op)

/-! ## golden form (handlers whose model does not expose its bank calls as data) -/

/-- the path conditions of an item as a signature: polarity and the 32-bit hash of the WHOLE condition text (numbers compare
fast in the kernel; a change anywhere in a condition changes its hash) -/
def condSig (it : Item) : List (Bool × Nat) := it.conds.map fun c => (c.pol, c.h)

/-- a bank item reduced to op, party and denomination TEXTS, positivity class, condition signature, loop / cache flags —
the literal a golden pin compares with -/
structure Pin where
  op    : String
  src   : String
  dst   : String
  denom : String
  pos   : Bool
  conds : List (Bool × Nat)
  loop  : Bool
  cache : Bool
  deriving DecidableEq, Repr

def pinOf (it : Item) : Pin :=
  ⟨it.op, it.src, it.dst, it.denom, it.conds.any (·.kind == "pos"), condSig it, it.inLoop, it.cache⟩

def pins (h : Handler) : List Pin := (bankItems h).map pinOf

/-- golden pin on the ABSTRACT party / denomination texts (short, readable, few distinct values) -/
structure APin where
  op    : String
  src   : String
  dst   : String
  denom : String
  pos   : Bool
  conds : List (Bool × Nat)
  loop  : Bool
  cache : Bool
  deriving DecidableEq, Repr

def apinOf (it : Item) : APin :=
  ⟨it.op, it.srcA, it.dstA, it.denomA, it.conds.any (·.kind == "pos"), condSig it, it.inLoop, it.cache⟩

def apins (h : Handler) : List APin := (bankItems h).map apinOf

/-- the same with parties and denomination mapped to ROLES by a reviewed (pattern) table -/
structure RPin (R D : Type) where
  kind  : BKind
  src   : Option R
  dst   : Option R
  denom : D
  pos   : Bool
  conds : List (Bool × Nat)
  loop  : Bool
  cache : Bool
  deriving DecidableEq, Repr

def rpinOf {R D : Type} (r : Roles R D) (it : Item) : Option (RPin R D) :=
  (skelOf r (fun _ => none) it).map fun s => ⟨s.kind, s.src, s.dst, s.denom, s.pos, condSig it, it.inLoop, it.cache⟩

def rpinsOf {R D : Type} (r : Roles R D) : List Item → Option (List (RPin R D))
  | [] => some []
  | it :: rest => match rpinOf r it, rpinsOf r rest with
    | some a, some l => some (a :: l)
    | _, _ => none

def rpins {R D : Type} (r : Roles R D) (h : Handler) : Option (List (RPin R D)) := rpinsOf r (bankItems h)

end Comdex.Effects
