/-! # The ESM price snapshot (x/esm/keeper/esm.go `SnapshotOfPrices`, x/esm/abci.go) — executable model, core Lean only

After an app's emergency shutdown the esm BeginBlocker calls `SnapshotOfPrices` on every block until
`ESMStatus.SnapshotStatus` is set. The function walks the assets with `IsOraclePriceRequired` in store order:

```
price, found := k.market.GetTwa(ctx, a.Id)
if !found { continue }
_, found = k.GetSnapshotOfPrices(ctx, esmStatus.AppId, a.Id)
if price.IsPriceActive && !found { k.SetSnapshotOfPrices(ctx, esmStatus.AppId, a.Id, price.Twa) }
else if !price.IsPriceActive { return nil }          -- before the status is set
…
esmStatus.SnapshotStatus = true
```

Afterwards the vault module (`CalculateCollateralizationRatio`, ESM branch) and the redemption code read the snapshot
INSTEAD of the oracle — and only when the status is set (`statusEsm && esmStatus.SnapshotStatus`, resp. the
`esmStatus.SnapshotStatus` test of the BeginBlocker before the redemption set-up). -/
namespace Comdex.EsmSnapshot

/-- what `SnapshotOfPrices` sees of one oracle-priced asset in one block -/
structure Feed where
  asset : Nat
  found : Bool    -- a TWA record exists
  active : Bool   -- `IsPriceActive`
  twa : Nat       -- the stored `Twa` (kept, stale, while the feed is inactive)
deriving Repr, DecidableEq

/-- snapshot entries of one app, in insertion order -/
abbrev Entries := List (Nat × Nat)

def lookup : Entries → Nat → Option Nat
  | [], _ => none
  | (k, v) :: r, a => if k = a then some v else lookup r a

structure St where
  entries : Entries := []
  status : Bool := false
deriving Repr, DecidableEq

/-- the loop of `SnapshotOfPrices`: the entries after it and whether it reached the end (`true`) or left at an inactive
feed (`false`) -/
def walk : List Feed → Entries → Entries × Bool
  | [], es => (es, true)
  | f :: fs, es =>
    if !f.found then walk fs es
    else if f.active then walk fs (if (lookup es f.asset).isNone then es ++ [(f.asset, f.twa)] else es)
    else (es, false)

/-- one block of the esm BeginBlocker for a shut-down app: nothing once the status is set -/
def snapshotStep (st : St) (feeds : List Feed) : St :=
  if st.status then st else
    let r := walk feeds st.entries
    { entries := r.1, status := r.2 }

/-- all blocks since the shutdown -/
def run (st : St) (blocks : List (List Feed)) : St := blocks.foldl snapshotStep st

/-- the price a consumer gets for an asset after the shutdown: the snapshot entry, and only once the snapshot is complete
(otherwise the vault handler does not get a price at all and the redemption set-up does not start) -/
def snapshotPrice (st : St) (a : Nat) : Option Nat := if st.status then lookup st.entries a else none

/-- every price of `needs` is available -/
def available (st : St) (needs : List Nat) : Bool := needs.all fun a => (snapshotPrice st a).isSome

/-- the asset's feed was found and active in that block -/
def activeIn (feeds : List Feed) (a : Nat) : Bool := feeds.any fun f => f.asset == a && f.found && f.active

/-- … with that TWA -/
def activeAt (feeds : List Feed) (a p : Nat) : Bool := feeds.any fun f => f.asset == a && f.found && f.active && f.twa == p

/-- decidable form of the property for ONE observed block (`before`/`after` = the real entries and status): entries are
never dropped or changed, a new entry is the current TWA of a feed that is active in this block, and the status is only
set in a block in which no found feed is inactive and every found feed has its entry -/
def stepOk (feeds : List Feed) (before after : St) : Bool :=
  before.entries.all (fun e => lookup after.entries e.1 == lookup before.entries e.1) &&
  after.entries.all (fun e => (lookup before.entries e.1).isSome || activeAt feeds e.1 e.2) &&
  (before.status || !after.status ||
    feeds.all (fun f => !f.found || (f.active && (lookup after.entries f.asset).isSome)))

end Comdex.EsmSnapshot
