import Comdex.Model.Lend
import Comdex.Model.LendRates
/-!
The accrual bookkeeping of x/lend positions (iter.go:12-184, keeper.go after every `IterateLends` / `IterateBorrow` call,
liquidate.go `IterateBorrowForLiq`), layered on the ledger model `Model/Lend.lean`.  Core Lean only.

The ledger model takes the *amounts* an accrual adds (interest and reserve share of a borrow, whole-token reward of a lend) as inputs
and its theorems hold for every such amount.  This file computes those amounts: each position carries its accrual state — global
index, reserve global index, last interaction time, stable rate (borrow); global index, last interaction time, fractional reward
tracker (lend) — and one accrual is the index arithmetic of `Comdex.LendRates` (C18's validated model of `CalculateBorrowInterest`,
`CalculateStableInterest`, `CalculateLendReward`) at the elapsed time, for the RATES in force.  The rates themselves (borrow APR,
reserve rate, lend APR: functions of utilisation and parameters) stay inputs printed by the harness: their laws are property C18.
What is external shrinks from "amounts" to "rates"; the driver recomputes every amount and every index and compares them bit for bit
with the real records.
-/
namespace Comdex.Lend
open Comdex Comdex.LendRates

/-- accrual state of a borrow position (`BorrowAsset.{GlobalIndex, ReserveGlobalIndex, LastInteractionTime, StableBorrowRate}`) -/
structure AccB where
  id : Nat
  gi : Dec
  rgi : Dec
  last : Int          -- Unix seconds
  stableRate : Dec
  deriving Repr, DecidableEq

/-- accrual state of a lend position (`LendAsset.{GlobalIndex, LastInteractionTime}` and `LendRewardsTracker.RewardsAccumulated`) -/
structure AccL where
  id : Nat
  gi : Dec
  last : Int
  tracker : Dec
  deriving Repr, DecidableEq

/-- result of one `IterateBorrow`: what the ledger receives (`ExtB`) and the indices the handler stores afterwards -/
structure BorrowAccrual where
  ext : ExtB
  gi : Dec
  rgi : Dec
  deriving Repr, DecidableEq

/-- `IterateBorrow` (iter.go:144-184): `CalculateBorrowInterest` at the current borrow APR and reserve rate, the stable-rate interest
for a stable borrow; `rr = none` = `GetReserveRate` failed. -/
def accrueBorrow (a : AccB) (amountOut : Int) (stable : Bool) (apr : Dec) (rr : Option Dec) (now : Int) : BorrowAccrual :=
  match rr with
  | none => { ext := .err, gi := a.gi, rgi := a.rgi }
  | some rr =>
    match borrowInterest amountOut apr rr a.gi a.rgi now a.last with
    | .err => { ext := .err, gi := a.gi, rgi := a.rgi }
    | .panic => { ext := .panic, gi := a.gi, rgi := a.rgi }
    | .ok [dI, gi', dR, rgi'] =>
      if stable then
        match stableBorrowInterest amountOut a.stableRate now a.last with
        | .ok [dS] => { ext := .val dS dR, gi := gi', rgi := rgi' }
        | _ => { ext := .err, gi := a.gi, rgi := a.rgi }
      else { ext := .val dI dR, gi := gi', rgi := rgi' }
    | .ok _ => { ext := .err, gi := a.gi, rgi := a.rgi }

/-- the accrual state after a handler stored the result of `IterateBorrow` (`GlobalIndex`, `ReserveGlobalIndex`, `LastInteractionTime`) -/
def AccB.after (a : AccB) (r : BorrowAccrual) (now : Int) : AccB := { a with gi := r.gi, rgi := r.rgi, last := now }

structure LendAccrual where
  reward : Int        -- whole tokens paid out (`newInterestPerInteraction`)
  gi : Dec
  tracker : Dec
  panicked : Bool
  deriving Repr, DecidableEq

/-- `IterateLends` (iter.go:12-40): `CalculateLendReward` at the current lend APR (its error — negative elapsed time — is dropped by
the caller and leaves zero values), added to the fractional tracker; whole tokens are paid, the fraction is carried. -/
def accrueLend (a : AccL) (amountIn : Int) (apr : Dec) (now : Int) : LendAccrual :=
  match lendReward amountIn apr a.gi now a.last with
  | .panic => { reward := 0, gi := a.gi, tracker := a.tracker, panicked := true }
  | .ok [per, gi'] =>
    let t := a.tracker + per
    if Dec.one ≤ t then { reward := Dec.truncateInt t, gi := gi', tracker := t - Dec.ofInt (Dec.truncateInt t), panicked := false }
    else { reward := 0, gi := gi', tracker := t, panicked := false }
  | _ => { reward := 0, gi := 0, tracker := a.tracker, panicked := false }

def AccL.after (a : AccL) (r : LendAccrual) (now : Int) : AccL := { a with gi := r.gi, last := now, tracker := r.tracker }

/-- what is carried plus what is paid is what was there plus what accrued (the tracker loses nothing) -/
def trackerConserved (a : AccL) (per : Dec) (r : LendAccrual) : Prop :=
  Dec.ofInt r.reward + r.tracker = a.tracker + per

end Comdex.Lend
