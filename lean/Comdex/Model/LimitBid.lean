import Comdex.Model.English
/-!
# Limit-bid deposits of x/auctionsV2 (model)

Hand-written from `x/auctionsV2/keeper/bid.go:496-675` (`DepositLimitAuctionBid`, `CancelLimitAuctionBid`,
`WithdrawLimitAuctionBid`), the key encoder `x/auctionsV2/types/keys.go:78-80` (`premium.Uint64()` panics on a
negative premium) and the stateless validation `x/auctionsV2/types/tx.go:57-152` (ids non-zero, amount positive).

The limit-bid deposits live in the same module account as the standing bids of the second-generation English
auctions, so the state *extends* the English-auction state and the op alphabet contains the English ops.

* `deps`  : `LimitOrderBid.DebtToken.Amount`, keyed by (debt asset, collateral asset, premium, bidder)
* `bv`    : `LimitBidProtocolData.BidValue`, keyed by (debt asset, collateral asset)
* `fees`  : ghost — fees retained in custody per denomination (the code's own fee record is not read by anything
            this property speaks about)
* `assets`: the asset registry (asset id ↦ denomination); a record's coin is in the denomination of its debt asset
            (checked at deposit time, `bid.go:517`).

`WithdrawLimitAuctionBid` is modelled WITH the repaired guard (`guarded = true`: the coin's denomination must be
the deposited one and the amount must not exceed the outstanding deposit).  `guarded = false` is the code as it
stands in the unrepaired tree (defect D5); it is used only by the counterexample theorem.  Core Lean only.
-/
namespace Comdex.LimitBid
open Comdex.English

/-! generic keyed lists (first match wins; `putK` replaces the first match or appends) -/

def getK {κ : Type} [DecidableEq κ] : List (κ × Int) → κ → Option Int
  | [], _ => none
  | (k', v) :: t, k => if k' = k then some v else getK t k

def putK {κ : Type} [DecidableEq κ] : List (κ × Int) → κ → Int → List (κ × Int)
  | [], k, v => [(k, v)]
  | (k', v') :: t, k, v => if k' = k then (k, v) :: t else (k', v') :: putK t k v

def delK {κ : Type} [DecidableEq κ] : List (κ × Int) → κ → List (κ × Int)
  | [], _ => []
  | (k', v') :: t, k => if k' = k then t else (k', v') :: delK t k

def sumK {κ : Type} (p : κ → Bool) : List (κ × Int) → Int
  | [] => 0
  | (k, v) :: t => (if p k then v else 0) + sumK p t

def getD0 {κ : Type} [DecidableEq κ] (l : List (κ × Int)) (k : κ) : Int :=
  match getK l k with
  | some v => v
  | none => 0

structure Key where
  debt : Nat
  coll : Nat
  prem : Int
  who : Acct
deriving DecidableEq, Repr

structure State where
  eng : English.State
  deps : List (Key × Int)
  bv : List ((Nat × Nat) × Int)
  fees : List (Denom × Int)
  assets : List (Nat × Denom)
  closingFee : Dec
  withdrawalFee : Dec
deriving Repr

def denomOf : List (Nat × Denom) → Nat → Option Denom
  | [], _ => none
  | (i, d) :: t, id => if i = id then some d else denomOf t id

/-- `rate.Mul(sdk.NewDecFromInt(x)).TruncateInt()` -/
def fee (rate : Dec) (x : Int) : Int := Dec.truncateInt (Dec.mul rate (Dec.ofInt x))

def maxPremium : Int := 30

inductive Op where
  | eng (op : English.Op)
  | deposit (who : Acct) (coll debt : Nat) (prem : Int) (denom : Denom) (amt : Int)
  | cancel (who : Acct) (coll debt : Nat) (prem : Int)
  | withdraw (who : Acct) (coll debt : Nat) (prem : Int) (denom : Denom) (amt : Int)
deriving Repr

def setBank (s : State) (b : Bank) : State := { s with eng := { s.eng with bank := b } }

def depositStep (s : State) (who : Acct) (coll debt : Nat) (prem : Int) (denom : Denom) (amt : Int) : Option State :=
  if coll = 0 ∨ debt = 0 ∨ amt ≤ 0 then none            -- ValidateBasic
  else if prem > maxPremium then none
  else match denomOf s.assets coll with
  | none => none
  | some _ =>
    match denomOf s.assets debt with
    | none => none
    | some dd =>
      if dd ≠ denom then none
      else if prem < 0 then none                         -- the key encoder panics
      else
        let k : Key := ⟨debt, coll, prem, who⟩
        match send s.eng.bank who s.eng.cust denom amt with
        | none => none
        | some b =>
          some { setBank s b with
                 deps := putK s.deps k (getD0 s.deps k + amt),
                 bv := putK s.bv (debt, coll) (getD0 s.bv (debt, coll) + amt) }

/-- `CancelLimitAuctionBid` once the record `rec` has been found; `dd` is the record's denomination -/
def cancelCore (s : State) (k : Key) (rec : Int) (dd : Denom) : Option State :=
  if rec > 0 then
    let f := fee s.closingFee rec
    match send s.eng.bank s.eng.cust k.who dd (rec - f) with
    | none => none
    | some b =>
      some { setBank s b with
             deps := delK s.deps k,
             bv := putK s.bv (k.debt, k.coll) (getD0 s.bv (k.debt, k.coll) - rec),
             fees := putK s.fees dd (getD0 s.fees dd + f) }
  else
    some { s with deps := delK s.deps k, bv := putK s.bv (k.debt, k.coll) (getD0 s.bv (k.debt, k.coll) - rec) }

def cancelStep (s : State) (who : Acct) (coll debt : Nat) (prem : Int) : Option State :=
  if coll = 0 ∨ debt = 0 then none                        -- ValidateBasic
  else if prem < 0 then none
  else
    let k : Key := ⟨debt, coll, prem, who⟩
    match getK s.deps k with
    | none => none
    | some rec =>
      match denomOf s.assets debt with
      | none => none
      | some dd => cancelCore s k rec dd

def withdrawStep (guarded : Bool) (s : State) (who : Acct) (coll debt : Nat) (prem : Int) (denom : Denom) (amt : Int) :
    Option State :=
  if coll = 0 ∨ debt = 0 ∨ amt ≤ 0 then none            -- ValidateBasic
  else if prem < 0 then none
  else
    let k : Key := ⟨debt, coll, prem, who⟩
    match getK s.deps k with
    | none => none
    | some rec =>
      match denomOf s.assets debt with
      | none => none
      | some dd =>
        -- the repaired guard (absent from the unrepaired tree, D5)
        if guarded ∧ (denom ≠ dd ∨ amt > rec) then none
        else if amt = rec then cancelCore s k rec dd
        else if rec > 0 then
          let f := fee s.withdrawalFee amt
          match send s.eng.bank s.eng.cust who denom (amt - f) with
          | none => none
          | some b =>
            some { setBank s b with
                   deps := putK s.deps k (rec - amt),
                   bv := putK s.bv (debt, coll) (getD0 s.bv (debt, coll) - amt),
                   fees := putK s.fees denom (getD0 s.fees denom + f) }
        else
          some { s with deps := putK s.deps k (rec - amt), bv := putK s.bv (debt, coll) (getD0 s.bv (debt, coll) - amt) }

def step (s : State) : Op → Option State
  | .eng op =>
    match English.step s.eng op with
    | none => none
    | some e => some { s with eng := e }
  | .deposit who coll debt prem denom amt => depositStep s who coll debt prem denom amt
  | .cancel who coll debt prem => cancelStep s who coll debt prem
  | .withdraw who coll debt prem denom amt => withdrawStep true s who coll debt prem denom amt

def apply (s : State) (op : Op) : State :=
  match step s op with
  | some s' => s'
  | none => s

def run (s : State) (ops : List Op) : State := ops.foldl apply s

def Op.sender? : Op → Option Acct
  | .eng op => op.sender?
  | .deposit who .. => some who
  | .cancel who .. => some who
  | .withdraw who .. => some who

def inMarket (debt coll : Nat) (k : Key) : Bool := decide (k.debt = debt ∧ k.coll = coll)
def inDenom (assets : List (Nat × Denom)) (d : Denom) (k : Key) : Bool := decide (denomOf assets k.debt = some d)

/-- total of the deposits of one market -/
def marketSum (deps : List (Key × Int)) (debt coll : Nat) : Int := sumK (inMarket debt coll) deps

/-- total of the deposits held in denomination `d` -/
def denomSum (s : State) (d : Denom) : Int := sumK (inDenom s.assets d) s.deps

end Comdex.LimitBid
