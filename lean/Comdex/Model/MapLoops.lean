import Comdex.Base.Dec
/-!
# Models of every `range` over a Go map in comdex consensus code (property C16)

A Go `for k, v := range m` visits every entry of `m` exactly once, in an order the runtime chooses afresh for
every loop. An *iteration order* of a map is therefore a list of `(key, value)` entries; two iteration orders
of the same map are permutations of each other (`List.Perm`), and their keys are pairwise distinct.
Each site found by `extract/determinism` (table `Gen.Determinism.mapRangeSites`) is modelled as a left fold
`entries.foldl body init` followed by `observable`, the projection of the loop's result that the Go code goes
on to use. Core Lean only (linked into the driver).

Sites on the unchanged tree (file:line — function — what the body does):
* `app/app.go:1310` — `App.ModuleAccountAddrs` — appends the key to `names`; `sort.Strings(names)`; a second
  loop (over the sorted slice) inserts `accounts[addr(name)] = true`.
* `x/liquidity/amm/match.go:392` — `DistributeOrderAmountToOrders` — `quoteCoinDiff = quoteCoinDiff.Add(
  FillOrder(order, matchedAmt, price))`: mutates the order that IS the key, adds to an accumulator, may panic.
* `x/liquidity/amm/orderbook.go:133` — `OrderBook.String` — appends the value (a price) to `prices`;
  `stringRepresentation` sorts them (`sort.Slice`, `prices[i].GT(prices[j])`) before rendering.
* `x/liquidity/keeper/pool.go:736` — `Keeper.TransferFundsForSwapFeeDistribution` — `totalLiquidity =
  totalLiquidity.Add(pLiquidity)` over values that are all positive (`:731` returns early otherwise);
  `LegacyDec.Add` panics when the result needs more than 315 bits.
-/
namespace Comdex.MapLoops

/-- the loop `for k, v := range m { s = body s (k, v) }` run in the iteration order `entries` -/
def runLoop {σ ε : Type} (body : σ → ε → σ) (init : σ) (entries : List ε) : σ := entries.foldl body init

/-- keys of a Go map are pairwise distinct in every iteration order -/
def DistinctKeys {κ ν : Type} (entries : List (κ × ν)) : Prop := (entries.map Prod.fst).Nodup

/-! ## Sorting, as the Go code uses it

`sort.Strings`, `sort.Slice` are pattern-defeating quicksort: not stable, the algorithm is irrelevant. What the
callers rely on is the contract: the result is a rearrangement of the input and no element is out of order.
`IsSort le sort` is that contract; the theorems hold for EVERY function satisfying it (so also for Go's), the
executable instance used by the driver and the non-vacuity examples is core `List.mergeSort`. -/
structure IsSort {α : Type} (le : α → α → Prop) (sort : List α → List α) : Prop where
  perm : ∀ l, (sort l).Perm l
  sorted : ∀ l, (sort l).Pairwise le

/-! ## Site `app/app.go` `App.ModuleAccountAddrs` -/
namespace ModuleAccountAddrs

/-- `names = append(names, name)`; the value (permission list) is not used -/
def body (names : List String) (e : String × List String) : List String := names ++ [e.1]

def collect (entries : List (String × List String)) : List String := runLoop body [] entries

/-- what the code uses next: the slice after `sort.Strings` -/
def observable (sort : List String → List String) (names : List String) : List String := sort names

/-- second loop, over the sorted slice: `accounts[NewModuleAddress(name).String()] = true`; the resulting map
as a finite function -/
def accounts (addr : String → String) (sorted : List String) : String → Bool :=
  fun a => (sorted.map addr).contains a

def goSortStrings (l : List String) : List String := l.mergeSort (fun a b => decide (a ≤ b))

end ModuleAccountAddrs

/-! ## Site `x/liquidity/amm/orderbook.go` `OrderBook.String` -/
namespace OrderBookString

/-- `prices = append(prices, price)`; key = `price.String()`, value = the price (raw `Dec` = `Int` × 10^-18, written `Int` so that `omega` sees it) -/
def body (prices : List Int) (e : String × Int) : List Int := prices ++ [e.2]

def collect (entries : List (String × Int)) : List Int := runLoop body [] entries

/-- `sort.Slice(prices, func(i, j) bool { return prices[i].GT(prices[j]) })`: descending.
`le a b` = "a may stand before b" = `¬ less b a` = `¬ (b > a)` -/
def le (a b : Int) : Prop := a ≥ b

def observable (sort : List Int → List Int) (prices : List Int) : List Int := sort prices

def goSortDesc (l : List Int) : List Int := l.mergeSort (fun (a b : Int) => decide (a ≥ b))

end OrderBookString

/-! ## Site `x/liquidity/keeper/pool.go` `Keeper.TransferFundsForSwapFeeDistribution` -/
namespace SwapFeeTotal

/-- `totalLiquidity = totalLiquidity.Add(pLiquidity)`; `none` = the "Int overflow" panic of `LegacyDec.Add`
(result wider than 315 bits); once panicked the loop is over -/
def body (acc : Option Int) (e : Nat × Int) : Option Int :=
  match acc with
  | none => none
  | some a => if Dec.fits (Dec.add a e.2) then some (Dec.add a e.2) else none

def total (entries : List (Nat × Int)) : Option Int := runLoop body (some Dec.zero) entries

/-- the code stores an entry only when `totalValue.IsPositive()` (pool.go:731-734) -/
def AllPositive (entries : List (Nat × Int)) : Prop := ∀ e ∈ entries, e.2 > 0

/-- what the code uses next: `poolLiquidityMap[requestedPoolID].Quo(totalLiquidity)` — a key lookup (order
free) and the total -/
def observable (t : Option Int) : Option Int := t

end SwapFeeTotal

/-! ## Site `x/liquidity/amm/match.go` `DistributeOrderAmountToOrders` (final loop)

The map is `map[Order]sdkmath.Int`; `Order` is an interface holding a pointer, so a key IS one mutable order
object. The body calls `FillOrder(order, matchedAmt, price)`, which reads and writes only that object, and adds
the returned `quoteCoinDiff` to the accumulator. -/
namespace FillOrders

structure Order where
  isBuy : Bool
  offerCoinAmt : Int
  openAmt : Int
  paid : Int
  received : Int
  deriving DecidableEq, Repr

/-- amm/util.go:33 `MatchableAmount` (price > 0 is the caller's guard for `QuoTruncate`) -/
def matchableAmount (o : Order) (price : Dec) : Int :=
  let m := if o.isBuy then
      min o.openAmt (Dec.truncateInt (Dec.quoTruncate (Dec.ofInt (o.offerCoinAmt - o.paid)) price))
    else o.openAmt
  if Dec.truncateInt (Dec.mulInt price m) = 0 then 0 else m

/-- amm/match.go:32 `FillOrder`: `none` = panic ("cannot match more than open amount", or a 256-bit overflow of
one of the order's own fields) -/
def fillOrder (price : Dec) (o : Order) (amt : Int) : Option (Order × Int) :=
  if amt > matchableAmount o price then none else
  let paid := if o.isBuy then Dec.truncateInt (Dec.ceil (Dec.mulInt price amt)) else amt
  let received := if o.isBuy then amt else Dec.truncateInt (Dec.mulInt price amt)
  let diff := if o.isBuy then paid else - received
  let o' := { o with paid := o.paid + paid, received := o.received + received, openAmt := o.openAmt - amt }
  if Dec.fitsInt o'.paid && Dec.fitsInt o'.received && Dec.fitsInt o'.openAmt then some (o', diff) else none

/-- the loop state: every order object (by identity `κ`) and the accumulator; `none` = panicked -/
structure St (κ : Type) where
  orders : κ → Order
  quoteCoinDiff : Int

def setAt {κ : Type} [DecidableEq κ] (f : κ → Order) (k : κ) (v : Order) : κ → Order :=
  fun x => if x = k then v else f x

/-- `quoteCoinDiff = quoteCoinDiff.Add(FillOrder(order, matchedAmt, price))`. The accumulator is an unbounded
integer in the model (`sdkmath.Int.Add` panics beyond 256 bits: outside the model, see notes/C16.md). -/
def body {κ : Type} [DecidableEq κ] (price : Dec) (s : Option (St κ)) (e : κ × Int) : Option (St κ) :=
  match s with
  | none => none
  | some st =>
    match fillOrder price (st.orders e.1) e.2 with
    | none => none
    | some (o', d) => some { orders := setAt st.orders e.1 o', quoteCoinDiff := st.quoteCoinDiff + d }

def run {κ : Type} [DecidableEq κ] (price : Dec) (orders : κ → Order) (entries : List (κ × Int)) : Option (St κ) :=
  runLoop (body price) (some { orders := orders, quoteCoinDiff := 0 }) entries

/-- what the code uses next: the mutated orders and the returned `quoteCoinDiff`; a panic is one outcome (the
message is not part of any state) -/
def observable {κ : Type} (s : Option (St κ)) : Option ((κ → Order) × Int) :=
  s.map fun st => (st.orders, st.quoteCoinDiff)

end FillOrders

/-! ## Sort sites (table `Gen.Determinism.sortSites`)

A sort whose comparison has TIES leaves (stable sort) or permutes (pdqsort) the tied elements according to the input
order; if that order came out of a map, the output is nondeterministic. `x/liquidity/amm/util.go` `SortOrders` is
`sort.SliceStable(orders, func(i, j) { return orders[i].HasPriority(orders[j]) })`; it orders the orders of one
price / batch group before `DistributeOrderAmountToOrders` hands out the remainder one unit at a time in that order.

`HasPriority` (x/liquidity/types/order.go `UserOrder.HasPriority`, `PoolOrder.HasPriority`, amm/order.go
`BaseOrder.HasPriority`): larger amount first; on EQUAL amounts a user order before a pool order, two user orders by
ascending `OrderID`, two pool orders by ascending `PoolID`. -/
namespace SortOrders

/-- everything `HasPriority` looks at -/
structure Key where
  amount : Int
  isPool : Bool
  /-- `OrderID` of a user order, `PoolID` of a pool order -/
  id : Nat
  deriving DecidableEq, Repr

/-- `a.HasPriority(b)` -/
def hasPriority (a b : Key) : Bool :=
  if a.amount ≠ b.amount then decide (a.amount > b.amount)       -- BaseOrder.HasPriority: order.Amount.GT(other.GetAmount())
  else match a.isPool, b.isPool with
    | false, false => decide (a.id < b.id)                         -- UserOrder vs UserOrder: OrderID <
    | false, true => true                                          -- UserOrder vs PoolOrder
    | true, false => false                                         -- PoolOrder vs UserOrder
    | true, true => decide (a.id < b.id)                           -- PoolOrder vs PoolOrder: PoolID <

/-- the identity of an order inside one matching batch: its kind and id -/
def ident (a : Key) : Bool × Nat := (a.isPool, a.id)

/-- what every correct sort by `less` guarantees about its output, stable or not: no element is preceded by one it
has strict priority over -/
def notAfter (a b : Key) : Prop := hasPriority b a = false

/-- executable instance: a STABLE sort (core `mergeSort` is stable), as `sort.SliceStable` -/
def goSortStable (l : List Key) : List Key := l.mergeSort (fun a b => !hasPriority b a)

/-- the comparison WITHOUT the tie-break (`BaseOrder.HasPriority` alone: amount only) — what an edit that drops the
`switch` leaves -/
def hasPriorityAmountOnly (a b : Key) : Bool := decide (a.amount > b.amount)

def goSortStableAmountOnly (l : List Key) : List Key := l.mergeSort (fun a b => !hasPriorityAmountOnly b a)

end SortOrders

/-! ## The two loop shapes that are NOT order independent (what a mutation typically introduces)

`appendInOrder` is the body "append the key to a slice" with NO sort afterwards: the slice itself is then the
observable (it drives state writes / transfers in that order). `Props/C16.lean` proves it is order dependent as
soon as the map has two entries. -/
def appendInOrder {κ ν : Type} (acc : List κ) (e : κ × ν) : List κ := acc ++ [e.1]

/-- "first entry satisfying `p` wins" (`for k, v := range m { if p(v) { return k } }`) -/
def firstMatch {κ ν : Type} (p : ν → Bool) (acc : Option κ) (e : κ × ν) : Option κ :=
  match acc with
  | some k => some k
  | none => if p e.2 then some e.1 else none

end Comdex.MapLoops
