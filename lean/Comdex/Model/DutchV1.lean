import Comdex.Base.Dec
import Comdex.Model.DutchPrice
import Comdex.Model.DutchV2
/-!
Model of the first-generation Dutch auction for seized vaults (`x/auction/keeper/dutch.go`), one auction at a time.

* `bidE`     — `dutch.go:164-342` PlaceDutchAuctionBid: the bidder names the COLLATERAL he wants (`slice`), the debt to pay is
               computed at the posted price, clipped to the remaining target (`tab`), dust rules for collateral and debt,
               target-reached close (rest of the collateral to the owner), collateral-sold-out close (shortfall taken from
               the collector, `collector.go:14-39`), and
* `close`    — `dutch.go:365-463` CloseDutchAuction: burn the principal, penalty (= target − principal) to the collector
* `tick`     — `dutch.go:465-663` RestartDutchAuctions for one auction without ESM: per-block price update and restart

Bank, accounts and the price conversion are those of `Model/DutchV2.lean` (the two generations call the same
`vault.GetAmountOfOtherToken`).  Ghost fields `paid recv otherC otherD` are never read.  Core Lean only.
-/
namespace Comdex.DutchV1
open Comdex
open Comdex.DutchV2 (Acct Denom Bank send sendPos burn conv usdValue)

structure Env where
  decC : Int := 1000000            -- collateral (outflow) asset decimals
  decD : Int := 1000000            -- debt (inflow) asset decimals
  target : Int := 0                -- InflowTokenTargetAmount = principal + ⌊principal·penalty⌋ + interest
  principal : Int := 0             -- LockedVault.AmountOut (burned at close)
  coll0 : Int := 0                 -- OutflowTokenInitAmount
  dust : Int := 0                  -- ExtendedPairVault.MinUsdValueLeft
  T : Int := 0                     -- AuctionParams.AuctionDurationSeconds
  buffer : Dec := 0                -- AuctionParams.Buffer
  cusp : Dec := 0                  -- AuctionParams.Cusp
  oracleDebt : Bool := false       -- ExtendedPairVault.AssetOutOraclePrice
  fixedDebt : Int := 1000000       -- ExtendedPairVault.AssetOutPrice
  deriving Repr, Inhabited

structure Auc where
  outCur : Int       -- OutflowTokenCurrentAmount (collateral left)
  inCur : Int        -- InflowTokenCurrentAmount (debt collected)
  price : Dec        -- OutflowTokenCurrentPrice (the posted price)
  init : Dec         -- OutflowTokenInitialPrice
  endP : Dec         -- OutflowTokenEndPrice
  inPrice : Dec      -- InflowTokenCurrentPrice
  start : Int
  end_ : Int
  deriving DecidableEq, Repr, Inhabited

structure St where
  auc : Option Auc := none
  bank : Bank := []
  netFees : Option Int := none     -- collector NetFeesCollected(app, debt asset); `none` = no record
  burned : Int := 0
  -- ghost
  paid : Int := 0
  recv : Int := 0
  otherC : Int := 0
  otherD : Int := 0
  deriving Inhabited

/-- `CloseDutchAuction` (dutch.go:391-427): burn the principal, the rest of the target goes to the collector -/
def close (e : Env) (s : St) : Except Unit St :=
  match (if e.principal > 0 then burn s.bank .auction .debt e.principal else .ok s.bank) with
  | .error _ => .error ()
  | .ok b1 =>
  match sendPos b1 .auction .collector .debt (e.target - e.principal) with
  | .error _ => .error ()
  | .ok b2 =>
  if e.target - e.principal < 0 then .error ()                     -- SetNetFeeCollectedData refuses a negative fee
  else .ok { s with bank := b2, burned := s.burned + (if e.principal > 0 then e.principal else 0),
                    netFees := some ((match s.netFees with | some q => q | none => 0) + (e.target - e.principal)),
                    auc := none }

/-- `GetAmountFromCollector` (collector.go:14-39): needs a record with STRICTLY more than the amount -/
def fromCollector (s : St) (amt : Int) : Except Unit St :=
  match s.netFees with
  | none => .error ()
  | some q =>
    if amt < 0 then .error ()
    else if ¬ (q - amt > 0) then .error ()
    else match send s.bank .collector .auction .debt amt with
      | .error _ => .error ()
      | .ok b => .ok { s with bank := b, netFees := some (q - amt) }

/-- what one bid exchanges -/
structure Plan where
  flag : Bool        -- TargetReachedFlag: the debt computed for the slice exceeds what is left of the target
  inAmt : Int        -- debt charged
  slice : Int        -- collateral handed out
  deriving DecidableEq, Repr, Inhabited

/-- `PlaceDutchAuctionBid`, first half (dutch.go:164-259, and the `Coin.Sub` of line 285) -/
def plan (e : Env) (a : Auc) (slice0 : Int) : Except Unit Plan :=
  if slice0 = 0 then .error () else                                -- "bid amount can't be Zero"
  if slice0 > a.outCur then .error () else                         -- more than the collateral available
  match conv slice0 a.price e.decC a.inPrice e.decD with
  | .error _ => .error ()
  | .ok (owe0, in0) =>
  if in0 ≤ 0 then .error () else                                   -- "Calculated Auction Amount is Zero"
  let tab := e.target - a.inCur
  match (if in0 > tab then (match conv tab a.inPrice e.decD a.price e.decC with
                             | .ok (o, sl) => Except.ok (true, tab, o, sl)
                             | .error _ => .error ())
         else .ok (false, in0, owe0, slice0)) with
  | .error _ => .error ()
  | .ok (flag, inAmt, owe, slice) =>
  if inAmt < 0 then .error () else                                 -- sdk.NewCoin
  match usdValue a.outCur a.price e.decC, usdValue tab a.inPrice e.decD with
  | .ok outLeft, .ok outLeftDebt =>
    let left := Dec.sub outLeft owe
    let leftDebt := Dec.sub outLeftDebt owe
    if left < Dec.ofInt e.dust ∧ left ≠ 0 ∧ flag = false then .error ()         -- dust check for collateral
    else if leftDebt < Dec.ofInt e.dust ∧ leftDebt ≠ 0 ∧ left ≠ 0 then .error ()  -- dust check for debt
    else if slice < 0 then .error ()                               -- sdk.NewCoin
    else if a.outCur - slice < 0 then .error ()                    -- Coin.Sub panics (dutch.go:285)
    else .ok { flag := flag, inAmt := inAmt, slice := slice }
  | _, _ => .error ()

/-- second half (dutch.go:261-341): move the money, update the record, close if the target is reached or the collateral sold out -/
def apply (e : Env) (s : St) (a : Auc) (who : Nat) (p : Plan) : Except Unit St :=
  match sendPos s.bank (.bidder who) .auction .debt p.inAmt with
  | .error _ => .error ()
  | .ok b1 =>
  match sendPos b1 .auction (.bidder who) .coll p.slice with
  | .error _ => .error ()
  | .ok b2 =>
  let a' := { a with outCur := a.outCur - p.slice, inCur := a.inCur + p.inAmt }
  let s1 := { s with bank := b2, paid := s.paid + p.inAmt, recv := s.recv + p.slice, auc := some a' }
  if a'.inCur ≥ e.target then
    -- target reached: what is left of the collateral goes back to the owner
    match sendPos s1.bank .auction .owner .coll a'.outCur with
    | .error _ => .error ()
    | .ok b3 => close e { s1 with bank := b3 }
  else if a'.outCur = 0 then
    -- collateral sold out, debt left: the collector covers the rest
    match fromCollector s1 (e.target - a'.inCur) with
    | .error _ => .error ()
    | .ok s2 => close e s2
  else .ok s1

def bidE (e : Env) (s : St) (who : Nat) (slice0 : Int) : Except Unit St :=
  match s.auc with
  | none => .error ()
  | some a =>
    match plan e a slice0 with
    | .ok p => apply e s a who p
    | .error _ => .error ()

/-- `RestartDutchAuctions` for one auction (ESM off): price update, then restart when the window is over -/
def iterate (e : Env) (a : Auc) (now twaC : Int) (actC : Bool) (twaD : Int) (actD : Bool) : Except Unit Auc := do
  if e.oracleDebt && !actD then throw ()
  let inP := if e.oracleDebt then twaD else e.fixedDebt
  let p ← DutchPrice.priceV1 a.init a.endP e.T (now - a.start)
  let a1 := { a with inPrice := Dec.ofInt inP, price := p }
  if now > a.end_ then
    if !actC then throw ()
    let i' ← DutchPrice.startPrice twaC e.buffer
    let e' ← DutchPrice.endPrice i' e.cusp
    pure { a1 with start := now, end_ := now + e.T, init := i', endP := e', price := i' }
  else pure a1

/-- the emergency-shutdown wind-down of `RestartDutchAuctions` (dutch.go:515-637), taken instead of a restart when the window is
over and the app's ESM status is on.  Custody effects only; the vault-ledger side (existing vault topped up / vault re-created
with `AmountIn = unsold collateral`, `AmountOut = principal − collected`, product totals reduced) belongs to the vault model.
* collected < principal: the unsold collateral goes back to the vault module, everything collected is burned;
* collected ≥ principal: the principal is burned, the rest of what was collected is the penalty for the collector, the unsold
  collateral goes to the ESM module (needs the ESM price snapshot of the collateral, else the whole step is rolled back). -/
def windDown (e : Env) (s : St) (a : Auc) (snapshot : Bool) : Except Unit St :=
  if a.inCur < e.principal then
    match sendPos s.bank .auction .vaultMod .coll a.outCur with
    | .error _ => .error ()
    | .ok b1 =>
    match (if a.inCur > 0 then burn b1 .auction .debt a.inCur else .ok b1) with
    | .error _ => .error ()
    | .ok b2 => .ok { s with bank := b2, burned := s.burned + (if a.inCur > 0 then a.inCur else 0), auc := none }
  else
    match (if e.principal > 0 then burn s.bank .auction .debt e.principal else .ok s.bank) with
    | .error _ => .error ()
    | .ok b1 =>
    match sendPos b1 .auction .collector .debt (a.inCur - e.principal) with
    | .error _ => .error ()
    | .ok b2 =>
    if !snapshot then .error () else                              -- esmtypes.ErrPriceNotFound
    match send b2 .auction .esm .coll a.outCur with
    | .error _ => .error ()
    | .ok b3 =>
      .ok { s with bank := b3, burned := s.burned + (if e.principal > 0 then e.principal else 0),
                   netFees := some ((match s.netFees with | some q => q | none => 0) + (a.inCur - e.principal)), auc := none }

inductive Op
  | bid (who : Nat) (slice : Int)
  | tick (now twaC : Int) (actC : Bool) (twaD : Int) (actD : Bool)
  | tickEsm (now twaC : Int) (actC : Bool) (twaD : Int) (actD : Bool) (snapshot : Bool)   -- block hook with the app's ESM status on
  deriving Repr, Inhabited

/-- the price part of `iterate` only (what runs before the window check) -/
def priceUpdate (e : Env) (a : Auc) (now : Int) (twaD : Int) (actD : Bool) : Except Unit Auc := do
  if e.oracleDebt && !actD then throw ()
  let inP := if e.oracleDebt then twaD else e.fixedDebt
  let p ← DutchPrice.priceV1 a.init a.endP e.T (now - a.start)
  pure { a with inPrice := Dec.ofInt inP, price := p }

def step (e : Env) (s : St) : Op → St
  | .bid who slice => match bidE e s who slice with | .ok s' => s' | .error _ => s
  | .tick now twaC actC twaD actD =>
    match s.auc with
    | none => s
    | some a => match iterate e a now twaC actC twaD actD with
      | .ok a' => { s with auc := some a' }
      | .error _ => s
  | .tickEsm now _ _ twaD actD snapshot =>
    match s.auc with
    | none => s
    | some a => match priceUpdate e a now twaD actD with
      | .error _ => s
      | .ok a1 =>
        if now > a.end_ then
          match windDown e { s with auc := some a1 } a1 snapshot with
          | .ok s' => s'
          | .error _ => s
        else { s with auc := some a1 }

def run (e : Env) (s : St) (ops : List Op) : St := ops.foldl (step e) s

def initSt (e : Env) (a : Auc) (b : Bank) (netFees : Option Int) : St :=
  { auc := some a, bank := b, netFees := netFees,
    otherC := b.get .auction .coll - e.coll0, otherD := b.get .auction .debt }

end Comdex.DutchV1
