import Comdex.Base.Dec
/-!
Model of the incentive-payout mechanism (property C19).  Core Lean only.

* `split`         x/rewards/keeper/utils.go:7-28        `SplitTotalAmountPerEpoch`
* `trigger`       x/rewards/keeper/gauge.go:210-263     one non-swap-fee gauge inside `InitateGaugesForDuration`
                  + x/rewards/keeper/distribution.go:61-92 `BeginRewardDistributions` (sum-of-shares guard, sends)
* `createGuard`   x/rewards/types/tx.go:46-71 (`ValidateBasic`) + gauge.go:16-47 (`ValidateMsgCreateGauge`)
                  + gauge.go:179-208 (`CreateNewGauge`: deposit moved into the rewards module account)
* `epochStep`     x/rewards/keeper/epochs.go:24-61      `TriggerAndUpdateEpochInfos` for one epoch record
* `posValue`, `childValue`, `weight`, `sharesFrom`  x/liquidity/keeper/rewards.go:20-33, 113-162 (value of a position,
                  child-pool contributions SUMMED per farmer), and
* `shares`        x/liquidity/keeper/rewards.go:168-307 `GetFarmingRewardsData` from the per-farmer farmed values on
                  (`multiplier = Dec(alloc).Quo(total)`, `int64(math.Floor(value.Mul(multiplier).MustFloat64()))`,
                  master-pool mode: value := min(master value, child value), zero values skipped)
* `extPay`        x/rewards/keeper/iter.go (all four `DistributeExtReward…`): `tracker += r` before each send,
                  a failed send is skipped, `AvailableRewards -= tracker` — NO guard `tracker ≤ AvailableRewards`
* `Ledger`        balance of the rewards module account (one denomination) + every gauge + every external programme;
                  a block's begin-blocker work is all-or-nothing (`ApplyFuncIfNoError`, x/rewards/abci.go:16).

Go `uint64`s are `Nat`/`Int` with the range stated where the code depends on it; `sdk.Int` is `Int`;
a Go panic is `Except.error`.

Floats.  `LegacyDec.MustFloat64` is `strconv.ParseFloat(d.String(), 64)`.  Lean's kernel cannot reason about
hardware floats, so the conversion is a parameter `conv : Int → Int × Int` of the share computation
(`conv raw = (n, d)` meaning the float's exact rational value `n / d`), theorems assume `FloatUpper conv`
(relative error at most 2⁻⁵³ upwards), and `f64` below is an exact integer implementation of IEEE-754
round-to-nearest-even which (i) is proved to satisfy `FloatUpper`, (ii) is what the driver runs, (iii) is TESTED
against the real `MustFloat64` bit patterns by the harness (`gauge.f64` lines) — a test, not a proof.
-/
namespace Comdex.Gauge
open Comdex

/-! ## SplitTotalAmountPerEpoch -/

/-- the `i`-th element the loops of `SplitTotalAmountPerEpoch` append (both non-empty branches) -/
def splitAt (total epochs i : Nat) : Nat :=
  if total % epochs = 0 then total / epochs
  else if i ≥ epochs - total % epochs then total / epochs + 1 else total / epochs

/-- `SplitTotalAmountPerEpoch(total, epochs)`.  `epochs = 0` with `total ≥ 0 = epochs` reaches `total % 0`:
Go integer division by zero, a run-time panic.  The caller (gauge.go:226) never gets there with `epochs = 0`
because of the `TriggeredCount == TotalTriggers` check before it. -/
def split (total epochs : Nat) : Except String (List Nat) :=
  if total < epochs then .ok []
  else if epochs = 0 then .error "integer divide by zero"
  else .ok ((List.range epochs).map (splitAt total epochs))

/-- sum of the first `k` allocations -/
def prefixSum (total epochs k : Nat) : Nat := ((List.range k).map (splitAt total epochs)).sum

/-! ## One gauge -/

def U64 : Int := 18446744073709551616

structure Gauge where
  deposit     : Int      -- DepositAmount.Amount
  distributed : Int      -- DistributedAmount.Amount
  triggered   : Nat      -- TriggeredCount
  total       : Nat      -- TotalTriggers
  active      : Bool     -- IsActive
  start       : Int      -- StartTime (unix nanoseconds)
  deriving Repr, DecidableEq

/-- what `GetRewardDistributionData` returned for this epoch's allocation: an error, or the calculated
reward of every receiver, in order -/
inductive DistData where
  | err
  | ok (rewards : List Int)
  deriving Repr, DecidableEq

def sumL : List Int → Int
  | [] => 0
  | x :: xs => x + sumL xs

def anyNeg : List Int → Bool
  | [] => false
  | x :: xs => x < 0 || anyNeg xs

/-- this epoch's allocation, `none` = the gauge is skipped before anything is computed -/
def allocation (g : Gauge) : Except String (Option Int) :=
  if g.deposit < 0 ∨ g.deposit ≥ U64 then .error "Uint64() out of bounds"
  else match split g.deposit.toNat g.total with
    | .error e => .error e
    | .ok sp =>
      match sp[g.triggered]? with
      | none => .ok none                       -- "triggered counts are higher than total trigger splits"
      | some a => .ok (some (a : Int))

/-- One pass of the loop body of `InitateGaugesForDuration` for a non-swap-fee gauge at block time `now`.
Returns the stored gauge and the list of coins handed to `doDistributionSends` (empty when nothing is paid). -/
def trigger (g : Gauge) (now : Int) (d : DistData) : Except String (Gauge × List Int) :=
  if now < g.start ∨ g.active = false then .ok (g, [])
  else if g.triggered = g.total then .ok ({ g with active := false }, [])
  else match allocation g with
    | .error e => .error e
    | .ok none => .ok (g, [])
    | .ok (some alloc) =>
      if g.deposit - g.distributed < alloc then .ok (g, [])          -- "just in case" cap check
      else match d with
        | .err => .ok (g, [])                                         -- distribution error: epoch not counted
        | .ok rs =>
          if anyNeg rs then .error "negative coin amount"             -- sdk.NewCoin panics
          else if sumL rs > alloc then .ok (g, [])                    -- ErrInvalidCalculatedAMount
          else .ok ({ g with triggered := g.triggered + 1, distributed := g.distributed + sumL rs }, rs)

/-- the gauge as stored after the block: a panic anywhere in the begin blocker discards the block's writes -/
def triggerOrRevert (g : Gauge) (now : Int) (d : DistData) : Gauge :=
  match trigger g now d with
  | .ok (g', _) => g'
  | .error _ => g

def runGauge (g : Gauge) : List (Int × DistData) → Gauge
  | [] => g
  | (now, d) :: rest => runGauge (triggerOrRevert g now d) rest

/-! ## Swap-fee gauges (gauge.go:257-296) -/

/-- a gauge created by pool creation (`ForSwapFee`): `DepositAmount` is what was moved in from the pair's swap-fee collector
at the previous epoch and is still undistributed; `TotalTriggers` (1) is never looked at, `TriggeredCount` counts epochs -/
structure SfGauge where
  deposit     : Int      -- DepositAmount.Amount
  distributed : Int      -- DistributedAmount.Amount
  triggered   : Nat      -- TriggeredCount
  deriving Repr, DecidableEq

/-- outcome of `TransferFundsForSwapFeeDistribution` (liquidity pool.go:671-770): an error, or the coins that arrived in
the rewards module account, in the denomination of the gauge's deposit (`ok`) or, after a change of `SwapFeeDistrDenom`, in
another one (`moved`; the ledgers are per denomination: the coins arrive in the other denomination's ledger, `BOp.sfArrive`) -/
inductive Xfer where
  | err
  | ok (amount : Nat)
  | moved (amount : Nat)      -- the coins arrived in ANOTHER denomination (`SwapFeeDistrDenom` was changed)
  deriving Repr, DecidableEq

/-- the distribution half of the swap-fee branch (gauge.go:264-281): `none` = `continue` (distribution error or the
sum-of-shares guard), else the gauge with `DepositAmount -= distributed`, `DistributedAmount += distributed` and the coins
handed to `doDistributionSends` -/
def sfDistribute (g : SfGauge) (d : DistData) : Except String (Option (SfGauge × List Int)) :=
  if g.deposit > 0 then
    match d with
    | .err => .ok none
    | .ok rs =>
      if anyNeg rs then .error "negative coin amount"
      else if sumL rs > g.deposit then .ok none                      -- ErrInvalidCalculatedAMount
      else .ok (some ({ g with deposit := g.deposit - sumL rs, distributed := g.distributed + sumL rs }, rs))
  else .ok (some (g, []))

/-- One pass of the swap-fee branch.  Returns the stored gauge, the coins handed to `doDistributionSends` and the coins
received.  When the fee transfer fails (gauge.go:284-291) the distribution that has just been paid IS recorded
(`SetGauge` before the `continue`, repository commit b0fa4d4); `TriggeredCount` stays as it was in that branch. -/
def sfTrigger (g : SfGauge) (d : DistData) (x : Xfer) : Except String (SfGauge × List Int × Int) :=
  match sfDistribute g d with
  | .error e => .error e
  | .ok none => .ok (g, [], 0)
  | .ok (some (g1, sends)) =>
    match x with
    | .err => .ok (g1, sends, 0)
    | .ok amt => .ok ({ g1 with deposit := g1.deposit + amt, triggered := g1.triggered + 1 }, sends, amt)
    -- gauge.go:293-297 "in case of swap fee distribution denom change in params": `gauge.DepositAmount = receivedAmount` REPLACES
    -- the deposit: in THIS denomination the gauge owes nothing any more (the undistributed remainder stays in the account, unowed)
    | .moved _ => .ok ({ g1 with deposit := 0, triggered := g1.triggered + 1 }, sends, 0)

/-- the same pass as the code had it BEFORE commit b0fa4d4 (finding D44): a failed transfer `continue`d before `SetGauge`,
so the record kept the `DepositAmount` that had just been paid out.  Only used by `sf_gauge_leak_before_fix_counterexample`. -/
def sfTriggerBeforeFix (g : SfGauge) (d : DistData) (x : Xfer) : Except String (SfGauge × List Int × Int) :=
  match sfDistribute g d, x with
  | .ok (some (_, sends)), .err => .ok (g, sends, 0)
  | _, _ => sfTrigger g d x

/-- guards of `MsgCreateGauge` (ValidateBasic, then ValidateMsgCreateGauge), `dur`/`minDur` in nanoseconds.
`total = 0` is refused by `ValidateBasic` (tx.go, "total triggers should be positive").  `aux` stands for the guards
that do not involve amounts or times: valid gauge type id, app / pool / child pools exist and are enabled, an oracle
price exists for the pair (gauge.go:18-28, 73-109) — the harness evaluates them with the real
`ValidateMsgCreateGaugeLiquidityMetaData`. -/
def createGuard (deposit : Int) (total : Nat) (start now dur minDur : Int) (aux : Bool) : Bool :=
  decide (0 < dur) && decide (0 < deposit) && decide (1 ≤ total) && decide ((total : Int) ≤ deposit)
    && decide (minDur ≤ dur) && decide (now ≤ start) && aux

def newGauge (deposit : Int) (total : Nat) (start : Int) : Gauge :=
  { deposit := deposit, distributed := 0, triggered := 0, total := total, active := true, start := start }

/-! ## Epoch clock -/

structure Epoch where
  fresh : Bool     -- StartTime == time.Time{} && CurrentEpoch == 0
  cur   : Int      -- CurrentEpochStartTime (unix ns)
  dur   : Int      -- Duration (ns)
  count : Nat      -- CurrentEpoch
  deriving Repr, DecidableEq

/-- `NewEpochInfo` at gauge creation -/
def newEpoch (now dur : Int) : Epoch := { fresh := true, cur := now, dur := dur, count := 0 }

/-- one record in `TriggerAndUpdateEpochInfos`; the flag says whether `InitateGaugesForDuration` runs.
A gap of more than two durations only moves the clock forward: skipped epochs are never paid later. -/
def epochStep (e : Epoch) (now : Int) : Epoch × Bool :=
  if e.fresh then ({ e with fresh := false, cur := e.cur - e.dur }, false)
  else if e.cur + e.dur * 2 < now then
    ({ e with cur := e.cur + e.dur * ((now - e.cur).tdiv e.dur) }, false)
  else if e.cur + e.dur < now then
    ({ e with count := e.count + 1, cur := e.cur + e.dur }, true)
  else (e, false)

/-- the clock of one duration driven through any sequence of block times; the number says how often the duration's gauges
were triggered -/
def runEpoch (e : Epoch) : List Int → Epoch × Nat
  | [] => (e, 0)
  | now :: rest =>
    let r := runEpoch (epochStep e now).1 rest
    (r.1, r.2 + (if (epochStep e now).2 then 1 else 0))

/-! ## Share computation -/

def TWO53 : Int := 9007199254740992
def TWO63 : Int := 9223372036854775808

/-- `math.Floor` of the float `n/d` (`d > 0`) -/
def floorQ (q : Int × Int) : Int := q.1 / q.2

/-- upward relative-error bound of a Dec→float64 conversion: `float(p) ≤ p·(1 + 2⁻⁵³)` for `p ≥ 0`,
with `conv p = (n, d)` standing for the rational `n/d` and `p` the raw 10⁻¹⁸ value -/
def FloatUpper (conv : Int → Int × Int) : Prop :=
  ∀ p : Int, 0 ≤ p → 0 < (conv p).2 ∧ (conv p).1 * Dec.P * TWO53 ≤ p * (conv p).2 * (TWO53 + 1)

/-- `multiplier := NewDecFromInt(alloc).Quo(totalSupply)` -/
def multiplier (alloc : Int) (S : Dec) : Dec := Dec.quo (Dec.ofInt alloc) S

/-- `int64(math.Floor(supply.Mul(multiplier).MustFloat64()))`; a value ≥ 2⁶³ does not fit `int64`: on amd64
the conversion yields `MinInt64`, `sdk.NewCoin` then panics with a negative amount -/
def rewardOf (conv : Int → Int × Int) (alloc : Int) (S s : Dec) : Except String Int :=
  let r := floorQ (conv (Dec.mul s (multiplier alloc S)))
  if r ≥ TWO63 then .error "negative coin amount (int64 overflow)" else .ok r

def mapE (f : Int → Except String Int) : List Int → Except String (List Int)
  | [] => .ok []
  | x :: xs => match f x with
    | .error e => .error e
    | .ok y => match mapE f xs with
      | .error e => .error e
      | .ok ys => .ok (y :: ys)

def minD (a b : Dec) : Dec := if a ≤ b then a else b

def zipMin : List Dec → List Dec → List Dec
  | a :: as, b :: bs => minD a b :: zipMin as bs
  | _, _ => []

/-- plain mode (non-master gauges, or master pool without child pools): one record per active farmer -/
def sharesPlain (conv : Int → Int × Int) (alloc : Int) (lp : List Dec) : Except String (List Int) :=
  let S := sumL lp
  if S = 0 then .ok [] else mapE (rewardOf conv alloc S) lp

/-- master-pool mode: eligible value = min(master value, aggregated child value); zero entries get no record.
The result keeps a `0` in the position of a skipped farmer so that positions line up with the inputs. -/
def sharesMaster (conv : Int → Int × Int) (alloc : Int) (lp child : List Dec) : Except String (List Int) :=
  let el := zipMin lp child
  let S := sumL el
  if S = 0 then .ok [] else mapE (fun s => if s = 0 then .ok 0 else rewardOf conv alloc S s) el

/-! ### Farmed values and master/child weights (liquidity rewards.go:20-33, 113-162, 186-253) -/

/-- one farmed position as the valuation sees it: the redeemable amount of the priced asset (`x` or `y` of
`CalculateXYFromPoolCoin`), that asset's oracle TWA and its `Decimals` -/
structure Pos where
  amt : Int
  twa : Int
  dec : Int
  deriving Repr, DecidableEq

/-- `CalcAssetPrice(asset, amt).Mul(2)`: `Dec(amt).Mul(Dec(twa)).Quo(Dec(decimals))`, doubled (50-50 pools); a missing or
zero TWA makes `CalcAssetPrice` return zero (its error is ignored by the callers) -/
def posValue (p : Pos) : Dec :=
  if p.twa ≤ 0 then 0
  else Dec.mul (Dec.quo (Dec.mul (Dec.ofInt p.amt) (Dec.ofInt p.twa)) (Dec.ofInt p.dec)) (Dec.ofInt 2)

/-- `GetAggregatedChildPoolContributions` for one farmer: the SUM of the values of its positions over the child pools -/
def childValue (ps : List Pos) : Dec := sumL (ps.map posValue)

/-- a farmer of the master pool: its master-pool position and its positions in the child pools -/
structure Farmer where
  master : Pos
  children : List Pos
  deriving Repr, DecidableEq

/-- reward weight in master-pool mode: `min(value farmed in the master pool, Σ child pools value farmed there)` -/
def weight (f : Farmer) : Dec := minD (posValue f.master) (childValue f.children)

/-- the whole computation from positions: plain mode weighs by the master value alone -/
def sharesFrom (conv : Int → Int × Int) (alloc : Int) (masterMode : Bool) (fs : List Farmer) : Except String (List Int) :=
  if masterMode then sharesMaster conv alloc (fs.map (fun f => posValue f.master)) (fs.map (fun f => childValue f.children))
  else sharesPlain conv alloc (fs.map (fun f => posValue f.master))

/-! ### Exact IEEE-754 binary64 round-to-nearest-even of a non-negative Dec (`raw / 10^18`) -/

def P18 : Nat := 1000000000000000000

/-- `raw/10^18 ≥ 2^k` (one of the two powers is `2^0`) -/
def geTwoPow (raw : Nat) (k : Int) : Bool := decide (P18 * 2 ^ k.toNat ≤ raw * 2 ^ (-k).toNat)

/-- round half to even of `a / b` (`b > 0`) -/
def divRoundEven (a b : Nat) : Nat :=
  if 2 * (a % b) < b then a / b
  else if 2 * (a % b) > b then a / b + 1
  else if a / b % 2 = 0 then a / b else a / b + 1

/-- mantissa and exponent: the double nearest to `raw/10^18` is `m · 2^e` with `2^52 ≤ m ≤ 2^53` (`raw > 0`).
`k = ⌊log₂(raw/10^18)⌋` is `log2 raw - 60` or one more, because `2^59 < 10^18 < 2^60`. -/
def f64parts (raw : Nat) : Nat × Int :=
  let k0 : Int := (Nat.log2 raw : Int) - 60
  let k : Int := if geTwoPow raw (k0 + 1) then k0 + 1 else k0
  let e : Int := k - 52
  (divRoundEven (raw * 2 ^ (-e).toNat) (P18 * 2 ^ e.toNat), e)

/-- the conversion as a rational `(n, d)`: `n/d = m · 2^e` -/
def f64 (p : Int) : Int × Int :=
  if p ≤ 0 then (0, 1) else
  let me := f64parts p.toNat
  ((me.1 : Int) * 2 ^ me.2.toNat, 2 ^ (-me.2).toNat)

/-- IEEE-754 bit pattern (for comparison with Go's `math.Float64bits`); normal range only -/
def f64bits (p : Int) : Nat :=
  if p ≤ 0 then 0 else
  let (m, e) := f64parts p.toNat
  let (m, e) := if m = 9007199254740992 then (4503599627370496, e + 1) else (m, e)
  ((e + 1075).toNat) * 4503599627370496 + (m - 4503599627370496)

/-! ## Ledger: rewards module account, gauges, external programmes (one denomination) -/

structure Ext where
  avail  : Int      -- AvailableRewards.Amount
  active : Bool
  deriving Repr, DecidableEq

structure Ledger where
  bal    : Int
  gauges : List Gauge
  exts   : List Ext
  sfs    : List SfGauge := []
  deriving Repr, DecidableEq

def Ledger.empty : Ledger := { bal := 0, gauges := [], exts := [] }

/-- `doDistributionSends` / the external programmes' send loops: a send that the bank refuses (insufficient
module balance) is logged and skipped.  Returns the new balance and what each receiver actually got. -/
def sendAll (bal : Int) : List Int → Int × List Int
  | [] => (bal, [])
  | r :: rs =>
    if r ≤ bal then
      let (b, s) := sendAll (bal - r) rs
      (b, r :: s)
    else
      let (b, s) := sendAll bal rs
      (b, 0 :: s)

/-- `DistributeExtRewardLocker` / `…Vault` share arithmetic for one position (iter.go:60-67, 136-141):
`share = Dec(net).Quo(Dec(totalShare))`, `epochRewards = Dec(avail).Quo(Dec(daysLeft))`,
`(share.Mul(epochRewards)).TruncateInt()`.  `totalShare = 0` or `daysLeft = 0` is a division panic. -/
def extShare (avail daysLeft totalShare net : Int) : Int :=
  Dec.truncateInt (Dec.mul (Dec.quo (Dec.ofInt net) (Dec.ofInt totalShare)) (Dec.quo (Dec.ofInt avail) (Dec.ofInt daysLeft)))

def extPays (avail daysLeft totalShare : Int) (nets : List Int) : List Int :=
  nets.map (extShare avail daysLeft totalShare)

def setAt {α : Type} : List α → Nat → α → List α
  | [], _, _ => []
  | _ :: xs, 0, y => y :: xs
  | x :: xs, i + 1, y => x :: setAt xs i y

def posOnly : List Int → List Int
  | [] => []
  | x :: xs => if x > 0 then x :: posOnly xs else posOnly xs

/-- work done inside one begin blocker -/
inductive BOp where
  | trigger (i : Nat) (now : Int) (d : DistData)       -- gauge `i` reached by `InitateGaugesForDuration`
  | extPay (j : Nat) (pays : List Int)                  -- programme `j` pays its day's rewards
  | extDeactivate (j : Nat)                             -- duration over
  | sfTrigger (i : Nat) (d : DistData) (x : Xfer)       -- swap-fee gauge `i` reached by `InitateGaugesForDuration`
  | sfArrive (amount : Nat) (triggered : Nat)           -- a swap-fee gauge of another denomination moves here with the received coins
  deriving Repr

def stepB (l : Ledger) : BOp → Except String Ledger
  | .trigger i now d =>
    match l.gauges[i]? with
    | none => .ok l
    | some g =>
      match trigger g now d with
      | .error e => .error e
      | .ok (g', sends) =>
        let (b, _) := sendAll l.bal sends
        .ok { l with bal := b, gauges := setAt l.gauges i g' }
  | .extPay j pays =>
    match l.exts[j]? with
    | none => .ok l
    | some x =>
      if x.active = false then .ok l else
      let ps := posOnly pays
      let (b, _) := sendAll l.bal ps
      .ok { l with bal := b, exts := setAt l.exts j { x with avail := x.avail - sumL ps } }
  | .extDeactivate j =>
    match l.exts[j]? with
    | none => .ok l
    | some x => .ok { l with exts := setAt l.exts j { x with active := false } }
  | .sfTrigger i d x =>
    match l.sfs[i]? with
    | none => .ok l
    | some g =>
      match sfTrigger g d x with
      | .error e => .error e
      | .ok (g', sends, recv) =>
        let (b, _) := sendAll l.bal sends
        .ok { l with bal := b + recv, sfs := setAt l.sfs i g' }
  | .sfArrive amt t =>
    .ok { l with bal := l.bal + amt, sfs := l.sfs ++ [{ deposit := amt, distributed := 0, triggered := t }] }

def runB (l : Ledger) : List BOp → Except String Ledger
  | [] => .ok l
  | o :: os => match stepB l o with
    | .error e => .error e
    | .ok l' => runB l' os

inductive Op where
  | createGauge (deposit : Int) (total : Nat) (start now dur minDur : Int) (aux : Bool) (funds : Int)
  | createExt (amount : Int) (funds : Int)
  | fund (amount : Int)                 -- anybody may send coins to the module account
  | createSf                            -- pool creation: a swap-fee gauge with an empty deposit
  | block (ops : List BOp)
  deriving Repr

/-- a rejected message leaves no trace; a panicking begin blocker is rolled back as a whole -/
def step (l : Ledger) : Op → Ledger
  | .createGauge deposit total start now dur minDur aux funds =>
    if createGuard deposit total start now dur minDur aux && decide (deposit ≤ funds) then
      { l with bal := l.bal + deposit, gauges := l.gauges ++ [newGauge deposit total start] }
    else l
  | .createExt amount funds =>
    if decide (0 ≤ amount) && decide (amount ≤ funds) then
      { l with bal := l.bal + amount, exts := l.exts ++ [{ avail := amount, active := true }] }
    else l
  | .fund amount => if 0 ≤ amount then { l with bal := l.bal + amount } else l
  | .createSf => { l with sfs := l.sfs ++ [{ deposit := 0, distributed := 0, triggered := 0 }] }
  | .block ops =>
    match runB l ops with
    | .ok l' => l'
    | .error _ => l

def run (l : Ledger) : List Op → Ledger
  | [] => l
  | o :: os => run (step l o) os

def gaugeRem (g : Gauge) : Int := g.deposit - g.distributed

def remGauges : List Gauge → Int
  | [] => 0
  | g :: gs => gaugeRem g + remGauges gs

def remExts : List Ext → Int
  | [] => 0
  | x :: xs => x.avail + remExts xs

def remSfs : List SfGauge → Int
  | [] => 0
  | g :: gs => g.deposit + remSfs gs

def remActiveGauges : List Gauge → Int
  | [] => 0
  | g :: gs => (if g.active then gaugeRem g else 0) + remActiveGauges gs

def remActiveExts : List Ext → Int
  | [] => 0
  | x :: xs => (if x.active then x.avail else 0) + remActiveExts xs

/-- decidable monitors, evaluated by the driver on REAL records -/
def gaugeOk (g : Gauge) : Bool :=
  decide (0 ≤ g.distributed) && decide (g.distributed ≤ g.deposit) && decide (g.triggered ≤ g.total)

def custodyOk (bal : Int) (gs : List Gauge) (xs : List Ext) : Bool :=
  decide (remGauges gs + remExts xs ≤ bal) && xs.all (fun x => decide (0 ≤ x.avail)) && gs.all gaugeOk

end Comdex.Gauge
