import Comdex.Base.Dec
/-!
Model of the Dutch-auction price functions of both auction generations.

* v1  `x/auction/keeper/math.go:11-31`  getOutflowTokenInitialPrice / getOutflowTokenEndPrice /
       getPriceFromLinearDecreaseFunction, used by `dutch.go:495-503` (per-block update) and `dutch.go:639-656` (restart)
* V2  `x/auctionsV2/keeper/maths.go:9-25` GetCollalteralTokenInitialPrice / GetCollateralTokenEndPrice /
       GetPriceFromLinearDecreaseFunction, used by `auctions.go:287-335` (UpdateDutchAuction) and `auctions.go:240-285` (restart)

The two generations use the *same* arithmetic (the functions are textual copies):

    start  = premium.Mul(NewDec(twa.Int64()))
    end    = start.Mul(cusp)                                   (v1: stored in the auction; V2: recomputed each block)
    tau    = start.Mul(NewDec(T)).Quo(start.Sub(end)).TruncateInt64()
    price  = start.Mul(NewDec((tau - dur).Int64())).Quo(NewDec(tau.Int64()))

`Int64()` / `TruncateInt64()` panic outside the int64 range, `Quo` panics on a zero divisor, every `Dec` result
panics above 315 bits: all of these are `Except.error` here (the code runs inside `ApplyFuncIfNoError`, which turns
a panic into "nothing written").  Core Lean only.
-/
namespace Comdex.DutchPrice
open Comdex

def fitsI64 (x : Int) : Bool := decide (-(9223372036854775808 : Int) ≤ x) && decide (x < 9223372036854775808)

/-- `Dec` result with the library's overflow rule -/
def chk (x : Dec) : Except Unit Dec := if Dec.fits x then .ok x else .error ()

/-- `premium.Mul(sdk.NewDec(price.Int64()))` — v1 `getOutflowTokenInitialPrice`, V2 `GetCollalteralTokenInitialPrice` -/
def startPrice (twa : Int) (premium : Dec) : Except Unit Dec :=
  if fitsI64 twa then chk (Dec.mul premium (Dec.ofInt twa)) else .error ()

/-- `Multiply(price, cusp)` — v1 `getOutflowTokenEndPrice`, V2 `GetCollateralTokenEndPrice` -/
def endPrice (top cusp : Dec) : Except Unit Dec := chk (Dec.mul top cusp)

/-- the value of the linear decrease (no guards): `top.Mul(NewDec(tau-dur)).Quo(NewDec(tau))` -/
def linearVal (top : Dec) (tau dur : Int) : Dec :=
  Dec.quo (Dec.mul top (Dec.ofInt (tau - dur))) (Dec.ofInt tau)

/-- v1 `getPriceFromLinearDecreaseFunction`, V2 `GetPriceFromLinearDecreaseFunction`, with the code's panics -/
def linear (top : Dec) (tau dur : Int) : Except Unit Dec :=
  if !fitsI64 (tau - dur) || !fitsI64 tau then .error ()          -- `.Int64()` panics
  else if tau = 0 then .error ()                                   -- Quo by zero
  else do
    let n ← chk (Dec.mul top (Dec.ofInt (tau - dur)))
    chk (Dec.quo n (Dec.ofInt tau))

/-- value of tau (no guards): `⌊ top·T / (top − end) ⌋` in Dec arithmetic -/
def tauVal (top endP : Dec) (T : Int) : Int :=
  Dec.truncateInt (Dec.quo (Dec.mul top (Dec.ofInt T)) (Dec.sub top endP))

/-- `tnume.Quo(tdeno).TruncateInt64()` (v1 dutch.go:495-498, V2 auctions.go:311-314,327) -/
def tau (top endP : Dec) (T : Int) : Except Unit Int :=
  if Dec.sub top endP = 0 then .error () else do
    let n ← chk (Dec.mul top (Dec.ofInt T))
    let q ← chk (Dec.quo n (Dec.sub top endP))
    let t := Dec.truncateInt q
    if fitsI64 t then .ok t else .error ()

/-- V2 `UpdateDutchAuction` price: the end price is recomputed from the start price and the app's `Discount`. -/
def priceV2 (top discount : Dec) (T dur : Int) : Except Unit Dec := do
  let e ← endPrice top discount
  let t ← tau top e T
  linear top t dur

/-- v1 `RestartDutchAuctions` price: the end price is the stored `OutflowTokenEndPrice`. -/
def priceV1 (top endP : Dec) (T dur : Int) : Except Unit Dec := do
  let t ← tau top endP T
  linear top t dur

/-! ### decidable monitors, evaluated by the driver on the REAL posted prices -/

/-- `price_in_range` (upper side): a posted price never exceeds the start price -/
def monLeStart (top price : Dec) : Bool := decide (price ≤ top)

/-- `price_in_range` (lower side), exact form: posted price ≥ configured end price -/
def monGeEnd (endP price : Dec) : Bool := decide (endP ≤ price)

/-- `price_in_range` (lower side), proved form: `(price + 1)·tau ≥ end·tau − (top − end)` -/
def monGeEndSlack (top endP : Dec) (tau : Int) (price : Dec) : Bool :=
  decide ((price + 1) * tau ≥ endP * tau - (top - endP))

/-- `price_monotone`: later observation (same start time) is not above the earlier one -/
def monMono (durPrev : Int) (pricePrev : Dec) (dur : Int) (price : Dec) : Bool :=
  if durPrev ≤ dur then decide (price ≤ pricePrev) else true

end Comdex.DutchPrice
