import Comdex.Model.Accrual
/-!
# Vault stability-fee bookkeeping around `CalculationOfRewards` — C18, state level

Sources: `x/rewards/keeper/rewards.go:639-698` (`CalculateVaultInterest`), `x/vault/keeper/msg_server.go:1432-1453`
(`MsgVaultInterestCalc`), `x/asset/keeper/pairs_vault.go:240-366` (`WasmUpdatePairsVault`, `VaultIterateRewards`).

The interest FORMULA is `Comdex.Accrual.calcRewards` (with the value of `math.Pow` as its only input). This file models
what is done with it: WHICH interval is accrued (the vault's own `BlockTime`, or — when the vault's `BlockHeight` is 0, a
flag meaning "opened / last touched while the stability fee was zero" — the extended pair's `BlockTime`), the fractional
tracker, when whole units move to the vault's `InterestAccumulated`, and what is stamped afterwards. Core Lean only.
-/
namespace Comdex.VaultAccrual
open Comdex Comdex.Accrual

/-- the extended pair's fee and time stamp -/
structure Pair where
  fee : Dec
  stable : Bool          -- IsStableMintVault
  bh : Int               -- BlockHeight
  bt : Int               -- BlockTime (Unix seconds)
  deriving DecidableEq, Repr

/-- the vault fields that matter for accrual -/
structure Vault where
  amountOut : Int        -- principal debt
  ia : Int               -- InterestAccumulated (whole units)
  bh : Int               -- BlockHeight: 0 = "accrue from the pair's BlockTime"
  bt : Int               -- BlockTime (Unix seconds)
  deriving DecidableEq, Repr

structure St where
  appWl : Bool           -- the app is whitelisted in x/rewards (`GetAppIDByApp`)
  pair : Pair
  vault : Vault
  tracker : Option Dec   -- VaultInterestTracker.InterestAccumulated, `none` = no record yet
  deriving DecidableEq, Repr

structure Ctx where
  now : Int              -- ctx.BlockTime().Unix()
  height : Int           -- ctx.BlockHeight()
  deriving DecidableEq, Repr

/-- start of the interval that is accrued -/
def since (pairBt bh bt : Int) : Int := if bh = 0 then pairBt else bt

/-- accrued amount into the tracker, whole units to the vault, stamp -/
def book (v : Vault) (tr : Option Dec) (x : Dec) (stampH stampT : Int) : Vault × Dec :=
  let r := trackerStep (tr.getD 0) x
  ({ v with ia := v.ia + r.1, bh := stampH, bt := stampT }, r.2)

inductive Res where
  | ok (s : St)
  | err
  | panic
  deriving DecidableEq, Repr

/-- `CalculateVaultInterest(ctx, app, pair, vault, totalDebt, blockHeight, vaultBlockTime)`; `pw` is the value
`math.Pow` returns for this call (`none` = NaN/±Inf). -/
def calcInterest (s : St) (ctx : Ctx) (debt bh bt : Int) (pw : Option Int) : Res :=
  if !s.appWl then .ok s
  else if s.pair.fee = 0 || s.pair.stable then .ok s
  else match calcRewards debt s.pair.fee (ctx.now - since s.pair.bt bh bt) pw with
    | .ok x =>
      let r := book s.vault s.tracker x ctx.height ctx.now
      .ok { s with vault := r.1, tracker := some r.2 }
    | .err => .err
    | .panic => .panic

/-- `MsgVaultInterestCalc`: total debt = principal + accumulated interest, the vault's own stamp -/
def msgCalc (s : St) (ctx : Ctx) (pw : Option Int) : Res :=
  calcInterest s ctx (s.vault.amountOut + s.vault.ia) s.vault.bh s.vault.bt pw

/-- `MsgDeposit` as far as the accrual goes (x/vault/keeper/msg_server.go:281-303; `MsgWithdraw` :388-421, `MsgDraw` :507-576 and
`MsgRepay` :660-740 have the same shape): the interest calculation on principal + booked interest with the vault's own stamp, then the
vault — re-read — is stamped with the CURRENT height and time, unconditionally: also while the stability fee is zero (`MsgCreate`
:152-156 writes `BlockHeight = 0` in that case), so the flag "accrue from the pair's `BlockTime`" is lost. -/
def msgDeposit (s : St) (ctx : Ctx) (pw : Option Int) : Res :=
  match msgCalc s ctx pw with
  | .ok s1 => .ok { s1 with vault := { s1.vault with bh := ctx.height, bt := ctx.now } }
  | .err => .err
  | .panic => .panic

/-- the repair of defect D46 (notes/C18.md; NOT what the code does): the message writes the flag while the fee is zero, as
`MsgCreate` does. The driver accepts it as well as `msgDeposit`, so that a repaired tree checks clean. -/
def msgDepositFix (s : St) (ctx : Ctx) (pw : Option Int) : Res :=
  match msgCalc s ctx pw with
  | .ok s1 => .ok { s1 with vault := { s1.vault with bh := if s1.pair.fee = 0 then 0 else ctx.height, bt := ctx.now } }
  | .err => .err
  | .panic => .panic

/-- one vault of `VaultIterateRewards(ctx, rate, _, pairBt, app, pair, changeTypes)`; an error of the calculation
makes the sweep return silently. `none` = panic. -/
def iter (s : St) (ctx : Ctx) (rate : Dec) (pairBt : Int) (changeTypes : Bool) (pw : Option Int) : Option St :=
  match calcRewards s.vault.amountOut rate (ctx.now - since pairBt s.vault.bh s.vault.bt) pw with
  | .ok x =>
    let r := book s.vault s.tracker x (if changeTypes then ctx.height else 0) ctx.now
    some { s with vault := r.1, tracker := some r.2 }
  | .err => some s
  | .panic => none

/-- `WasmUpdatePairsVault` as far as the stability fee is concerned (`pw`: power value of the sweep, if one runs).
The code's guard `ExtPairVaultData.StabilityFee != updatePairVault.StabilityFee` compares two `sdk.Dec` STRUCTS, i.e. their
`*big.Int` pointers, and is therefore always true: an update with an unchanged fee takes the same branches. -/
def updateFee (s : St) (ctx : Ctx) (newFee : Dec) (pw : Option Int) : Option St :=
  let p := s.pair
  if s.appWl && !p.stable then
    if newFee = 0 then
      (iter s ctx p.fee p.bt false pw).map fun s1 => { s1 with pair := { p with fee := newFee, bh := 0, bt := ctx.now } }
    else if p.fee = 0 then
      some { s with pair := { p with fee := newFee, bh := ctx.height, bt := ctx.now } }
    else if 0 < p.fee && 0 < newFee then
      (iter s ctx p.fee p.bt true pw).map fun s1 => { s1 with pair := { p with fee := newFee, bh := ctx.height, bt := ctx.now } }
    else some { s with pair := { p with fee := newFee } }
  else some { s with pair := { p with fee := newFee } }

/-! ## the same steps with the power function supplied by `FloatOps` (for the theorems): the argument of `math.Pow` is
computed from the state exactly as the code does -/

def calcWith (ops : FloatOps) (s : St) (ctx : Ctx) (debt bh bt : Int) : Res :=
  calcInterest s ctx debt bh bt (some (ops.pow (xF s.pair.fee) (yF (ctx.now - since s.pair.bt bh bt))))

def msgCalcWith (ops : FloatOps) (s : St) (ctx : Ctx) : Res :=
  calcWith ops s ctx (s.vault.amountOut + s.vault.ia) s.vault.bh s.vault.bt

def updateFeeWith (ops : FloatOps) (s : St) (ctx : Ctx) (newFee : Dec) : Option St :=
  updateFee s ctx newFee (some (ops.pow (xF s.pair.fee) (yF (ctx.now - since s.pair.bt s.vault.bh s.vault.bt))))

/-- the fee is running for this vault -/
def Active (s : St) : Prop := s.appWl = true ∧ s.pair.fee ≠ 0 ∧ s.pair.stable = false

/-- what the position owes in interest so far: whole units on the vault plus the fraction in the tracker (raw 10^-18) -/
def booked (s : St) : Int := s.vault.ia * Dec.P + s.tracker.getD 0

end Comdex.VaultAccrual
