import Comdex.Base.Dec
/-!
# Lend module: utilisation-based rates and index-based accrual — C18 family (a), pure 18-digit fixed point

Source: `x/lend/keeper/maths.go:9-90` (`GetUtilisationRatioByPoolIDAndAssetID`, `GetBorrowAPRByAssetID`,
`GetLendAPRByAssetIDAndPoolID`), `x/lend/keeper/iter.go:186-265` (`CalculateStableInterest`,
`CalculateLendReward`, `CalculateBorrowInterest`). `Dec` values are raw 10^-18 integers (`Base/Dec.lean`).
The principal reaches the accrual functions as `amount.String()` of an `sdk.Int`, so it is an integer here.
Core Lean only.
-/
namespace Comdex.LendRates
open Comdex

/-- the interest-rate-model part of `AssetRatesParams` -/
structure Params where
  uOpt : Dec
  base : Dec
  slope1 : Dec
  slope2 : Dec
  stableBase : Dec
  stableSlope1 : Dec
  stableSlope2 : Dec
  reserveFactor : Dec
  deriving Repr, DecidableEq

/-- admissible interest-rate-model parameters (decidable) -/
def admissible (p : Params) : Bool :=
  decide (0 < p.uOpt) && decide (p.uOpt < Dec.one) &&
  decide (0 ≤ p.base) && decide (0 ≤ p.slope1) && decide (0 ≤ p.slope2) &&
  decide (0 ≤ p.stableBase) && decide (0 ≤ p.stableSlope1) && decide (0 ≤ p.stableSlope2) &&
  decide (0 ≤ p.reserveFactor) && decide (p.reserveFactor ≤ Dec.one)

def isInt64 (x : Int) : Bool := decide (-(2 ^ 63 : Int) ≤ x) && decide (x < (2 ^ 63 : Int))

/-- `GetUtilisationRatioByPoolIDAndAssetID`: `bal` = pool module balance of the asset, `bor` =
`TotalBorrowed + TotalStableBorrowed`. `none` = `Int64()` panics. -/
def utilisation (bal bor : Int) : Option Dec :=
  if !isInt64 bal || !isInt64 bor then none
  else if Dec.ofInt bal + Dec.ofInt bor = 0 then some 0
  else some (Dec.quo (Dec.ofInt bor) (Dec.ofInt bal + Dec.ofInt bor))

/-- below the kink: `base + (u / uOpt) * slope1` -/
def belowKink (base s1 uOpt u : Dec) : Dec := base + Dec.mul (Dec.quo u uOpt) s1
/-- at and above the kink: `base + slope1 + ((u - uOpt) / (1 - uOpt)) * slope2` -/
def aboveKink (base s1 s2 uOpt u : Dec) : Dec :=
  base + s1 + Dec.mul (Dec.quo (u - uOpt) (Dec.one - uOpt)) s2

/-- the kinked rate function shared by the variable and the stable borrow rate; `none` = `Quo` by zero panics -/
def kinked (base s1 s2 uOpt u : Dec) : Option Dec :=
  if u < uOpt then (if uOpt = 0 then none else some (belowKink base s1 uOpt u))
  else (if Dec.one - uOpt = 0 then none else some (aboveKink base s1 s2 uOpt u))

/-- `GetBorrowAPRByAssetID(…, IsStableBorrow)` at utilisation `u` -/
def borrowRate (p : Params) (stable : Bool) (u : Dec) : Option Dec :=
  if stable then kinked p.stableBase p.stableSlope1 p.stableSlope2 p.uOpt u
  else kinked p.base p.slope1 p.slope2 p.uOpt u

/-- `GetLendAPRByAssetIDAndPoolID`: `borrowAPY.Mul(u).Mul(1 - reserveFactor)` (variable borrow rate) -/
def lendRate (p : Params) (u : Dec) : Option Dec :=
  (borrowRate p false u).map fun b => Dec.mul (Dec.mul b u) (Dec.one - p.reserveFactor)

/-! ## accrual -/

def secondsPerYear : Int := 31557600
/-- `sdk.NewDec(secs).QuoInt64(SecondsPerYear)` (truncating) -/
def yearsDec (secs : Int) : Dec := Dec.quoInt (Dec.ofInt secs) secondsPerYear

/-- seconds elapsed as the code computes them: a last-interaction time of Unix 0 counts as "now" -/
def elapsed (now prev : Int) : Int := if prev = 0 then 0 else now - prev

/-- `1 + rate * years` -/
def factor1 (rate : Dec) (secs : Int) : Dec := Dec.one + Dec.mul rate (yearsDec secs)
/-- the new global index `globalIndex * factor1` -/
def indexNext (rate gi : Dec) (secs : Int) : Dec := Dec.mul gi (factor1 rate secs)
/-- `factor2 = indexGlobalCurrent / globalIndex` -/
def factor2 (rate gi : Dec) (secs : Int) : Dec := Dec.quo (indexNext rate gi secs) gi

/-- index-based accrual on an integer principal: `amt * factor2 - amt` (success path, `gi ≠ 0`, `secs ≥ 0`) -/
def indexInterest (amount : Int) (rate gi : Dec) (secs : Int) : Dec :=
  Dec.mul (Dec.ofInt amount) (factor2 rate gi secs) - Dec.ofInt amount

/-- `amt * stableRate * years` (`CalculateStableInterest`) -/
def stableInterest (amount : Int) (rate : Dec) (secs : Int) : Dec :=
  Dec.mul (Dec.mul (Dec.ofInt amount) rate) (yearsDec secs)

inductive Out where
  | ok (vals : List Int)
  | err
  | panic
  deriving Repr, DecidableEq

/-- `CalculateLendReward`: `(newAmount, indexGlobalCurrent)` -/
def lendReward (amount : Int) (rate gi : Dec) (now prev : Int) : Out :=
  let secs := elapsed now prev
  if secs < 0 then .err
  else if gi = 0 then .panic
  else .ok [indexInterest amount rate gi secs, indexNext rate gi secs]

/-- `CalculateBorrowInterest`: `(newAmount, indexGlobalCurrent, newAmountReservePool, reserveIndexGlobalCurrent)` -/
def borrowInterest (amount : Int) (rate reserveRate gi rgi : Dec) (now prev : Int) : Out :=
  let secs := elapsed now prev
  if secs < 0 then .err
  else if gi = 0 || rgi = 0 then .panic
  else .ok [indexInterest amount rate gi secs, indexNext rate gi secs,
            indexInterest amount reserveRate rgi secs, indexNext reserveRate rgi secs]

/-- `CalculateStableInterest` -/
def stableBorrowInterest (amount : Int) (rate : Dec) (now prev : Int) : Out :=
  let secs := elapsed now prev
  if secs < 0 then .err else .ok [stableInterest amount rate secs]

/-- **what ONE accrual charges a borrow position, on EVERY route** — `IterateBorrow` (iter.go:144-184: messages) and
`IterateBorrowForLiq` (keeper.go:1809-1838: `CalculateBorrowInterestForLiquidation`, both liquidation generations): the index-based
interest for a variable-rate borrow, the locked-rate interest `amt·stableRate·years` — and ONLY that — for a stable-rate borrow -/
def borrowCharge (stable : Bool) (amount : Int) (apr rr stableRate gi rgi : Dec) (now prev : Int) : Out :=
  match borrowInterest amount apr rr gi rgi now prev with
  | .ok [dI, _, _, _] =>
    if stable then
      match stableBorrowInterest amount stableRate now prev with
      | .ok [dS] => .ok [dS]
      | _ => .err
    else .ok [dI]
  | .ok _ => .err
  | .err => .err
  | .panic => .panic

/-! ## re-balancing of a stable-rate borrow (iter.go:266-288 `ReBalanceStableRates`, called by the liquidation modules) -/

def perc1 : Dec := 200000000000000000   -- types.Perc1 = 0.2
def perc2 : Dec := 900000000000000000   -- types.Perc2 = 0.9

/-- the position's stable rate `s` snaps to the pool's current stable rate `st` when it is at least 20 points above it, at least
20 points below it, or the utilisation `u` is at least 90 %; otherwise it stays -/
def rebalance (s st u : Dec) : Dec :=
  if st + perc1 ≤ s then st else if s + perc1 ≤ st ∨ perc2 ≤ u then st else s

/- the lend-reward tracker (iter.go:33-42) applies the same "≥ 1 ⇒ pay whole units, carry fraction" rule as
   `Comdex.Accrual.trackerStep` (Model/Accrual.lean); it is modelled there once. -/

end Comdex.LendRates
