import Comdex.Model.AmmPool
/-!
# Model of the ranged pool's side of a batch — `x/liquidity/amm/pool.go` (RangedPool: 202-474; DeriveTranslation: 534-584;
PoolBuyOrders / PoolSellOrders: 586-672 over a ranged pool)

A ranged pool is a constant-product curve on the *virtual* reserves `xComp = rx + transX`, `yComp = ry + transY` (Dec values);
the translation is derived from the real reserves and the price range `[minPrice, maxPrice]` by `DeriveTranslation` (approximate
square roots) whenever the keeper builds the pool (`NewRangedPool`) and after the one order that `BuyAmountTo` / `SellAmountTo`
contribute (`SetBalances(…, derive = true)`); inside the tick loops the translation is fixed (`derive = false`).

`none` of an `Option` = a Go panic (`Quo` by zero, `Price()` of a depleted pool, the nil `sqrtK`); inside `PoolBuyOrders` /
`PoolSellOrders` every panic is recovered and yields no orders at all.  Not modelled: `Dec` overflow (the `SafeMath` fallback to
`MaxCoinAmount`).  Core Lean only.
-/
namespace Comdex.Amm
open Comdex

structure RPool where
  rx : Int
  ry : Int
  minPrice : Int
  maxPrice : Int
  transX : Int
  transY : Int
deriving DecidableEq, Repr

/-- `Quo`; `none` = division by zero -/
def dquo (a b : Int) : Option Int := if b = 0 then none else some (Dec.quo a b)
/-- `inv` (util.go:130) -/
def dinv (x : Int) : Option Int := dquo Dec.one x
/-- `ApproxSqrt`, also of a negative value (`-sqrt(-d)`) -/
def rsqrt (d : Int) : Int := if d < 0 then - Dec.approxSqrt (-d) else Dec.approxSqrt d

/-- `sqrtP` of `DeriveTranslation` (pool.go:542-560) -/
def deriveSqrtP (rxD ryD sqrtM sqrtL : Int) : Option Int :=
  if rxD = 0 then some sqrtM
  else if ryD = 0 then some sqrtL
  else if Dec.quo rxD ryD = 0 then some sqrtM
  else if Dec.quo ryD rxD = 0 then some sqrtL
  else
    let s := rsqrt (Dec.quo rxD ryD)
    match dquo sqrtM s, dquo s sqrtL with
    | some a1, some a2 =>
      let alpha := a1 - a2
      some (Dec.mul (Dec.quoInt (alpha + rsqrt (Dec.power alpha 2 + 4 * Dec.P)) 2) s)
    | _, _ => none

/-- `DeriveTranslation` -/
def deriveTranslation (rx ry minPrice maxPrice : Int) : Option (Int × Int) :=
  let rxD := Dec.ofInt rx
  let ryD := Dec.ofInt ry
  let sqrtM := rsqrt minPrice
  let sqrtL := rsqrt maxPrice
  match deriveSqrtP rxD ryD sqrtM sqrtL with
  | none => none
  | some sqrtP =>
    -- `sqrtK` stays nil when `sqrtP = sqrtM`
    let k1 : Option (Option Int) :=
      if sqrtP ≠ sqrtM then (match dquo rxD (sqrtP - sqrtM) with | none => none | some k => some (some k)) else some none
    match k1 with
    | none => none
    | some sqrtK1 =>
      let k : Option (Option Int) :=
        if sqrtP ≠ sqrtL then
          match dinv sqrtP, dinv sqrtL with
          | some ip, some il =>
            match dquo ryD (ip - il) with
            | none => none
            | some sqrtK2 =>
              match sqrtK1 with
              | none => some (some sqrtK2)
              | some sqrtK =>
                let p := Dec.power sqrtP 2
                match dquo sqrtK sqrtL, dquo sqrtK2 sqrtL with
                | some kl, some k2l =>
                  match dquo (rxD + Dec.mul sqrtK sqrtM) (ryD + kl), dquo (rxD + Dec.mul sqrtK2 sqrtM) (ryD + k2l) with
                  | some p1, some p2 =>
                    if (p - p1).natAbs > (p - p2).natAbs then some (some sqrtK2) else some (some sqrtK)
                  | _, _ => none
                | _, _ => none
          | _, _ => none
        else some sqrtK1
      match k with
      | some (some sqrtK) =>
        match dquo sqrtK sqrtL with
        | some ty => some (Dec.mul sqrtK sqrtM, ty)
        | none => none
      | _ => none      -- a panic, or the nil `sqrtK` dereferenced

/-- `NewRangedPool` -/
def RPool.new (rx ry minPrice maxPrice : Int) : Option RPool :=
  match deriveTranslation rx ry minPrice maxPrice with
  | none => none
  | some (tx, ty) => some ⟨rx, ry, minPrice, maxPrice, tx, ty⟩

def RPool.xComp (pl : RPool) : Int := Dec.ofInt pl.rx + pl.transX
def RPool.yComp (pl : RPool) : Int := Dec.ofInt pl.ry + pl.transY

/-- `RangedPool.SetBalances(rx, ry, derive)` -/
def RPool.setBalances (pl : RPool) (rx ry : Int) (derive : Bool) : Option RPool :=
  if derive then
    match deriveTranslation rx ry pl.minPrice pl.maxPrice with
    | none => none
    | some (tx, ty) => some { pl with rx := rx, ry := ry, transX := tx, transY := ty }
  else some { pl with rx := rx, ry := ry }

/-- `RangedPool.Price` -/
def RPool.price (pl : RPool) : Option Int :=
  if pl.rx = 0 ∧ pl.ry = 0 then none else dquo pl.xComp pl.yComp

/-- `RangedPool.BuyAmountOver(price, _)` -/
def RPool.buyAmountOver (pl : RPool) (price : Int) : Option Int :=
  match pl.price with
  | none => none
  | some pp =>
    let p := if price < pl.minPrice then pl.minPrice else price
    if p ≥ pp then some 0 else
    let dx0 := pl.xComp - Dec.mul p pl.yComp
    if dx0 ≤ 0 then some 0 else
    let dx := if dx0 > Dec.ofInt pl.rx then Dec.ofInt pl.rx else dx0
    if price = 0 then none else
    let amt := Dec.truncateInt (Dec.quoTruncate dx price)
    some (if amt > maxCoinAmount then maxCoinAmount else amt)

/-- `RangedPool.SellAmountUnder(price, _)` -/
def RPool.sellAmountUnder (pl : RPool) (price : Int) : Option Int :=
  match pl.price with
  | none => none
  | some pp =>
    let p := if price > pl.maxPrice then pl.maxPrice else price
    if p ≤ pp then some 0 else
    if p = 0 then none else
    let amt0 := Dec.truncateInt (pl.yComp - Dec.quoRoundUp pl.xComp p)
    let amt := if amt0 > pl.ry then pl.ry else amt0
    some (if amt > 0 then amt else 0)

/-- `RangedPool.BuyAmountTo(price)` -/
def RPool.buyAmountTo (pl : RPool) (price : Int) : Option Int :=
  match pl.price with
  | none => none
  | some pp =>
    let p := if price < pl.minPrice then pl.minPrice else price
    if p ≥ pp then some 0 else
    let sx := rsqrt pl.xComp
    let sy := rsqrt pl.yComp
    let sp := rsqrt p
    let dx0 := Dec.ofInt pl.rx - (Dec.mul sp (Dec.mul sx sy) - pl.transX)
    if dx0 ≤ 0 then some 0 else
    let dx := if dx0 > Dec.ofInt pl.rx then Dec.ofInt pl.rx else dx0
    if price = 0 then none else
    let amt := Dec.truncateInt (Dec.quoTruncate dx price)
    some (if amt > maxCoinAmount then maxCoinAmount else amt)

/-- `RangedPool.SellAmountTo(price)` -/
def RPool.sellAmountTo (pl : RPool) (price : Int) : Option Int :=
  match pl.price with
  | none => none
  | some pp =>
    let p := if price > pl.maxPrice then pl.maxPrice else price
    if p ≤ pp then some 0 else
    let sx := rsqrt pl.xComp
    let sy := rsqrt pl.yComp
    let sp := rsqrt p
    if sp = 0 then none else
    let amt0 := Dec.truncateInt (Dec.ofInt pl.ry - (Dec.quoRoundUp (Dec.mul sx sy) sp - pl.transY))
    let amt := if amt0 > pl.ry then pl.ry else amt0
    some (if amt > 0 then amt else 0)

/-- the tick loop of `PoolBuyOrders` over a ranged pool (translation fixed: `SetBalances(…, false)`) -/
def rBuyLoop : Nat → RPool → Int → Int → Int → Nat → List (Int × Int) → Option (List (Int × Int))
  | 0, _, _, _, _, _, acc => some acc
  | fuel+1, pl, poolPrice, lowest, tick, prec, acc =>
    if tick < lowest then some acc else
    match pl.buyAmountOver tick with
    | none => none
    | some amt =>
      if amt < minCoinAmount then rBuyLoop fuel pl poolPrice lowest (downTick tick prec) prec acc
      else
        let pl' : RPool := { pl with rx := pl.rx - quoteCeil tick amt, ry := pl.ry + amt }
        let acc' := acc ++ [(tick, amt)]
        if ¬ (pl'.rx > 0) then some acc'
        else rBuyLoop fuel pl' poolPrice lowest
          (priceToDownTick (Dec.mul tick (Dec.one - gapRatio poolPrice tick)) prec) prec acc'

/-- the state in which the tick loop of `PoolBuyOrders` starts: after the `BuyAmountTo` order at the upper price limit, if
the pool price is above it (`SetBalances(…, true)`: the translation is derived again).  `none` = a panic. -/
def rBuyFirst (pl : RPool) (poolPrice highest : Int) : Option (RPool × List (Int × Int)) :=
  if poolPrice > highest then
    match pl.buyAmountTo highest with
    | none => none
    | some amt =>
      if amt ≥ minCoinAmount then
        match pl.setBalances (pl.rx - quoteCeil highest amt) (pl.ry + amt) true with
        | none => none
        | some pl1 => some (pl1, [(highest, amt)])
      else some (pl, [])
  else some (pl, [])

/-- `PoolBuyOrders` for a ranged pool; a recovered panic yields `[]` -/
def rPoolBuyOrders (pl : RPool) (lowest highest : Int) (prec : Nat) : List (Int × Int) :=
  match pl.price with
  | none => []
  | some poolPrice =>
    if poolPrice ≤ lowest then [] else
    match rBuyFirst pl poolPrice highest with
    | none => []
    | some (pl1, acc) =>
      match pl1.price with
      | none => []
      | some p1 =>
        let start := priceToDownTick (if highest < p1 then highest else p1) prec
        match rBuyLoop ((tickToIndex start prec - tickToIndex lowest prec).toNat + 3) pl1 poolPrice lowest start prec acc with
        | none => []
        | some os => os

/-- the tick loop of `PoolSellOrders` over a ranged pool -/
def rSellLoop : Nat → RPool → Int → Int → Int → Nat → List (Int × Int) → Option (List (Int × Int))
  | 0, _, _, _, _, _, acc => some acc
  | fuel+1, pl, poolPrice, highest, tick, prec, acc =>
    if tick > highest then some acc else
    match pl.sellAmountUnder tick with
    | none => none
    | some amt =>
      if amt < minCoinAmount ∨ quoteFloor tick amt = 0 then rSellLoop fuel pl poolPrice highest (upTick tick prec) prec acc
      else
        let pl' : RPool := { pl with rx := pl.rx + quoteFloor tick amt, ry := pl.ry - amt }
        let acc' := acc ++ [(tick, amt)]
        if ¬ (pl'.ry > minCoinAmount) then some acc'
        else rSellLoop fuel pl' poolPrice highest
          (priceToUpTick (Dec.mul tick (Dec.one + gapRatio poolPrice tick)) prec) prec acc'

def rSellFirst (pl : RPool) (poolPrice lowest : Int) : Option (RPool × List (Int × Int)) :=
  if poolPrice < lowest then
    match pl.sellAmountTo lowest with
    | none => none
    | some amt =>
      if amt ≥ minCoinAmount ∧ quoteFloor lowest amt > 0 then
        match pl.setBalances (pl.rx + quoteFloor lowest amt) (pl.ry - amt) true with
        | none => none
        | some pl1 => some (pl1, [(lowest, amt)])
      else some (pl, [])
  else some (pl, [])

/-- `PoolSellOrders` for a ranged pool -/
def rPoolSellOrders (pl : RPool) (lowest highest : Int) (prec : Nat) : List (Int × Int) :=
  match pl.price with
  | none => []
  | some poolPrice =>
    if poolPrice ≥ highest then [] else
    match rSellFirst pl poolPrice lowest with
    | none => []
    | some (pl1, acc) =>
      match pl1.price with
      | none => []
      | some p1 =>
        let start := priceToUpTick (if lowest > p1 then lowest else p1) prec
        match rSellLoop ((tickToIndex highest prec - tickToIndex start prec).toNat + 3) pl1 poolPrice highest start prec acc with
        | none => []
        | some os => os

/-! ### decidable forms (monitors), replayed on the running reserves with the translation fixed

`X = xComp`, `Y = yComp` are Dec raws (×10^18), `price` a Dec raw, `amt` an integer. -/

/-- tick-loop buy orders: every order's quote cost is covered by the REAL quote reserve, and the price paid is not above
`X / (Y + amt)` — on the virtual constant-product curve — by more than the half unit in the 18th decimal that `Dec.Mul` may
round away -/
def monRPoolBuys : RPool → List (Int × Int) → Bool
  | _, [] => true
  | pl, (price, amt) :: rest =>
    decide (0 < amt) && decide (quoteCeil price amt ≤ pl.rx) &&
    decide (price * (pl.yComp + amt * Dec.P) ≤ pl.xComp * Dec.P + Dec.half) &&
    monRPoolBuys { pl with rx := pl.rx - quoteCeil price amt, ry := pl.ry + amt } rest

/-- tick-loop sell orders: every order's amount is covered by the REAL base reserve, and the price received is not below
`X / (Y − amt)` (up to `price·10⁻³⁶`, what the two roundings of `QuoRoundUp` may lose) -/
def monRPoolSells : RPool → List (Int × Int) → Bool
  | _, [] => true
  | pl, (price, amt) :: rest =>
    decide (0 < amt) && decide (amt ≤ pl.ry) &&
    decide (pl.xComp * Dec.PP ≤ price * (pl.yComp - amt * Dec.P) * Dec.P + price) &&
    monRPoolSells { pl with rx := pl.rx + quoteFloor price amt, ry := pl.ry - amt } rest

/-- a whole `PoolBuyOrders` list of a ranged pool, REAL orders: the first order may be the one `BuyAmountTo` contributes at the
upper limit (approximate square roots: only its coverage by the quote reserve is demanded; afterwards the translation is derived
again), the rest must pass `monRPoolBuys` on non-negative virtual reserves -/
def monRPoolBuyOrders (pl : RPool) (highest : Int) (l : List (Int × Int)) : Bool :=
  match pl.price with
  | none => l.isEmpty
  | some pp =>
    let toPlaced := match rBuyFirst pl pp highest with | some (_, [_]) => true | _ => false
    match toPlaced, l with
    | true, (price, amt) :: rest =>
      -- the REAL first order, replayed
      decide (0 < amt) && decide (quoteCeil price amt ≤ pl.rx) &&
      (match pl.setBalances (pl.rx - quoteCeil price amt) (pl.ry + amt) true with
       | some plr => (rest.isEmpty || decide (0 ≤ plr.yComp)) && monRPoolBuys plr rest
       | none => rest.isEmpty)
    | _, l => (l.isEmpty || decide (0 ≤ pl.yComp)) && monRPoolBuys pl l

def monRPoolSellOrders (pl : RPool) (lowest : Int) (l : List (Int × Int)) : Bool :=
  match pl.price with
  | none => l.isEmpty
  | some pp =>
    let toPlaced := match rSellFirst pl pp lowest with | some (_, [_]) => true | _ => false
    match toPlaced, l with
    | true, (price, amt) :: rest =>
      decide (0 < amt) && decide (amt ≤ pl.ry) &&
      (match pl.setBalances (pl.rx + quoteFloor price amt) (pl.ry - amt) true with
       | some plr => (rest.isEmpty || decide (0 ≤ plr.xComp)) && monRPoolSells plr rest
       | none => rest.isEmpty)
    | _, l => (l.isEmpty || decide (0 ≤ pl.xComp)) && monRPoolSells pl l

end Comdex.Amm
