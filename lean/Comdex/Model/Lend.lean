import Comdex.Base.Dec
/-!
Model of the lending books of x/lend (keeper.go, funds.go, rates.go, iter.go) and of the
liquidation hand-over of x/liquidationsV2 (liquidate.go `UpdateLockedBorrows`).  Core Lean only.

What is modelled: lend positions, borrow positions, the per (pool, asset) totals
(`PoolAssetLBMapping.Total*`), the bank balances of users / pool module accounts / reserve module,
the guard order and the arithmetic of every message handler (line references in the comments).
Static configuration (`Cfg`): assets, asset-rates params, pools with transit types and supply caps,
lend pairs, asset→pair lists, apps.  Oracle prices are part of the state (`setPrice`).

External inputs (printed by the harness, the theorems quantify over all of them):
* `r`      — the whole-token lend reward `newInterestPerInteraction` of `IterateLends`,
* `ExtB`   — `none` if `IterateBorrow` failed, else the interest and reserve-share increments it added.

Denominations are identified with asset ids (`Asset.Denom` of asset `i` is `i`; the empty denom of a
not-found asset is `0`).  Accounts are numbers (users, pool module accounts, reserve, auction).
The user↔lend↔borrow index (`UserAssetLendBorrowMapping`) is *derived* from the positions: its entry for
a lend exists iff the lend exists and lists the ids of the borrows whose `LendingID` is that lend.
The ESM kill switch (per app) and the pool-depreciation list are state (`killed`, `depPools`) and guard the handlers at the places
the code has them. Not modelled: block-gas.
-/
namespace Comdex.Lend
open Comdex

abbrev E := Except String

/-! ## Configuration -/

structure AssetCfg where
  id : Nat
  decimals : Int
  deriving Repr, DecidableEq

structure RatesCfg where
  asset : Nat
  ltv : Dec
  eLtv : Dec
  cAsset : Nat
  isolated : Bool
  stableOk : Bool
  liqPenalty : Dec := 0      -- LiquidationPenalty
  eLiqPenalty : Dec := 0     -- ELiquidationPenalty (e-mode pairs)
  deriving Repr, DecidableEq

structure PoolAsset where
  asset : Nat
  transit : Nat
  cap : Dec
  deriving Repr, DecidableEq

structure PoolCfg where
  id : Nat
  acct : Nat
  assets : List PoolAsset
  deriving Repr, DecidableEq

structure PairCfg where
  id : Nat
  assetIn : Nat
  assetOut : Nat
  inter : Bool
  outPool : Nat
  eMode : Bool
  deriving Repr, DecidableEq

structure A2P where
  asset : Nat
  pool : Nat
  pairs : List Nat
  deriving Repr, DecidableEq

structure Cfg where
  assets : List AssetCfg := []
  rates : List RatesCfg := []
  pools : List PoolCfg := []
  pairs : List PairCfg := []
  a2p : List A2P := []
  apps : List (Nat × Bool) := []     -- (app id, name = "commodo")
  reserveAcct : Nat := 99
  auctionAcct : Nat := 98
  deriving Repr

def Cfg.asset? (c : Cfg) (id : Nat) : Option AssetCfg := c.assets.find? (fun a => a.id == id)
def Cfg.rates? (c : Cfg) (id : Nat) : Option RatesCfg := c.rates.find? (fun a => a.asset == id)
def Cfg.pool? (c : Cfg) (id : Nat) : Option PoolCfg := c.pools.find? (fun a => a.id == id)
def Cfg.pair? (c : Cfg) (id : Nat) : Option PairCfg := c.pairs.find? (fun a => a.id == id)
def Cfg.app? (c : Cfg) (id : Nat) : Option Bool := c.apps.lookup id
/-- `GetAssetToPair(asset, pool).PairID` (empty when the mapping does not exist) -/
def Cfg.pairsOf (c : Cfg) (asset pool : Nat) : List Nat :=
  match c.a2p.find? (fun m => m.asset == asset && m.pool == pool) with
  | some m => m.pairs
  | none => []
/-- the (pool, asset) whose totals a borrow on this pair is booked under -/
def Cfg.pairOut (c : Cfg) (pairId : Nat) : Option (Nat × Nat) :=
  match c.pair? pairId with
  | some p => some (p.outPool, p.assetOut)
  | none => none

/-- last entry wins, as in the `for … range pool.AssetData` loops -/
def transitOf (assets : List PoolAsset) (ty : Nat) : Nat :=
  assets.foldl (fun acc d => if d.transit = ty then d.asset else acc) 0
def capOf (assets : List PoolAsset) (asset : Nat) : Dec :=
  assets.foldl (fun acc d => if d.asset = asset then d.cap else acc) 0

/-! ## Positions and totals -/

structure Lend where
  id : Nat
  owner : Nat
  pool : Nat
  asset : Nat
  amountIn : Int
  avail : Int            -- AvailableToBorrow
  app : Nat := 0         -- AppID (the kill switch is looked up under it)
  deriving Repr, DecidableEq

structure Borrow where
  id : Nat
  lendingId : Nat
  pairId : Nat
  inDenom : Nat          -- denom of AmountIn (a cToken)
  amountIn : Int         -- pledged cTokens
  outDenom : Nat
  amountOut : Int        -- principal
  interest : Dec         -- InterestAccumulated (raw 10^-18)
  stable : Bool
  liq : Bool             -- IsLiquidated
  brDenom : Nat          -- BridgedAssetAmount.Denom
  bridged : Int          -- BridgedAssetAmount.Amount
  reserveInt : Dec       -- BorrowInterestTracker.ReservePoolInterest
  deriving Repr, DecidableEq

structure Stats where
  pool : Nat
  asset : Nat
  totalLend : Int
  totalBorrowed : Int
  totalStable : Int
  totalInterest : Int
  lendIds : List Nat := []       -- PoolAssetLBMapping.LendIds
  borrowIds : List Nat := []     -- PoolAssetLBMapping.BorrowIds (keyed by the pair's OUT pool / asset)
  deriving Repr, DecidableEq

/-- the reserve book-keeping of one asset: `ReserveBuybackAssetData` (`reserve`, `buyback`), `AllReserveStats` (the five flow totals) and the
sum of the `FundReserveBal` entries of the asset (`funded`). A missing record reads as all-zero, as in the keeper (`!found` ⇒ zero record). -/
structure Resv where
  asset : Nat
  reserve : Int := 0            -- ReserveBuybackAssetData.ReserveAmount
  buyback : Int := 0            -- ReserveBuybackAssetData.BuybackAmount
  outLenders : Int := 0         -- AllReserveStats.AmountOutFromReserveToLenders
  outAuction : Int := 0         -- AllReserveStats.AmountOutFromReserveForAuction (first-generation auctions only)
  inPenalty : Int := 0          -- AllReserveStats.AmountInFromLiqPenalty
  inRepay : Int := 0            -- AllReserveStats.AmountInFromRepayments
  totalOutLenders : Int := 0    -- AllReserveStats.TotalAmountOutToLenders (rewards paid, whatever their source)
  funded : Int := 0             -- Σ FundReserveBal.AmountIn of the asset (MsgFundReserveAccounts)
  deriving Repr, DecidableEq

/-- the `LockedVault` of x/liquidationsV2 that a hand-over creates for a borrow (what the auction close reads back) -/
structure Locked where
  borrowId : Nat                -- OriginalVaultId
  owner : Nat                   -- Owner (the lend position's owner at the hand-over)
  target : Int                  -- TargetDebt = principal + FeeToBeCollected
  fee : Int                     -- FeeToBeCollected
  deriving Repr, DecidableEq

/-! ## Bank (small association list) -/

abbrev Bank := List ((Nat × Nat) × Int)

def Bank.get (b : Bank) (a d : Nat) : Int :=
  match b.lookup (a, d) with
  | some x => x
  | none => 0

def Bank.add (b : Bank) (a d : Nat) (x : Int) : Bank :=
  ((a, d), b.get a d + x) :: b.filter (fun e => e.1 != (a, d))

/-- `SendCoins…`: `sdk.NewCoin` panics on a negative amount, zero coins are dropped by `NewCoins`. -/
def Bank.send (b : Bank) (src dst d : Nat) (x : Int) : E Bank :=
  if x < 0 then .error "negative coin"
  else if x = 0 then .ok b
  else if b.get src d < x then .error "insufficient funds"
  else .ok ((b.add src d (-x)).add dst d x)

def Bank.mint (b : Bank) (a d : Nat) (x : Int) : E Bank :=
  if x < 0 then .error "negative coin" else if x = 0 then .ok b else .ok (b.add a d x)

def Bank.burn (b : Bank) (a d : Nat) (x : Int) : E Bank :=
  if x < 0 then .error "negative coin"
  else if x = 0 then .ok b
  else if b.get a d < x then .error "insufficient funds"
  else .ok (b.add a d (-x))

/-! ## State -/

structure State where
  lends : List Lend := []
  borrows : List Borrow := []
  stats : List Stats := []
  bank : Bank := []
  lendCtr : Nat := 0
  borrowCtr : Nat := 0
  prices : List (Nat × Nat) := []      -- active oracle prices (asset id ↦ twa)
  killed : List Nat := []              -- app ids whose ESM kill switch (`BreakerEnable`) is on
  depPools : List Nat := []            -- pool ids listed in the pool-depreciation record
  depPending : List Nat := []          -- … those of its entries whose flag `IsPoolDepreciated` is false, in record order (the block hook's work list)
  delPools : List Nat := []            -- pools deleted by the block hook
  resv : List Resv := []               -- reserve book-keeping records per asset
  locked : List Locked := []           -- second-generation locked vaults of handed-over borrows
  deriving Repr

/-- `esm.GetKillSwitchData(app).BreakerEnable` -/
def State.isKilled (s : State) (app : Nat) : Bool := s.killed.contains app
/-- `IsPoolDepreciated`: listed is enough, the flag of the entry is not read -/
def State.isDep (s : State) (pool : Nat) : Bool := s.depPools.contains pool

def getLend (ls : List Lend) (id : Nat) : Option Lend := ls.find? (fun l => l.id == id)
def setLend (ls : List Lend) (v : Lend) : List Lend := ls.map fun l => if l.id = v.id then v else l
def delLend (ls : List Lend) (id : Nat) : List Lend := ls.filter fun l => l.id != id
def getBorrow (bs : List Borrow) (id : Nat) : Option Borrow := bs.find? (fun b => b.id == id)
def setBorrow (bs : List Borrow) (v : Borrow) : List Borrow := bs.map fun b => if b.id = v.id then v else b
def delBorrow (bs : List Borrow) (id : Nat) : List Borrow := bs.filter fun b => b.id != id
def getStats (ss : List Stats) (p a : Nat) : Option Stats := ss.find? (fun s => s.pool == p && s.asset == a)
def modStats (ss : List Stats) (p a : Nat) (f : Stats → Stats) : List Stats :=
  ss.map fun s => if s.pool = p ∧ s.asset = a then f s else s

/-- `UpdateLendStats` (funds.go:35-43) -/
def addTotalLend (ss : List Stats) (p a : Nat) (d : Int) : List Stats :=
  modStats ss p a fun s => { s with totalLend := s.totalLend + d }
/-- `UpdateBorrowStats` (funds.go:45-61) -/
def addBorrowed (ss : List Stats) (p a : Nat) (stable : Bool) (d : Int) : List Stats :=
  modStats ss p a fun s =>
    if stable then { s with totalStable := s.totalStable + d } else { s with totalBorrowed := s.totalBorrowed + d }
def addTotalInterest (ss : List Stats) (p a : Nat) (d : Int) : List Stats :=
  modStats ss p a fun s => { s with totalInterest := s.totalInterest + d }

/-! ### id lists of the pool-asset record (`LendIds`, `BorrowIds`) -/

/-- Go's `sort.Search(n, f)`: binary search on `[i, j)`, `fuel ≥ j - i` iterations suffice -/
def sortSearch (f : Nat → Bool) : (fuel i j : Nat) → Nat
  | 0, i, _ => i
  | fuel + 1, i, j =>
    if i < j then
      let h := (i + j) / 2
      if f h then sortSearch f fuel i h else sortSearch f fuel (h + 1) j
    else i

/-- `DeleteIDFromAssetStatsMapping` (lend.go:422-443) on one list: binary search for the first entry `≥ id` — the list is taken to be
ascending — and removal of that entry if it is the id; otherwise nothing is removed. -/
def delId (ids : List Nat) (id : Nat) : List Nat :=
  let k := sortSearch (fun i => decide (ids.getD i 0 ≥ id)) ids.length 0 ids.length
  if k < ids.length ∧ ids.getD k 0 = id then ids.eraseIdx k else ids

def addLendId (ss : List Stats) (p a id : Nat) : List Stats := modStats ss p a fun s => { s with lendIds := s.lendIds ++ [id] }
def delLendId (ss : List Stats) (p a id : Nat) : List Stats := modStats ss p a fun s => { s with lendIds := delId s.lendIds id }
def addBorrowId (ss : List Stats) (p a id : Nat) : List Stats := modStats ss p a fun s => { s with borrowIds := s.borrowIds ++ [id] }
def delBorrowId (ss : List Stats) (p a id : Nat) : List Stats := modStats ss p a fun s => { s with borrowIds := delId s.borrowIds id }

/-! ### reserve book-keeping records -/

def getResv (rs : List Resv) (a : Nat) : Resv :=
  match rs.find? (fun r => r.asset == a) with
  | some r => r
  | none => { asset := a }

/-- read-modify-write of the record of asset `a` (created as a zero record when missing) -/
def modResv (rs : List Resv) (a : Nat) (f : Resv → Resv) : List Resv :=
  if rs.any (fun r => r.asset == a) then rs.map fun r => if r.asset = a then f r else r
  else rs ++ [f { asset := a }]

/-- the record part of `UpdateReserveBalances` (funds.go:9-33): BOTH halves move by `⌊x/2⌋` (`sdk.Int.Quo`), up (`inc`) or down -/
def Resv.halves (r : Resv) (x : Int) (inc : Bool) : Resv :=
  if inc then { r with reserve := r.reserve + Int.tdiv x 2, buyback := r.buyback + Int.tdiv x 2 }
  else { r with reserve := r.reserve - Int.tdiv x 2, buyback := r.buyback - Int.tdiv x 2 }

/-- coins that entered minus coins that left the reserve module account according to the records of the asset -/
def Resv.flow (r : Resv) : Int := r.funded + r.inPenalty + r.inRepay - r.outLenders - r.outAuction

/-- an interest share paid into the reserve: `UpdateReserveBalances(…, inc)` + `UpdateReserveAmtFromRepayments` -/
def resvRepay (rs : List Resv) (a : Nat) (x : Int) : List Resv :=
  modResv rs a fun r => { r.halves x true with inRepay := r.inRepay + x }

/-- the derived `UserAssetLendBorrowMapping.BorrowId` of a lend -/
def borrowsOfLend (bs : List Borrow) (lid : Nat) : List Borrow := bs.filter fun b => b.lendingId == lid

/-- `HasBorrowForAddressByPair` / `GetBorrowIDForAddressByPair`: lends of the user in id order, their borrows in id order -/
def findBorrowByPair (s : State) (u pairId : Nat) : Option Borrow :=
  ((s.lends.filter fun l => l.owner == u).flatMap fun l => borrowsOfLend s.borrows l.id).find? fun b => b.pairId == pairId

/-- `HasLendForAddressByAsset` / `GetLendIDForAssetIDPoolID` -/
def findLendByAsset (s : State) (u asset pool : Nat) : Option Lend :=
  s.lends.find? fun l => l.owner == u && l.pool == pool && l.asset == asset

/-! ## Valuation (x/market/keeper/oracle.go:167-179, x/lend/keeper/rates.go) -/

def calcPrice (cfg : Cfg) (prices : List (Nat × Nat)) (id : Nat) (amt : Int) : E Dec :=
  match cfg.asset? id with
  | none => .error "asset does not exist"
  | some a =>
    match prices.lookup id with
    | none => .error "price not active"
    | some twa =>
      if a.decimals = 0 then .error "division by zero"
      else .ok (Dec.quo (Dec.mul (Dec.ofInt amt) (Dec.ofInt (twa : Int))) (Dec.ofInt a.decimals))

/-- `CalculateCollateralizationRatio`: value(out) / value(in); a zero collateral value is a division panic. -/
def collRatio (cfg : Cfg) (prices : List (Nat × Nat)) (amtIn : Int) (assetIn : Nat) (amtOut : Int) (assetOut : Nat) : E Dec :=
  match calcPrice cfg prices assetIn amtIn with
  | .error e => .error e
  | .ok tin =>
    match calcPrice cfg prices assetOut amtOut with
    | .error e => .error e
    | .ok tout => if tin = 0 then .error "division by zero" else .ok (Dec.quo tout tin)

/-- `VerifyCollateralizationRatio`: rejected iff ratio > threshold (strict). -/
def verifyCR (cfg : Cfg) (prices : List (Nat × Nat)) (amtIn : Int) (assetIn : Nat) (amtOut : Int) (assetOut : Nat) (ltv : Dec) : E Unit :=
  match collRatio cfg prices amtIn assetIn amtOut assetOut with
  | .error e => .error e
  | .ok r => if r > ltv then .error "invalid collateralization ratio" else .ok ()

def check (c : Bool) (e : String) : E Unit := if c then .ok () else .error e

def orErr {α} (o : Option α) (e : String) : E α := match o with | some a => .ok a | none => .error e

/-- `CheckSupplyCap` (keeper.go:90-113) -/
def checkSupplyCap (cfg : Cfg) (s : State) (asset : Nat) (pool : PoolCfg) (amt : Int) : E Unit := do
  let st ← orErr (getStats s.stats pool.id asset) "stats not found"
  let cur ← calcPrice cfg s.prices asset (st.totalLend + amt)
  check (cur ≤ capOf pool.assets asset) "supply cap exceeds"

/-! ## Accrual steps with external amounts -/

/-- `IterateLends` (iter.go:12-142) with the whole-token reward `r` as input. -/
def iterLends (cfg : Cfg) (s : State) (lendId : Nat) (r : Int) : E State := do
  let l ← orErr (getLend s.lends lendId) "lend not found"
  if r > 0 then
    let pool ← orErr (cfg.pool? l.pool) "pool not found"
    let rates ← orErr (cfg.rates? l.asset) "rates not found"
    let st ← orErr (getStats s.stats l.pool l.asset) "stats not found"
    if r > st.totalInterest then
      check (decide (¬ s.bank.get cfg.reserveAcct l.asset < r)) "insufficient cTokens for rewards"
      let b1 ← s.bank.send cfg.reserveAcct pool.acct l.asset r
      let b2 ← b1.mint pool.acct rates.cAsset r
      let b3 ← b2.send pool.acct l.owner rates.cAsset r
      pure { s with bank := b3, lends := setLend s.lends { l with avail := l.avail + r },
                                            stats := addTotalLend s.stats l.pool l.asset r,
                                            resv := modResv s.resv l.asset fun x =>
                                              { x.halves r false with outLenders := x.outLenders + r, totalOutLenders := x.totalOutLenders + r } }
    else
      let b1 ← s.bank.send pool.acct l.owner rates.cAsset r
      pure { s with bank := b1, lends := setLend s.lends { l with avail := l.avail + r },
                                            stats := addTotalLend (addTotalInterest s.stats l.pool l.asset (-r)) l.pool l.asset r,
                                            resv := modResv s.resv l.asset fun x => { x with totalOutLenders := x.totalOutLenders + r } }
  else pure s

/-- What the real `IterateBorrow` did: it added `dI` to the interest and `dR` to the reserve share, or returned an
error, or panicked (a zero global index is a division panic).  An error and a panic both reject the message that
called it; `MsgCalculateInterestAndRewards` swallows the error but not the panic. -/
inductive ExtB where
  | val (dI dR : Dec)
  | err
  | panic
  deriving Repr, DecidableEq

/-- `IterateBorrow` (iter.go:144-184) with its increments as input. -/
def iterBorrow (s : State) (id : Nat) (x : ExtB) : E State :=
  match x with
  | .err => .error "iterate borrow failed"
  | .panic => .error "iterate borrow panicked"
  | .val dI dR =>
    match getBorrow s.borrows id with
    | none => .error "borrow not found"
    | some b => .ok { s with borrows := (setBorrow s.borrows { b with interest := b.interest + dI, reserveInt := if dR > 0 then b.reserveInt + dR else b.reserveInt }) }

/-! ## Lend side -/

/-- `DepositAsset` (keeper.go:376-447) -/
def deposit (cfg : Cfg) (s : State) (u lendId denom : Nat) (amt r : Int) : E State := do
  let l0 ← orErr (getLend s.lends lendId) "lend not found"
  check (!s.isDep l0.pool) "pool depreciated"
  check (!s.isKilled l0.app) "circuit breaker"
  let s1 ← iterLends cfg s lendId r
  let l ← orErr (getLend s1.lends lendId) "lend not found"
  check (l.owner == u) "unauthorized"
  check (denom == l.asset) "bad offer coin"
  let pool ← orErr (cfg.pool? l.pool) "pool not found"
  checkSupplyCap cfg s1 l.asset pool amt
  let rates ← orErr (cfg.rates? l.asset) "rates not found"
  let b1 ← s1.bank.send u pool.acct denom amt
  let b2 ← b1.mint pool.acct rates.cAsset amt
  let b3 ← b2.send pool.acct u rates.cAsset amt
  pure { s1 with bank := b3, lends := setLend s1.lends { l with amountIn := l.amountIn + amt, avail := l.avail + amt },
                                            stats := addTotalLend s1.stats l.pool l.asset amt }

/-- the guards shared by `LendAsset` (134-183) and `BorrowAlternate` (1381-1421) -/
def lendGuards (cfg : Cfg) (s : State) (asset denom : Nat) (amt : Int) (poolId app : Nat) : E PoolCfg := do
  check (!s.isDep poolId) "pool depreciated"
  check (!s.isKilled app) "circuit breaker"
  let _ ← orErr (cfg.asset? asset) "asset does not exist"
  let pool ← orErr (cfg.pool? poolId) "pool not found"
  let isCommodo ← orErr (cfg.app? app) "app does not exist"
  check isCommodo "app mismatch"
  check (denom == asset) "bad offer coin"
  check (pool.assets.any fun d => d.asset == asset) "invalid asset for pool"
  checkSupplyCap cfg s asset pool amt
  pure pool

/-- creation of a fresh lend position (keeper.go:202-266 / 1452-1501) -/
def lendNew (cfg : Cfg) (s : State) (u asset : Nat) (amt : Int) (pool : PoolCfg) (app : Nat := 0) : E State := do
  let rates ← orErr (cfg.rates? asset) "rates not found"
  let _ ← orErr (cfg.asset? rates.cAsset) "asset does not exist"
  let b1 ← s.bank.send u pool.acct asset amt
  let b2 ← b1.mint pool.acct rates.cAsset amt
  let b3 ← b2.send pool.acct u rates.cAsset amt
  let _ ← orErr (getStats s.stats pool.id asset) "stats not found"
  let l : Lend := { id := s.lendCtr + 1, owner := u, pool := pool.id, asset := asset, amountIn := amt, avail := amt, app := app }
  pure { s with bank := b3, lendCtr := s.lendCtr + 1, lends := s.lends ++ [l],
                                            stats := addLendId (addTotalLend s.stats pool.id asset amt) pool.id asset (s.lendCtr + 1) }

/-- `LendAsset` (keeper.go:134-267) -/
def lend (cfg : Cfg) (s : State) (u asset denom : Nat) (amt : Int) (poolId app : Nat) (r : Int) : E State := do
  let pool ← lendGuards cfg s asset denom amt poolId app
  match findLendByAsset s u asset poolId with
  | some l => deposit cfg s u l.id denom amt r
  | none => lendNew cfg s u asset amt pool app

/-- `CloseLend` (keeper.go:449-515) -/
def closeLend (cfg : Cfg) (s : State) (u lendId : Nat) (r : Int) : E State := do
  let l0 ← orErr (getLend s.lends lendId) "lend not found"
  check (!s.isKilled l0.app) "circuit breaker"
  let s1 ← iterLends cfg s lendId r
  let l ← orErr (getLend s1.lends lendId) "lend not found"
  let pool ← orErr (cfg.pool? l.pool) "pool not found"
  check (l.owner == u) "unauthorized"
  check (borrowsOfLend s1.borrows lendId).isEmpty "borrowing position open"
  check (decide (¬ l.avail > s1.bank.get pool.acct l.asset)) "lending pool insufficient"
  let rates ← orErr (cfg.rates? l.asset) "rates not found"
  let b1 ← s1.bank.send u pool.acct rates.cAsset l.avail
  let b2 ← b1.burn pool.acct rates.cAsset l.avail
  let b3 ← b2.send pool.acct u l.asset l.avail
  pure { s1 with bank := b3, lends := delLend s1.lends lendId,
                                            stats := delLendId (addTotalLend s1.stats l.pool l.asset (-l.avail)) l.pool l.asset lendId }

/-- `WithdrawAsset` (keeper.go:269-374) -/
def withdraw (cfg : Cfg) (s : State) (u lendId denom : Nat) (w r : Int) : E State := do
  let l0 ← orErr (getLend s.lends lendId) "lend not found"
  if w = l0.avail ∧ l0.avail ≥ l0.amountIn then closeLend cfg s u lendId r
  else
    check (!s.isKilled l0.app) "circuit breaker"
    let s1 ← iterLends cfg s lendId r
    let l ← orErr (getLend s1.lends lendId) "lend not found"
    let pool ← orErr (cfg.pool? l.pool) "pool not found"
    check (l.owner == u) "unauthorized"
    check (decide (¬ w > l.avail)) "withdraw amount limit exceeds"
    check (denom == l.asset) "bad offer coin"
    check (decide (¬ w > s1.bank.get pool.acct denom)) "lending pool insufficient"
    let rates ← orErr (cfg.rates? l.asset) "rates not found"
    let b1 ← s1.bank.send u pool.acct rates.cAsset w
    let b2 ← b1.burn pool.acct rates.cAsset w
    let b3 ← b2.send pool.acct u denom w
    let l' : Lend := if w < l.amountIn then { l with amountIn := l.amountIn - w, avail := l.avail - w }
                     else { l with amountIn := 0, avail := l.avail - w }
    pure { s1 with bank := b3, lends := setLend s1.lends l', stats := addTotalLend s1.stats l.pool l.asset (-w) }

/-! ## Borrow side -/

/-- `DepositBorrowAsset` (keeper.go:1033-1178) -/
def depositBorrow (cfg : Cfg) (s : State) (u borrowId denom : Nat) (x : Int) (ext : ExtB) : E State := do
  let b0 ← orErr (getBorrow s.borrows borrowId) "borrow not found"
  check (!b0.liq) "borrow liquidated"
  let l ← orErr (getLend s.lends b0.lendingId) "lend not found"
  check (!s.isDep l.pool) "pool depreciated"
  check (!s.isKilled l.app) "circuit breaker"
  check (l.owner == u) "unauthorized"
  let s1 ← iterBorrow s borrowId ext
  let b ← orErr (getBorrow s1.borrows borrowId) "borrow not found"
  let rates ← orErr (cfg.rates? l.asset) "rates not found"
  let _ ← orErr (cfg.asset? rates.cAsset) "asset does not exist"
  check (denom == rates.cAsset) "bad offer coin"
  check (decide (¬ x > l.avail)) "available to borrow insufficient"
  let pair ← orErr (cfg.pair? b.pairId) "pair not found"
  let inPool ← orErr (cfg.pool? l.pool) "pool not found"
  let outPool ← orErr (cfg.pool? pair.outPool) "pool not found"
  let l' : Lend := { l with avail := l.avail - x }
  if !pair.inter then
    let k1 ← s1.bank.send u inPool.acct denom x
    check (b.inDenom == denom) "coin denom mismatch"            -- Coin.Add panics
    pure { s1 with bank := k1, lends := setLend s1.lends l',
                                            borrows := setBorrow s1.borrows { b with amountIn := b.amountIn + x } }
  else
    let amtIn ← calcPrice cfg s1.prices pair.assetIn (Dec.truncateInt (Dec.mul (Dec.ofInt x) rates.ltv))
    let first := transitOf inPool.assets 2
    let second := transitOf inPool.assets 3
    let firstDenom := match cfg.asset? first with | some _ => first | none => 0
    let secondDenom := match cfg.asset? second with | some _ => second | none => 0
    let unit1 ← calcPrice cfg s1.prices first 1
    let unit2 ← calcPrice cfg s1.prices second 1
    check (unit1 != 0) "division by zero"
    let q1 := Dec.quo amtIn unit1
    let bal1 := s1.bank.get inPool.acct firstDenom
    check (unit2 != 0) "division by zero"
    let q2 := Dec.quo amtIn unit2
    let bal2 := s1.bank.get inPool.acct secondDenom
    if b.brDenom = firstDenom ∧ q1 < Dec.ofInt bal1 then
      let k1 ← s1.bank.send u inPool.acct denom x
      let k2 ← k1.send inPool.acct outPool.acct firstDenom (Dec.truncateInt q1)
      check (b.inDenom == denom) "coin denom mismatch"
      pure { s1 with bank := k2, lends := setLend s1.lends l',
                                            borrows := setBorrow s1.borrows { b with amountIn := b.amountIn + x, bridged := b.bridged + Dec.truncateInt q1 } }
    else if q2 < Dec.ofInt bal2 then
      let k1 ← s1.bank.send u inPool.acct denom x
      let k2 ← k1.send inPool.acct outPool.acct secondDenom (Dec.truncateInt q2)
      check (b.inDenom == denom) "coin denom mismatch"
      pure { s1 with bank := k2, lends := setLend s1.lends l',
                                            borrows := setBorrow s1.borrows { b with amountIn := b.amountIn + x, bridged := b.bridged + Dec.truncateInt q2 } }
    else .error "bridge asset qty insufficient"

/-- `DrawAsset` (keeper.go:1180-1264) -/
def draw (cfg : Cfg) (s : State) (u borrowId denom : Nat) (y : Int) (ext : ExtB) : E State := do
  let b0 ← orErr (getBorrow s.borrows borrowId) "borrow not found"
  check (!b0.liq) "borrow liquidated"
  let pair ← orErr (cfg.pair? b0.pairId) "pair not found"
  let pool ← orErr (cfg.pool? pair.outPool) "pool not found"
  let l ← orErr (getLend s.lends b0.lendingId) "lend not found"
  check (!s.isDep l.pool) "pool depreciated"
  check (!s.isKilled l.app) "circuit breaker"
  check (l.owner == u) "unauthorized"
  let s1 ← iterBorrow s borrowId ext
  let b ← orErr (getBorrow s1.borrows borrowId) "borrow not found"
  check (b.outDenom == denom) "bad offer coin"
  let _ ← orErr (cfg.asset? l.asset) "asset does not exist"
  let _ ← orErr (cfg.asset? pair.assetOut) "asset does not exist"
  let rates ← orErr (cfg.rates? pair.assetIn) "rates not found"
  check (decide (¬ y > s1.bank.get pool.acct pair.assetOut)) "insufficient funds in pool"
  let ltv := if pair.eMode then rates.eLtv else rates.ltv
  verifyCR cfg s1.prices b.amountIn l.asset (b.amountOut + Dec.truncateInt b.interest + y) pair.assetOut ltv
  let k1 ← s1.bank.send pool.acct u denom y
  let _ ← orErr (getStats s1.stats pair.outPool pair.assetOut) "stats not found"
  pure { s1 with bank := k1, borrows := setBorrow s1.borrows { b with amountOut := b.amountOut + y },
                                            stats := addBorrowed s1.stats pair.outPool pair.assetOut b.stable y }

/-- the three payout branches of `BorrowAsset` (keeper.go:651-861) once all guards passed -/
def openBorrow (s : State) (l : Lend) (pair : PairCfg) (stable : Bool) (dIn : Nat) (aIn : Int)
    (dOut : Nat) (aOut : Int) (brDenom : Nat) (br : Int) (bank : Bank) : State :=
  let b : Borrow := { id := s.borrowCtr + 1, lendingId := l.id, pairId := pair.id, inDenom := dIn, amountIn := aIn,
                      outDenom := dOut, amountOut := aOut, interest := 0, stable := stable, liq := false,
                      brDenom := brDenom, bridged := br, reserveInt := 0 }
  { s with bank := bank, borrowCtr := s.borrowCtr + 1, borrows := s.borrows ++ [b],
           lends := setLend s.lends { l with avail := l.avail - aIn },
           stats := addBorrowId (addBorrowed s.stats pair.outPool pair.assetOut stable aOut) pair.outPool pair.assetOut (s.borrowCtr + 1) }

/-- `BorrowAsset` (keeper.go:527-863) when the user has no borrow on this pair yet (from line 597). -/
def borrowNew (cfg : Cfg) (s : State) (u : Nat) (l : Lend) (pair : PairCfg) (rates : RatesCfg) (stable : Bool)
    (dIn : Nat) (aIn : Int) (dOut : Nat) (aOut : Int) : E State := do
  if rates.isolated then
    check (!(s.lends.any fun l' => l'.owner == u && l'.asset == pair.assetIn && !(borrowsOfLend s.borrows l'.id).isEmpty))
      "isolated mode activated"
  let ltv := if pair.eMode then rates.eLtv else rates.ltv
  check (decide (¬ aIn > l.avail)) "available to borrow insufficient"
  check (dOut == pair.assetOut) "invalid asset"
  let inPool ← orErr (cfg.pool? l.pool) "pool not found"
  let outPool ← orErr (cfg.pool? pair.outPool) "pool not found"
  check (!(stable && !rates.stableOk)) "stable borrow disabled"
  verifyCR cfg s.prices aIn l.asset aOut pair.assetOut ltv
  check (decide (¬ aOut > s.bank.get outPool.acct dOut)) "borrowing pool insufficient"
  let _ ← orErr (getStats s.stats pair.outPool pair.assetOut) "stats not found"
  check (!(rates.stableOk && stable) || (cfg.rates? pair.assetOut).isSome) "rates not found"   -- GetBorrowAPRByAssetID
  if !pair.inter then
    let k1 ← s.bank.send u inPool.acct dIn aIn
    let k2 ← k1.send outPool.acct u dOut aOut
    pure (openBorrow s l pair stable dIn aIn dOut aOut dOut 0 k2)
  else
    check (decide (aIn.natAbs < 2 ^ 63)) "int64"                -- `AmountIn.Amount.Int64()` panics otherwise
    let amtIn ← calcPrice cfg s.prices l.asset (Dec.truncateInt (Dec.mul (Dec.ofInt aIn) ltv))
    let first := transitOf inPool.assets 2
    let second := transitOf inPool.assets 3
    let firstDenom := match cfg.asset? first with | some _ => first | none => 0
    let secondDenom := match cfg.asset? second with | some _ => second | none => 0
    let unit1 ← calcPrice cfg s.prices first 1
    let unit2 ← calcPrice cfg s.prices second 1
    check (unit1 != 0) "division by zero"
    let q1 := Dec.quo amtIn unit1
    let bal1 := s.bank.get inPool.acct firstDenom
    check (unit2 != 0) "division by zero"
    let q2 := Dec.quo amtIn unit2
    let bal2 := s.bank.get inPool.acct secondDenom
    let r1 ← orErr (cfg.rates? first) "rates not found"
    let r2 ← orErr (cfg.rates? second) "rates not found"
    if q1 < Dec.ofInt bal1 then
      verifyCR cfg s.prices (Dec.truncateInt q1) first aOut pair.assetOut r1.ltv
      let k1 ← s.bank.send u inPool.acct dIn aIn
      let k2 ← k1.send inPool.acct outPool.acct firstDenom (Dec.truncateInt q1)
      let k3 ← k2.send outPool.acct u dOut aOut
      pure (openBorrow s l pair stable dIn aIn dOut aOut firstDenom (Dec.truncateInt q1) k3)
    else if q2 < Dec.ofInt bal2 then
      verifyCR cfg s.prices (Dec.truncateInt q2) second aOut pair.assetOut r2.ltv
      let k1 ← s.bank.send u inPool.acct dIn aIn
      let k2 ← k1.send inPool.acct outPool.acct secondDenom (Dec.truncateInt q2)
      let k3 ← k2.send outPool.acct u dOut aOut
      pure (openBorrow s l pair stable dIn aIn dOut aOut secondDenom (Dec.truncateInt q2) k3)
    else .error "borrowing pool insufficient"

/-- `BorrowAsset` (keeper.go:527-863); `DepositDraw` when the user already borrows on the pair. -/
def borrow (cfg : Cfg) (s : State) (u lendId pairId : Nat) (stable : Bool) (dIn : Nat) (aIn : Int)
    (dOut : Nat) (aOut : Int) (e1 e2 : ExtB) : E State := do
  let l ← orErr (getLend s.lends lendId) "lend not found"
  check (!s.isDep l.pool) "pool depreciated"
  check (!s.isKilled l.app) "circuit breaker"
  check (l.owner == u) "unauthorized"
  let pair ← orErr (cfg.pair? pairId) "pair not found"
  check ((cfg.pairsOf pair.assetIn l.pool).contains pairId) "pair not found"
  let _ ← orErr (cfg.asset? l.asset) "asset does not exist"
  let _ ← orErr (cfg.asset? pair.assetOut) "asset does not exist"
  let rates ← orErr (cfg.rates? pair.assetIn) "rates not found"
  let _ ← orErr (cfg.asset? rates.cAsset) "asset does not exist"
  check (dIn == rates.cAsset) "bad offer coin type"
  check (pair.assetIn == l.asset) "bad offer coin type"   -- the pledged cTokens must be those of the lend position named in the message
  -- `loanValue.LT(minUSDVal) || err != nil`
  match calcPrice cfg s.prices pair.assetOut aOut with
  | .error _ => .error "borrow less than min amount"
  | .ok v =>
    if v < 1000000 * Dec.P then .error "borrow less than min amount"
    else match findBorrowByPair s u pairId with
      | some b => do
        let s1 ← depositBorrow cfg s u b.id dIn aIn e1
        draw cfg s1 u b.id dOut aOut e2
      | none => borrowNew cfg s u l pair rates stable dIn aIn dOut aOut

/-- `BorrowAlternate` (keeper.go:1381-1508) -/
def borrowAlternate (cfg : Cfg) (s : State) (u asset poolId denom : Nat) (amt : Int) (pairId : Nat) (stable : Bool)
    (dOut : Nat) (aOut : Int) (app : Nat) (r : Int) (e1 e2 : ExtB) : E State := do
  let pool ← lendGuards cfg s asset denom amt poolId app
  let rates ← orErr (cfg.rates? asset) "rates not found"
  match findLendByAsset s u asset poolId with
  | some l =>
    let s1 ← deposit cfg s u l.id denom amt r
    borrow cfg s1 u l.id pairId stable rates.cAsset amt dOut aOut e1 e2
  | none =>
    let s1 ← lendNew cfg s u asset amt pool app
    borrow cfg s1 u s1.lendCtr pairId stable rates.cAsset amt dOut aOut e1 e2

/-- `CloseBorrow` (keeper.go:1266-1379) -/
def closeBorrow (cfg : Cfg) (s : State) (u borrowId : Nat) (ext : ExtB) : E State := do
  let b0 ← orErr (getBorrow s.borrows borrowId) "borrow not found"
  check (!b0.liq) "borrow liquidated"
  let pair ← orErr (cfg.pair? b0.pairId) "pair not found"
  let ratesOut ← orErr (cfg.rates? pair.assetOut) "rates not found"
  let _ ← orErr (cfg.asset? ratesOut.cAsset) "asset does not exist"
  let pool ← orErr (cfg.pool? pair.outPool) "pool not found"
  let l ← orErr (getLend s.lends b0.lendingId) "lend not found"
  check (!s.isKilled l.app) "circuit breaker"
  check (l.owner == u) "unauthorized"
  let s1 ← iterBorrow s borrowId ext
  let b ← orErr (getBorrow s1.borrows borrowId) "borrow not found"
  let inPool ← orErr (cfg.pool? l.pool) "pool not found"
  let _ ← orErr (cfg.asset? pair.assetOut) "asset does not exist"
  let k1 ← s1.bank.send u pool.acct pair.assetOut (b.amountOut + Dec.truncateInt b.interest)
  let k2 ← k1.send inPool.acct l.owner b.inDenom b.amountIn
  let toReserve := Dec.truncateInt b.reserveInt
  check (decide (¬ toReserve < 0)) "reserve rates not found"
  let k3 ← k2.send pool.acct cfg.reserveAcct pair.assetOut toReserve
  let toMint := Dec.truncateInt (b.interest - b.reserveInt)
  let k4 ← if toMint > 0 then k3.mint pool.acct ratesOut.cAsset toMint else pure k3
  let st1 := if toMint > 0 then addTotalInterest s1.stats pair.outPool pair.assetOut toMint else s1.stats
  let k5 ← if pair.inter then k4.send pool.acct inPool.acct b.brDenom b.bridged else pure k4
  let _ ← orErr (getStats s1.stats pair.outPool pair.assetOut) "stats not found"
  pure { s1 with bank := k5, borrows := delBorrow s1.borrows borrowId,
                                            lends := setLend s1.lends { l with avail := l.avail + b.amountIn },
                                            stats := delBorrowId (addBorrowed st1 pair.outPool pair.assetOut b.stable (-b.amountOut)) pair.outPool pair.assetOut borrowId,
                                            resv := if toReserve > 0 then resvRepay s1.resv pair.assetOut toReserve else s1.resv }

/-- `RepayAsset` (keeper.go:865-1031) -/
def repay (cfg : Cfg) (s : State) (u borrowId denom : Nat) (p : Int) (ext : ExtB) : E State := do
  let b0 ← orErr (getBorrow s.borrows borrowId) "borrow not found"
  check (!b0.liq) "borrow liquidated"
  if p = b0.amountOut + Dec.truncateInt b0.interest then closeBorrow cfg s u borrowId ext
  else
    let pair ← orErr (cfg.pair? b0.pairId) "pair not found"
    let ratesOut ← orErr (cfg.rates? pair.assetOut) "rates not found"
    let _ ← orErr (cfg.asset? ratesOut.cAsset) "asset does not exist"
    let pool ← orErr (cfg.pool? pair.outPool) "pool not found"
    let l ← orErr (getLend s.lends b0.lendingId) "lend not found"
    check (!s.isKilled l.app) "circuit breaker"
    check (l.owner == u) "unauthorized"
    let s1 ← iterBorrow s borrowId ext
    let b ← orErr (getBorrow s1.borrows borrowId) "borrow not found"
    check (b.outDenom == denom) "bad offer coin"
    check (decide (¬ p ≥ b.amountOut + Dec.truncateInt (Dec.ceil b.interest))) "invalid repayment"
    let toReserve := Dec.truncateInt b.reserveInt
    let k1 ← s1.bank.send u pool.acct denom p
    if p ≤ toReserve then
      let k2 ← k1.send pool.acct cfg.reserveAcct denom p
      pure { s1 with bank := k2, resv := resvRepay s1.resv pair.assetOut p,
                                            borrows := (setBorrow s1.borrows { b with reserveInt := b.reserveInt - Dec.ofInt p, interest := b.interest - Dec.ofInt p }) }
    else if p ≤ Dec.truncateInt b.interest then
      let k2 ← k1.send pool.acct cfg.reserveAcct denom toReserve
      let c := p - toReserve
      check (decide (¬ c < 0)) "reserve rates not found"
      let k3 ← if c > 0 then k2.mint pool.acct ratesOut.cAsset c else pure k2
      let st1 := if c > 0 then addTotalInterest s1.stats pair.outPool pair.assetOut c else s1.stats
      pure { s1 with bank := k3, stats := st1, resv := resvRepay s1.resv pair.assetOut toReserve,
                                            borrows := (setBorrow s1.borrows { b with reserveInt := b.reserveInt - Dec.ofInt toReserve, interest := b.interest - Dec.ofInt p }) }
    else
      let k2 ← k1.send pool.acct cfg.reserveAcct denom toReserve
      let c := Dec.truncateInt (b.interest - b.reserveInt)
      check (decide (¬ c < 0)) "reserve rates not found"
      let k3 ← if c > 0 then k2.mint pool.acct ratesOut.cAsset c else pure k2
      let st1 := if c > 0 then addTotalInterest s1.stats pair.outPool pair.assetOut c else s1.stats
      let cut := p - Dec.truncateInt b.interest
      let _ ← orErr (getStats s1.stats pair.outPool pair.assetOut) "stats not found"
      let st2 := addBorrowed st1 pair.outPool pair.assetOut b.stable (-cut)
      pure { s1 with bank := k3, stats := st2, resv := resvRepay s1.resv pair.assetOut toReserve,
                                            borrows := (setBorrow s1.borrows { b with reserveInt := b.reserveInt - Dec.ofInt toReserve, amountOut := b.amountOut - cut, interest := b.interest - Dec.ofInt (Dec.truncateInt b.interest) }) }

/-- `RepayWithdraw` (keeper.go:1981-1993) -/
def repayWithdraw (cfg : Cfg) (s : State) (u borrowId : Nat) (ext : ExtB) (r : Int) : E State := do
  let b ← orErr (getBorrow s.borrows borrowId) "borrow not found"   -- `borrow, _ :=`; CloseBorrow rejects a missing one
  let s1 ← closeBorrow cfg s u borrowId ext
  let l ← orErr (getLend s1.lends b.lendingId) "lend not found"
  withdraw cfg s1 u b.lendingId l.asset b.amountIn r

/-! ## Interest / reward calculation message (keeper.go:1751-1901) -/

/-- `MsgCalculateBorrowInterest`; errors are swallowed by the caller (`continue`). -/
def calcBorrow (s : State) (u : Nat) (borrowId : Nat) (ext : ExtB) : E State := do
  let b ← orErr (getBorrow s.borrows borrowId) "borrow not found"
  check (!b.liq) "borrow liquidated"
  let l ← orErr (getLend s.lends b.lendingId) "lend not found"
  check (!s.isKilled l.app) "circuit breaker"
  check (l.owner == u) "unauthorized"
  iterBorrow s borrowId ext

def calcBorrows (s : State) (u : Nat) : List (Nat × ExtB) → E State
  | [] => .ok s
  | (id, ext) :: rest =>
    match calcBorrow s u id ext with
    | .ok s1 => calcBorrows s1 u rest
    | .error _ =>
      -- `continue` on an error; a panic inside IterateBorrow (reached only when the guards passed) aborts the message
      if ext = .panic ∧ (calcBorrow s u id (.val 0 0)).toBool then .error "iterate borrow panicked"
      else calcBorrows s u rest

def calcLends (cfg : Cfg) (s : State) (u : Nat) : List (Nat × Int) → E State
  | [] => .ok s
  | (id, r) :: rest => do
    let l0 ← orErr (getLend s.lends id) "lend not found"
    check (!s.isKilled l0.app) "circuit breaker"
    let s1 ← iterLends cfg s id r
    let l ← orErr (getLend s1.lends id) "lend not found"
    check (l.owner == u) "unauthorized"
    calcLends cfg s1 u rest

/-- `MsgCalculateInterestAndRewards`: the harness lists the user's borrow ids / lend ids in mapping order together with
the external amounts; the model checks that the id lists are the derived ones. -/
def calcMsg (cfg : Cfg) (s : State) (u : Nat) (bs : List (Nat × ExtB)) (ls : List (Nat × Int)) : E State := do
  let mine := s.lends.filter fun l => l.owner == u
  check (!mine.isEmpty) "lend not found"
  check (ls.map (·.1) == mine.map (·.id)) "ext lend ids mismatch"
  check (bs.map (·.1) == (mine.flatMap fun l => (borrowsOfLend s.borrows l.id).map (·.id))) "ext borrow ids mismatch"
  let s1 ← calcBorrows s u bs
  calcLends cfg s1 u ls

/-! ## Funding messages (bank only) -/

/-- `FundModAcc` (keeper.go:1510-1568) -/
def fundModule (cfg : Cfg) (s : State) (u poolId asset denom : Nat) (amt : Int) : E State := do
  let pool ← orErr (cfg.pool? poolId) "pool not found"
  let k1 ← s.bank.send u pool.acct denom amt
  let _ ← orErr (cfg.asset? asset) "asset does not exist"
  check (denom == asset) "bad offer coin type"
  let rates ← orErr (cfg.rates? asset) "rates not found"
  let _ ← orErr (cfg.asset? rates.cAsset) "asset does not exist"
  let k2 ← k1.mint pool.acct rates.cAsset amt
  pure { s with bank := k2 }

/-- `FundReserveAcc` (keeper.go:1570-1619) -/
def fundReserve (cfg : Cfg) (s : State) (u asset denom : Nat) (amt : Int) : E State := do
  let _ ← orErr (cfg.asset? asset) "asset does not exist"
  check (denom == asset) "bad offer coin type"
  let k1 ← s.bank.send u cfg.reserveAcct denom amt
  -- both record halves by ⌊amt/2⌋, one `FundReserveBal` entry of `amt`; `RemoveFaultyAuctions` (keeper.go:1625) runs over the
  -- first-generation lend auctions of app 3 — none exist in a second-generation world
  pure { s with bank := k1, resv := modResv s.resv asset fun r => { r.halves amt true with funded := r.funded + amt } }

/-! ## Liquidation hand-over (x/liquidationsV2/keeper/liquidate.go:360-404) -/

/-- Effect of `UpdateLockedBorrows` on the lending books once the liquidation decision (a C09 matter) was taken:
`newInterest` is the interest after `CalculateBorrowInterestForLiquidation`. -/
def handover (cfg : Cfg) (s : State) (borrowId : Nat) (newInterest : Dec) : E State := do
  let b ← orErr (getBorrow s.borrows borrowId) "borrow not found"
  check (!b.liq) "already liquidated"
  let l ← orErr (getLend s.lends b.lendingId) "lend not found"
  check (!s.isKilled l.app) "circuit breaker"                   -- liquidate.go:279-282
  let pair ← orErr (cfg.pair? b.pairId) "pair not found"
  let pool ← orErr (cfg.pool? l.pool) "pool not found"
  let rates ← orErr (cfg.rates? pair.assetIn) "rates not found"
  let k1 ← s.bank.send pool.acct cfg.auctionAcct pair.assetIn b.amountIn
  let k2 ← k1.burn pool.acct rates.cAsset b.amountIn
  let _ ← orErr (getStats s.stats pair.outPool pair.assetOut) "stats not found"
  let _ ← orErr (getStats s.stats l.pool l.asset) "stats not found"
  let st := addTotalLend (addBorrowed s.stats pair.outPool pair.assetOut b.stable (-b.amountOut)) l.pool l.asset (-b.amountIn)
  let bs := setBorrow s.borrows { b with liq := true, interest := newInterest }
  let l' : Lend := { l with amountIn := l.amountIn - b.amountIn }
  -- `CreateLockedVault`: the fee always uses `LiquidationPenalty` (liquidate.go:372), also on an e-mode pair
  let fee := Dec.truncateInt (Dec.mul (Dec.ofInt b.amountOut) rates.liqPenalty)
  check (decide (¬ fee < 0)) "negative coin"
  let lk := s.locked ++ [{ borrowId := b.id, owner := l.owner, target := b.amountOut + fee, fee := fee }]
  if ¬ l'.amountIn > 0 then
    pure { s with bank := k2, borrows := bs, stats := delLendId st l.pool l.asset l.id, lends := delLend s.lends l.id, locked := lk }
  else
    pure { s with bank := k2, borrows := bs, stats := st, lends := setLend s.lends l', locked := lk }

/-! ## After the hand-over: the second-generation Dutch auction (x/auctionsV2/keeper/bid.go) -/

def getLocked (ks : List Locked) (borrowId : Nat) : Option Locked := ks.find? (fun k => k.borrowId == borrowId)
def delLocked (ks : List Locked) (borrowId : Nat) : List Locked := ks.filter fun k => k.borrowId != borrowId

/-- A partial fill (`PlaceDutchAuctionBid`, bid.go:234-290): the bidder pays `paid` of the debt asset into the auction module and
receives `recv` of the collateral. Price, dust rule and bonus share are property C10; the lending books are not touched. -/
def auctionBid (cfg : Cfg) (s : State) (bidder borrowId : Nat) (paid recv : Int) : E State := do
  let b ← orErr (getBorrow s.borrows borrowId) "borrow not found"
  let _ ← orErr (getLocked s.locked borrowId) "locked vault not found"
  check b.liq "borrow not under liquidation"
  let pair ← orErr (cfg.pair? b.pairId) "pair not found"
  let k1 ← s.bank.send bidder cfg.auctionAcct b.outDenom paid
  let k2 ← k1.send cfg.auctionAcct bidder pair.assetIn recv
  pure { s with bank := k2 }

/-- The closing bid (bid.go:52-233) with the lend branch `MsgCloseDutchAuctionForBorrow` (x/liquidationsV2/keeper/liquidate.go:722-814).
Auction side (amounts are inputs, their laws are property C10): `topUp` drawn from the liquidation module's app reserve when the
collateral runs out, the bidder pays `paid` and receives `recv` of the collateral, the rest `left` goes to the owner recorded in the
locked vault. Lending side (modelled exactly): the target debt goes to the debt pool; from there the liquidation penalty on the
principal (the e-mode penalty on an e-mode pair) and the whole tokens of the reserve's interest share go to the reserve with their
records; cTokens for the lenders' interest share are minted into `totalInterestAccumulated`; the bridged transit asset returns to the
collateral's pool (read from the lend position — a deleted position makes the bank call panic); the borrow, its id-list entry and
the locked vault are deleted. -/
def auctionClose (cfg : Cfg) (s : State) (bidder borrowId : Nat) (paid recv left topUp : Int) : E State := do
  let b ← orErr (getBorrow s.borrows borrowId) "borrow not found"
  let lk ← orErr (getLocked s.locked borrowId) "locked vault not found"
  -- stands for the invariant "a locked vault's borrow carries the liquidation flag" (locked vaults are created by the hand-over only,
  -- which sets the flag, and no handler clears it); the code has no such test
  check b.liq "borrow not under liquidation"
  let pair ← orErr (cfg.pair? b.pairId) "pair not found"
  let k0 ← s.bank.mint cfg.auctionAcct b.outDenom topUp
  let k1 ← k0.send bidder cfg.auctionAcct b.outDenom paid
  let k2 ← k1.send cfg.auctionAcct bidder pair.assetIn recv
  let k3 ← k2.send cfg.auctionAcct lk.owner pair.assetIn left
  -- MsgCloseDutchAuctionForBorrow
  let pool ← orErr (cfg.pool? pair.outPool) "pool not found"
  let ratesOut ← orErr (cfg.rates? pair.assetOut) "rates not found"
  let ratesIn ← orErr (cfg.rates? pair.assetIn) "rates not found"
  let k4 ← k3.send cfg.auctionAcct pool.acct b.outDenom lk.target
  let pen := Dec.truncateInt (Dec.mul (Dec.ofInt b.amountOut) (if pair.eMode then ratesIn.eLiqPenalty else ratesIn.liqPenalty))
  let k5 ← k4.send pool.acct cfg.reserveAcct b.outDenom pen
  let r1 := modResv s.resv pair.assetOut fun r => { r.halves pen true with inPenalty := r.inPenalty + pen }
  let toReserve := Dec.truncateInt b.reserveInt
  let k6 ← if toReserve > 0 then k5.send pool.acct cfg.reserveAcct b.outDenom toReserve else pure k5
  let r2 := if toReserve > 0 then resvRepay r1 pair.assetOut toReserve else r1
  let toMint := Dec.truncateInt (b.interest - b.reserveInt)
  let k7 ← if toMint > 0 then k6.mint pool.acct ratesOut.cAsset toMint else pure k6
  let st1 := if toMint > 0 then addTotalInterest s.stats pair.outPool pair.assetOut toMint else s.stats
  let k8 ← if b.bridged > 0 then do
      let l ← orErr (getLend s.lends b.lendingId) "module account does not exist"     -- bank panic on the empty module name
      let inPool ← orErr (cfg.pool? l.pool) "module account does not exist"
      k7.send pool.acct inPool.acct b.brDenom b.bridged
    else pure k7
  pure { s with bank := k8, borrows := delBorrow s.borrows borrowId, locked := delLocked s.locked borrowId, resv := r2,
                stats := delBorrowId st1 pair.outPool pair.assetOut borrowId }

/-! ## The store migration 2 → 3 (x/lend/keeper/migrate.go:126-246): a configuration change

`MigrateLendPairs` / `MigrateAssetRatesParams` re-encode every pair and every asset-rates record: e-mode off, isolation off, e-LTV,
e-threshold and e-penalty zero. They decode each record into ONE variable declared outside the loop with the generated `Unmarshal`,
which does not reset its receiver: a proto3 field that is absent on the wire (a `false` bool) keeps the value of the PREVIOUS record —
`IsInterPool` and `EnableStableBorrow` are sticky once a record had them `true` (store order = ascending id). Positions, totals,
balances and records of the state are not touched. -/

def migratePairs : Bool → List PairCfg → List PairCfg
  | _, [] => []
  | carry, p :: ps => { p with inter := p.inter || carry, eMode := false } :: migratePairs (p.inter || carry) ps

def migrateRates : Bool → List RatesCfg → List RatesCfg
  | _, [] => []
  | carry, r :: rs => { r with stableOk := r.stableOk || carry, isolated := false, eLtv := 0, eLiqPenalty := 0 } :: migrateRates (r.stableOk || carry) rs

/-- what `Migrate2to3` does to the configuration -/
def migrateCfg (cfg : Cfg) : Cfg := { cfg with pairs := migratePairs false cfg.pairs, rates := migrateRates false cfg.rates }

/-- what it is written to do: every record on its own -/
def migrateCfgSpec (cfg : Cfg) : Cfg :=
  { cfg with pairs := cfg.pairs.map fun p => { p with eMode := false },
             rates := cfg.rates.map fun r => { r with isolated := false, eLtv := 0, eLiqPenalty := 0 } }

/-! ## Operations, step, run -/

inductive Op where
  | lend (u asset denom : Nat) (amt : Int) (pool app : Nat) (r : Int)
  | deposit (u lendId denom : Nat) (amt r : Int)
  | withdraw (u lendId denom : Nat) (amt r : Int)
  | closeLend (u lendId : Nat) (r : Int)
  | borrow (u lendId pairId : Nat) (stable : Bool) (dIn : Nat) (aIn : Int) (dOut : Nat) (aOut : Int) (e1 e2 : ExtB)
  | borrowAlternate (u asset pool denom : Nat) (amt : Int) (pairId : Nat) (stable : Bool) (dOut : Nat) (aOut : Int)
      (app : Nat) (r : Int) (e1 e2 : ExtB)
  | depositBorrow (u borrowId denom : Nat) (amt : Int) (e : ExtB)
  | draw (u borrowId denom : Nat) (amt : Int) (e : ExtB)
  | repay (u borrowId denom : Nat) (amt : Int) (e : ExtB)
  | closeBorrow (u borrowId : Nat) (e : ExtB)
  | repayWithdraw (u borrowId : Nat) (e : ExtB) (r : Int)
  | calcAll (u : Nat) (bs : List (Nat × ExtB)) (ls : List (Nat × Int))
  | fundModule (u pool asset denom : Nat) (amt : Int)
  | fundReserve (u asset denom : Nat) (amt : Int)
  | setPrice (asset : Nat) (twa : Option Nat)
  | setKill (app : Nat) (on : Bool)
  | setDepreciated (pool : Nat) (flag : Bool := false)
  | beginBlock
  | handover (borrowId : Nat) (newInterest : Dec)
  | bid (bidder borrowId : Nat) (paid recv : Int)
  | auctionClose (bidder borrowId : Nat) (paid recv left topUp : Int)
  deriving Repr

/-- `ValidateBasic` of the message (x/lend/types/tx.go): ids non-zero, amounts positive. -/
def Op.validateBasic : Op → Bool
  | .lend _ asset _ amt pool app _ => asset != 0 && amt > 0 && pool != 0 && app != 0
  | .deposit _ lendId _ amt _ => lendId != 0 && amt > 0
  | .withdraw _ lendId _ amt _ => lendId != 0 && amt > 0
  | .closeLend _ lendId _ => lendId != 0
  | .borrow _ lendId pairId _ _ aIn _ aOut _ _ => lendId != 0 && pairId != 0 && aIn > 0 && aOut > 0
  | .borrowAlternate _ asset pool _ amt pairId _ _ aOut app _ _ _ =>
      asset != 0 && pool != 0 && pairId != 0 && app != 0 && amt > 0 && aOut > 0
  | .depositBorrow _ borrowId _ amt _ => borrowId != 0 && amt > 0
  | .draw _ borrowId _ amt _ => borrowId != 0 && amt > 0
  | .repay _ borrowId _ amt _ => borrowId != 0 && amt > 0
  | .closeBorrow _ borrowId _ => borrowId != 0
  | .repayWithdraw _ borrowId _ _ => borrowId != 0
  | .calcAll .. => true
  | .fundModule _ pool asset _ amt => pool != 0 && asset != 0 && amt > 0
  | .fundReserve _ asset _ amt => asset != 0 && amt > 0
  | .setPrice .. => true
  | .setKill .. => true
  | .setDepreciated .. => true
  | .beginBlock => true
  | .handover .. => true
  | .bid .. => true
  | .auctionClose .. => true

def setPrice (s : State) (asset : Nat) (twa : Option Nat) : State :=
  let rest := s.prices.filter fun e => e.1 != asset
  match twa with
  | some t => { s with prices := (asset, t) :: rest }
  | none => { s with prices := rest }

/-- governance / ESM: turn the kill switch of an app on or off -/
def setKill (s : State) (app : Nat) (on : Bool) : State :=
  let rest := s.killed.filter fun a => a != app
  { s with killed := if on then app :: rest else rest }
/-- governance: list a pool in the depreciation record (`AddPoolDepreciate`) -/
def setDepreciated (s : State) (pool : Nat) (flag : Bool := false) : State :=
  { s with depPools := pool :: s.depPools, depPending := if flag then s.depPending else s.depPending ++ [pool] }

/-! ## The block hook of x/lend (abci.go, every 14400th block): `DeletePoolAndTransferInterest` (pair.go:606-661) -/

/-- no lend or borrow id is listed for (pool, asset) — a missing record reads as empty lists -/
def noIds (ss : List Stats) (p a : Nat) : Bool :=
  match getStats ss p a with
  | some st => st.lendIds.isEmpty && st.borrowIds.isEmpty
  | none => true

/-- one entry of the depreciation record whose flag is false: when none of the pool's three transit-typed assets has a lend or
borrow id left, the pool's balances of the three assets go to the reserve (`UpdateReserveBalances`: both record halves, NO
`AllReserveStats` / `FundReserveBal` entry) and the pool is deleted. The flag is set on a COPY of the entry (range variable), so the
entry stays pending: at the next run `GetPool` gives the zero record, the asset ids are 0, the id lists of the missing records are
empty, and `GetBalance` panics on the empty denomination. -/
def sweepPool (cfg : Cfg) (s : State) (poolId : Nat) : E State := do
  check (!s.delPools.contains poolId) "invalid denom"
  let pool ← orErr (cfg.pool? poolId) "invalid denom"
  let a1 := transitOf pool.assets 1
  let a2 := transitOf pool.assets 2
  let a3 := transitOf pool.assets 3
  if noIds s.stats poolId a1 && noIds s.stats poolId a2 && noIds s.stats poolId a3 then
    let _ ← orErr (cfg.asset? a1) "invalid denom"
    let _ ← orErr (cfg.asset? a2) "invalid denom"
    let _ ← orErr (cfg.asset? a3) "invalid denom"
    let x1 := s.bank.get pool.acct a1
    let x2 := s.bank.get pool.acct a2
    let x3 := s.bank.get pool.acct a3
    let k1 ← s.bank.send pool.acct cfg.reserveAcct a1 x1
    let k2 ← k1.send pool.acct cfg.reserveAcct a2 x2
    let k3 ← k2.send pool.acct cfg.reserveAcct a3 x3
    let r1 := modResv s.resv a1 fun r => r.halves x1 true
    let r2 := modResv r1 a2 fun r => r.halves x2 true
    let r3 := modResv r2 a3 fun r => r.halves x3 true
    pure { s with bank := k3, resv := r3, delPools := poolId :: s.delPools }
  else pure s

def sweepPools (cfg : Cfg) : State → List Nat → E State
  | s, [] => .ok s
  | s, p :: ps => do
    let s1 ← sweepPool cfg s p
    sweepPools cfg s1 ps

/-- the hook at a block height divisible by 14400; an error or panic anywhere discards everything (`ApplyFuncIfNoError`) -/
def beginBlock (cfg : Cfg) (s : State) : E State := sweepPools cfg s s.depPending

def step (cfg : Cfg) (s : State) (op : Op) : E State :=
  if !op.validateBasic then .error "validate basic" else
  match op with
  | .lend u asset denom amt pool app r => lend cfg s u asset denom amt pool app r
  | .deposit u lendId denom amt r => deposit cfg s u lendId denom amt r
  | .withdraw u lendId denom amt r => withdraw cfg s u lendId denom amt r
  | .closeLend u lendId r => closeLend cfg s u lendId r
  | .borrow u lendId pairId stable dIn aIn dOut aOut e1 e2 => borrow cfg s u lendId pairId stable dIn aIn dOut aOut e1 e2
  | .borrowAlternate u asset pool denom amt pairId stable dOut aOut app r e1 e2 =>
      borrowAlternate cfg s u asset pool denom amt pairId stable dOut aOut app r e1 e2
  | .depositBorrow u borrowId denom amt e => depositBorrow cfg s u borrowId denom amt e
  | .draw u borrowId denom amt e => draw cfg s u borrowId denom amt e
  | .repay u borrowId denom amt e => repay cfg s u borrowId denom amt e
  | .closeBorrow u borrowId e => closeBorrow cfg s u borrowId e
  | .repayWithdraw u borrowId e r => repayWithdraw cfg s u borrowId e r
  | .calcAll u bs ls => calcMsg cfg s u bs ls
  | .fundModule u pool asset denom amt => fundModule cfg s u pool asset denom amt
  | .fundReserve u asset denom amt => fundReserve cfg s u asset denom amt
  | .setPrice asset twa => .ok (setPrice s asset twa)
  | .setKill app on => .ok (setKill s app on)
  | .setDepreciated pool flag => .ok (setDepreciated s pool flag)
  | .beginBlock => beginBlock cfg s
  | .handover borrowId ni => handover cfg s borrowId ni
  | .bid bidder borrowId paid recv => auctionBid cfg s bidder borrowId paid recv
  | .auctionClose bidder borrowId paid recv left topUp => auctionClose cfg s bidder borrowId paid recv left topUp

/-- a rejected message leaves the state unchanged (cache context written back only on success) -/
def apply (cfg : Cfg) (s : State) (op : Op) : State :=
  match step cfg s op with
  | .ok s' => s'
  | .error _ => s

def run (cfg : Cfg) (s : State) (ops : List Op) : State := ops.foldl (apply cfg) s

/-- genesis: zero totals for every asset of every pool (`AddPoolRecords`), arbitrary bank and prices -/
def initStats (cfg : Cfg) : List Stats :=
  cfg.pools.flatMap fun p => p.assets.map fun d =>
    { pool := p.id, asset := d.asset, totalLend := 0, totalBorrowed := 0, totalStable := 0, totalInterest := 0 }

def init (cfg : Cfg) (bank : Bank) (prices : List (Nat × Nat)) : State :=
  { stats := initStats cfg, bank := bank, prices := prices }

/-! ## The book identities (decidable: the driver evaluates them on the REAL state projection) -/

def sumBy {α} (f : α → Int) : List α → Int
  | [] => 0
  | a :: l => f a + sumBy f l

/-- collateral pledged by borrows of lend `lid` that are not handed over to a liquidation auction -/
def pledgedOf (bs : List Borrow) (lid : Nat) : Int :=
  sumBy (fun b => if b.lendingId = lid ∧ b.liq = false then b.amountIn else 0) bs

def lendSum (ls : List Lend) (bs : List Borrow) (p a : Nat) : Int :=
  sumBy (fun l => if l.pool = p ∧ l.asset = a then l.avail + pledgedOf bs l.id else 0) ls

def borrowedSum (cfg : Cfg) (bs : List Borrow) (p a : Nat) (stable : Bool) : Int :=
  sumBy (fun b => if b.liq = false ∧ b.stable = stable ∧ cfg.pairOut b.pairId = some (p, a) then b.amountOut else 0) bs

def TotalLendEq (s : State) : Prop := ∀ st ∈ s.stats, st.totalLend = lendSum s.lends s.borrows st.pool st.asset
def TotalBorrowedEq (cfg : Cfg) (s : State) : Prop :=
  ∀ st ∈ s.stats, st.totalBorrowed = borrowedSum cfg s.borrows st.pool st.asset false
def TotalStableEq (cfg : Cfg) (s : State) : Prop :=
  ∀ st ∈ s.stats, st.totalStable = borrowedSum cfg s.borrows st.pool st.asset true

instance (s : State) : Decidable (TotalLendEq s) := by unfold TotalLendEq; infer_instance
instance (cfg : Cfg) (s : State) : Decidable (TotalBorrowedEq cfg s) := by unfold TotalBorrowedEq; infer_instance
instance (cfg : Cfg) (s : State) : Decidable (TotalStableEq cfg s) := by unfold TotalStableEq; infer_instance

/-! ## The id lists of the pool-asset records (decidable: evaluated on the REAL state projection)

`LendIds` of (pool, asset) = the ids of the lend positions of that pool and asset, `BorrowIds` = the ids of the borrows whose pair lends
OUT that asset of that pool (liquidated ones included, until the auction close deletes them) — as lists, in creation order, which is
ascending id order: `DeleteIDFromAssetStatsMapping` finds an id by binary search. These lists are what `GetBorrows` (the liquidation
sweeps of both generations) and the interest queries iterate. -/

def lendIdsOf (ls : List Lend) (p a : Nat) : List Nat := (ls.filter fun l => l.pool == p && l.asset == a).map (·.id)
def borrowIdsOf (cfg : Cfg) (bs : List Borrow) (p a : Nat) : List Nat :=
  (bs.filter fun b => cfg.pairOut b.pairId == some (p, a)).map (·.id)

def IdsOk (cfg : Cfg) (s : State) : Prop :=
  ∀ st ∈ s.stats, st.lendIds = lendIdsOf s.lends st.pool st.asset ∧ st.borrowIds = borrowIdsOf cfg s.borrows st.pool st.asset

instance (cfg : Cfg) (s : State) : Decidable (IdsOk cfg s) := by unfold IdsOk; infer_instance

/-! ## The reserve ledger (decidable)

For every asset the coins in the reserve module account are the genesis balance plus what the records say came in (funding messages,
liquidation penalties, the reserve's share of repaid interest) minus what they say went out (rewards paid to lenders from the reserve,
first-generation auction cover); the two halves `ReserveAmount` / `BuybackAmount` always agree. -/

def ResLedger (cfg : Cfg) (bank0 : Bank) (s : State) : Prop :=
  ∀ a, s.bank.get cfg.reserveAcct a = bank0.get cfg.reserveAcct a + (getResv s.resv a).flow

/-- the same on a finite list of assets (what the driver evaluates) -/
def resLedgerOn (cfg : Cfg) (bank0 : Bank) (s : State) (assets : List Nat) : Bool :=
  assets.all fun a => s.bank.get cfg.reserveAcct a == bank0.get cfg.reserveAcct a + (getResv s.resv a).flow

def HalvesEq (s : State) : Prop := ∀ r ∈ s.resv, r.reserve = r.buyback
instance (s : State) : Decidable (HalvesEq s) := by unfold HalvesEq; infer_instance

/-! ## The LTV comparison over the integers (decidable: the driver evaluates it on the REAL accepted operations)

`CalcAssetPrice` is `Dec(amt)·Dec(price)/Dec(decimals)`: the product of two integer `Dec`s is exact, `Quo` truncates the big-integer
division and then drops 18 digits half-even; the ratio is one more `Quo`. `ExactLtv` is "ratio ≤ ltv" multiplied out with the slack of
those three roundings: with `u = 10⁻¹⁸`, `D = debt·pout/dOut`, `C = coll·pin/dIn` (exact rationals)
`(D − ½u − u²)·… < (ltv + ½u + u²)·(C + ½u)`. -/

def ExactLtv (ltv coll pin dIn debt pout dOut : Int) : Prop :=
  (2 * (debt * pout * Dec.P * Dec.P) - (Dec.P + 2) * dOut + 2) * dIn * (2 * Dec.PP) <
    ((2 * ltv + 1) * Dec.P + 2) * (2 * (coll * pin * Dec.P * Dec.P) + dIn * Dec.P) * dOut

/-- decimal scales that divide `10^18` make both valuations exact; only the final `Quo` rounds:
`D / C < ltv + ½u + u²`, multiplied out -/
def ExactLtvScales (ltv coll pin dIn debt pout dOut : Int) : Prop :=
  2 * (debt * pout * dIn) * Dec.PP < ((2 * ltv + 1) * Dec.P + 2) * (coll * pin * dOut)

instance (ltv coll pin dIn debt pout dOut : Int) : Decidable (ExactLtv ltv coll pin dIn debt pout dOut) := by
  unfold ExactLtv; infer_instance
instance (ltv coll pin dIn debt pout dOut : Int) : Decidable (ExactLtvScales ltv coll pin dIn debt pout dOut) := by
  unfold ExactLtvScales; infer_instance

/-- the exact LTV inequality for amounts of two configured assets at the prices in force (`false` when something is missing) -/
def exactLtvOn (cfg : Cfg) (prices : List (Nat × Nat)) (ltv : Dec) (coll : Int) (assetIn : Nat) (debt : Int) (assetOut : Nat) : Bool :=
  match cfg.asset? assetIn, prices.lookup assetIn, cfg.asset? assetOut, prices.lookup assetOut with
  | some ai, some pin, some ao, some pout => decide (ExactLtv ltv coll (pin : Int) ai.decimals debt (pout : Int) ao.decimals)
  | _, _, _, _ => false

end Comdex.Lend
