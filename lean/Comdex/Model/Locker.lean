import Comdex.Model.Accrual
/-
Model of the locker and collector books (property C13).  Core Lean only.

Sources (comdex, Go):
  x/locker/keeper/msg_server.go   MsgCreateLocker 26-126, MsgDepositAsset 129-215, MsgWithdrawAsset 218-299,
                                  MsgCloseLocker 301-371, MsgLockerRewardCalc 373-399
  x/locker/keeper/locker.go       UpdateAmountLockerMapping 246-262, AddWhiteListedAsset 444-488
  x/rewards/keeper/rewards.go     CalculateLockerRewards 538-637 (pay branch 577-627)
  x/collector/keeper/collector.go GetAmountFromCollector 14-39, DecreaseNetFeeCollectedData 41-61, UpdateCollector 64-110,
                                  SetNetFeeCollectedData 445-475, LockerIterateRewards 716-808, WasmMsgGetSurplusFund 831-841
  x/vault/keeper/msg_server.go    fee inflows 131-141, 683-695, 723-732, 845-858
  x/auction/keeper                dutch.go 317 (debt cover), 410-427 (penalty), surplus.go 82, 204-208, 260-264, debt.go 245-251
  x/auctionsV2/keeper             bid.go 175-187 (penalty), auctions.go 367-438 (CloseEnglishAuction, surplus and debt branch)
  x/liquidationsV2/keeper         liquidate.go 503-511 (second-generation surplus start = GetAmountFromCollector)

`sdk.Int` is `Int`.  A denomination is identified with its asset id (the harness gives every asset its own denom).
A returned error and a Go panic are both `none` (the whole message is rolled back by the cache context; nothing of a
failed message is observable).  What is NOT modelled:
gas, events, block-height / block-time bookkeeping fields, the user→locker index (derived from the locker list: the
index entry is written at create and zeroed at close, exactly when the locker record exists), the reward tracker's
fractional part and `math.Pow` (the paid reward is an external input `Rw`), the four per-category counters of
`CollectorData` (the harness uses them as the independent observation of the fee amounts).
-/
namespace Comdex.Locker

/-! ## keyed store (association list; `get` = first match, `put` = replace first match or append) -/

abbrev Store (K V : Type) := List (K × V)

namespace Store
variable {K V : Type} [DecidableEq K]

def get : Store K V → K → Option V
  | [], _ => none
  | (k', v) :: t, k => if k' = k then some v else get t k

def put : Store K V → K → V → Store K V
  | [], k, v => [(k, v)]
  | (k', v') :: t, k, v => if k' = k then (k, v) :: t else (k', v') :: put t k v

def del : Store K V → K → Store K V
  | [], _ => []
  | (k', v') :: t, k => if k' = k then t else (k', v') :: del t k

def sumBy (f : K → V → Int) : Store K V → Int
  | [] => 0
  | (k, v) :: t => f k v + sumBy f t

end Store

/-! ## bank ledger -/

inductive Acct where
  | user (n : Nat)
  | locker        -- module account "lockerV1"
  | collector     -- module account "collectorV1"
  | auction       -- module account "auctionV1"
  | auctionV2     -- module account "auctionsV2"
  deriving DecidableEq, Repr

abbrev Bank := Store (Acct × Nat) Int

def Bank.bal (b : Bank) (a : Acct) (d : Nat) : Int := (Store.get b (a, d)).getD 0

/-- `x/bank` send: a negative coin panics, insufficient funds is an error. -/
def Bank.send (b : Bank) (src dst : Acct) (d : Nat) (x : Int) : Option Bank :=
  if x < 0 then none
  else if b.bal src d < x then none
  else
    let b1 := Store.put b (src, d) (b.bal src d - x)
    some (Store.put b1 (dst, d) (Bank.bal b1 dst d + x))

/-- coins arriving from outside the modelled accounts (mint, or a transfer out of the vault / auction escrow). -/
def Bank.mint (b : Bank) (a : Acct) (d : Nat) (x : Int) : Option Bank :=
  if x < 0 then none else some (Store.put b (a, d) (b.bal a d + x))

def Bank.burn (b : Bank) (a : Acct) (d : Nat) (x : Int) : Option Bank :=
  if x < 0 then none else if b.bal a d < x then none else some (Store.put b (a, d) (b.bal a d - x))

/-! ## state -/

structure Locker where
  owner : Nat
  app   : Nat
  asset : Nat
  net   : Int      -- NetBalance
  ret   : Int      -- ReturnsAccumulated
  deriving DecidableEq, Repr

/-- `LockerLookupTableData` (key = (app, asset)). -/
structure Lk where
  deposited : Int
  ids       : List Nat
  deriving DecidableEq, Repr

/-- `CollectorLookupTableData` (key = (app, collector asset)): saving rate with the block height / time at which it was
last set (`BlockHeight = 0` marks "rate is zero"), and the auction thresholds. -/
structure CL where
  lsr        : Dec := 0
  bh         : Int := 0
  bt         : Int := 0
  surplusThr : Int := 0
  debtThr    : Int := 0
  lot        : Int := 0
  debtLot    : Int := 0
  deriving DecidableEq, Repr

/-- `AppAssetIdToAuctionLookupTable` (key = (app, asset)): which kind of auction the collector entry feeds, and whether one runs. -/
structure AMap where
  surplus : Bool := false
  debt    : Bool := false
  active  : Bool := false
  deriving DecidableEq, Repr

/-- a running first-generation (x/auction) surplus or debt auction of the collector entry `(app, asset)`.
`lot` is the amount of the COLLECTOR asset at stake: the `SellToken` of a surplus auction (already taken out of the collector by
`GetAmountFromCollector`), the `ExpectedUserToken` of a debt auction (paid in by the bidder). `other` is an amount of the secondary
asset: the standing bid of a surplus auction, the `ExpectedMintedToken` of a debt auction. `bidder = none` ⇔ status "no bids". -/
structure Auc1 where
  id      : Nat
  app     : Nat
  asset   : Nat
  surplus : Bool
  lot     : Int
  other   : Int
  bidder  : Option Nat
  endT    : Int
  bidEndT : Int
  deriving DecidableEq, Repr

structure State where
  bank    : Bank := []
  lockers : Store Nat Locker := []
  lookup  : Store (Nat × Nat) Lk := []      -- created by AddWhiteListedAsset together with the product mapping
  fees    : Store (Nat × Nat) Int := []     -- AppAssetIdToFeeCollectedData.NetFeesCollected
  lastId  : Nat := 0                        -- GetIDForLocker
  assets  : List Nat := []
  apps    : List Nat := []
  collk   : Store (Nat × Nat) CL := []      -- collector lookup table
  ltime   : Store Nat (Int × Int) := []     -- Locker.BlockHeight, Locker.BlockTime (unix seconds)
  trackers : Store (Nat × Nat) Dec := []    -- LockerRewardsTracker.RewardsAccumulated, key (locker id, app)
  rewardWl : List (Nat × Nat) := []         -- (app, asset) whitelisted for internal rewards (`GetReward` found)
  esmOn   : List Nat := []                  -- apps whose ESM status is `true` (emergency shutdown executed)
  killOn  : List Nat := []                  -- apps whose kill switch (`BreakerEnable`) is on
  amap    : Store (Nat × Nat) AMap := []    -- auction mapping of the collector
  englishOn : List Nat := []                -- apps with `LiquidationWhiteListing.IsEnglishActivated`
  auctions : List Auc1 := []                -- running first-generation surplus / debt auctions, in id order
  lastAuc : Nat := 0                        -- x/auction `GetAuctionID`
  aucDur  : Int := 0                        -- AuctionParams.AuctionDurationSeconds (same for every app here)
  bidDur  : Int := 0                        -- AuctionParams.BidDurationSeconds
  bidFactor : Dec := 0                      -- CollectorLookupTableData.BidFactor (same for every entry here)
  deriving Repr, DecidableEq

def bal (s : State) (a : Acct) (d : Nat) : Int := s.bank.bal a d
def fee (s : State) (k : Nat × Nat) : Int := (Store.get s.fees k).getD 0
def dep (s : State) (k : Nat × Nat) : Int := ((Store.get s.lookup k).map (·.deposited)).getD 0

/-- accrued savings reward handed to the ledger code: the external input of every reward calculation.
`none`: nothing is paid (asset not whitelisted for rewards, saving rate zero, or accrued < 1);
`pay ρ`: `newReward = ρ` is paid; `fail`: `CalculateLockerRewards` returns an error or panics before the ledger code. -/
inductive Rw where
  | none
  | pay (ρ : Int)
  | fail
  deriving DecidableEq, Repr

/-! ## collector primitives -/

/-- `SetNetFeeCollectedData` (it ADDS `f` to the record, creating it if missing). -/
def setNetFee (s : State) (k : Nat × Nat) (f : Int) : Option State :=
  if f < 0 then none
  else match Store.get s.fees k with
    | none => some { s with fees := Store.put s.fees k f }
    | some v => some { s with fees := Store.put s.fees k (v + f) }

/-- `DecreaseNetFeeCollectedData`. -/
def decNetFee (s : State) (k : Nat × Nat) (x : Int) : Option State :=
  match Store.get s.fees k with
  | none => none
  | some v => if v - x < 0 then none else some { s with fees := Store.put s.fees k (v - x) }

/-- `UpdateCollector` as far as the net-fee record is concerned (`HasAsset`, then add the sum of the four parts). -/
def updateCollector (s : State) (k : Nat × Nat) (total : Int) : Option State :=
  if k.2 ∉ s.assets then none else setNetFee s k total

def creditCollector (s : State) (d : Nat) (x : Int) : Option State :=
  (s.bank.mint .collector d x).map fun b => { s with bank := b }

/-- `GetAmountFromCollector`: found, not negative, `net - x > 0`, send to the first-generation auction account, decrease. -/
def getAmount (s : State) (k : Nat × Nat) (x : Int) : Option State :=
  match Store.get s.fees k with
  | none => none
  | some v =>
    if x < 0 then none
    else if ¬ (v - x > 0) then none
    else match s.bank.send .collector .auction k.2 x with
      | none => none
      | some b => decNetFee { s with bank := b } k x

/-! ## locker primitives -/

/-- `UpdateAmountLockerMapping`: silently does nothing when the lookup entry is missing. -/
def updAmount (s : State) (k : Nat × Nat) (delta : Int) : State :=
  match Store.get s.lookup k with
  | none => s
  | some e => { s with lookup := Store.put s.lookup k { e with deposited := e.deposited + delta } }

/-- pay branch of `CalculateLockerRewards` (rewards.go:577-627) / of one iteration of `LockerIterateRewards`:
decrease net fees, move the coins collector → locker, credit the locker, credit the lookup total.
`asset` is the asset id passed by the caller (bank denom, lookup key); the net-fee key uses the locker's own asset id. -/
def payReward (s : State) (id app asset : Nat) (ρ : Int) : Option State :=
  match Store.get s.lookup (app, asset), Store.get s.lockers id with
  | some lk, some l =>
    match decNetFee s (app, l.asset) ρ with
    | none => none
    | some s1 =>
      let bank? := if ρ > 0 then s1.bank.send .collector .locker asset ρ else some s1.bank
      match bank? with
      | none => none
      | some b =>
        some { s1 with bank := b,
                       lockers := Store.put s1.lockers id { l with net := l.net + ρ, ret := l.ret + ρ },
                       lookup := Store.put s1.lookup (app, asset) { lk with deposited := lk.deposited + ρ } }
  | _, _ => none      -- nil `DepositedAmount` / nil `NetBalance` dereference: panic

def reward (s : State) (id app asset : Nat) : Rw → Option State
  | .none => some s
  | .fail => none
  | .pay ρ => payReward s id app asset ρ

def userHasLocker (s : State) (u app asset : Nat) : Bool :=
  s.lockers.any fun p => p.2.owner = u ∧ p.2.app = app ∧ p.2.asset = asset

/-- guards shared by deposit / withdraw / close (msg_server.go:143-171, 220-244, 303-327). -/
def lockerGuards (s : State) (u app asset id : Nat) : Option Locker :=
  if asset ∉ s.assets then none
  else if app ∉ s.apps then none
  else match Store.get s.lockers id with
    | none => none
    | some l =>
      if l.asset ≠ asset then none
      else if l.owner ≠ u then none
      else if l.app ≠ app then none
      else if (Store.get s.lookup (app, asset)).isNone then none
      else some l

/-! ## configuration changes and the auction start decision -/

inductive Cfg where
  | amap (app asset : Nat) (m : AMap)     -- SetAuctionMappingForApp / WasmSetAuctionMappingForApp (governance)
  | esm (app : Nat) (on : Bool)           -- ESM executed for the app
  | kill (app : Nat) (on : Bool)          -- kill switch
  | english (app : Nat) (on : Bool)       -- liquidation whitelisting: English auctions activated
  deriving Repr

def setMem (l : List Nat) (a : Nat) (on : Bool) : List Nat :=
  if on then (if a ∈ l then l else l ++ [a]) else l.filter (· ≠ a)

def applyCfg (s : State) : Cfg → State
  | .amap app asset m => { s with amap := Store.put s.amap (app, asset) m }
  | .esm app on => { s with esmOn := setMem s.esmOn app on }
  | .kill app on => { s with killOn := setMem s.killOn app on }
  | .english app on => { s with englishOn := setMem s.englishOn app on }

def setActive (s : State) (k : Nat × Nat) (m : AMap) : State :=
  { s with amap := Store.put s.amap k { m with active := true } }

/-- end of `CloseEnglishAuction` (auctions.go:398-406, 429-437): the mapping entry must exist, its active flag is cleared. -/
def clearActive (s : State) (k : Nat × Nat) : Option State :=
  match Store.get s.amap k with
  | none => none
  | some m => some { s with amap := Store.put s.amap k { m with active := false } }

/-- The start decision of one begin-block for one auction-mapping entry `k = (app, asset)`; the Boolean says that the sweep is
aborted. Since fix 6f0df35 in /repo (`LiquidateForSurplusAndDebt` wraps each kick-off in `ApplyFuncIfNoError` and goes on to the next
mapping) it is always `false` for both generations: a failing kick-off is rolled back — in particular the lot that
`GetAmountFromCollector` moved before `CreateLockedVault` failed — and does not stop the remaining entries. (Before the fix the
second generation returned the first error and kept what was written so far: lots piled up in `auctionV1` without an auction.)

first generation (`gen2 = false`; x/auction `SurplusActivator` / `DebtActivator`, surplus.go:15-78, debt.go:15-70, each inside
`ApplyFuncIfNoError`): not active, kill switch off, ESM off; surplus: `netFees ≥ surplusThreshold + lotSize` ⇒
`GetAmountFromCollector(lot)` then active; debt: `netFees ≤ debtThreshold − lotSize` ⇒ active (nothing leaves the collector).
second generation (`gen2 = true`; liquidationsV2 `CheckStatsForSurplusAndDebt`, liquidate.go:468-524): not active, kill switch
off (ESM is NOT consulted); same two comparisons; the locked vault can only be created when English auctions are activated for
the app — otherwise the error surfaces AFTER `GetAmountFromCollector` already moved the lot, and the unit is rolled back.
Assumed: the surplus and debt flags are mutually exclusive (enforced by `SetAuctionMappingForApp`), both assets of the collector
entry exist, first-generation auction parameters exist for the app. -/
def activateOne (s : State) (gen2 : Bool) (k : Nat × Nat) : State × Bool :=
  match Store.get s.amap k with
  | none => (s, false)
  | some m =>
    if m.active || decide (k.1 ∈ s.killOn) || (!gen2 && decide (k.1 ∈ s.esmOn)) then (s, false)
    else match Store.get s.collk k, Store.get s.fees k with
      | some c, some v =>
        if gen2 then
          if v ≤ c.debtThr - c.lot ∧ m.debt = true then
            if k.1 ∈ s.englishOn then (setActive s k m, false) else (s, false)
          else if v ≥ c.surplusThr + c.lot ∧ m.surplus = true then
            match getAmount s k c.lot with
            | none => (s, false)
            | some s1 => if k.1 ∈ s.englishOn then (setActive s1 k m, false) else (s, false)   -- the unit is rolled back
          else (s, false)
        else
          if m.surplus then
            if v ≥ c.surplusThr + c.lot then
              match getAmount s k c.lot with
              | none => (s, false)                 -- the activator's unit is rolled back
              | some s1 => (setActive s1 k m, false)
            else (s, false)
          else if m.debt then
            if v ≤ c.debtThr - c.lot then (setActive s k m, false) else (s, false)
          else (s, false)
      | _, _ => (s, false)

/-- one begin-block sweep over the mapping entries `keys` (store order) -/
def activate (s : State) (gen2 : Bool) : List (Nat × Nat) → State
  | [] => s
  | k :: ks =>
    let r := activateOne s gen2 k
    if r.2 then r.1 else activate r.1 gen2 ks

/-! ## first-generation surplus / debt auctions: bids, restart, every close path (x/auction/keeper/surplus.go, debt.go)

Only the collector-asset side is booked: the secondary asset (bids of a surplus auction, minted tokens of a debt auction) never
touches the collector and lies outside the projection. -/

def dropAuc (s : State) (a : Auc1) : State := { s with auctions := s.auctions.filter (·.id != a.id) }

/-- what `closeSurplusAuction` (surplus.go:190-283) / `closeDebtAuction` (debt.go:189-270) move, before the flags are cleared:
surplus — emergency shutdown with a standing bid: bid refunded, lot BACK to the collector, `SetNetFeeCollectedData(app, AssetOutId, lot)`;
          winner (no shutdown): lot to the winner, bid burnt, the collector untouched;
          no bid (only reached under shutdown): lot back to the collector and recorded;
debt    — emergency shutdown with bids: the bidder's payment refunded, collector untouched;
          winner: tokens minted to the winner, the payment goes to the collector, `SetNetFeeCollectedData(app, AssetInId, payment)`;
          no bids: nothing moves. -/
def closeMoves (s : State) (a : Auc1) (esm : Bool) : Option State :=
  let toCollector : Option State :=
    (s.bank.send .auction .collector a.asset a.lot).bind fun b => setNetFee { s with bank := b } (a.app, a.asset) a.lot
  let toUser (u : Nat) : Option State := (s.bank.send .auction (.user u) a.asset a.lot).map fun b => { s with bank := b }
  if a.surplus then
    match a.bidder with
    | none => toCollector
    | some u => if esm then toCollector else toUser u
  else
    match a.bidder with
    | none => some s
    | some u => if esm then toUser u else toCollector

/-- a close: the moves, `makeFalseForFlags` on the entry, the auction record deleted -/
def closeAuc (s : State) (a : Auc1) (esm : Bool) : Option State :=
  (closeMoves s a esm).bind fun s1 => (clearActive s1 (a.app, a.asset)).map fun s2 => dropAuc s2 a

/-- `RestartSurplus` / `RestartDebt`: an ended auction without bids gets a new window; nothing moves -/
def restartAuc (s : State) (a : Auc1) (now : Int) : State :=
  { s with auctions := s.auctions.map fun b => if b.id = a.id then { b with endT := now + s.aucDur, bidEndT := now + s.aucDur } else b }

/-- `SurplusAuctionClose` / `DebtAuctionClose` (surplus.go:148-166, debt.go:144-163) over the auctions `as` of the app that were
running when the sweep began: ended (or emergency shutdown) ⇒ restart when there are no bids and no shutdown, otherwise close.
`none` = an error: the activator's unit is rolled back. -/
def sweepAucs (s : State) (app : Nat) (surplus esm : Bool) (now : Int) : List Auc1 → Option State
  | [] => some s
  | a :: as =>
    if a.app = app ∧ a.surplus = surplus ∧ (now > a.endT ∨ now > a.bidEndT ∨ esm = true) then
      if a.bidder = none ∧ esm = false then sweepAucs (restartAuc s a now) app surplus esm now as
      else match closeAuc s a esm with
        | none => none
        | some s1 => sweepAucs s1 app surplus esm now as
    else sweepAucs s app surplus esm now as

/-- after a first-generation start decision raised the entry's flag: the auction record (`StartSurplusAuction` / `StartDebtAuction`) -/
def recordStart (s r : State) (k : Nat × Nat) (now : Int) : State :=
  match Store.get s.amap k, Store.get r.amap k, Store.get s.collk k with
  | some m, some m', some c =>
    if m.active = false ∧ m'.active = true then
      let a : Auc1 := ⟨r.lastAuc + 1, k.1, k.2, m.surplus, c.lot, (if m.surplus then 0 else c.debtLot), none,
                       now + s.aucDur, now + s.aucDur⟩
      { r with lastAuc := r.lastAuc + 1, auctions := r.auctions ++ [a] }
    else r
  | _, _, _ => r

/-- One entry of the first-generation begin-blocker (x/auction/abci.go:15-76): `data` is the entry as read at the TOP of the block
(`snap`), the emergency status is read per entry; the surplus activator and the debt activator are separate atomic units.
Active at the top ⇒ the close sweep over ALL auctions of that kind of the app; inactive ⇒ the start decision (`activateOne`). -/
def unit1 (s : State) (active kind : Bool) (now : Int) (k : Nat × Nat) : State :=
  if active then (sweepAucs s k.1 kind (decide (k.1 ∈ s.esmOn)) now s.auctions).getD s
  else recordStart s (activateOne s false k).1 k now

def begin1Entry (s : State) (snap : Store (Nat × Nat) AMap) (now : Int) (k : Nat × Nat) : State :=
  match Store.get snap k with
  | none => s
  | some d =>
    let s1 := if d.surplus then unit1 s d.active true now k else s
    if d.debt then unit1 s1 d.active false now k else s1

def begin1Loop (s : State) (snap : Store (Nat × Nat) AMap) (now : Int) : List (Nat × Nat) → State
  | [] => s
  | k :: ks => begin1Loop (begin1Entry s snap now k) snap now ks

/-- `change := BidFactor.MulInt(x).Ceil().TruncateInt()` -/
def bidChange (f : Dec) (x : Int) : Int := Dec.truncateInt (Dec.ceil (Dec.mulInt f x))

/-- the accepted bid becomes the standing one; the bid window ends `BidDurationSeconds` later, capped by the auction's end -/
def placeBid (b : Auc1) (u : Nat) (x : Int) (t : Int) : Auc1 :=
  { b with bidder := some u, other := x, bidEndT := (if t > b.endT then b.endT else t) }

/-- surplus: the first bid must exceed the (zero) opening bid, a later one must reach standing bid + ceil(bidFactor · standing bid) -/
def surplusBidOk (f : Dec) (a : Auc1) (amt : Int) : Bool :=
  match a.bidder with
  | some _ => decide (a.other + bidChange f a.other ≤ amt)
  | none => decide (a.other < amt)

/-- debt: the first bid may not ask for more than the auctioned amount, a later one at most the standing ask − ceil(bidFactor · ask) -/
def debtBidOk (f : Dec) (a : Auc1) (bid : Int) : Bool :=
  match a.bidder with
  | some _ => decide (bid ≤ a.other - bidChange f a.other)
  | none => decide (bid ≤ a.other)

/-- the previous bidder of a debt auction gets his payment back -/
def refundPrev (b : Bank) (a : Auc1) : Option Bank :=
  match a.bidder with
  | some v => Bank.send b .auction (.user v) a.asset a.lot
  | none => some b

def setBid (s : State) (id u : Nat) (x now : Int) : List Auc1 :=
  s.auctions.map fun b => if b.id = id then placeBid b u x (now + s.bidDur) else b

/-- `MsgPlaceSurplusBid` (surplus.go:285-346); the bid itself is in the secondary asset (not booked here) -/
def surplusBid (s : State) (app id u : Nat) (amt now : Int) : Option State :=
  if id = 0 ∨ amt < 0 then none else         -- ValidateBasic
  match s.auctions.find? (fun a => a.id == id && a.app == app && a.surplus) with
  | none => none
  | some a =>
    if surplusBidOk s.bidFactor a amt then some { s with auctions := setBid s id u amt now } else none

/-- `MsgPlaceDebtBid` (debt.go:274-345): the bidder pays the expected collector-asset amount into the auction account, the previous
bidder is refunded; the bid is the amount of secondary asset he is willing to take -/
def debtBid (s : State) (app id u : Nat) (bid exp now : Int) : Option State :=
  if id = 0 ∨ bid ≤ 0 ∨ exp < 0 then none else   -- ValidateBasic: the bid must be positive
  match s.auctions.find? (fun a => a.id == id && a.app == app && !a.surplus) with
  | none => none
  | some a =>
    if exp ≠ a.lot then none
    else if debtBidOk s.bidFactor a bid then
      match s.bank.send (.user u) .auction a.asset a.lot with
      | none => none
      | some b1 =>
        match refundPrev b1 a with
        | none => none
        | some b2 => some { s with bank := b2, auctions := setBid s id u bid now }
    else none

/-! ## operations -/

inductive Op where
  | fund (u asset : Nat) (x : Int)                        -- harness funding of a user account
  | whitelist (app asset : Nat)                           -- AddWhiteListedAsset
  | create (u app asset : Nat) (amt : Int)                -- MsgCreateLocker
  | deposit (u app asset id : Nat) (amt : Int) (rw : Rw)  -- MsgDepositAsset
  | withdraw (u app asset id : Nat) (amt : Int) (rw : Rw) -- MsgWithdrawAsset
  | close (u app asset id : Nat) (rw : Rw)                -- MsgCloseLocker
  | rewardCalc (app id : Nat) (rw : Rw)                   -- MsgLockerRewardCalc
  | lsrChange (app asset : Nat) (rws : List Rw)           -- LockerIterateRewards (saving-rate change)
  | feeVault (app asset : Nat) (x : Int)                  -- opening / draw-down fee, stability interest at repay
  | feeClose (app asset : Nat) (interest closing : Int)   -- vault close: interest + closing fee
  | penalty (app asset : Nat) (x : Int)                   -- liquidation penalty (dutch.go:410-427, bid.go:175-187)
  | auctionReturn (app asset : Nat) (x : Int)             -- surplus lot returned / debt-auction proceeds (first generation)
  | decreaseNetFee (app asset : Nat) (x : Int)            -- DecreaseNetFeeCollectedData called on its own
  | getAmount (app asset : Nat) (x : Int)                 -- surplus lot (both generations), debt cover
  | surplusFund (app asset u : Nat) (x : Int)             -- WasmMsgGetSurplusFund
  | v2SurplusClose (app asset u : Nat) (lot : Int)        -- CloseEnglishAuction, surplus branch
  | v2DebtClose (app asset : Nat) (c d : Int)             -- CloseEnglishAuction, debt branch: receives d, records c
  | v2Penalty (app coll debt : Nat) (x : Int)             -- auctionsV2 bid.go:175-187 (and auctions.go:510-516): the penalty arrives in
                                                          -- the DEBT asset and is recorded under the DEBT asset (since fix d8b6c2e, D34)
  | config (c : Cfg)                                      -- governance / emergency configuration
  | activate (gen2 : Bool) (keys : List (Nat × Nat))      -- start decisions of one begin-block (x/auction resp. liquidationsV2)
  | begin1 (now : Int) (keys : List (Nat × Nat))          -- the whole first-generation begin-blocker: starts, restarts, closes
  | surplusBid (app id u : Nat) (amt now : Int)           -- MsgPlaceSurplusBid
  | debtBid (app id u : Nat) (bid exp now : Int)          -- MsgPlaceDebtBid
  deriving Repr

/-- how one iteration of `LockerIterateRewards` ends: `stop` = `return` (reward-calculation error), `next paid` = the loop goes
on, `paid` saying whether the pay branch ran to its end (it does not after a `continue`). -/
inductive IterRes where
  | stop
  | next (paid : Bool)
  deriving DecidableEq, Repr

/-- one iteration of `LockerIterateRewards` for locker `id`. `none` = the whole call panics. -/
def lsrIter (s : State) (app asset id : Nat) (rw : Rw) : Option (State × IterRes) :=
  match Store.get s.lockers id with
  | none => none                                -- nil NetBalance: panic in CalculationOfRewards
  | some l =>
    match rw with
    | .fail => some (s, .stop)                  -- `return`
    | .none => some (s, .next false)
    | .pay ρ =>
      match decNetFee s (app, l.asset) ρ with
      | none => some (s, .next false)           -- `continue`
      | some s1 =>
        let bank? := if ρ > 0 then s1.bank.send .collector .locker asset ρ else some s1.bank
        match bank? with
        | none => some (s1, .next false)        -- `continue` after the net fee was already decreased
        | some b =>
          match Store.get s1.lookup (app, asset) with
          | none => none
          | some lk =>
            some ({ s1 with bank := b,
                            lockers := Store.put s1.lockers id { l with net := l.net + ρ, ret := l.ret + ρ },
                            lookup := Store.put s1.lookup (app, asset) { lk with deposited := lk.deposited + ρ } }, .next true)

def lsrLoop (s : State) (app asset : Nat) : List Nat → List Rw → Option State
  | [], _ => some s
  | id :: ids, rws =>
    match lsrIter s app asset id (rws.headD .none) with
    | none => none
    | some (s1, .next _) => lsrLoop s1 app asset ids rws.tail
    | some (s1, .stop) => some s1

def step (s : State) : Op → Option State
  | .fund u asset x => (s.bank.mint (.user u) asset x).map fun b => { s with bank := b }
  | .whitelist app asset =>
    if app ∈ s.esmOn then none                               -- ErrESMAlreadyExecuted
    else if app ∈ s.killOn then none                         -- ErrCircuitBreakerEnabled
    else if app ∉ s.apps then none
    else if asset ∉ s.assets then none
    else match Store.get s.lookup (app, asset) with
      | some _ => none
      | none => some { s with lookup := Store.put s.lookup (app, asset) { deposited := 0, ids := [] } }
  | .create u app asset amt =>
    if amt ≤ 0 then none                                     -- ValidateBasic
    else if app ∈ s.esmOn then none                          -- ErrESMAlreadyExecuted (first guard of the handler)
    else if app ∈ s.killOn then none                         -- ErrCircuitBreakerEnabled
    else if asset ∉ s.assets then none
    else if app ∉ s.apps then none
    else if userHasLocker s u app asset then none
    else if (Store.get s.collk (app, asset)).isNone then none
    else match Store.get s.lookup (app, asset) with
      | none => none
      | some lk =>
        match s.bank.send (.user u) .locker asset amt with
        | none => none
        | some b =>
          let id := s.lastId + 1
          some { s with bank := b,
                        lockers := Store.put s.lockers id { owner := u, app := app, asset := asset, net := amt, ret := 0 },
                        lastId := id,
                        lookup := Store.put s.lookup (app, asset) { deposited := lk.deposited + amt, ids := lk.ids ++ [id] } }
  | .deposit u app asset id amt rw =>
    if amt ≤ 0 ∨ id = 0 then none                            -- ValidateBasic
    else if app ∈ s.esmOn then none                          -- ErrESMAlreadyExecuted (first guard of the handler)
    else if app ∈ s.killOn then none                         -- ErrCircuitBreakerEnabled
    else match lockerGuards s u app asset id with
      | none => none
      | some _ =>
        match reward s id app asset rw with
        | none => none
        | some s1 =>
          match Store.get s1.lockers id with
          | none => none
          | some l1 =>
            match s1.bank.send (.user u) .locker asset amt with
            | none => none
            | some b =>
              some (updAmount { s1 with bank := b, lockers := Store.put s1.lockers id { l1 with net := l1.net + amt } }
                      (app, asset) amt)
  | .withdraw u app asset id amt rw =>
    if amt ≤ 0 ∨ id = 0 then none                            -- ValidateBasic
    else match lockerGuards s u app asset id with
      | none => none
      | some l =>
        if l.net < amt then none                             -- checked BEFORE the reward is credited
        else match reward s id app asset rw with
          | none => none
          | some s1 =>
            match Store.get s1.lockers id with
            | none => none
            | some l1 =>
              match s1.bank.send .locker (.user u) asset amt with
              | none => none
              | some b =>
                some (updAmount { s1 with bank := b, lockers := Store.put s1.lockers id { l1 with net := l1.net - amt } }
                        (app, asset) (-amt))
  | .close u app asset id rw =>
    if id = 0 then none                                      -- ValidateBasic
    else match lockerGuards s u app asset id with
      | none => none
      | some _ =>
        match reward s id app asset rw with
        | none => none
        | some s1 =>
          match Store.get s1.lockers id with
          | none => none
          | some l1 =>
            let bank? := if l1.net > 0 then s1.bank.send .locker (.user u) asset l1.net else some s1.bank
            match bank? with
            | none => none
            | some b =>
              let s2 := updAmount { s1 with bank := b } (app, asset) (-l1.net)
              -- remove the id from the (sorted, duplicate-free) id list
              let s3 := match Store.get s2.lookup (app, asset) with
                | none => s2
                | some e => { s2 with lookup := Store.put s2.lookup (app, asset) { e with ids := e.ids.erase id } }
              some { s3 with lockers := Store.del s3.lockers id }
  | .rewardCalc app id rw =>
    if id = 0 then none                                      -- ValidateBasic
    else if app ∉ s.apps then none
    else match Store.get s.lockers id with
      | none => none
      | some l => if l.app ≠ app then none else reward s id app l.asset rw
  | .lsrChange app asset rws =>
    match Store.get s.lookup (app, asset) with
    | none => some s
    | some lk => lsrLoop s app asset lk.ids rws
  | .feeVault app asset x =>
    if x > 0 then (creditCollector s asset x).bind fun s1 => updateCollector s1 (app, asset) x
    else some s
  | .feeClose app asset interest closing =>
    (updateCollector s (app, asset) (interest + closing)).bind fun s1 =>
      (if interest > 0 then creditCollector s1 asset interest else some s1).bind fun s2 =>
        if closing > 0 then creditCollector s2 asset closing else some s2
  | .penalty app asset x =>
    (if x > 0 then creditCollector s asset x else some s).bind fun s1 => setNetFee s1 (app, asset) x
  | .auctionReturn app asset x =>
    (creditCollector s asset x).bind fun s1 => setNetFee s1 (app, asset) x
  | .decreaseNetFee app asset x => decNetFee s (app, asset) x
  | .getAmount app asset x => getAmount s (app, asset) x
  | .surplusFund app asset u x =>
    match s.bank.send .collector (.user u) asset x with
    | none => none
    | some b => decNetFee { s with bank := b } (app, asset) x
  | .v2SurplusClose app asset u lot =>
    -- auctions.go:372-396: the lot is taken from the collector AGAIN and then ADDED to the net fees
    match s.bank.send .collector .auctionV2 asset lot with
    | none => none
    | some b1 =>
      match Bank.send b1 .auctionV2 (.user u) asset lot with
      | none => none
      | some b2 => (setNetFee { s with bank := b2 } (app, asset) lot).bind fun s1 => clearActive s1 (app, asset)
  | .v2DebtClose app asset c d =>
    -- auctions.go:419-427: `DebtToken` (d, collector asset) arrives, `CollateralToken.Amount` (c, other asset) is recorded
    ((creditCollector s asset d).bind fun s1 => setNetFee s1 (app, asset) c).bind fun s2 => clearActive s2 (app, asset)
  | .v2Penalty app _ debt x =>
    (if x > 0 then creditCollector s debt x else some s).bind fun s1 => setNetFee s1 (app, debt) x
  | .config c => some (applyCfg s c)
  | .activate gen2 keys => some (activate s gen2 keys)
  | .begin1 now keys => some (begin1Loop s s.amap now keys)
  | .surplusBid app id u amt now => surplusBid s app id u amt now
  | .debtBid app id u bid exp now => debtBid s app id u bid exp now

/-- What the second-generation penalty booking did BEFORE fix d8b6c2e (finding D34): the coins of the debt asset arrive, the record
of the COLLATERAL asset rises. Not an operation of the model any more; kept for `C13.v2_penalty_before_fix_counterexample`. -/
def v2PenaltyBeforeFix (s : State) (app coll debt : Nat) (x : Int) : Option State :=
  (if x > 0 then creditCollector s debt x else some s).bind fun s1 => setNetFee s1 (app, coll) x

/-- The two closes as they would read after the small repair proposed in notes/C13.md (surplus: hand out the lot that
`GetAmountFromCollector` already moved to the first-generation auction account and leave the record alone; debt: record what
arrives). The driver accepts this behaviour as well, so that a repaired tree checks clean; the theorems about it are
`C13.repaired_surplus_close_exact` and `C13.repaired_debt_close_exact`. Every other op is `step`. -/
def stepRepaired (s : State) : Op → Option State
  | .v2SurplusClose app asset u lot =>
    match s.bank.send .auction .auctionV2 asset lot with
    | none => none
    | some b1 =>
      match Bank.send b1 .auctionV2 (.user u) asset lot with
      | none => none
      | some b2 => clearActive { s with bank := b2 } (app, asset)
  | .v2DebtClose app asset _ d =>
    ((creditCollector s asset d).bind fun s1 => setNetFee s1 (app, asset) d).bind fun s2 => clearActive s2 (app, asset)
  | op => step s op

def run (s : State) : List Op → Option State
  | [] => some s
  | op :: ops => (step s op).bind fun s1 => run s1 ops

/-- like `run` but a rejected message leaves the state unchanged and the history goes on (what a chain does). -/
def runSkip (s : State) : List Op → State
  | [] => s
  | op :: ops => runSkip ((step s op).getD s) ops

/-! ## the savings reward computed inside the model (x/rewards/keeper/rewards.go:538-576, iter.go:178-207)

`CalculateLockerRewards` accrues `CalculationOfRewards(netBalance, savingRate, since)` — float64 arithmetic around ONE call of
`math.Pow`, modelled exactly in `Comdex.Accrual` with the value of that call as the only input `pw` — into a per-locker tracker and
hands whole units to the ledger code (`Rw`). `since` is the locker's own block time, or the collector entry's block time when the
locker's block height is 0 (created / last touched while the rate was zero). -/

structure Ctx where
  now    : Int      -- ctx.BlockTime().Unix()
  height : Int      -- ctx.BlockHeight()
  deriving DecidableEq, Repr

def tracker (s : State) (id app : Nat) : Dec := (Store.get s.trackers (id, app)).getD 0

/-- seconds the code passes to `CalculationOfRewards` for locker `id` under collector entry `c` -/
def elapsed (ctx : Ctx) (c : CL) (lt : Int × Int) : Int := ctx.now - (if lt.1 = 0 then c.bt else lt.2)

/-- What `CalculateLockerRewards` decides before it touches the ledger: the `Rw` handed on, and the tracker value it stores
(`none`: it returned before accruing — asset not whitelisted for rewards, or saving rate zero). -/
def accrue (s : State) (ctx : Ctx) (app asset id : Nat) (pw : Option Int) : Rw × Option Dec :=
  if (app, asset) ∉ s.rewardWl then (.none, none)
  else match Store.get s.collk (app, asset) with
    | none => (.fail, none)
    | some c =>
      if c.lsr = 0 then (.none, none)
      else match Store.get s.lockers id, Store.get s.ltime id with
        | some l, some lt =>
          match Accrual.calcRewards l.net c.lsr (elapsed ctx c lt) pw with
          | .ok x =>
            let tr := tracker s id app
            if Dec.one ≤ tr + x then (.pay (Accrual.trackerStep tr x).1, some (Accrual.trackerStep tr x).2)
            else (.none, some (tr + x))
          | _ => (.fail, none)
        | _, _ => (.fail, none)

def setTracker (s : State) (id app : Nat) : Option Dec → State
  | none => s
  | some t => { s with trackers := Store.put s.trackers (id, app) t }

def touch (s : State) (id : Nat) (ctx : Ctx) : State :=
  { s with ltime := Store.put s.ltime id (ctx.height, ctx.now) }

/-- one iteration of `LockerIterateRewards` with the reward computed (old rate `lsr`, collector time `cbt`); `ct` = `changeTypes`. -/
def lsrIterT (s : State) (ctx : Ctx) (app asset id : Nat) (lsr : Dec) (cbt : Int) (ct : Bool) (pw : Option Int) :
    Option (State × Bool) :=
  match Store.get s.lockers id, Store.get s.ltime id with
  | some l, some lt =>
    match Accrual.calcRewards l.net lsr (ctx.now - (if lt.1 = 0 then cbt else lt.2)) pw with
    | .panic => none
    | .err => some (s, false)                         -- `return`
    | .ok x =>
      let tr := tracker s id app
      let stamp : Int × Int := (if ct then ctx.height else 0, ctx.now)
      if Dec.one ≤ tr + x then
        let s0 := { s with trackers := Store.put s.trackers (id, app) (Accrual.trackerStep tr x).2 }
        match lsrIter s0 app asset id (.pay (Accrual.trackerStep tr x).1) with
        | none => none
        | some (s1, .next true) => some ({ s1 with ltime := Store.put s1.ltime id stamp }, true)
        | some (s1, _) => some (s1, true)             -- `continue`: tracker already lowered, time stamp not renewed
      else
        some ({ s with trackers := Store.put s.trackers (id, app) (tr + x), ltime := Store.put s.ltime id stamp }, true)
  | _, _ => none

def lsrLoopT (s : State) (ctx : Ctx) (app asset : Nat) (lsr : Dec) (cbt : Int) (ct : Bool) : List Nat → List (Option Int) → Option State
  | [], _ => some s
  | id :: ids, pws =>
    match lsrIterT s ctx app asset id lsr cbt ct (pws.headD none) with
    | none => none
    | some (s1, true) => lsrLoopT s1 ctx app asset lsr cbt ct ids pws.tail
    | some (s1, false) => some s1

def iterateRewards (s : State) (ctx : Ctx) (app asset : Nat) (lsr : Dec) (cbt : Int) (ct : Bool) (pws : List (Option Int)) : Option State :=
  match Store.get s.lookup (app, asset) with
  | none => some s
  | some lk => lsrLoopT s ctx app asset lsr cbt ct lk.ids pws

/-- operations with the reward computed inside the model -/
inductive OpT where
  | create (u app asset : Nat) (amt : Int)
  | deposit (u app asset id : Nat) (amt : Int) (pw : Option Int)
  | withdraw (u app asset id : Nat) (amt : Int) (pw : Option Int)
  | close (u app asset id : Nat) (pw : Option Int)
  | rewardCalc (app id : Nat) (pw : Option Int)
  | lsrUpdate (app asset : Nat) (c : CL) (pws : List (Option Int))    -- WasmUpdateCollectorLookupTable (`c.bh`, `c.bt` unused)
  | wlReward (app asset : Nat)                                       -- WhitelistAssetForInternalRewards
  | plain (op : Op)                                                  -- every operation that involves no reward
  deriving Repr

/-- ops that carry an `Rw` or are superseded by a timed op may not be smuggled in through `plain` -/
def Op.isPlain : Op → Bool
  | .create .. | .deposit .. | .withdraw .. | .close .. | .rewardCalc .. | .lsrChange .. => false
  | _ => true

def stepT (s : State) (ctx : Ctx) : OpT → Option State
  | .create u app asset amt =>
    (step s (.create u app asset amt)).map fun s1 =>
      let zero := match Store.get s.collk (app, asset) with | some c => decide (c.lsr = 0) | none => true
      { s1 with ltime := Store.put s1.ltime s1.lastId (if zero then 0 else ctx.height, ctx.now) }
  | .deposit u app asset id amt pw =>
    let a := accrue s ctx app asset id pw
    (step s (.deposit u app asset id amt a.1)).map fun s1 => touch (setTracker s1 id app a.2) id ctx
  | .withdraw u app asset id amt pw =>
    let a := accrue s ctx app asset id pw
    (step s (.withdraw u app asset id amt a.1)).map fun s1 => touch (setTracker s1 id app a.2) id ctx
  | .close u app asset id pw =>
    let a := accrue s ctx app asset id pw
    (step s (.close u app asset id a.1)).map fun s1 =>
      { s1 with ltime := Store.del s1.ltime id, trackers := Store.del s1.trackers (id, app) }
  | .rewardCalc app id pw =>
    match Store.get s.lockers id with
    | none => none
    | some l =>
      let a := accrue s ctx app l.asset id pw
      (step s (.rewardCalc app id a.1)).map fun s1 =>
        match a.2 with
        | none => s1
        | some t => touch (setTracker s1 id app (some t)) id ctx
  | .lsrUpdate app asset c pws =>
    match Store.get s.collk (app, asset) with
    | none => none
    | some old =>
      let fin (s1 : State) (bh bt : Int) : State :=
        { s1 with collk := Store.put s1.collk (app, asset) { c with bh := bh, bt := bt } }
      if (app, asset) ∈ s.rewardWl then
        if c.lsr = 0 then
          (iterateRewards s ctx app asset old.lsr old.bt false pws).map fun s1 => fin s1 0 ctx.now
        else if old.lsr = 0 then some (fin s ctx.height ctx.now)
        else if old.lsr > 0 ∧ c.lsr > 0 then
          (iterateRewards s ctx app asset old.lsr old.bt true pws).map fun s1 => fin s1 ctx.height ctx.now
        else some (fin s old.bh old.bt)
      else some (fin s old.bh old.bt)
  | .wlReward app asset =>
    if (Store.get s.lookup (app, asset)).isNone then none
    else if (app, asset) ∈ s.rewardWl then some s
    else some { s with rewardWl := s.rewardWl ++ [(app, asset)] }
  | .plain op => if op.isPlain then step s op else none

def runSkipT (s : State) : List (Ctx × OpT) → State
  | [] => s
  | (ctx, op) :: ops => runSkipT ((stepT s ctx op).getD s) ops

/-! ## decidable monitors (evaluated by the driver on the REAL state projection) -/

def lockSum (k : Nat × Nat) (ls : Store Nat Locker) : Int :=
  Store.sumBy (fun _ l => if (l.app, l.asset) = k then l.net else 0) ls

def depAsset (a : Nat) (lk : Store (Nat × Nat) Lk) : Int :=
  Store.sumBy (fun k e => if k.2 = a then e.deposited else 0) lk

def feeAsset (a : Nat) (fs : Store (Nat × Nat) Int) : Int :=
  Store.sumBy (fun k v => if k.2 = a then v else 0) fs

def keysOf (s : State) : List (Nat × Nat) :=
  s.lookup.map (·.1) ++ s.lockers.map (fun p => (p.2.app, p.2.asset))

def assetsOf (s : State) : List Nat :=
  s.lookup.map (·.1.2) ++ s.fees.map (·.1.2) ++ s.assets

def monDepositedEqSum (s : State) : Bool := (keysOf s).all fun k => dep s k == lockSum k s.lockers
def monLockerCustody (s : State) : Bool := (assetsOf s).all fun a => decide (depAsset a s.lookup ≤ bal s .locker a)
def monCollectorCustody (s : State) : Bool := (assetsOf s).all fun a => decide (feeAsset a s.fees ≤ bal s .collector a)
def monNetFeesNonneg (s : State) : Bool := s.fees.all fun p => decide (0 ≤ p.2)

end Comdex.Locker
