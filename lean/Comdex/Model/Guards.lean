import Comdex.Gen.Guards
/-! # Guards — authorisation / emergency-control guards of message handlers (C12, C14)

Core Lean only (linked into the driver).

* **Execution model.** A handler is a list of *steps*: a `guard` (class + a predicate over the scenario and the state) or an
  `effect` (a state write). `run` executes them in order: the first failing guard returns its class as the error and nothing
  after it is run. The usual shape "guards followed by a body" is `Handler.simple`. A user message is delivered under
  `applyIfNoError` (baseapp's msg-service-router / runTx cache: the branch is written back only when the handler returned
  no error) — `deliver`. That cache is cosmos-sdk code, *modelled* here (trusted base).
* **Table semantics.** `Gen/Guards.lean` (regenerated from the Go source on every run) lists for every MsgServer method the
  flattened items met between entry and each successful return. `exits` enumerates the ok-exits with the items before
  them, `routeOf` keeps the items that are executed on *every* run reaching that exit (unconditional, on a branch path that
  is a prefix of the exit's path); `stepsOf` turns such a route into steps (classified guards get their fixed meaning
  `GClass.fails`, `other` guards and writes are arbitrary — the theorems quantify over them).
* **Specification lists** (`Spec.*`): what the property text demands, used by the driver's monitors; `Props/C12.lean` and
  `Props/C14.lean` restate them and prove them equal.
-/
namespace Comdex.Guards
open Comdex.Gen.Guards

/-! ## guard classes and scenarios -/

inductive GClass where
  | other | ownerEq | esmExecuted | breakerEnabled | coolOff | priceLookup | adminOnly
  deriving DecidableEq, Repr

def GClass.ofCode : Nat → GClass
  | 1 => .ownerEq | 2 => .esmExecuted | 3 => .breakerEnabled | 4 => .coolOff | 5 => .priceLookup | 6 => .adminOnly | _ => .other

def GClass.code : GClass → Nat
  | .other => 0 | .ownerEq => 1 | .esmExecuted => 2 | .breakerEnabled => 3 | .coolOff => 4 | .priceLookup => 5 | .adminOnly => 6

theorem GClass.ofCode_code (c : GClass) : GClass.ofCode c.code = c := by cases c <;> rfl

/-- The facts of a delivery scenario the classified guards look at. -/
structure Env where
  signerIsOwner : Bool := true   -- the signer is the owner / depositor / orderer / farmer / bidder of the named position
  signerIsAdmin : Bool := false  -- the signer is in esm Params.Admin
  esmExecuted : Bool := false    -- ESMStatus.Status of the app
  breakerOn : Bool := false      -- KillSwitchParams.BreakerEnable of the app
  coolOffPassed : Bool := false  -- block time is after ESMStatus.EndTime
  priceActive : Bool := true     -- every oracle price the operation needs is present and active
  deriving DecidableEq, Repr

/-- When a classified guard rejects (the code as it is: `status`, `BreakerEnable`, `BlockTime().After(EndTime) && status`,
`Owner != signer`, `err` of `CalcAssetPrice`/`GetLatestPrice`, `!Admin(from)`). -/
def GClass.fails (c : GClass) (e : Env) : Bool :=
  match c with
  | .other => false
  | .ownerEq => !e.signerIsOwner
  | .esmExecuted => e.esmExecuted
  | .breakerEnabled => e.breakerOn
  | .coolOff => e.esmExecuted && e.coolOffPassed
  | .priceLookup => !e.priceActive
  | .adminOnly => !e.signerIsAdmin

/-! ## execution -/

inductive Step (σ : Type) where
  | guard (cls : GClass) (ok : Env → σ → Bool)
  | effect (f : σ → σ)

/-- the step is a guard that rejects in scenario `e` whatever the state -/
def Step.rejectsIn {σ : Type} (e : Env) : Step σ → Prop
  | .guard _ ok => ∀ s, ok e s = false
  | .effect _ => False

def run {σ : Type} : List (Step σ) → Env → σ → Except GClass σ
  | [], _, s => .ok s
  | .guard c ok :: rest, e, s => if ok e s then run rest e s else .error c
  | .effect f :: rest, e, s => run rest e (f s)

/-- `types/utils.go` ApplyFuncIfNoError / baseapp msg cache: keep the new state only when no error was returned. -/
def applyIfNoError {σ ε : Type} (f : σ → Except ε σ) (s : σ) : σ × Bool :=
  match f s with
  | .ok s' => (s', true)
  | .error _ => (s, false)

/-- delivery of one user message: the whole handler under the message cache -/
def deliver {σ : Type} (steps : List (Step σ)) (e : Env) (s : σ) : σ × Bool := applyIfNoError (run steps e) s

/-- the standard meaning of a classified guard -/
def stdGuard {σ : Type} (c : GClass) : Step σ := .guard c (fun e _ => !c.fails e)

/-- "guards followed by a body" -/
def simple {σ : Type} (guards : List GClass) (body : σ → σ) : List (Step σ) := guards.map stdGuard ++ [.effect body]

/-! ## the regenerated table: exits, routes, decidable predicates -/

def isPrefix : List Nat → List Nat → Bool
  | [], _ => true
  | _ :: _, [] => false
  | a :: as, b :: bs => a == b && isPrefix as bs

/-- every ok-exit with the (reversed) list of items that precede it -/
def exitsAux : List Item → List Item → List (List Item × Item)
  | _, [] => []
  | acc, it :: rest => (if it.kind == 3 then [(acc, it)] else []) ++ exitsAux (it :: acc) rest

def exits (items : List Item) : List (List Item × Item) := exitsAux [] items

/-- items executed on every run that reaches exit `e` (in execution order) -/
def routeOf (acc : List Item) (e : Item) : List Item :=
  (acc.filter fun it => !it.cond && isPrefix it.path e.path).reverse

/-- a guard of class `c` lies on the route (`clean`: and no write precedes it) -/
def hasGuard (c : Nat) (clean : Bool) (route : List Item) : Bool :=
  route.any fun it => it.kind == 0 && it.cls == c && (!clean || !it.wb)

/-- an un-keyed position read may precede the exit (conditional reads count) -/
def namesAt (acc : List Item) (e : Item) : Bool :=
  acc.any fun it => it.kind == 2 && !it.keyed && isPrefix it.path e.path

def namesPosition (h : Handler) : Bool := h.items.any fun it => it.kind == 2
def namesUnkeyed (h : Handler) : Bool := h.items.any fun it => it.kind == 2 && !it.keyed
def hasExit (h : Handler) : Bool := h.items.any fun it => it.kind == 3

/-- every exit that can follow an un-keyed position read is dominated by the owner comparison -/
def ownerAuthorised (h : Handler) : Bool :=
  (exits h.items).all fun p => !namesAt p.1 p.2 || hasGuard 1 false (routeOf p.1 p.2)

/-- every exit is dominated by a guard of class `c` (clean: that no write precedes) -/
def guarded (c : Nat) (clean : Bool) (h : Handler) : Bool :=
  hasExit h && (exits h.items).all fun p => hasGuard c clean (routeOf p.1 p.2)

/-- the owner guard is reached only after a write on some route (relies on the message cache to undo it) -/
def ownerAfterWrite (h : Handler) : Bool :=
  h.items.any fun it => it.kind == 0 && it.cls == 1 && it.wb

/-- consistency guards: a field of the stored position (tag) is compared with what the message's ids describe -/
def hasGuardTag (c : Nat) (tag : String) (route : List Item) : Bool :=
  route.any fun it => it.kind == 0 && it.cls == c && it.tag == tag

/-- every exit that can follow an un-keyed position read is dominated by a stand-alone comparison of position field `tag` -/
def consistencyGuarded (h : Handler) (tag : String) : Bool :=
  hasExit h && (exits h.items).all fun p => !namesAt p.1 p.2 || hasGuardTag 7 tag (routeOf p.1 p.2)

/-- the position fields a handler compares unconditionally (in order of first occurrence) -/
def consistencyTags (h : Handler) : List String :=
  ((h.items.filter fun it => it.kind == 0 && it.cls == 7 && !it.cond).map (·.tag)).eraseDups

def hasWeakConsistency (h : Handler) : Bool := h.items.any fun it => it.kind == 0 && it.cls == 8

def swallowsPrice (h : Handler) : Bool := h.items.any fun it => it.kind == 4 && it.cls == 5
def hasPriceGuard (h : Handler) : Bool := h.items.any fun it => it.kind == 0 && it.cls == 5
def qname (h : Handler) : String := h.module ++ "." ++ h.name

def find? (q : String) : Option Handler := handlers.find? fun h => qname h == q

/-! ## routes as step lists -/

structure Sem (σ : Type) where
  write : Item → σ → σ
  other : Item → Env → σ → Bool

def stepOf {σ : Type} (sem : Sem σ) (it : Item) : Option (Step σ) :=
  if it.kind == 0 then
    (if it.cls == 0 then some (.guard .other (sem.other it)) else some (stdGuard (GClass.ofCode it.cls)))
  else if it.kind == 1 then some (.effect (sem.write it))
  else none

def stepsOf {σ : Type} (sem : Sem σ) (route : List Item) : List (Step σ) := route.filterMap (stepOf sem)

/-! ## custom wasm messages -/

/-- the guard as extracted: on a listed chain id only the listed address passes; other chain ids pass iff the if-chain has no
final else (`otherChainsOpen`) -/
def wasmAuthorized (h : WasmHandler) (chain sender : String) : Bool :=
  match h.arms.find? (fun a => a.chain == chain) with
  | some a => sender == a.addr
  | none => h.otherChainsOpen

def wasmFind? (variant : String) : Option WasmHandler := wasmHandlers.find? fun h => h.variant == variant

/-! ## entry points (C12 scope: every function through which state can be changed from outside) -/

/-- who may call an entry point, as found in the code: `signer` (anyone who signs; acts on what the signer owns), `admin` (esm
Params.Admin list), `gov` (legacy proposal content, executed by the gov module after a passed vote), `contract` (a CosmWasm
contract of the per-network allow-list), `ibc` (IBC core, for packets of an authenticated channel), `chain` (block hooks),
`upgrade` (software-upgrade plan), `none` (present in the source but not wired into the app) -/
def callerClasses : List String := ["signer", "admin", "gov", "contract", "ibc", "chain", "upgrade", "none"]

def epName (e : EntryPoint) : String := e.module ++ "." ++ e.name

/-- the caller must hold an authority (not just a signature over his own funds) -/
def epPrivileged (e : EntryPoint) : Bool := e.caller == "admin" || e.caller == "gov" || e.caller == "contract"

/-- the authority guard of a privileged entry point dominates its first write:
* admin — the admin test is on every route to success of the flattened handler and no write precedes it;
* gov — the constructor is on app.go's gov router, the content type ends in the keeper function the inventory names and that
  keeper function has NO other call site in non-test code (the router is the only way in);
* contract — the chain-id / sender comparison is the first statement of the variant's method, every arm names a listed address. -/
def entryGuarded (e : EntryPoint) : Bool :=
  if e.caller == "admin" then
    e.kind == "msg" && (match find? (epName e) with | some h => guarded 6 true h | none => false)
  else if e.caller == "gov" then
    e.kind == "proposal" && e.registered && proposals.any fun p =>
      p.module == e.module && p.content == e.name && p.routed && p.otherCallers.isEmpty && p.keeperFn == e.target && p.keeperFn != ""
  else if e.caller == "contract" then
    e.kind == "wasm" && (match wasmFind? e.name with
      | some h => h.guardFirst && !h.arms.isEmpty && h.arms.all (fun a => a.idx != 999 && a.addr != "")
      | none => false)
  else true

/-- a position-naming entry point is a message whose flattened handler is owner-authorised (or on the reviewed list) -/
def entryOwnerGuarded (ownerless : List String) (e : EntryPoint) : Bool :=
  e.kind == "msg" && (match find? (epName e) with
    | some h => ownerAuthorised h || ownerless.contains (qname h)
    | none => false)

/-- gov: a legacy proposal content reaches its handler only inside `MsgExecLegacyContent`; the gov message server's first step
compares the message's authority with the gov module account (cosmos-sdk x/gov/keeper/msg_server.go, trusted, exercised by the
harness). `handler` is the routed proposal handler. -/
def execLegacyContent {σ : Type} (authorityIsGov : Bool) (handler : σ → Except GClass σ) (s : σ) : σ × Bool :=
  applyIfNoError (fun s => if authorityIsGov then handler s else .error .adminOnly) s

/-! ## sweeps -/

/-- the control-flag test makes the sweep skip (or not start for) an app whose breaker is on, and nothing is written before it -/
def skipsControlled (s : Sweep) : Bool :=
  s.found && !s.wb &&
    ((s.action == "skip" && (s.conn == "or" || s.conn == "atom") && s.breaker == "pos") ||
     (s.action == "start" && s.conn == "and" && s.breaker == "neg"))

/-! ## what the property text demands (used by the monitors; restated in Props) -/
namespace Spec

/-- C14 "while an app's circuit breaker is enabled no message can open, enlarge or draw from a vault, locker or lending/borrowing
position of that app, vault repay/close/withdraw are refused" -/
def breakerRefused : List String := [
  "vault.MsgCreate", "vault.MsgDeposit", "vault.MsgWithdraw", "vault.MsgDraw", "vault.MsgRepay", "vault.MsgClose",
  "vault.MsgDepositAndDraw", "vault.MsgCreateStableMint", "vault.MsgDepositStableMint", "vault.MsgWithdrawStableMint",
  "locker.MsgCreateLocker", "locker.MsgDepositAsset",
  "lend.Lend", "lend.Deposit", "lend.Borrow", "lend.DepositBorrow", "lend.Draw", "lend.BorrowAlternate"]

/-- C14 "after emergency shutdown has been executed for an app no message can mint new debt for it" -/
def esmRefused : List String := [
  "vault.MsgCreate", "vault.MsgDraw", "vault.MsgDepositAndDraw", "vault.MsgCreateStableMint", "vault.MsgDepositStableMint"]

/-- C14 "collateral withdrawal is possible only until the cool-off period ends" -/
def coolOffRefused : List String := ["vault.MsgWithdraw"]

/-- C14 "whenever the oracle price needed by an operation is missing or inactive, that operation fails without any state change":
the operations that value an amount in dollars (collateral ratio, LTV, supply cap) while ESM has not been executed -/
def priceNeeded : List String := [
  "vault.MsgCreate", "vault.MsgWithdraw", "vault.MsgDraw", "vault.MsgDepositAndDraw",
  "lend.Lend", "lend.Deposit", "lend.Borrow", "lend.Draw", "lend.BorrowAlternate"]

/-- C12: handlers that carry a position id and descriptive ids; a message whose descriptive ids do not describe the named
position must be REJECTED (for the others an accepted message that changes nothing is tolerated) -/
def consistencyExpected : List String := [
  "vault.MsgDeposit", "vault.MsgWithdraw", "vault.MsgDraw", "vault.MsgRepay", "vault.MsgClose", "vault.MsgDepositAndDraw",
  "vault.MsgDepositStableMint", "vault.MsgWithdrawStableMint", "locker.MsgDepositAsset", "locker.MsgWithdrawAsset",
  "locker.MsgCloseLocker", "locker.MsgLockerRewardCalc", "lend.Borrow", "auctionsV2.MsgWithdrawLimitBid",
  "liquidation.MsgLiquidateVault"]

/-- C12 kill switch -/
def adminOnly : List String := ["esm.MsgKillSwitch"]

/-- C12: the 20 custom contract-to-chain messages and the index of the designated contract in the per-network address list
(0 = governance contract, 1 = the emission / rebase / surplus contract) -/
def wasmExpected : List (String × Nat) := [
  ("MsgWhiteListAssetLocker", 0), ("MsgWhitelistAppIDLockerRewards", 0), ("MsgWhitelistAppIDVaultInterest", 0),
  ("MsgAddExtendedPairsVault", 0), ("MsgSetCollectorLookupTable", 0), ("MsgSetAuctionMappingForApp", 0),
  ("MsgUpdatePairsVault", 0), ("MsgUpdateCollectorLookupTable", 0), ("MsgRemoveWhitelistAssetLocker", 0),
  ("MsgRemoveWhitelistAppIDVaultInterest", 0), ("MsgWhitelistAppIDLiquidation", 0), ("MsgRemoveWhitelistAppIDLiquidation", 0),
  ("MsgAddAuctionParams", 0), ("MsgBurnGovTokensForApp", 0), ("MsgAddESMTriggerParams", 0),
  ("MsgEmissionRewards", 1), ("MsgFoundationEmission", 1), ("MsgRebaseMint", 1), ("MsgGetSurplusFund", 1),
  ("MsgEmissionPoolRewards", 1)]

/-- network chain ids and the name of their address list in app/wasm/message_plugin.go -/
def wasmNetworks : List (String × String) := [("comdex-1", "comdex1"), ("comdex-test3", "testnet3")]

def wasmAddrs : List (String × List String) := [
  ("comdex1", ["comdex17p9rzwnnfxcjp32un9ug7yhhzgtkhvl9jfksztgw5uh69wac2pgs4jg6dx",
               "comdex1nc5tatafv6eyq7llkr2gv50ff9e22mnf70qgjlv737ktmt4eswrqdfklyz"]),
  ("testnet3", ["comdex1qwlgtx52gsdu7dtp0cekka5zehdl0uj3fhp9acg325fvgs8jdzksjvgq6q",
                "comdex1ghd753shjuwexxywmgs4xz7x2q732vcnkm6h2pyv9s6ah3hylvrqfy9rd8"])]

def wasmArmsFor (idx : Nat) : List WasmArm :=
  wasmNetworks.map fun (chain, lst) =>
    { chain := chain, list := lst, idx := idx,
      addr := ((wasmAddrs.lookup lst).getD []).getD idx "" }

/-- the designated sender of `variant` on `chain` (none: the property names no contract for that network) -/
def wasmDesignated (variant chain : String) : Option String :=
  match wasmExpected.lookup variant, wasmNetworks.lookup chain with
  | some idx, some lst => ((wasmAddrs.lookup lst).getD [])[idx]?
  | _, _ => none

end Spec

/-! ## decisions used by the driver -/

/-- does the table force a rejection in scenario `e`? (some classified guard that fails in `e` dominates every exit) -/
def mustReject (h : Handler) (e : Env) : Bool :=
  [1, 2, 3, 4, 5, 6].any fun c => (GClass.ofCode c).fails e && guarded c false h

/-- the first classified guard that fails in `e` has no write before it ⇒ the branch of a rejected delivery is clean -/
def cleanReject (h : Handler) (e : Env) : Bool :=
  match h.items.find? (fun it => it.kind == 0 && !it.cond && it.path == [] && (GClass.ofCode it.cls).fails e) with
  | some it => !it.wb
  | none => false

end Comdex.Guards
