import Comdex.Model.AmmMatch
/-!
# The dust clause of C05 as one decidable statement (core Lean; linked into the driver)

"quote paid by buyers ≥ quote received by sellers and the difference < number of individual fills".

The clause as written presupposes that base coin is conserved.  The code does not conserve base coin (defect D2: a sell-side
pro-rata distribution may drop a remainder, `L` = base coin received by buyers − base coin paid by sellers `≥ 0`), and then the
buyers have paid for `L` units nobody sold.  What is TRUE of every result of `Match` / `MatchAtSinglePrice` (proved in
`Lemmas/AmmMatchDust.lean`, `Props/C05.lean: quote_dust_bounds_match`, `_single`) and what the driver evaluates on every REAL
result is `monQuoteDustAt`:

  `quoteCoinDiff = Σ paid by buyers − Σ received by sellers`,  `0 ≤ quoteCoinDiff`,  `0 ≤ L`,
  `lo·L ≤ quoteCoinDiff·10¹⁸ ≤ hi·L + #fills·(10¹⁸ − 1)`

with `lo`/`hi` a lower/upper bound of the prices at which the call traded (`MatchAtSinglePrice p`: `lo = hi = p`; `Match`: the
lowest sell / highest buy limit price of the book).  With `L = 0` this is exactly the clause of the property:
`0 ≤ dust`, `dust·10¹⁸ ≤ #fills·(10¹⁸−1)`, i.e. `dust < #fills` as soon as there is a fill and `dust = 0` if there is none.
-/
namespace Comdex.Amm
open Comdex

def minList : List Int → Int
  | [] => 0
  | [x] => x
  | x :: y :: ys => min x (minList (y :: ys))

def maxList : List Int → Int
  | [] => 0
  | x :: xs => max x (maxList xs)

/-- lowest limit price of the sell orders of a list (0 when there is none) -/
def priceLo (os : List Order) : Int := minList ((os.filter fun o => o.dir == .sell).map (·.price))

/-- highest limit price of the buy orders of a list (0 when there is none) -/
def priceHi (os : List Order) : Int := maxList ((os.filter fun o => o.dir == .buy).map (·.price))

/-- base coin received by buyers minus base coin paid by sellers (`> 0` = what defect D2 dropped) -/
def baseLost (pre post : List Order) : Int := buyReceived pre post - sellPaid pre post

/-- **the dust clause, as it holds of the code** (see the header) -/
def monQuoteDustAt (pre post : List Order) (q lo hi : Int) : Bool :=
  q == buyPaid pre post - sellReceived pre post && decide (0 ≤ q) && decide (0 ≤ baseLost pre post) &&
  decide (0 ≤ fillCount pre post) &&
  decide (lo * baseLost pre post ≤ q * Dec.P) &&
  decide (q * Dec.P ≤ hi * baseLost pre post + fillCount pre post * (Dec.P - 1))

/-- the clause of the property, literally: dust `< #fills` (`= 0` when there is no fill) -/
def monDustBelowFills (pre post : List Order) (q : Int) : Bool :=
  decide (0 ≤ q) && decide (q < max (fillCount pre post) 1)

/-- the orders of a book after a REAL call: every order of the (model's) book before the call with the real amounts
(`real`: every order of the sequence after the call, `fills` = ghost from the model's run) -/
def realBookOrders (bookPre real : List Order) : List Order :=
  bookPre.map fun o => match real.find? (·.id == o.id) with | some o' => o' | none => o

end Comdex.Amm
