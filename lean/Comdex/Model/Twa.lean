/-
Model of x/market/keeper/oracle.go: UpdatePriceList, CalculateTwa, GetLatestPrice,
CalcAssetPrice (decision part) and the two bulk operations of x/market/abci.go
(discard-all and deactivate-all, per record).  Core Lean only.

Go `uint64` samples are `Nat`s below 2^64; the mean uses an exact accumulator
(the tree carries a `fix:` commit that replaced the wrapping uint64 sum).
An index outside the slice is a Go panic: `Except.error .oob`.
-/
namespace Comdex.Twa

inductive Panic where
  | oob       -- slice index out of range
  | divZero   -- integer divide by zero (twaBatch = 0)
  deriving Repr, DecidableEq

structure Rec where
  values    : List Nat
  idx       : Nat
  twa       : Nat
  active    : Bool
  discarded : Int        -- DiscardedHeightDiff
  deriving Repr, DecidableEq

/-- `CalculateTwa`: mean of the first `N` slots. -/
def calcTwa (values : List Nat) (N : Nat) : Except Panic Nat :=
  if N = 0 then .error .divZero      -- the loop does not run, then `sum / 0`
  else if values.length < N then .error .oob
  else .ok ((values.take N).sum / N)

/-- `s[i] = v` on a Go slice. -/
def setAt (l : List Nat) (i v : Nat) : Except Panic (List Nat) :=
  if i < l.length then .ok (l.set i v) else .error .oob

def wrapIdx (i N : Nat) : Nat := if i ≥ N then 0 else i

/-- First half of `UpdatePriceList` (lines 69-87): discard bookkeeping on a found record.
Returns the record as stored afterwards and whether the function returned early. -/
def discardPhase (r : Rec) (rate : Nat) (height acc : Int) : Rec × Bool :=
  if rate = 0 ∧ r.discarded < 0 then
    ({ r with discarded := height, active := false }, true)
  else if rate > 0 ∧ r.discarded > 0 then
    if height - r.discarded < acc then
      ({ r with discarded := -1 }, false)
    else
      ({ r with values := [], discarded := -1, active := false, idx := 0 }, false)
  else (r, false)

/-- Second half (lines 88-127) on a found record with `rate > 0`. -/
def pushFound (r : Rec) (rate N : Nat) : Except Panic Rec :=
  if r.active then do
    let vs ← setAt r.values r.idx rate
    let i := r.idx + 1
    let t ← calcTwa vs N
    pure { r with values := vs, idx := wrapIdx i N, twa := t }
  else if r.values.length ≥ N then do
    let vs ← setAt r.values r.idx rate
    let i := wrapIdx (r.idx + 1) N
    let t ← calcTwa vs N
    pure { r with values := vs, active := true, idx := i, twa := t }
  else
    let vs := r.values ++ [rate]
    let i := r.idx + 1
    if i ≥ N then do
      let t ← calcTwa vs N
      pure { r with values := vs, idx := 0, active := true, twa := t }
    else
      pure { r with values := vs, idx := i }

/-- The record created for a first positive sample. -/
def fresh : Rec := { values := [], idx := 0, twa := 0, active := false, discarded := -1 }

/-- `UpdatePriceList` on the (optional) stored record of one asset. -/
def update (s : Option Rec) (rate N : Nat) (height acc : Int) : Except Panic (Option Rec) :=
  match s with
  | none => if rate > 0 then (pushFound fresh rate N).map some else .ok none
  | some r =>
    let (r1, early) := discardPhase r rate height acc
    if early then .ok (some r1)
    else if rate > 0 then (pushFound r1 rate N).map some
    else .ok (some r1)

/-- abci.go lines 24-30, per record. -/
def discardAll (s : Option Rec) : Option Rec :=
  s.map fun r => { r with active := false, idx := 0, values := [] }

/-- abci.go lines 53-60, per record. -/
def deactivate (s : Option Rec) : Option Rec :=
  s.map fun r => { r with active := false }

/-- `GetLatestPrice`: `none` = ErrorPriceNotActive. -/
def latestPrice (s : Option Rec) : Except Panic (Option Nat) :=
  match s with
  | some r => if r.active then
      (match r.values[r.idx]? with | some v => .ok (some v) | none => .error .oob)
    else .ok none
  | none => .ok none

/-- `CalcAssetPrice` decision: is a valuation produced (`some twa`) or refused. -/
def valuation (s : Option Rec) : Option Nat :=
  match s with
  | some r => if r.active then some r.twa else none
  | none => none

inductive Op where
  | sample (rate : Nat) (height : Int)
  | discardAll
  | deactivate
  deriving Repr

def step (N : Nat) (acc : Int) (s : Option Rec) : Op → Except Panic (Option Rec)
  | .sample rate h => update s rate N h acc
  | .discardAll => .ok (discardAll s)
  | .deactivate => .ok (deactivate s)

def run (N : Nat) (acc : Int) : Option Rec → List Op → Except Panic (Option Rec)
  | s, [] => .ok s
  | s, op :: ops => do let s' ← step N acc s op; run N acc s' ops

end Comdex.Twa

/-! ## Abstract specification: a sliding window of the last `N` positive samples -/
namespace Comdex.Twa

/-- What a consumer can observe / what the property speaks about. -/
structure Spec where
  known     : Bool         -- a positive sample has been seen (a record exists)
  window    : List Nat     -- most recent positive samples since the last reset, oldest first
  active    : Bool
  twa       : Nat
  discarded : Int
  deriving Repr, DecidableEq

def lastN (N : Nat) (l : List Nat) : List Nat := l.drop (l.length - N)

def Spec.init : Spec := { known := false, window := [], active := false, twa := 0, discarded := -1 }

/-- Fresh data after a discard: within the accepted gap keep the window, else restart it. -/
def Spec.resume (acc : Int) (s : Spec) (height : Int) : Spec :=
  if s.discarded > 0 then
    if height - s.discarded < acc then { s with discarded := -1 }
    else { s with window := [], discarded := -1, active := false }
  else s

/-- Slide the window over one positive sample; publish the mean once the window is full. -/
def Spec.push (N : Nat) (s : Spec) (rate : Nat) : Spec :=
  let w := lastN N (s.window ++ [rate])
  if w.length = N then { s with known := true, window := w, active := true, twa := w.sum / N }
  else { s with known := true, window := w }

/-- One oracle sample at block `height`. -/
def Spec.sample (N : Nat) (acc : Int) (s : Spec) (rate : Nat) (height : Int) : Spec :=
  if rate = 0 then
    if s.known ∧ s.discarded < 0 then { s with discarded := height, active := false } else s
  else (s.resume acc height).push N rate

def Spec.step (N : Nat) (acc : Int) (s : Spec) : Op → Spec
  | .sample rate h => s.sample N acc rate h
  | .discardAll => { s with window := [], active := false }
  | .deactivate => { s with active := false }

/-- Abstraction: the ring read from the write cursor. -/
def Rec.window (r : Rec) : List Nat := r.values.drop r.idx ++ r.values.take r.idx

def abs : Option Rec → Spec
  | none => Spec.init
  | some r => { known := true, window := r.window, active := r.active, twa := r.twa, discarded := r.discarded }

/-- Ring well-formedness (decidable: also evaluated on the real stored records). -/
def Wf (N : Nat) (r : Rec) : Prop :=
  r.values.length ≤ N ∧
  (r.values.length < N → r.idx = r.values.length ∧ r.active = false) ∧
  (r.values.length = N → r.idx < N) ∧
  (r.active = true → r.twa = r.values.sum / N) ∧
  (r.discarded ≥ 0 → r.active = false) ∧
  r.discarded ≠ 0

instance (N : Nat) (r : Rec) : Decidable (Wf N r) := by unfold Wf; infer_instance

def WfO (N : Nat) : Option Rec → Prop
  | none => True
  | some r => Wf N r

instance (N : Nat) (s : Option Rec) : Decidable (WfO N s) := by
  cases s <;> unfold WfO <;> infer_instance

end Comdex.Twa

/-! ## Reconfiguration of the window parameters (governance: `FetchPriceProposal` → `AddFetchPriceRecords`)

`x/bandoracle/keeper/oracle.go:167-177` installs a new `TwaBatchSize` (N) and `AcceptedHeightDiff` (acc) and DELETES
every stored window (`k.market.DeleteTwaData(ctx, data.AssetID)` for every record). The property is stated "for a fixed
window size N"; the delete loop is what keeps that premise true across governance: every maximal stretch of samples
between two reconfigurations starts from the empty store. -/
namespace Comdex.Twa

/-- the window parameters a fetch-price proposal installs -/
structure Cfg where
  N   : Nat      -- TwaBatchSize
  acc : Int      -- AcceptedHeightDiff
  deriving Repr, DecidableEq

/-- one asset's window together with the parameters in force -/
structure CSt where
  cfg : Cfg
  s   : Option Rec
  deriving Repr, DecidableEq

/-- a history with reconfigurations -/
inductive COp where
  | op (o : Op)
  | reconfigure (c : Cfg)
  deriving Repr

/-- the code: new parameters, the stored window is deleted -/
def cstep (c : CSt) : COp → Except Panic CSt
  | .op o => (step c.cfg.N c.cfg.acc c.s o).map fun s' => { c with s := s' }
  | .reconfigure cfg' => .ok { cfg := cfg', s := none }

def crun : CSt → List COp → Except Panic CSt
  | c, [] => .ok c
  | c, o :: os => do let c' ← cstep c o; crun c' os

/-- the COUNTERFACTUAL: new parameters, the stored window is KEPT (what the chain does when the delete loop misses the
record, e.g. keyed by the wrong id) -/
def cstepStale (c : CSt) : COp → Except Panic CSt
  | .op o => (step c.cfg.N c.cfg.acc c.s o).map fun s' => { c with s := s' }
  | .reconfigure cfg' => .ok { c with cfg := cfg' }

def crunStale : CSt → List COp → Except Panic CSt
  | c, [] => .ok c
  | c, o :: os => do let c' ← cstepStale c o; crunStale c' os

/-- the last maximal segment of a history: the parameters in force at the end, the window the segment started from
(`none` = deleted by the reconfiguration that opened it) and the ops since -/
structure Seg where
  cfg   : Cfg
  start : Option Rec
  ops   : List Op
  deriving Repr

def segStep (a : Seg) : COp → Seg
  | .op o => { a with ops := a.ops ++ [o] }
  | .reconfigure c => { cfg := c, start := none, ops := [] }

def lastSegment (c0 : CSt) (ops : List COp) : Seg := ops.foldl segStep { cfg := c0.cfg, start := c0.s, ops := [] }

end Comdex.Twa
