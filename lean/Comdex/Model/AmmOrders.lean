import Comdex.Model.AmmKeeper
/-!
# Market orders and market-making (MM) orders at the keeper level — `x/liquidity/keeper/swap.go`, `x/liquidity/types/util.go`

* `ValidateMsgMarketOrder` + `NewOrderForMarketOrder` (swap.go:157-270): a market order is stored as an order whose limit price
  is the last price ± the maximum price-limit ratio, fitted to the grid (`PriceToDownTick(last·(1+r))` for a buy,
  `PriceToUpTick(last·(1−r))` for a sell); its offer coin is `OfferCoinAmount(dir, price, amount)`.  No last price ⇒ rejected.
* `MMOrderTicks` (types/util.go:139-192): the tick ladder of an MM order — up to `maxNumTicks` prices between `minPrice` and
  `maxPrice` (equal gaps, each fitted to the grid, consecutive duplicates dropped), the amount split evenly with the remainder
  on the last tick (`maxPrice` for buys, `minPrice` for sells).
* `MMOrder` (swap.go:272-441): cancels the orderer's previous MM orders of the pair (`cancelMMOrder`: an order placed in the
  CURRENT batch makes the whole message fail), then stores one order per tick, buy ticks first, and records their ids.

After placement these orders are ordinary stored orders: `NewUserOrder`, the matcher, `ApplyMatchResult`, expiry and pruning
(`Model/AmmKeeper.lean`) do not look at the order type.  Core Lean only.
-/
namespace Comdex.Amm
open Comdex

/-- store an order at a given (already fitted) price: `NewOrder…` + `SetOrder`, `pair.LastOrderId++` -/
def placeAt (s : KState) (dir : Dir) (price amount expireAt : Int) : KState × SOrder :=
  let offer := offerCoinAmount dir price amount
  let so : SOrder := { id := s.nextId, dir, price, amount, openAmt := amount, offer, remaining := offer, received := 0,
                       batchId := s.batchId, expireAt, status := .notExecuted }
  ({ s with orders := s.orders ++ [so], nextId := s.nextId + 1 }, so)

/-- the limit price `ValidateMsgMarketOrder` computes -/
def marketPrice (prec : Nat) (dir : Dir) (lastPrice ratio : Int) : Int :=
  match dir with
  | .buy => priceToDownTick (Dec.mul lastPrice (Dec.one + ratio)) prec
  | .sell => priceToUpTick (Dec.mul lastPrice (Dec.one - ratio)) prec

/-- `MarketOrder`; `none` = rejected (no last price) -/
def placeMarket (s : KState) (prec : Nat) (ratio : Int) (dir : Dir) (amount expireAt : Int) : Option (KState × SOrder) :=
  match s.lastPrice with
  | none => none
  | some lp => some (placeAt s dir (marketPrice prec dir lp ratio) amount expireAt)

/-- the price of step `i` of the ladder: `minPrice + gap·i` fitted down (buy), `maxPrice − gap·i` fitted up (sell) -/
def mmStepPrice (dir : Dir) (minP maxP gap : Int) (prec i : Nat) : Int :=
  match dir with
  | .buy => priceToDownTick (minP + Dec.mulInt gap i) prec
  | .sell => priceToUpTick (maxP - Dec.mulInt gap i) prec

/-- the first loop of `MMOrderTicks`: the prices of the ticks before the last one (steps `i, i+1, …`), consecutive duplicates dropped -/
def mmTickPrices (dir : Dir) (minP maxP gap : Int) (prec : Nat) : Nat → Nat → Option Int → List Int
  | 0, _, _ => []
  | fuel+1, i, prev =>
    let p := mmStepPrice dir minP maxP gap prec i
    if prev = some p then mmTickPrices dir minP maxP gap prec fuel (i + 1) prev
    else p :: mmTickPrices dir minP maxP gap prec fuel (i + 1) (some p)

/-- `MMOrderTicks`: `(price, amount)` per tick, in the order the orders are stored (`maxNumTicks ≥ 2`; with `maxNumTicks = 1`
the Go code divides by zero) -/
def mmOrderTicks (dir : Dir) (minP maxP amt : Int) (maxNumTicks prec : Nat) : List (Int × Int) :=
  if minP = maxP then [(minP, amt)] else
  let gap := Dec.quoInt (maxP - minP) ((maxNumTicks : Int) - 1)
  let ps := mmTickPrices dir minP maxP gap prec (maxNumTicks - 1) 0 none
  let tickAmt := amt.tdiv ((ps.length : Int) + 1)
  let lastP := match dir with | .buy => maxP | .sell => minP
  ps.map (fun p => (p, tickAmt)) ++ [(lastP, amt - tickAmt * ps.length)]

/-- the keeper state of a pair plus the MM order index (orderer ↦ ids of the orderer's MM orders) -/
structure MState where
  k : KState
  mmIndex : List (Nat × List Nat) := []

def MState.init : MState := { k := KState.init }

/-- `cancelMMOrder`: `none` = `ErrSameBatch` (one of the indexed orders still in the store was placed in the current batch);
otherwise every indexed order that can still be canceled is finished with status canceled -/
def cancelMM (s : KState) (ids : List Nat) : Option KState :=
  if s.orders.any (fun (so : SOrder) => ids.contains so.id && so.batchId == s.batchId) then none
  else some { s with orders := s.orders.map fun (so : SOrder) =>
    if (ids.contains so.id && so.status.live) = true then { so with status := .canceled } else so }

/-- store the orders of a tick ladder, in order; returns the ids -/
def placeTicks (s : KState) (dir : Dir) (expireAt : Int) : List (Int × Int) → KState × List Nat
  | [] => (s, [])
  | (p, a) :: rest =>
    let (s1, so) := placeAt s dir p a expireAt
    let (s2, ids) := placeTicks s1 dir expireAt rest
    (s2, so.id :: ids)

/-- the tick orders of one side of an MM order (`(minPrice, maxPrice, amount)` when the side's amount is positive) -/
def placeSide (s : KState) (dir : Dir) (expireAt : Int) (maxNumTicks prec : Nat) : Option (Int × Int × Int) → KState × List Nat
  | some (mn, mx, amt) => placeTicks s dir expireAt (mmOrderTicks dir mn mx amt maxNumTicks prec)
  | none => (s, [])

/-- `MMOrder` after its validation: `buy` / `sell` = `(minPrice, maxPrice, amount)` of the side when its amount is positive -/
def placeMM (st : MState) (prec maxNumTicks owner : Nat) (buy sell : Option (Int × Int × Int)) (expireAt : Int) :
    Option MState :=
  let prev := match st.mmIndex.lookup owner with | some ids => ids | none => []
  match cancelMM st.k prev with
  | none => none
  | some s0 =>
    let r1 := placeSide s0 .buy expireAt maxNumTicks prec buy
    let r2 := placeSide r1.1 .sell expireAt maxNumTicks prec sell
    some { k := r2.1, mmIndex := (owner, r1.2 ++ r2.2) :: st.mmIndex.filter (fun x => x.1 != owner) }

/-! ### messages and runs -/

inductive KMsg
  | limit (dir : Dir) (msgPrice amount expireAt : Int)
  | market (dir : Dir) (amount expireAt : Int)
  | mm (owner : Nat) (buy sell : Option (Int × Int × Int)) (expireAt : Int)

/-- deliver one message (a rejected message changes nothing) -/
def applyMsg (st : MState) (prec : Nat) (ratio : Int) (maxNumTicks : Nat) : KMsg → MState
  | .limit d p a e => { st with k := (placeOrder st.k prec d p a e).1 }
  | .market d a e => match placeMarket st.k prec ratio d a e with
    | some (k', _) => { st with k := k' }
    | none => st
  | .mm owner buy sell e => match placeMM st prec maxNumTicks owner buy sell e with
    | some st' => st'
    | none => st

structure MBatch where
  msgs : List KMsg
  now : Int

def applyMsgs (st : MState) (prec : Nat) (ratio : Int) (maxNumTicks : Nat) : List KMsg → MState
  | [] => st
  | m :: ms => applyMsgs (applyMsg st prec ratio maxNumTicks m) prec ratio maxNumTicks ms

/-- a multi-batch run with all three kinds of orders -/
def runMBatches (st : MState) (prec : Nat) (ratio : Int) (maxNumTicks : Nat) : List MBatch → MState
  | [] => st
  | b :: bs =>
    let st1 := applyMsgs st prec ratio maxNumTicks b.msgs
    runMBatches { st1 with k := prune (batchStep st1.k prec b.now) } prec ratio maxNumTicks bs

end Comdex.Amm
