/-! # Genesis export / re-import of one module store (C20)

A module's KV store is a list of entries `(prefix, key, value)`; look-up takes the first entry with the given prefix and
key (stores reachable through `put` have unique keys, `Store.Unique`, but the round-trip law does not need it).
What `ExportGenesis` / `InitGenesis` of a module do to that store is determined by a small table that is *extracted*
from the Go source on every run (`Comdex/Gen/Genesis.lean`, see `extract/genesis`):

* `restored`  — record prefixes that are read into a genesis field, decoded, and written back under the same prefix
                (id counters restored from a stored genesis value are of this kind, too),
* `counters`  — id counters / length keys that `InitGenesis` recomputes: as the maximum id, the id of the last record, the
                number of imported records of some prefix, or a constant zero; or does not write at all,
* `derived`   — index stores `InitGenesis` rebuilds from the imported records (the rebuilding function is a parameter).

Every other prefix is simply not carried over.  Core Lean only (linked into the driver). -/
namespace Comdex.Genesis

inductive Val where
  | num (n : Nat)        -- value of an id counter / length key
  | raw (s : String)     -- any other value, opaque
  deriving DecidableEq, Repr

structure Entry where
  pfx : String
  key : String
  id  : Nat              -- the id field of the record (what `item.Id` is in InitGenesis); 0 for entries without one
  val : Val
  deriving DecidableEq, Repr

abbrev Store := List Entry

inductive Rule where
  | maxId (recs : String)
  | lastId (recs : String)
  | count (recs : String)
  | zero
  | notRestored
  deriving DecidableEq, Repr

structure Counter where
  pfx : String
  rule : Rule
  deriving DecidableEq, Repr

structure Table where
  restored : List String
  counters : List Counter
  derived : List String
  deriving Repr

def get (s : Store) (p k : String) : Option Val :=
  (s.find? fun e => e.pfx == p && e.key == k).map (·.val)

def keysOf (s : Store) : List (String × String) := s.map fun e => (e.pfx, e.key)

/-- every (prefix, key) occurs once -/
def Store.Unique (s : Store) : Prop := (keysOf s).Nodup

/-- a counter that was never written reads as zero (`GetIDFor…` returns 0 on a missing key): a stored zero and a missing
key are the same observation -/
def norm : Option Val → Option Val
  | some (.num 0) => none
  | v => v

/-- two stores answer every look-up alike -/
def Equiv (s t : Store) : Prop := ∀ p k, norm (get s p k) = norm (get t p k)

/-- ExportGenesis: the entries of the carried prefixes, in store (= key) order -/
def «export» (t : Table) (s : Store) : Store := s.filter fun e => t.restored.contains e.pfx

def recsOf (g : Store) (p : String) : Store := g.filter fun e => e.pfx == p

def maxId (g : Store) (p : String) : Nat := (recsOf g p).foldl (fun m e => if e.id > m then e.id else m) 0
def lastId (g : Store) (p : String) : Nat := (recsOf g p).foldl (fun _ e => e.id) 0
def count (g : Store) (p : String) : Nat := (recsOf g p).length

/-- the value InitGenesis gives a recomputed counter, `none` if it does not write the key -/
def ruleVal (g : Store) : Rule → Option Nat
  | .maxId p => some (maxId g p)
  | .lastId p => some (lastId g p)
  | .count p => some (count g p)
  | .zero => some 0
  | .notRestored => none

def counterEntries (g : Store) : List Counter → Store
  | [] => []
  | c :: cs =>
    match ruleVal g c.rule with
    | some n => ⟨c.pfx, "", 0, .num n⟩ :: counterEntries g cs
    | none => counterEntries g cs

/-- InitGenesis on a fresh store: write the imported records, the recomputed counters, the rebuilt index stores -/
def init (t : Table) (idx : Store → Store) (g : Store) : Store :=
  g ++ counterEntries g t.counters ++ idx g

def roundTrip (t : Table) (idx : Store → Store) (s : Store) : Store := init t idx («export» t s)

/-- does this store satisfy what InitGenesis assumes of a counter? (decidable: used as the per-counter monitor) -/
def counterOk (t : Table) (s : Store) (c : Counter) : Bool :=
  (s.all fun e => e.pfx != c.pfx || e.key == "") &&
  norm (get s c.pfx "") == norm ((ruleVal («export» t s) c.rule).map Val.num)

/-- table well-formedness: the three classes of prefixes are disjoint, counters are listed once -/
def Table.wf (t : Table) : Bool :=
  (t.counters.all fun c => !t.restored.contains c.pfx && !t.derived.contains c.pfx) &&
  (t.derived.all fun p => !t.restored.contains p) &&
  decide ((t.counters.map (·.pfx)).Nodup)

def Table.covered (t : Table) (p : String) : Bool :=
  t.restored.contains p || t.derived.contains p || (t.counters.map (·.pfx)).contains p

/-! ## in-place store migration: decode with the old type, re-encode with the current one (`x/lend/keeper/migrate.go`)

A record on the wire is the list of its fields, `none` where proto3 omitted a field that has its default value (0 / false). The
generated `Unmarshal` writes only the fields PRESENT on the wire into the destination struct and does not reset it
(`codec.ProtoCodec.Unmarshal` calls `ptr.Unmarshal(bz)`). `MigrateLendPairs` / `MigrateAssetRatesParams` declare ONE destination
variable before the loop (`migrate.go:160`, `:205`) — `migrateShared`; `migrateFresh` is the loop with a variable per record. -/

abbrev Wire := List (Option Nat)

def decodeInto : List Nat → Wire → List Nat
  | d :: ds, none :: ws => d :: decodeInto ds ws
  | _ :: ds, some v :: ws => v :: decodeInto ds ws
  | _, _ => []

def encode (r : List Nat) : Wire := r.map fun v => if v = 0 then none else some v

def migrateShared : List Nat → List Wire → List Wire
  | _, [] => []
  | acc, w :: ws => encode (decodeInto acc w) :: migrateShared (decodeInto acc w) ws

def migrateFresh (n : Nat) (ws : List Wire) : List Wire := ws.map fun w => encode (decodeInto (List.replicate n 0) w)

/-- a well-formed wire record of `n` fields: a present field is never the default value -/
def Wire.canonical (n : Nat) (w : Wire) : Prop := w.length = n ∧ ∀ x ∈ w, x ≠ some 0

end Comdex.Genesis
