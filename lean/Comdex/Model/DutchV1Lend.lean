import Comdex.Base.Dec
import Comdex.Model.DutchPrice
import Comdex.Model.DutchV2
import Comdex.Model.DutchV1
/-!
Model of the first-generation Dutch auction for liquidated BORROWS (`x/auction/keeper/dutch_lend.go`), one auction at a time.

Custody facts of this generation (all read off the code, reproduced by the harness):
* at liquidation (`x/liquidation/keeper/liquidate_borrow.go:286`) the collateral pool moves `⌊sellOff + bonus⌋` of the collateral
  asset into the auction module; the auction record auctions only `⌊sellOff⌋` (`dutch_lend.go:36`): the rest is the bonus pot;
* `plan`/`apply` — `dutch_lend.go:136-342` PlaceLendDutchAuctionBid: bidder names the collateral `slice`; the debt computed at the
  posted price (clipped to the remaining target) goes bidder → auction module → debt pool IN THE SAME MESSAGE; the bidder
  receives `slice + ⌊slice·LiquidationBonus⌋`; target reached ⇒ the unsold collateral goes to the borrower; collateral sold out below
  the target ⇒ the lend reserve (lend module account) pays the rest straight to the debt pool (error if it cannot);
* `close` — `dutch_lend.go:365-441` CloseDutchLendAuction + `liquidate_borrow.go:331-…` UnLiquidateLockedBorrows: book-keeping on the
  lend side (interest to the reserve, cTokens, borrow restored / deleted) and possibly an immediate RE-LIQUIDATION of the same borrow,
  which moves fresh collateral into the auction module for a new auction.  Of all that the model keeps what touches the two
  denominations in the accounts it tracks: `redep`, the collateral the lending side hands to the module for the follow-up
  auction (an input of the closing bid, read by the driver off the real balances);
* `iterate` — `dutch_lend.go:443-497` RestartDutchLendAuctions: same price code as the vault auctions, the debt price is always the
  oracle's; there is NO emergency-shutdown branch in this file.

Accounts: `.pool` is the lending side as a whole (pool module account + lend module account — transfers between the two are
lend-internal), ghost fields as in `DutchV1`, plus `bonusPaid`.  Core Lean only.
-/
namespace Comdex.DutchV1Lend
open Comdex
open Comdex.DutchV2 (Acct Denom Bank send sendPos burn conv usdValue)

structure Env where
  decC : Int := 1000000            -- collateral asset decimals
  decD : Int := 1000000            -- debt asset decimals
  target : Int := 0                -- InflowTokenTargetAmount
  coll0 : Int := 0                 -- OutflowTokenInitAmount (what is auctioned)
  deposit : Int := 0               -- collateral moved into the module for this auction (auctioned part + bonus pot)
  bonus : Dec := 0                 -- AssetRatesParams(collateral).LiquidationBonus
  dust : Int := 0                  -- lend pair MinUsdValueLeft
  T : Int := 0
  buffer : Dec := 0
  cusp : Dec := 0
  deriving Repr, Inhabited

abbrev Auc := DutchV1.Auc

structure St where
  auc : Option Auc := none
  bank : Bank := []
  -- ghost
  paid : Int := 0
  recv : Int := 0                  -- collateral handed to bidders, bonus included
  bonusPaid : Int := 0
  otherC : Int := 0
  otherD : Int := 0
  deriving Inhabited

structure Plan where
  flag : Bool
  inAmt : Int
  slice : Int
  bonusAmt : Int       -- ⌊slice·LiquidationBonus⌋
  deriving DecidableEq, Repr, Inhabited

/-- `PlaceLendDutchAuctionBid`, first half (dutch_lend.go:136-232,247-249,264).  Both dollar values of the dust rule are computed
with the DEBT asset's decimals (`CalcDollarValueForToken(ctx, auction.AssetInId, …)`, lines 200 and 204) — modelled as written. -/
def plan (e : Env) (a : Auc) (slice0 : Int) : Except Unit Plan :=
  if slice0 = 0 then .error () else
  if slice0 > a.outCur then .error () else
  match conv slice0 a.price e.decC a.inPrice e.decD with
  | .error _ => .error ()
  | .ok (owe0, in0) =>
  if in0 ≤ 0 then .error () else
  let tab := e.target - a.inCur
  match (if in0 > tab then (match conv tab a.inPrice e.decD a.price e.decC with
                             | .ok (o, sl) => Except.ok (true, tab, o, sl)
                             | .error _ => .error ())
         else .ok (false, in0, owe0, slice0)) with
  | .error _ => .error ()
  | .ok (flag, inAmt, owe, slice) =>
  if inAmt < 0 then .error () else                                 -- sdk.NewCoin
  match usdValue a.outCur a.price e.decD, usdValue tab a.inPrice e.decD with
  | .ok outLeft, .ok outLeftDebt =>
    let left := Dec.sub outLeft owe
    let leftDebt := Dec.sub outLeftDebt owe
    if left < Dec.ofInt e.dust ∧ left ≠ 0 ∧ flag = false then .error ()
    else if leftDebt < Dec.ofInt e.dust ∧ leftDebt ≠ 0 ∧ left ≠ 0 then .error ()
    else if slice < 0 then .error ()                               -- sdk.NewCoin
    else if !DutchPrice.fitsI64 slice then .error ()               -- slice.Int64() (line 247)
    else
      let b := Dec.truncateInt (Dec.mul (Dec.ofInt slice) e.bonus)
      if slice + b < 0 then .error ()                              -- sdk.NewCoin
      else if a.outCur - slice < 0 then .error ()                  -- Coin.Sub (line 264)
      else .ok { flag := flag, inAmt := inAmt, slice := slice, bonusAmt := b }
  | _, _ => .error ()

/-- second half (dutch_lend.go:236-341).  `redep` = collateral the lending side moves into the module when the close re-liquidates
the same borrow at once (0 otherwise); `resBal` = debt-denom balance of the lend module account (the reserve) before the bid —
both are external values printed by the harness (the reserve is part of `.pool` in this model's bank). -/
def apply (e : Env) (s : St) (a : Auc) (who : Nat) (p : Plan) (redep resBal : Int) : Except Unit St :=
  match send s.bank (.bidder who) .auction .debt p.inAmt with
  | .error _ => .error ()
  | .ok b1 =>
  match send b1 .auction .pool .debt p.inAmt with                   -- "sending inflow token back to the pool"
  | .error _ => .error ()
  | .ok b2 =>
  let a' : Auc := { a with outCur := a.outCur - p.slice, inCur := a.inCur + p.inAmt }
  let s1 := { s with paid := s.paid + p.inAmt, recv := s.recv + (p.slice + p.bonusAmt), bonusPaid := s.bonusPaid + p.bonusAmt }
  if a'.inCur ≥ e.target then
    -- target reached: the unsold collateral goes to the borrower, then the bidder is paid, then the auction is closed
    match sendPos b2 .auction .owner .coll a'.outCur with
    | .error _ => .error ()
    | .ok b3 =>
    match send b3 .auction (.bidder who) .coll (p.slice + p.bonusAmt) with
    | .error _ => .error ()
    | .ok b4 =>
    if redep < 0 then .error () else
    match sendPos b4 .pool .auction .coll redep with
    | .error _ => .error ()
    | .ok b5 => .ok { s1 with bank := b5, auc := none, otherC := s1.otherC + redep }
  else if a'.outCur = 0 then
    -- collateral sold out below the target: the lend reserve pays the rest to the debt pool (both are `.pool` here) or the bid fails
    if resBal < e.target - a'.inCur then .error () else              -- "Reserve pool having insufficient balance for this bid"
    match send b2 .auction (.bidder who) .coll (p.slice + p.bonusAmt) with
    | .error _ => .error ()
    | .ok b3 =>
    if redep < 0 then .error () else
    match sendPos b3 .pool .auction .coll redep with
    | .error _ => .error ()
    | .ok b4 => .ok { s1 with bank := b4, auc := none, otherC := s1.otherC + redep }
  else
    match send b2 .auction (.bidder who) .coll (p.slice + p.bonusAmt) with
    | .error _ => .error ()
    | .ok b3 => .ok { s1 with bank := b3, auc := some a' }

def bidE (e : Env) (s : St) (who : Nat) (slice0 : Int) (redep resBal : Int) : Except Unit St :=
  match s.auc with
  | none => .error ()
  | some a =>
    match plan e a slice0 with
    | .ok p => apply e s a who p redep resBal
    | .error _ => .error ()

/-- `RestartDutchLendAuctions` for one auction -/
def iterate (e : Env) (a : Auc) (now twaC : Int) (actC : Bool) (twaD : Int) (actD : Bool) : Except Unit Auc := do
  if !actD then throw ()
  let p ← DutchPrice.priceV1 a.init a.endP e.T (now - a.start)
  let a1 := { a with inPrice := Dec.ofInt twaD, price := p }
  if now > a.end_ then
    if !actC then throw ()
    let i' ← DutchPrice.startPrice twaC e.buffer
    let e' ← DutchPrice.endPrice i' e.cusp
    pure { a1 with start := now, end_ := now + e.T, init := i', endP := e', price := i' }
  else pure a1

inductive Op
  | bid (who : Nat) (slice : Int) (redep resBal : Int)
  | tick (now twaC : Int) (actC : Bool) (twaD : Int) (actD : Bool)
  deriving Repr, Inhabited

def step (e : Env) (s : St) : Op → St
  | .bid who slice redep resBal => match bidE e s who slice redep resBal with | .ok s' => s' | .error _ => s
  | .tick now twaC actC twaD actD =>
    match s.auc with
    | none => s
    | some a => match iterate e a now twaC actC twaD actD with
      | .ok a' => { s with auc := some a' }
      | .error _ => s

def run (e : Env) (s : St) (ops : List Op) : St := ops.foldl (step e) s

def initSt (e : Env) (a : Auc) (b : Bank) : St :=
  { auc := some a, bank := b, otherC := b.get .auction .coll - e.deposit, otherD := b.get .auction .debt }

end Comdex.DutchV1Lend
