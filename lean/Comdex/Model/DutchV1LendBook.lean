import Comdex.Model.DutchV1Lend
/-!
First-generation lend auction WITH the lend-side book-keeping of the close (same-pool borrows).

`Model/DutchV1Lend.lean` keeps the lending side as one account and takes the collateral of an immediate re-liquidation (`redep`)
and the reserve balance as inputs.  This file puts the book-keeping of `CloseDutchLendAuction` (`dutch_lend.go:365-441`) and
`UnLiquidateLockedBorrows` (`x/liquidation/keeper/liquidate_borrow.go:354-607`, branch `BridgedAssetAmount = 0`) around it:

* accounts: `.pool` = module account of the pool (collateral pool = debt pool for a same-pool borrow), `.lendres` = the lend module
  account (reserve), cToken balances as three integers (`cPoolDebt`, `cPoolColl`, `cOwnerColl`);
* records: the locked vault (`AmountIn`, `AmountOut`, `UpdatedAmountOut`), the borrow position (`AmountIn`, `AmountOut`,
  `IsLiquidated`, `InterestAccumulated`), the borrow's interest tracker (`ReservePoolInterest`);
* the close: `AmountOut`, `UpdatedAmountOut` reduced by the auction's TARGET (floored at 0); `⌊ReservePoolInterest⌋` pool → reserve
  (`UpdateReserveBalances`); `⌊InterestAccumulated − ReservePoolInterest⌋` cTokens of the debt asset minted to the pool; both
  interest records keep their fractions; then
    - `AmountOut = 0`  : locked vault, borrow and tracker deleted, the cTokens `AmountIn` returned pool → borrower;
    - `AmountIn = 0`   : locked vault, borrow and tracker deleted;
    - CR > threshold   : re-liquidation `UpdateLockedBorrows` (`liquidate_borrow.go:241-341`): sell-off from the code's Dec
                         formula, `⌊sellOff + bonus⌋` collateral pool → auction module, `⌊penalty⌋` collateral pool → reserve,
                         `⌊sellOff + deduction⌋` cTokens burned in the pool and taken off the locked vault and the borrow;
    - CR ≤ threshold   : the borrow is restored with the locked vault's amounts (`CreteNewBorrow`), locked vault deleted
  with `CR = value(UpdatedAmountOut)/value(AmountIn)` at the oracle prices of the block of the bid (an inactive price makes the
  CR computation RETURN an error that the caller drops: CR = 0 ⇒ restore; a zero collateral value panics: the bid fails);
* sold out below the target: the reserve pays `target − collected` to the pool (`UpdateReserveBalances(…, false)`).

The bank moves of the bid itself are `DutchV1Lend.apply` unchanged (its `redep` is now computed, its `resBal` read from `.lendres`).
Core Lean only.
-/
namespace Comdex.DutchV1LendBook
open Comdex
open Comdex.DutchV2 (Acct Denom Bank send sendPos)
open Comdex.DutchV1Lend (Env Auc Plan plan apply iterate)

/-- lend rates of the collateral asset (`LiquidationBonus` is `Env.bonus`) -/
structure Rates where
  ltv : Dec := 0
  pen : Dec := 0
  thr : Dec := 0
  deriving Repr, Inhabited

structure LV where
  amtIn : Int
  amtOut : Int
  updOut : Int
  deriving DecidableEq, Repr, Inhabited

structure Book where
  lv : Option LV := none
  borrow : Option (Int × Int) := none      -- (AmountIn, AmountOut) of the borrow record, while it exists
  liquidated : Bool := true
  intAcc : Dec := 0                        -- borrow.InterestAccumulated
  resInt : Dec := 0                        -- BorrowInterestTracker.ReservePoolInterest
  cPoolDebt : Int := 0                     -- cTokens of the debt asset held by the pool
  cPoolColl : Int := 0                     -- cTokens of the collateral asset held by the pool
  cOwnerColl : Int := 0                    -- … held by the borrower
  -- ghosts
  toRes : Int := 0                         -- reserve interest sent pool → reserve
  fromRes : Int := 0                       -- paid by the reserve when the collateral was sold out below the target
  minted : Int := 0
  redep : Int := 0                         -- collateral moved pool → auction module for the follow-up auction
  pen2 : Int := 0                          -- penalty of the re-liquidation, pool → reserve (collateral denom)
  deriving Repr, Inhabited

structure BSt where
  s : DutchV1Lend.St := {}
  k : Book := {}
  deriving Inhabited

/-- oracle state of the block of a bid -/
structure Ext where
  twaC : Int := 0
  actC : Bool := true
  twaD : Int := 0
  actD : Bool := true
  deriving Repr, Inhabited

/-- `CalcAssetPrice`: `none` = returned error (price not active) -/
def assetValue (twa : Int) (act : Bool) (amt dec : Int) : Except Unit (Option Dec) :=
  if !act then .ok none
  else if dec = 0 then .error ()                                   -- Quo by zero
  else .ok (some (Dec.quo (Dec.mul (Dec.ofInt amt) (Dec.ofInt twa)) (Dec.ofInt dec)))

/-- `CalculateCollateralizationRatio(amountIn, assetIn, amountOut, assetOut)`; `none` = returned error -/
def calcCR (e : Env) (x : Ext) (amtIn amtOut : Int) : Except Unit (Option Dec) :=
  match assetValue x.twaC x.actC amtIn e.decC with
  | .error _ => .error ()
  | .ok none => .ok none
  | .ok (some tin) =>
    match assetValue x.twaD x.actD amtOut e.decD with
    | .error _ => .error ()
    | .ok none => .ok none
    | .ok (some tout) => if tin = 0 then .error () else .ok (some (Dec.quo tout tin))

/-- what a re-liquidation moves (`liquidate_borrow.go:250-306`): collateral to the auction module, penalty to the reserve, cTokens
to burn / to take off the records.  Panics (`Quo` by zero, negative `sdk.NewCoin`) are errors. -/
structure Reliq where
  toAuction : Int
  toReserve : Int
  deduction : Int
  deriving DecidableEq, Repr, Inhabited

def reliq (e : Env) (r : Rates) (x : Ext) (amtIn updOut : Int) : Except Unit (Option Reliq) :=
  match calcCR e x amtIn updOut with
  | .error _ => .error ()
  | .ok none => .ok none                                            -- `return err`: nothing written
  | .ok (some _) =>
    match assetValue x.twaC x.actC amtIn e.decC, assetValue x.twaD x.actD updOut e.decD, assetValue x.twaC x.actC 1 e.decC with
    | .ok (some tin), .ok (some tout), .ok (some aip) =>
      let c := r.ltv
      let b := Dec.one + (r.pen + e.bonus)
      let den := Dec.sub Dec.one (Dec.mul b c)
      if den = 0 ∨ aip = 0 then .error () else
      let selloff := Dec.quo (Dec.sub tout (Dec.mul c tin)) den
      let liqDed := Dec.quo (Dec.mul selloff (r.pen + e.bonus)) aip
      let bonusAmt := Dec.quo (Dec.mul selloff e.bonus) aip
      let penAmt := Dec.quo (Dec.mul selloff r.pen) aip
      let sellAmt := Dec.quo selloff aip
      let toAuction := Dec.truncateInt (bonusAmt + sellAmt)
      let toReserve := Dec.truncateInt penAmt
      let deduction := Dec.truncateInt (liqDed + sellAmt)
      if toAuction < 0 ∨ toReserve < 0 ∨ deduction < 0 then .error ()        -- sdk.NewCoin
      else .ok (some { toAuction := toAuction, toReserve := toReserve, deduction := deduction })
    | _, _, _ => .error ()

/-- the records after the close, and what has to move between pool, reserve and auction module (pure part) -/
structure ClosePlan where
  k : Book
  ri : Int           -- reserve interest pool → reserve (debt denom)
  redep : Int        -- collateral pool → auction module
  pen2 : Int         -- collateral pool → reserve
  deriving Inhabited

def max0 (x : Int) : Int := if x ≤ 0 then 0 else x

/-- the caller drops the error of the CR computation: the returned value is then `ZeroDec` -/
def crVal (cr : Option Dec) : Dec := match cr with | some v => v | none => 0

/-- `⌊ReservePoolInterest⌋` if positive: sent pool → reserve (`liquidate_borrow.go:400-420`) -/
def riOf (k : Book) : Int := if Dec.truncateInt k.resInt > 0 then Dec.truncateInt k.resInt else 0

/-- `⌊InterestAccumulated − ReservePoolInterest⌋` if positive: cTokens of the debt asset minted to the pool (`:421-429`) -/
def mintOf (k : Book) : Int :=
  if Dec.truncateInt (Dec.sub k.intAcc k.resInt) > 0 then Dec.truncateInt (Dec.sub k.intAcc k.resInt) else 0

def closeBook (e : Env) (r : Rates) (k : Book) (x : Ext) : Except Unit ClosePlan :=
  match k.lv with
  | none => .error ()                                               -- ErrorVaultNotFound
  | some lv0 =>
    let amtOut := max0 (lv0.amtOut - e.target)
    let updOut := max0 (lv0.updOut - e.target)
    let ri := riOf k
    let mint := mintOf k
    let k1 := { k with intAcc := Dec.sub k.intAcc (Dec.ofInt (Dec.truncateInt k.intAcc)),
                       resInt := Dec.sub k.resInt (Dec.ofInt (Dec.truncateInt k.resInt)),
                       cPoolDebt := k.cPoolDebt + mint, minted := k.minted + mint, toRes := k.toRes + ri }
    if amtOut = 0 then
      if lv0.amtIn < 0 ∨ k1.cPoolColl < lv0.amtIn then .error ()
      else .ok { k := { k1 with lv := none, borrow := none, intAcc := 0, resInt := 0,
                                cPoolColl := k1.cPoolColl - lv0.amtIn, cOwnerColl := k1.cOwnerColl + lv0.amtIn },
                 ri := ri, redep := 0, pen2 := 0 }
    else if lv0.amtIn = 0 then
      .ok { k := { k1 with lv := none, borrow := none, intAcc := 0, resInt := 0 }, ri := ri, redep := 0, pen2 := 0 }
    else
      match calcCR e x lv0.amtIn updOut with
      | .error _ => .error ()
      | .ok cr =>
        if crVal cr > r.thr then
          match reliq e r x lv0.amtIn updOut with
          | .error _ => .error ()
          | .ok none => .ok { k := { k1 with lv := some { amtIn := lv0.amtIn, amtOut := amtOut, updOut := updOut } },
                              ri := ri, redep := 0, pen2 := 0 }
          | .ok (some q) =>
            if k1.cPoolColl < q.deduction then .error () else         -- BurnCoins
            let amtIn' := if q.deduction ≥ lv0.amtIn then 0 else lv0.amtIn - q.deduction
            let bIn := match k1.borrow with
              | some (bi, _) => if q.deduction ≥ lv0.amtIn then 0 else bi - q.deduction
              | none => 0
            .ok { k := { k1 with lv := some { amtIn := amtIn', amtOut := amtOut, updOut := updOut },
                                 borrow := k1.borrow.map (fun (_, bo) => (bIn, bo)), liquidated := true,
                                 cPoolColl := k1.cPoolColl - q.deduction,
                                 redep := k1.redep + q.toAuction, pen2 := k1.pen2 + q.toReserve },
                  ri := ri, redep := q.toAuction, pen2 := q.toReserve }
        else
          .ok { k := { k1 with lv := none, borrow := some (lv0.amtIn, amtOut), liquidated := false },
                ri := ri, redep := 0, pen2 := 0 }

/-- `MsgPlaceDutchLendBid` with the book-keeping of the close -/
def bidE (e : Env) (r : Rates) (s : BSt) (who : Nat) (slice0 : Int) (x : Ext) : Except Unit BSt :=
  match s.s.auc with
  | none => .error ()
  | some a =>
    match plan e a slice0 with
    | .error _ => .error ()
    | .ok p =>
      let inCur' := a.inCur + p.inAmt
      let outCur' := a.outCur - p.slice
      let resBal := s.s.bank.get .lendres .debt
      if inCur' ≥ e.target ∨ outCur' = 0 then
        -- closing bid (target reached, or sold out and the reserve can pay the rest)
        match closeBook e r s.k x with
        | .error _ => .error ()
        | .ok cp =>
          match apply e s.s a who p cp.redep resBal with
          | .error _ => .error ()
          | .ok s1 =>
            let required := if inCur' ≥ e.target then 0 else e.target - inCur'
            match sendPos s1.bank .lendres .pool .debt required with
            | .error _ => .error ()
            | .ok b1 =>
            match sendPos b1 .pool .lendres .debt cp.ri with
            | .error _ => .error ()
            | .ok b2 =>
            match sendPos b2 .pool .lendres .coll cp.pen2 with
            | .error _ => .error ()
            | .ok b3 => .ok { s := { s1 with bank := b3 }, k := { cp.k with fromRes := cp.k.fromRes + required } }
      else
        match apply e s.s a who p 0 resBal with
        | .error _ => .error ()
        | .ok s1 => .ok { s with s := s1 }

inductive Op
  | bid (who : Nat) (slice : Int) (x : Ext)
  | tick (now twaC : Int) (actC : Bool) (twaD : Int) (actD : Bool)
  deriving Repr, Inhabited

def step (e : Env) (r : Rates) (s : BSt) : Op → BSt
  | .bid who slice x => match bidE e r s who slice x with | .ok s' => s' | .error _ => s
  | .tick now twaC actC twaD actD => { s with s := DutchV1Lend.step e s.s (.tick now twaC actC twaD actD) }

def run (e : Env) (r : Rates) (s : BSt) (ops : List Op) : BSt := ops.foldl (step e r) s

end Comdex.DutchV1LendBook
