import Comdex.Model.AmmTick
/-
Ledger model of the x/liquidity keeper (shared by C04 "liquidity custody" and C07 "order settlement").
Core Lean only.

Source: x/liquidity/keeper/pool.go (requests 399-490, execution 493-669, create pool 124-362,
depositAndFarm / unfarmAndWithdraw 863-944), swap.go (placement 110-440, cancel 441-604, matching 606-823,
FinishOrder 825-927), batch.go, rewards.go:309-528 (farm / unfarm / ProcessQueuedFarmers), pair.go, abci.go,
store.go (order key = (appId, pairId, id)).

What is modelled exactly: every bank movement (who pays whom how much in which denom), every record field the
two properties speak about (request status, order offer / remaining / received / open / status / batch,
MM index, farmer queues, pool disabled flag, pool-coin supply), every state-dependent guard (existence, owner,
status, batch, funds, lifespan, minimum amounts).
What enters as *observed input* (DESIGN §3.4 "external values"): the results of the matching engine (per-order
fills, per-pool flows, dust — verified by C05), of `amm.Deposit` / `amm.Withdraw` / `amm.Create*Pool` (C06), the
tick-rounded price, and one Boolean `ext` per message standing for the stateless price / tick / denom
validations.  The theorems quantify over all such inputs.

Ghost components (never observable, only used to state the theorems): per order `taken / refunded / feeFwd`, and per pair two ghost accounts `mIn` / `mOut` accumulating what the matching engine took out of /
handed to the pair escrow.

Round 5: the price / tick / denom validations of `MsgLimitOrder`, `MsgMarketOrder`, `MsgMMOrder` (price limits around the pair's
last price, `PriceToDownTick` / `PriceToUpTick`, "price is on a tick", `MMOrderTicks`, offer / demand denom = the pair's) are
computed INSIDE the model (`orderPrice`, `mmTicks`, `placeOrderMsg`, `mmOrderMsg`, reusing `Model/AmmTick.lean`); the pair's
last price is a state component (set from the observed match price of a batch).  The remaining `ext` Booleans (asset white-list
of `MsgCreatePair`, `amm.Create*Pool` validation, coin denoms of deposit / withdraw / farm messages) are still observed inputs.
-/
namespace Comdex.LiqLedger

/-! ## Accounts, denominations, bank -/

inductive Acct where
  | user (n : Nat)
  | gEscrow                         -- types.GlobalEscrowAddress
  | module                          -- liquidity module account
  | pairEscrow (a p : Nat)          -- PairEscrowAddress(app, pair)
  | swapFee (a p : Nat)             -- PairSwapFeeCollectorAddress(app, pair)
  | reserve (a p : Nat)             -- PoolReserveAddress(app, pool)
  | dust (a : Nat)                  -- DeriveDustCollectorAddress(app)
  | feeColl (a : Nat)               -- DeriveFeeCollectorAddress(app): pair / pool creation fees
  | mIn (a p : Nat)                 -- ghost: paid into matching of pair (a,p)
  | mOut (a p : Nat)                -- ghost: paid out by matching of pair (a,p)
  deriving DecidableEq, Repr, BEq

inductive Denom where
  | coin (n : Nat)
  | pool (a p : Nat)                -- PoolCoinDenom(app, pool)
  deriving DecidableEq, Repr, BEq

abbrev Key := Acct × Denom
abbrev Bank := List (Key × Nat)

def Bank.get : Bank → Key → Nat
  | [], _ => 0
  | (k', v) :: t, k => if k' = k then v else Bank.get t k

def Bank.set : Bank → Key → Nat → Bank
  | [], k, v => [(k, v)]
  | (k', v') :: t, k, v => if k' = k then (k, v) :: t else (k', v') :: Bank.set t k v

/-- `x/bank` SendCoins of one coin: insufficient funds ⇒ `none`. -/
def Bank.send (b : Bank) (f t : Acct) (d : Denom) (n : Nat) : Option Bank :=
  if n ≤ b.get (f, d) then
    let b1 := b.set (f, d) (b.get (f, d) - n)
    some (b1.set (t, d) (b1.get (t, d) + n))
  else none

def Bank.add (b : Bank) (a : Acct) (d : Denom) (n : Nat) : Bank := b.set (a, d) (b.get (a, d) + n)

/-! ## Records -/

inductive RStatus where
  | pending | succeeded | failed
  deriving DecidableEq, Repr, BEq

inductive OStatus where
  | notExecuted | notMatched | partially | completed | canceled | expired
  deriving DecidableEq, Repr, BEq

/-- `CanBeCanceled` = `CanBeExpired` = `IsMatchable` = not `ShouldBeDeleted`. -/
def OStatus.live : OStatus → Bool
  | .notExecuted | .notMatched | .partially => true
  | _ => false

inductive OType where
  | limit | market | mm
  deriving DecidableEq, Repr, BEq

structure Pair where
  app : Nat
  id : Nat
  base : Denom
  quote : Denom
  lastOrderId : Nat
  curBatch : Nat
  lastPrice : Option Nat := none      -- pair.LastPrice (raw 10^-18); nil until the first match
  deriving Repr, BEq, DecidableEq

structure Pool where
  app : Nat
  id : Nat
  pair : Nat
  ranged : Bool
  disabled : Bool
  ps : Nat                 -- pool-coin supply (bank supply of PoolCoinDenom)
  lastDep : Nat
  lastWdr : Nat
  deriving Repr, BEq, DecidableEq

structure DepReq where
  app : Nat
  pool : Nat
  id : Nat
  owner : Nat
  qd : Denom               -- quote denom of the pool's pair
  bd : Denom
  dx : Nat                 -- deposit coins: quote amount
  dy : Nat                 -- base amount
  status : RStatus
  ax : Nat := 0            -- AcceptedCoins (set on success)
  ay : Nat := 0
  minted : Nat := 0        -- MintedPoolCoin
  deriving Repr, BEq, DecidableEq

structure WdrReq where
  app : Nat
  pool : Nat
  id : Nat
  owner : Nat
  pc : Nat
  status : RStatus
  wx : Nat := 0            -- WithdrawnCoins (set on success)
  wy : Nat := 0
  deriving Repr, BEq, DecidableEq

structure Order where
  app : Nat
  pair : Nat
  id : Nat
  owner : Nat
  typ : OType
  buy : Bool
  od : Denom               -- offer coin denom
  dd : Denom               -- demand coin denom
  price : Nat              -- raw 10^-18
  amount : Nat
  openAmt : Nat
  offer : Nat
  remaining : Nat
  received : Nat
  status : OStatus
  batch : Nat
  expireAt : Int
  -- ghost ledger of this order
  taken : Nat              -- taken from the orderer at placement (offer denom)
  refunded : Nat           -- returned to the orderer at termination (offer denom)
  feeFwd : Nat             -- forwarded to the pair's swap-fee collector
  deriving Repr, BEq, DecidableEq

abbrev OKey := Nat × Nat × Nat      -- (appId, pairId, id) as in store.go GetOrderKey
def Order.key (o : Order) : OKey := (o.app, o.pair, o.id)

structure MMIndex where
  app : Nat
  pair : Nat
  owner : Nat
  ids : List Nat
  deriving Repr, BEq, DecidableEq

structure Farmer where
  app : Nat
  pool : Nat
  owner : Nat
  queued : List (Nat × Int)   -- (amount, createdAt), oldest first
  active : Nat
  deriving Repr, BEq, DecidableEq

structure AppCfg where
  app : Nat
  feeRate : Nat            -- SwapFeeRate, raw 10^-18
  batchSize : Nat
  maxLifespan : Int        -- seconds
  pairFee : Nat            -- PairCreationFee (coin 0)
  poolFee : Nat            -- PoolCreationFee (coin 0)
  minInitDeposit : Nat
  minInitSupply : Nat
  maxPools : Nat
  tickPrec : Nat := 4                                 -- TickPrecision
  maxPriceRatio : Nat := 100000000000000000           -- MaxPriceLimitRatio, raw 10^-18 (default 10 %)
  maxMMTicks : Nat := 10                              -- MaxNumMarketMakingOrderTicks
  deriving Repr, BEq

structure Cfg where
  apps : List AppCfg
  swapLookup : Bool        -- true = swap.go:559 as it stands (`GetOrder(ctx, pair.Id, appID, id)`), false = repaired
  queueDur : Int           -- farming queue duration (seconds)
  deriving Repr

def Cfg.app? (c : Cfg) (a : Nat) : Option AppCfg := c.apps.find? (·.app == a)

structure State where
  bank : Bank := []
  pairs : List Pair := []
  pools : List Pool := []
  deps : List DepReq := []
  wdrs : List WdrReq := []
  orders : List Order := []
  mm : List MMIndex := []
  farmers : List Farmer := []
  height : Nat := 0
  now : Int := 0
  deriving Repr

def State.bal (s : State) (a : Acct) (d : Denom) : Nat := s.bank.get (a, d)

/-! ## Generic keyed-list helpers (first match, as a KV store with unique keys behaves) -/

def findBy (p : α → Bool) : List α → Option α
  | [] => none
  | x :: t => if p x then some x else findBy p t

def modBy (p : α → Bool) (g : α → α) : List α → List α
  | [] => []
  | x :: t => if p x then g x :: t else x :: modBy p g t

def isO (k : OKey) (o : Order) : Bool := o.app == k.1 && o.pair == k.2.1 && o.id == k.2.2
def isPair (a p : Nat) (x : Pair) : Bool := x.app == a && x.id == p
def isPool (a p : Nat) (x : Pool) : Bool := x.app == a && x.id == p
def isDep (a p i : Nat) (x : DepReq) : Bool := x.app == a && x.pool == p && x.id == i
def isWdr (a p i : Nat) (x : WdrReq) : Bool := x.app == a && x.pool == p && x.id == i
def isMM (a p u : Nat) (x : MMIndex) : Bool := x.app == a && x.pair == p && x.owner == u
def isFarmer (a p u : Nat) (x : Farmer) : Bool := x.app == a && x.pool == p && x.owner == u

def State.order? (s : State) (k : OKey) : Option Order := findBy (isO k) s.orders
def State.pair? (s : State) (a p : Nat) : Option Pair := findBy (isPair a p) s.pairs
def State.pool? (s : State) (a p : Nat) : Option Pool := findBy (isPool a p) s.pools

def State.modO (s : State) (k : OKey) (g : Order → Order) : State := { s with orders := modBy (isO k) g s.orders }
def State.modPair (s : State) (a p : Nat) (g : Pair → Pair) : State := { s with pairs := modBy (isPair a p) g s.pairs }
def State.modPool (s : State) (a p : Nat) (g : Pool → Pool) : State := { s with pools := modBy (isPool a p) g s.pools }

def State.send (s : State) (f t : Acct) (d : Denom) (n : Nat) : Option State :=
  (s.bank.send f t d n).map fun b => { s with bank := b }

def State.credit (s : State) (a : Acct) (d : Denom) (n : Nat) : State := { s with bank := s.bank.add a d n }

/-- fold with failure -/
def foldOpt (f : State → α → Option State) : State → List α → Option State
  | s, [] => some s
  | s, x :: xs => match f s x with
    | none => none
    | some s' => foldOpt f s' xs

/-! ## Swap fee and order settlement (swap.go:17-19, 825-927) -/

def DEC : Nat := 1000000000000000000

/-- `CalculateSwapFeeAmount`: `amt.ToLegacyDec().MulTruncate(rate).TruncateInt()` = ⌊amt·rate⌋. -/
def feeOf (rate x : Nat) : Nat := x * rate / DEC

/-- swap-fee reserve escrowed with an order: none for market-making orders (swap.go:377). -/
def feeRes (rate : Nat) (o : Order) : Nat := if o.typ = .mm then 0 else feeOf rate o.offer

/-- `FinishOrder` / `FinishMMOrder`: (refund to orderer, fee forwarded to the swap-fee collector), with the
three branches of swap.go:843-865. -/
def settle (rate : Nat) (o : Order) : Nat × Nat :=
  if o.typ = .mm then (o.remaining, 0)
  else
    let fee := feeOf rate o.offer
    if o.remaining > 0 then
      if o.remaining = o.offer then (o.remaining + fee, 0)
      else
        let swapFee := feeOf rate (o.offer - o.remaining)
        (o.remaining + (fee - swapFee), swapFee)
    else (0, fee)

def finishOrder (cfg : Cfg) (s : State) (k : OKey) (st : OStatus) : Option State :=
  match s.order? k with
  | none => none
  | some o =>
    if !o.status.live then some s            -- sanity check: already completed / canceled / expired
    else match cfg.app? o.app with
      | none => none
      | some ac =>
        let (refund, fwd) := settle ac.feeRate o
        match s.send (.pairEscrow o.app o.pair) (.user o.owner) o.od refund with
        | none => none
        | some s1 =>
          match s1.send (.pairEscrow o.app o.pair) (.swapFee o.app o.pair) o.od fwd with
          | none => none
          | some s2 => some (s2.modO k fun o => { o with status := st, refunded := refund, feeFwd := fwd })

/-! ## Order placement -/

/-- `amm.OfferCoinAmount`: buy ⇒ ⌈price·amt⌉, sell ⇒ amt. -/
def offerAmt (buy : Bool) (price amt : Nat) : Nat :=
  if buy then (price * amt + (DEC - 1)) / DEC else amt

def MINCOIN : Nat := 100
def MAXCOIN : Nat := 10000000000000000000000000000000000000000

/-- `types.IsTooSmallOrderAmount` -/
def tooSmall (amt price : Nat) : Bool := amt < MINCOIN || price * amt < MINCOIN * DEC

/-- offer-side / demand-side denom of an order / fill / pool flow of pair `p` -/
def sideIn (p : Pair) (buy : Bool) : Denom := if buy then p.quote else p.base
def sideOut (p : Pair) (buy : Bool) : Denom := if buy then p.base else p.quote

def newOrder (p : Pair) (id owner : Nat) (typ : OType) (buy : Bool) (price amount offer taken : Nat)
    (expireAt : Int) : Order :=
  { app := p.app, pair := p.id, id := id, owner := owner, typ := typ, buy := buy,
    od := sideIn p buy, dd := sideOut p buy,
    price := price, amount := amount, openAmt := amount, offer := offer, remaining := offer, received := 0,
    status := .notExecuted, batch := p.curBatch, expireAt := expireAt,
    taken := taken, refunded := 0, feeFwd := 0 }

/-- `LimitOrder` / `MarketOrder` (swap.go:27-270).  `price` is the tick-rounded order price and `msgPrice` the
price in the message (limit orders; ValidateBasic's minimum-offer check uses it); `ext` = price within limits,
denoms match the pair, last price present (market orders). -/
def placeOrder (cfg : Cfg) (s : State) (app user pair : Nat) (typ : OType) (buy : Bool)
    (msgOffer msgPrice price amount : Nat) (lifespan : Int) (ext : Bool) : Option State :=
  -- ValidateBasic
  if typ = .mm then none else
  if pair = 0 ∨ msgOffer < MINCOIN ∨ MAXCOIN < msgOffer ∨ amount < MINCOIN ∨ MAXCOIN < amount ∨ lifespan < 0 then none else
  if typ = .limit ∧ (msgPrice = 0 ∨ msgOffer < offerAmt buy msgPrice amount) then none else
  match cfg.app? app with
  | none => none
  | some ac =>
    match s.pair? app pair with
    | none => none
    | some p =>
      let od := sideIn p buy
      if s.bal (.user user) od < msgOffer then none else      -- spendable ≥ msg.OfferCoin
      if ac.maxLifespan < lifespan then none else
      if !ext then none else
      let offer := offerAmt buy price amount
      let fee := feeOf ac.feeRate offer
      if msgOffer < offer + fee then none else
      if tooSmall amount price then none else
      match s.send (.user user) (.pairEscrow app pair) od (offer + fee) with
      | none => none
      | some s1 =>
        let id := p.lastOrderId + 1
        let o := newOrder p id user typ buy price amount offer (offer + fee) (s.now + lifespan)
        some { (s1.modPair app pair fun q => { q with lastOrderId := id }) with orders := s1.orders ++ [o] }

/-! ### The price / tick / denom validations of `ValidateMsgLimitOrder` / `ValidateMsgMarketOrder` (swap.go:56-92, 186-218) -/

/-- `amm.PriceToDownTick` / `amm.PriceToUpTick` on non-negative raws -/
def downTickN (prec price : Nat) : Nat := (Amm.priceToDownTick price prec).toNat
def upTickN (prec price : Nat) : Nat := (Amm.priceToUpTick price prec).toNat

/-- `a.Mul(b)` of `LegacyDec` (half-even chop) on non-negative raws -/
def mulDecN (a b : Nat) : Nat := (Dec.mul a b).toNat

/-- `types.PriceLimits(lastPrice, ratio, prec)` (types/util.go:108-112):
`(PriceToUpTick(last·(1−ratio)), PriceToDownTick(last·(1+ratio)))` -/
def priceLimits (ac : AppCfg) (last : Nat) : Nat × Nat :=
  (upTickN ac.tickPrec (mulDecN last (DEC - ac.maxPriceRatio)), downTickN ac.tickPrec (mulDecN last (DEC + ac.maxPriceRatio)))

/-- swap.go:56-62 / 307-313: the limits around the last price, or the whole tick range when there is none -/
def limitsOf (ac : AppCfg) (p : Pair) : Nat × Nat :=
  match p.lastPrice with
  | some l => priceLimits ac l
  | none => ((Amm.lowestTick ac.tickPrec).toNat, (Amm.highestTick ac.tickPrec).toNat)

/-- the order price the keeper computes, `none` = rejected (`ErrPriceOutOfRange` / `ErrNoLastPrice`):
limit order — the message price must lie within the limits and is fitted to a tick (buy: down, sell: up);
market order — the last price pushed to the limit, fitted to a tick. -/
def orderPrice (ac : AppCfg) (p : Pair) (typ : OType) (buy : Bool) (msgPrice : Nat) : Option Nat :=
  match typ with
  | .limit =>
    if (limitsOf ac p).2 < msgPrice ∨ msgPrice < (limitsOf ac p).1 then none
    else some (if buy then downTickN ac.tickPrec msgPrice else upTickN ac.tickPrec msgPrice)
  | .market =>
    match p.lastPrice with
    | none => none
    | some l =>
      some (if buy then downTickN ac.tickPrec (mulDecN l (DEC + ac.maxPriceRatio))
            else upTickN ac.tickPrec (mulDecN l (DEC - ac.maxPriceRatio)))
  | .mm => none

/-- `MsgLimitOrder` / `MsgMarketOrder` as delivered: `od` / `dd` are the offer-coin denom and the demand-coin denom of the
message.  The tick-fitted price and the stateless validations (`ext` of `placeOrder`) are computed here: price within the
limits (limit) / last price present (market), `od` / `dd` are the pair's quote / base (buy) or base / quote (sell), `od ≠ dd`
(ValidateBasic).  All guards reject without writing, so their relative order does not matter. -/
def placeOrderMsg (cfg : Cfg) (s : State) (app user pair : Nat) (typ : OType) (buy : Bool) (od dd : Denom)
    (msgOffer msgPrice amount : Nat) (lifespan : Int) : Option State :=
  match cfg.app? app with
  | none => none
  | some ac =>
    match s.pair? app pair with
    | none => none
    | some p =>
      match orderPrice ac p typ buy msgPrice with
      | none => none
      | some price =>
        placeOrder cfg s app user pair typ buy msgOffer msgPrice price amount lifespan
          (decide (od = sideIn p buy ∧ dd = sideOut p buy ∧ od ≠ dd))

/-! ## Cancellation (swap.go:441-604) -/

def cancelOrder (cfg : Cfg) (s : State) (app user pair id : Nat) : Option State :=
  if pair = 0 ∨ id = 0 then none else
  match cfg.app? app with
  | none => none
  | some _ =>
    match s.order? (app, pair, id) with
    | none => none
    | some o =>
      if o.owner ≠ user then none else
      if o.status = .canceled then none else
      match s.pair? app pair with
      | none => none
      | some p =>
        if o.batch = p.curBatch then none else
        finishOrder cfg s (app, pair, id) .canceled

def cancelAllStep (cfg : Cfg) (app user : Nat) (pairs : List Nat) (s : State) (k : OKey) : Option State :=
  match s.order? k with
  | none => some s
  | some o =>
    if o.app = app ∧ o.owner = user ∧ (pairs = [] ∨ o.pair ∈ pairs) then
      match s.pair? app o.pair with
      | none => some s
      | some p =>
        if o.status ≠ .canceled ∧ o.batch < p.curBatch then finishOrder cfg s k .canceled else some s
    else some s

def cancelAll (cfg : Cfg) (s : State) (app user : Nat) (pairs : List Nat) : Option State :=
  if pairs.any (· == 0) ∨ ¬ pairs.Nodup then none else
  match cfg.app? app with
  | none => none
  | some _ =>
    if pairs.any (fun p => (s.pair? app p).isNone) then none else
    foldOpt (cancelAllStep cfg app user pairs) s (s.orders.map (·.key))

/-- The key used by `cancelMMOrder` to look an indexed order up.  swap.go:559 passes `(pair.Id, appID, id)`
to `GetOrder(ctx, appID, pairID, id)`; the repaired code passes `(appID, pair.Id, id)`. -/
def mmKey (cfg : Cfg) (app pair id : Nat) : OKey :=
  if cfg.swapLookup then (pair, app, id) else (app, pair, id)

def cancelMMStep (cfg : Cfg) (app : Nat) (p : Pair) (s : State) (id : Nat) : Option State :=
  match s.order? (mmKey cfg app p.id id) with
  | none => some s                                   -- already deleted from the store
  | some o =>
    if o.batch = p.curBatch then none                -- ErrSameBatch
    else if o.status.live then finishOrder cfg s (mmKey cfg app p.id id) .canceled
    else some s

/-- `cancelMMOrder` (swap.go:555-579) -/
def cancelMMCore (cfg : Cfg) (s : State) (app user : Nat) (p : Pair) (skipIfNotFound : Bool) : Option State :=
  match findBy (isMM app p.id user) s.mm with
  | some idx =>
    match foldOpt (cancelMMStep cfg app p) s idx.ids with
    | none => none
    | some s1 => some { s1 with mm := s1.mm.filter fun x => !isMM app p.id user x }
  | none => if skipIfNotFound then some s else none

def cancelMM (cfg : Cfg) (s : State) (app user pair : Nat) : Option State :=
  if pair = 0 then none else
  match s.pair? app pair with
  | none => none
  | some p => cancelMMCore cfg s app user p false

/-! ## Market-making orders (swap.go:272-440) -/

structure Tick where
  offer : Nat
  price : Nat
  amount : Nat
  deriving Repr, BEq

def sumOffers : List Tick → Nat
  | [] => 0
  | t :: ts => t.offer + sumOffers ts

/-- orders for the ticks, ids `from+1 …` -/
def mkMMOrders (p : Pair) (owner : Nat) (buy : Bool) (expireAt : Int) : Nat → List Tick → List Order
  | _, [] => []
  | last, t :: ts => newOrder p (last + 1) owner .mm buy t.price t.amount t.offer t.offer expireAt
      :: mkMMOrders p owner buy expireAt (last + 1) ts

def mmOrder (cfg : Cfg) (s : State) (app user pair : Nat) (buys sells : List Tick) (lifespan : Int) (ext : Bool) :
    Option State :=
  if pair = 0 ∨ lifespan < 0 ∨ (buys = [] ∧ sells = []) then none else
  match cfg.app? app with
  | none => none
  | some ac =>
    if !ext then none else
    match s.pair? app pair with
    | none => none
    | some p =>
      let offerQ := sumOffers buys
      let offerB := sumOffers sells
      if s.bal (.user user) p.base < offerB then none else
      if s.bal (.user user) p.quote < offerQ then none else
      if ac.maxLifespan < lifespan then none else
      match cancelMMCore cfg s app user p true with
      | none => none
      | some s1 =>
        match s1.send (.user user) (.pairEscrow app pair) p.base offerB with
        | none => none
        | some s2 =>
          match s2.send (.user user) (.pairEscrow app pair) p.quote offerQ with
          | none => none
          | some s3 =>
            let ob := mkMMOrders p user true (s.now + lifespan) p.lastOrderId buys
            let os := mkMMOrders p user false (s.now + lifespan) (p.lastOrderId + buys.length) sells
            let last := p.lastOrderId + buys.length + sells.length
            some { (s3.modPair app pair fun q => { q with lastOrderId := last }) with
                   orders := s3.orders ++ (ob ++ os),
                   mm := (s3.mm.filter fun x => !isMM app pair user x) ++
                         [{ app := app, pair := pair, owner := user, ids := (ob ++ os).map (·.id) }] }

/-! ### `types.MMOrderTicks` (types/util.go:139-192) and the validations of `MsgMMOrder` (msgs.go:558-600, swap.go:283-330) -/

/-- consecutive duplicates dropped (`if prevP.IsNil() || !p.Equal(prevP)`) -/
def dedupAdj : List Nat → List Nat
  | [] => []
  | [x] => [x]
  | x :: y :: t => if x = y then dedupAdj (y :: t) else x :: dedupAdj (y :: t)

/-- `MMOrderTicks(dir, minPrice, maxPrice, amt, maxNumTicks, tickPrec)`: one tick when the two prices coincide; otherwise
`maxN − 1` prices `min + gap·i` (buy, fitted down) / `max − gap·i` (sell, fitted up) with `gap = ⌊(max − min)/(maxN − 1)⌋` (raw),
consecutive duplicates dropped, each with `⌊amt/(k+1)⌋`, and a last tick at `max` (buy) / `min` (sell) with the rest. -/
def mmTicks (buy : Bool) (prec maxN minP maxP amt : Nat) : List Tick :=
  if minP = maxP then [{ offer := offerAmt buy minP amt, price := minP, amount := amt }]
  else
    let gap := (maxP - minP) / (maxN - 1)
    let ps := dedupAdj ((List.range (maxN - 1)).map fun i =>
      if buy then downTickN prec (minP + gap * i) else upTickN prec (maxP - gap * i))
    let tickAmt := amt / (ps.length + 1)
    let rest := amt - tickAmt * ps.length
    let lastP := if buy then maxP else minP
    ps.map (fun p => ({ offer := offerAmt buy p tickAmt, price := p, amount := tickAmt } : Tick)) ++
      [{ offer := offerAmt buy lastP rest, price := lastP, amount := rest }]

/-- `PriceToDownTick(p, prec).Equal(p)` -/
def onTick (prec p : Nat) : Bool := downTickN prec p == p

/-- `MsgMMOrder` as delivered (ValidateBasic msgs.go:558-600, then swap.go:272-440): amounts and the four prices of the
message; ticks and all stateless validations are computed here.  A side with amount 0 is absent (its prices are ignored). -/
def mmOrderMsg (cfg : Cfg) (s : State) (app user pair : Nat) (maxSell minSell sellAmt maxBuy minBuy buyAmt : Nat)
    (lifespan : Int) : Option State :=
  -- ValidateBasic
  if pair = 0 ∨ (sellAmt = 0 ∧ buyAmt = 0) ∨ lifespan < 0 then none else
  if sellAmt ≠ 0 ∧ (sellAmt < MINCOIN ∨ maxSell = 0 ∨ minSell = 0 ∨ maxSell < minSell) then none else
  if buyAmt ≠ 0 ∧ (buyAmt < MINCOIN ∨ minBuy = 0 ∨ maxBuy = 0 ∨ maxBuy < minBuy) then none else
  match cfg.app? app with
  | none => none
  | some ac =>
    -- ErrPriceNotOnTicks
    if sellAmt ≠ 0 ∧ ¬ (onTick ac.tickPrec minSell = true ∧ onTick ac.tickPrec maxSell = true) then none else
    if buyAmt ≠ 0 ∧ ¬ (onTick ac.tickPrec minBuy = true ∧ onTick ac.tickPrec maxBuy = true) then none else
    match s.pair? app pair with
    | none => none
    | some p =>
      let lo := (limitsOf ac p).1
      let hi := (limitsOf ac p).2
      -- ErrPriceOutOfRange
      if sellAmt ≠ 0 ∧ (minSell < lo ∨ hi < minSell ∨ maxSell < lo ∨ hi < maxSell) then none else
      if buyAmt ≠ 0 ∧ (minBuy < lo ∨ hi < minBuy ∨ maxBuy < lo ∨ hi < maxBuy) then none else
      -- `QuoInt64(maxNumTicks - 1)` divides by zero (panic) when a side has two distinct prices and maxNumTicks = 1
      if ac.maxMMTicks ≤ 1 ∧ ((sellAmt ≠ 0 ∧ minSell ≠ maxSell) ∨ (buyAmt ≠ 0 ∧ minBuy ≠ maxBuy)) then none else
      let buys := if buyAmt ≠ 0 then mmTicks true ac.tickPrec ac.maxMMTicks minBuy maxBuy buyAmt else []
      let sells := if sellAmt ≠ 0 then mmTicks false ac.tickPrec ac.maxMMTicks minSell maxSell sellAmt else []
      mmOrder cfg s app user pair buys sells lifespan true

/-! ## Pairs and pools -/

def createPair (cfg : Cfg) (s : State) (app creator : Nat) (base quote : Denom) (ext : Bool) : Option State :=
  if base = quote then none else
  match cfg.app? app with
  | none => none
  | some ac =>
    if !ext then none else                                       -- assets white-listed
    if s.pairs.any (fun p => p.app == app && p.base == base && p.quote == quote) then none else
    match s.send (.user creator) (.feeColl app) (.coin 0) ac.pairFee with
    | none => none
    | some s1 =>
      let id := (s.pairs.filter (·.app == app)).length + 1
      some { s1 with pairs := s1.pairs ++ [{ app := app, id := id, base := base, quote := quote, lastOrderId := 0, curBatch := 1 }] }

/-- mint pool coins into the module account (`MintCoins(ModuleName, …)`) -/
def State.mint (s : State) (a p n : Nat) : State :=
  { (s.modPool a p fun q => { q with ps := q.ps + n }) with bank := s.bank.add .module (.pool a p) n }

/-- `BurnCoins(ModuleName, …)` -/
def State.burn (s : State) (a p n : Nat) : Option State :=
  if n ≤ s.bal .module (.pool a p) then
    match s.pool? a p with
    | none => none
    | some q =>
      if n ≤ q.ps then
        some { (s.modPool a p fun q => { q with ps := q.ps - n }) with
               bank := s.bank.set (.module, .pool a p) (s.bal .module (.pool a p) - n) }
      else none
  else none

/-- `CreatePool` / `CreateRangedPool` (pool.go:124-362).  `dx`,`dy` = the quote / base amounts moved into the
reserve (for a ranged pool: `ammPool.Balances()`), `ammPs` = `ammPool.PoolCoinSupply()`; `ext` = the stateless
validations and `amm.Create*Pool` returned no error. -/
def createPool (cfg : Cfg) (s : State) (app creator pair : Nat) (ranged : Bool) (dx dy ammPs : Nat) (ext : Bool) :
    Option State :=
  if pair = 0 then none else
  match cfg.app? app with
  | none => none
  | some ac =>
    match s.pair? app pair with
    | none => none
    | some p =>
      if !ext then none else
      let act := s.pools.filter fun q => q.app == app && q.pair == pair && !q.disabled
      if !ranged ∧ (dx < ac.minInitDeposit ∨ dy < ac.minInitDeposit) then none else
      if !ranged ∧ act.any (fun q => !q.ranged) then none else      -- ErrPoolAlreadyExists
      if ac.maxPools ≤ act.length then none else
      if ranged ∧ dx < ac.minInitDeposit ∧ dy < ac.minInitDeposit then none else
      let id := (s.pools.filter (·.app == app)).length + 1
      match s.send (.user creator) (.reserve app id) p.quote dx with
      | none => none
      | some s1 =>
        match s1.send (.user creator) (.reserve app id) p.base dy with
        | none => none
        | some s2 =>
          match s2.send (.user creator) (.feeColl app) (.coin 0) ac.poolFee with
          | none => none
          | some s3 =>
            let ps := max ammPs ac.minInitSupply
            -- the pool record, and `MintCoins(ModuleName, ps poolCoin)` of the brand-new pool coin denom
            let q : Pool := { app := app, id := id, pair := pair, ranged := ranged, disabled := false, ps := ps, lastDep := 0, lastWdr := 0 }
            let s4 : State := { s3 with pools := s3.pools ++ [q], bank := s3.bank.add .module (.pool app id) ps }
            s4.send .module (.user creator) (.pool app id) ps

/-! ## Deposit / withdraw requests (pool.go:364-669) -/

/-- `Deposit`: coins to the global escrow, request stored. Returns the state and the request id. -/
def depositReq (cfg : Cfg) (s : State) (app user pool dx dy : Nat) (ext : Bool) : Option (State × Nat) :=
  if pool = 0 ∨ (dx = 0 ∧ dy = 0) then none else
  match cfg.app? app with
  | none => none
  | some _ =>
    match s.pool? app pool with
    | none => none
    | some q =>
      if q.disabled then none else
      match s.pair? app q.pair with
      | none => none
      | some p =>
        if !ext then none else                                   -- denoms in the pair; pool not too large
        match s.send (.user user) .gEscrow p.quote dx with
        | none => none
        | some s1 =>
          match s1.send (.user user) .gEscrow p.base dy with
          | none => none
          | some s2 =>
            let id := q.lastDep + 1
            some ({ (s2.modPool app pool fun q => { q with lastDep := id }) with
                    deps := s2.deps ++ [{ app := app, pool := pool, id := id, owner := user, qd := p.quote, bd := p.base,
                                          dx := dx, dy := dy, status := .pending }] }, id)

/-- the pool-coin denom check of `ValidateMsgWithdraw` / `ValidateMsgFarm` / `ValidateMsgUnfarm` / `ValidateMsgUnfarmAndWithdraw`
(`msg.PoolCoin.Denom != pool.PoolCoinDenom`): the coin of the message must be the pool coin of THIS pool — `PoolCoinDenom(app, pool)`
encodes the app id AND the pool id, so the pool coin of (app 2, pool 1) is not the pool coin of (app 1, pool 1).  This is the `ext`
argument of `withdrawReq` / `farm` / `unfarm` / `unfarmAndWithdraw`, computed by the model side (driver) from the message's denom. -/
def poolCoinOk (app pool : Nat) (d : Denom) : Bool := decide (d = Denom.pool app pool)

def withdrawReq (cfg : Cfg) (s : State) (app user pool pc : Nat) (ext : Bool) : Option (State × Nat) :=
  if pool = 0 ∨ pc = 0 then none else
  match cfg.app? app with
  | none => none
  | some _ =>
    match s.pool? app pool with
    | none => none
    | some q =>
      if q.disabled then none else
      if !ext then none else                                     -- pool coin denom matches
      match s.send (.user user) .gEscrow (.pool app pool) pc with
      | none => none
      | some s1 =>
        let id := q.lastWdr + 1
        some ({ (s1.modPool app pool fun q => { q with lastWdr := id }) with
                wdrs := s1.wdrs ++ [{ app := app, pool := pool, id := id, owner := user, pc := pc, status := .pending }] }, id)

/-- `IsDepleted` of the pool built from the reserve balances and the supply. -/
def depleted (s : State) (p : Pair) (q : Pool) : Bool :=
  let rx := s.bal (.reserve q.app q.id) p.quote
  let ry := s.bal (.reserve q.app q.id) p.base
  if q.ranged then q.ps == 0 || (rx == 0 && ry == 0) else q.ps == 0 || rx == 0 || ry == 0

def setDepStatus (s : State) (a p i : Nat) (st : RStatus) : State :=
  { s with deps := modBy (isDep a p i) (fun r => { r with status := st }) s.deps }

def setWdrStatus (s : State) (a p i : Nat) (st : RStatus) : State :=
  { s with wdrs := modBy (isWdr a p i) (fun r => { r with status := st }) s.wdrs }

/-- `FinishDepositRequest` with nothing accepted: refund everything, status failed. -/
def failDep (s : State) (r : DepReq) : Option State :=
  match s.send .gEscrow (.user r.owner) r.qd r.dx with
  | none => none
  | some s1 =>
    match s1.send .gEscrow (.user r.owner) r.bd r.dy with
    | none => none
    | some s2 => some (setDepStatus s2 r.app r.pool r.id .failed)

/-- `ExecuteDepositRequest` (pool.go:493-544); `(ax, ay, pc)` = result of `amm.Deposit`. -/
def execDeposit (s : State) (a pl i : Nat) (ax ay pc : Nat) : Option State :=
  match findBy (isDep a pl i) s.deps with
  | none => none
  | some r =>
    if r.status ≠ .pending then some s else
    match s.pool? a pl with
    | none => none
    | some q =>
      if q.disabled then failDep s r else
      match s.pair? a q.pair with
      | none => none
      | some p =>
        if depleted s p q then failDep (s.modPool a pl fun q => { q with disabled := true }) r else
        if pc = 0 then failDep s r else
        if r.dx < ax ∨ r.dy < ay then none else        -- `DepositCoins.Sub(AcceptedCoins)` would panic
        let s1 := s.mint a pl pc
        match s1.send .gEscrow (.reserve a pl) r.qd ax with
        | none => none
        | some s2 =>
          match s2.send .gEscrow (.reserve a pl) r.bd ay with
          | none => none
          | some s3 =>
            match s3.send .module (.user r.owner) (.pool a pl) pc with
            | none => none
            | some s4 =>
              match s4.send .gEscrow (.user r.owner) r.qd (r.dx - ax) with
              | none => none
              | some s5 =>
                match s5.send .gEscrow (.user r.owner) r.bd (r.dy - ay) with
                | none => none
                | some s6 =>
                  let ds := modBy (isDep a pl i) (fun r => { r with status := .succeeded, ax := ax, ay := ay, minted := pc }) s6.deps
                  some { s6 with deps := ds }

def failWdr (s : State) (r : WdrReq) : Option State :=
  match s.send .gEscrow (.user r.owner) (.pool r.app r.pool) r.pc with
  | none => none
  | some s1 => some (setWdrStatus s1 r.app r.pool r.id .failed)

/-- `ExecuteWithdrawRequest` (pool.go:579-637); `(x, y)` = result of `amm.Withdraw`. -/
def execWithdraw (s : State) (a pl i : Nat) (x y : Nat) : Option State :=
  match findBy (isWdr a pl i) s.wdrs with
  | none => none
  | some r =>
    if r.status ≠ .pending then some s else
    match s.pool? a pl with
    | none => none
    | some q =>
      if q.disabled then failWdr s r else
      match s.pair? a q.pair with
      | none => none
      | some p =>
        if depleted s p q then failWdr (s.modPool a pl fun q => { q with disabled := true }) r else
        if x = 0 ∧ y = 0 then failWdr s r else
        match s.send .gEscrow .module (.pool a pl) r.pc with
        | none => none
        | some s1 =>
          match s1.send (.reserve a pl) (.user r.owner) p.quote x with
          | none => none
          | some s2 =>
            match s2.send (.reserve a pl) (.user r.owner) p.base y with
            | none => none
            | some s3 =>
              match s3.burn a pl r.pc with
              | none => none
              | some s4 =>
                let s5 := if r.pc = q.ps then s4.modPool a pl fun q => { q with disabled := true } else s4
                some { s5 with wdrs := modBy (isWdr a pl i) (fun r => { r with status := .succeeded, wx := x, wy := y }) s5.wdrs }

/-! ## Farming (rewards.go:309-528) -/

def qTotal : List (Nat × Int) → Nat
  | [] => 0
  | q :: t => q.1 + qTotal t

/-- the unfarm loop over the queue from the newest entry backwards (rewards.go:411-423): returns the queue
with reduced amounts and what is still to be taken from the active position. -/
def deduct : List (Nat × Int) → Nat → List (Nat × Int) × Nat
  | [], r => ([], r)
  | q :: t, r =>
    let (t', r1) := deduct t r
    if r1 = 0 then (q :: t', 0)
    else if r1 ≤ q.1 then ((q.1 - r1, q.2) :: t', 0)
    else ((0, q.2) :: t', r1 - q.1)

/-- rewards.go:425-432: keep entries up to the first zero one -/
def keepNonzero : List (Nat × Int) → List (Nat × Int)
  | [] => []
  | q :: t => if q.1 = 0 then [] else q :: keepNonzero t

def farm (cfg : Cfg) (s : State) (app user pool amt : Nat) (ext : Bool) : Option State :=
  if pool = 0 ∨ app = 0 ∨ amt = 0 then none else
  match cfg.app? app with
  | none => none
  | some _ =>
    match s.pool? app pool with
    | none => none
    | some _ =>
      if !ext then none else                                     -- pool coin denom matches
      match s.send (.user user) .module (.pool app pool) amt with
      | none => none
      | some s1 =>
        match findBy (isFarmer app pool user) s1.farmers with
        | some _ =>
          let fs := modBy (isFarmer app pool user) (fun f => { f with queued := f.queued ++ [(amt, s.now)] }) s1.farmers
          some { s1 with farmers := fs }
        | none =>
          let f : Farmer := { app := app, pool := pool, owner := user, queued := [(amt, s.now)], active := 0 }
          some { s1 with farmers := s1.farmers ++ [f] }

def unfarm (cfg : Cfg) (s : State) (app user pool amt : Nat) (ext : Bool) : Option State :=
  if pool = 0 ∨ app = 0 ∨ amt = 0 then none else
  match cfg.app? app with
  | none => none
  | some _ =>
    match s.pool? app pool with
    | none => none
    | some _ =>
      if !ext then none else
      match findBy (isFarmer app pool user) s.farmers with
      | none => none
      | some f =>
        if qTotal f.queued + f.active < amt then none else
        let (q', r) := deduct f.queued amt
        if f.active < r then none else
        match s.send .module (.user user) (.pool app pool) amt with
        | none => none
        | some s1 =>
          let fs := modBy (isFarmer app pool user) (fun f => { f with queued := keepNonzero q', active := f.active - r }) s1.farmers
          some { s1 with farmers := fs }

/-- `ProcessQueuedFarmers` for one farmer record -/
def activate (dur now : Int) (f : Farmer) : Farmer :=
  let keep := f.queued.filter fun q => now < q.2 + dur
  let go := f.queued.filter fun q => !(now < q.2 + dur)
  { f with queued := keep, active := f.active + qTotal go }

def processQueued (cfg : Cfg) (s : State) (app : Nat) : State :=
  { s with farmers := s.farmers.map fun f => if f.app == app then activate cfg.queueDur s.now f else f }

/-- `DepositAndFarm` (pool.go:863-889) -/
def depositAndFarm (cfg : Cfg) (s : State) (app user pool dx dy ax ay pc : Nat) (ext : Bool) : Option State :=
  match depositReq cfg s app user pool dx dy ext with
  | none => none
  | some (s1, id) =>
    match execDeposit s1 app pool id ax ay pc with
    | none => none
    | some s2 =>
      match findBy (isDep app pool id) s2.deps with
      | none => none
      | some r =>
        if r.status ≠ .succeeded ∨ pc = 0 then none else
        farm cfg s2 app user pool pc true

/-- `UnfarmAndWithdraw` (pool.go:917-944) -/
def unfarmAndWithdraw (cfg : Cfg) (s : State) (app user pool amt x y : Nat) (ext : Bool) : Option State :=
  match unfarm cfg s app user pool amt ext with
  | none => none
  | some s1 =>
    match withdrawReq cfg s1 app user pool amt true with
    | none => none
    | some (s2, id) => execWithdraw s2 app pool id x y

/-! ## Batch execution (batch.go, swap.go:606-823) -/

structure Fill where
  id : Nat
  buy : Bool
  paid : Nat
  recv : Nat
  matched : Nat
  deriving Repr, BEq

structure PoolFlow where
  pool : Nat
  buy : Bool
  paid : Nat
  recv : Nat
  deriving Repr, BEq

structure MatchIn where
  pair : Nat
  fills : List Fill
  pools : List PoolFlow
  dust : Nat
  last : Option Nat := none    -- the match price (`pair.LastPrice = &matchPrice` when matched); `none` = nothing matched
  deriving Repr, BEq

structure DepIn where
  pool : Nat
  id : Nat
  ax : Nat
  ay : Nat
  pc : Nat
  deriving Repr, BEq

structure WdrIn where
  pool : Nat
  id : Nat
  x : Nat
  y : Nat
  deriving Repr, BEq

/-- ExecuteMatching, first loop (swap.go:613-637), one order -/
def prePass (cfg : Cfg) (s : State) (k : OKey) : Option State :=
  match s.order? k with
  | none => none
  | some o =>
    match o.status with
    | .notExecuted => some (s.modO k fun o => { o with status := .notMatched })
    | .notMatched | .partially =>
      if o.expireAt ≤ s.now then finishOrder cfg s k .expired else some s
    | .canceled => some s
    | _ => none                                         -- "invalid order status"

def markDepleted (s : State) (p : Pair) : State :=
  { s with pools := s.pools.map fun q =>
      if q.app == p.app && q.pair == p.id && !q.disabled && depleted s p q then { q with disabled := true } else q }

def poolPayIn (p : Pair) (s : State) (f : PoolFlow) : Option State :=
  let d := sideIn p f.buy
  match s.send (.reserve p.app f.pool) (.pairEscrow p.app p.id) d f.paid with
  | none => none
  | some s1 => some (s1.credit (.mIn p.app p.id) d f.paid)

def poolPayOut (p : Pair) (s : State) (f : PoolFlow) : Option State :=
  let d := sideOut p f.buy
  match s.send (.pairEscrow p.app p.id) (.reserve p.app f.pool) d f.recv with
  | none => none
  | some s1 => some (s1.credit (.mOut p.app p.id) d f.recv)

/-- ApplyMatchResult, user order (swap.go:744-761) without the queued pay-out -/
def fillOrder (cfg : Cfg) (p : Pair) (s : State) (f : Fill) : Option State :=
  let k : OKey := (p.app, p.id, f.id)
  match s.order? k with
  | none => none
  | some o =>
    if !o.status.live ∨ o.od ≠ sideIn p f.buy ∨ o.remaining < f.paid ∨ o.openAmt < f.matched then none else
    let s1 := (s.modO k fun o => { o with openAmt := o.openAmt - f.matched, remaining := o.remaining - f.paid,
                                           received := o.received + f.recv, status := .partially }).credit
                (.mIn p.app p.id) (sideIn p f.buy) f.paid
    if o.openAmt - f.matched = 0 then finishOrder cfg s1 k .completed else some s1

/-- the queued `SendCoins(escrow → orderer, received)` -/
def fillPayOut (p : Pair) (s : State) (f : Fill) : Option State :=
  let k : OKey := (p.app, p.id, f.id)
  match s.order? k with
  | none => none
  | some o =>
    match s.send (.pairEscrow p.app p.id) (.user o.owner) (sideOut p f.buy) f.recv with
    | none => none
    | some s1 => some (s1.credit (.mOut p.app p.id) (sideOut p f.buy) f.recv)

def applyMatch (cfg : Cfg) (s : State) (p : Pair) (m : MatchIn) : Option State :=
  match foldOpt (poolPayIn p) s m.pools with
  | none => none
  | some s1 =>
    match foldOpt (fillOrder cfg p) s1 m.fills with
    | none => none
    | some s2 =>
      match foldOpt (fillPayOut p) s2 m.fills with
      | none => none
      | some s3 =>
        match foldOpt (poolPayOut p) s3 m.pools with
        | none => none
        | some s4 =>
          match s4.send (.pairEscrow p.app p.id) (.dust p.app) p.quote m.dust with
          | none => none
          | some s5 => some (s5.credit (.mOut p.app p.id) p.quote m.dust)

def emptyMatch (pair : Nat) : MatchIn := { pair := pair, fills := [], pools := [], dust := 0 }

def execMatching (cfg : Cfg) (ms : List MatchIn) (s : State) (pk : Nat × Nat) : Option State :=
  match s.pair? pk.1 pk.2 with
  | none => none
  | some p =>
    let ks := (s.orders.filter fun o => o.app == p.app && o.pair == p.id).map (·.key)
    match foldOpt (prePass cfg) s ks with
    | none => none
    | some s1 =>
      let s2 := markDepleted s1 p
      let m := (ms.find? (·.pair == p.id)).getD (emptyMatch p.id)
      match applyMatch cfg s2 p m with
      | none => none
      | some s3 => some (s3.modPair p.app p.id fun q =>
          { q with curBatch := q.curBatch + 1, lastPrice := match m.last with | some x => some x | none => q.lastPrice })

/-- batch.go:21-36: expiry and too-small sweep, one order -/
def sweep (cfg : Cfg) (s : State) (k : OKey) : Option State :=
  match s.order? k with
  | none => none
  | some o =>
    if o.status.live ∧ o.expireAt ≤ s.now then finishOrder cfg s k .expired
    else if tooSmall o.openAmt o.price then finishOrder cfg s k .expired
    else some s

def execDepStep (ins : List DepIn) (s : State) (k : Nat × Nat × Nat) : Option State :=
  let i := (ins.find? fun x => x.pool == k.2.1 && x.id == k.2.2).getD { pool := k.2.1, id := k.2.2, ax := 0, ay := 0, pc := 0 }
  execDeposit s k.1 k.2.1 k.2.2 i.ax i.ay i.pc

def execWdrStep (ins : List WdrIn) (s : State) (k : Nat × Nat × Nat) : Option State :=
  let i := (ins.find? fun x => x.pool == k.2.1 && x.id == k.2.2).getD { pool := k.2.1, id := k.2.2, x := 0, y := 0 }
  execWithdraw s k.1 k.2.1 k.2.2 i.x i.y

/-- keys of a store iteration: every key once (`IterateAllPairs` walks a KV store, whose keys are unique) -/
def dedupKeys : List (Nat × Nat) → List (Nat × Nat)
  | [] => []
  | x :: t => if x ∈ dedupKeys t then dedupKeys t else x :: dedupKeys t

/-- `ExecuteRequests` + `ProcessQueuedFarmers` for one app (abci.go EndBlocker body) -/
def endBlock (cfg : Cfg) (s : State) (app : Nat) (ms : List MatchIn) (dins : List DepIn) (wins : List WdrIn) :
    Option State :=
  match cfg.app? app with
  | none => none
  | some ac =>
    if s.height % ac.batchSize ≠ 0 then some s else
    let pks := dedupKeys ((s.pairs.filter (·.app == app)).map fun p => (p.app, p.id))
    match foldOpt (execMatching cfg ms) s pks with
    | none => none
    | some s1 =>
      match foldOpt (sweep cfg) s1 ((s1.orders.filter (·.app == app)).map (·.key)) with
      | none => none
      | some s2 =>
        match foldOpt (execDepStep dins) s2 ((s2.deps.filter (·.app == app)).map fun r => (r.app, r.pool, r.id)) with
        | none => none
        | some s3 =>
          match foldOpt (execWdrStep wins) s3 ((s3.wdrs.filter (·.app == app)).map fun r => (r.app, r.pool, r.id)) with
          | none => none
          | some s4 => some (processQueued cfg s4 app)

/-- `DeleteOutdatedRequests` (BeginBlocker) for one app -/
def beginBlock (s : State) (app : Nat) : State :=
  { s with deps := s.deps.filter fun r => !(r.app == app && r.status != .pending),
           wdrs := s.wdrs.filter fun r => !(r.app == app && r.status != .pending),
           orders := s.orders.filter fun o => !(o.app == app && !o.status.live) }

/-! ## Store migration 1 → 2 (keeper/migrations.go, legacy/v2/store.go) -/

/-- representable in the consensus-version-1 store layout (`legacy/v1`): orders have no type field (market-making orders and
their index came with version 2) and there are no ranged pools -/
def V1Store (s : State) : Prop := (∀ o ∈ s.orders, o.typ ≠ .mm) ∧ s.mm = [] ∧ (∀ q ∈ s.pools, q.ranged = false)

instance (s : State) : Decidable (V1Store s) := by unfold V1Store; infer_instance

/-- `Migrator.Migrate1to2` = `legacy/v2.MigrateStore`, registered in module.go as the consensus-version 1 → 2 migration: for
every app the generic params are re-encoded (the three fields new in version 2 get the defaults — `Cfg` holds the
post-migration values), every pool record becomes `Type = basic`, every order record is copied field by field
(offer coin, REMAINING offer coin, received coin, price, amount, open amount, batch id, expiry, status) and gets `Type = limit`
("no way to determine whether the order was made through MsgLimitOrder or MsgMarketOrder").  Nothing else is touched: no
bank movement, pairs, requests and farmers stay.  Defined on version-1 stores. -/
def migrate (cfg : Cfg) (s : State) : Option State :=
  if V1Store s then
    some { s with
      orders := s.orders.map fun o => if (cfg.app? o.app).isSome then { o with typ := .limit } else o,
      pools := s.pools.map fun q => if (cfg.app? q.app).isSome then { q with ranged := false } else q }
  else none

/-! ## Operations -/

inductive Op where
  | block (height : Nat) (now : Int)
  | createPair (app creator : Nat) (base quote : Denom) (ext : Bool)
  | createPool (app creator pair : Nat) (ranged : Bool) (dx dy ammPs : Nat) (ext : Bool)
  | deposit (app user pool dx dy : Nat) (ext : Bool)
  | withdraw (app user pool pc : Nat) (ext : Bool)
  | order (app user pair : Nat) (typ : OType) (buy : Bool) (od dd : Denom) (msgOffer msgPrice amount : Nat) (lifespan : Int)
  | mmOrder (app user pair : Nat) (maxSell minSell sellAmt maxBuy minBuy buyAmt : Nat) (lifespan : Int)
  | cancel (app user pair id : Nat)
  | cancelAll (app user : Nat) (pairs : List Nat)
  | cancelMM (app user pair : Nat)
  | farm (app user pool amt : Nat) (ext : Bool)
  | unfarm (app user pool amt : Nat) (ext : Bool)
  | depositAndFarm (app user pool dx dy ax ay pc : Nat) (ext : Bool)
  | unfarmAndWithdraw (app user pool amt x y : Nat) (ext : Bool)
  | endBlock (app : Nat) (ms : List MatchIn) (dins : List DepIn) (wins : List WdrIn)
  | beginBlock (app : Nat)
  | migrate
  deriving Repr

/-- one message / block hook; `none` = rejected (the state is then left as it was, see `stepT`) -/
def step (cfg : Cfg) (s : State) : Op → Option State
  | .block h t => some { s with height := h, now := t }
  | .createPair a c b q e => createPair cfg s a c b q e
  | .createPool a c p r dx dy ps e => createPool cfg s a c p r dx dy ps e
  | .deposit a u p dx dy e => (depositReq cfg s a u p dx dy e).map (·.1)
  | .withdraw a u p pc e => (withdrawReq cfg s a u p pc e).map (·.1)
  | .order a u p t b od dd mo mp am l => placeOrderMsg cfg s a u p t b od dd mo mp am l
  | .mmOrder a u p xs ns sa xb nb ba l => mmOrderMsg cfg s a u p xs ns sa xb nb ba l
  | .cancel a u p i => cancelOrder cfg s a u p i
  | .cancelAll a u ps => cancelAll cfg s a u ps
  | .cancelMM a u p => cancelMM cfg s a u p
  | .farm a u p n e => farm cfg s a u p n e
  | .unfarm a u p n e => unfarm cfg s a u p n e
  | .depositAndFarm a u p dx dy ax ay pc e => depositAndFarm cfg s a u p dx dy ax ay pc e
  | .unfarmAndWithdraw a u p n x y e => unfarmAndWithdraw cfg s a u p n x y e
  | .endBlock a ms ds ws => endBlock cfg s a ms ds ws
  | .beginBlock a => some (beginBlock s a)
  | .migrate => migrate cfg s

/-- what the chain does: a rejected message / a failed block hook leaves the state untouched
(CacheContext written back only on success; `ApplyFuncIfNoError`). -/
def stepT (cfg : Cfg) (s : State) (op : Op) : State := (step cfg s op).getD s

def runT (cfg : Cfg) (s : State) (ops : List Op) : State := ops.foldl (stepT cfg) s

/-- genesis: users hold arbitrary coins, nothing else exists -/
def genesis (funds : List (Nat × Nat × Nat)) : State :=
  { bank := funds.foldl (fun b f => b.add (.user f.1) (.coin f.2.1) f.2.2) [] }

/-! ## The invariants as decidable sums (also evaluated by the driver on the REAL state projection) -/

def sumOver (F : α → Nat) : List α → Nat
  | [] => 0
  | x :: t => F x + sumOver F t

def rateOf (cfg : Cfg) (a : Nat) : Nat := ((cfg.app? a).map (·.feeRate)).getD 0

def depTerm (d : Denom) (r : DepReq) : Nat :=
  if r.status = .pending then (if r.qd = d then r.dx else 0) + (if r.bd = d then r.dy else 0) else 0
def wdrTerm (d : Denom) (r : WdrReq) : Nat :=
  if r.status = .pending ∧ Denom.pool r.app r.pool = d then r.pc else 0
def remTerm (a p : Nat) (d : Denom) (o : Order) : Nat :=
  if o.app = a ∧ o.pair = p ∧ o.od = d ∧ o.status.live = true then o.remaining else 0
def liveTerm (cfg : Cfg) (a p : Nat) (d : Denom) (o : Order) : Nat :=
  if o.app = a ∧ o.pair = p ∧ o.od = d ∧ o.status.live = true then o.remaining + feeRes (rateOf cfg o.app) o else 0
def farmTerm (a p : Nat) (f : Farmer) : Nat :=
  if f.app = a ∧ f.pool = p then qTotal f.queued + f.active else 0

/-- coins of pending deposit requests, in denom `d` -/
def depSum (d : Denom) (l : List DepReq) : Nat := sumOver (depTerm d) l
/-- pool coins of pending withdrawal requests -/
def wdrSum (d : Denom) (l : List WdrReq) : Nat := sumOver (wdrTerm d) l
/-- remaining offer coins of the live orders of a pair, in denom `d` -/
def remSum (a p : Nat) (d : Denom) (l : List Order) : Nat := sumOver (remTerm a p d) l
/-- remaining offer coins plus escrowed fee reserves of the live orders of a pair -/
def liveSum (cfg : Cfg) (a p : Nat) (d : Denom) (l : List Order) : Nat := sumOver (liveTerm cfg a p d) l
/-- pool coins recorded as farmed (queued + active) for a pool -/
def farmSum (a p : Nat) (l : List Farmer) : Nat := sumOver (farmTerm a p) l

/-! ## The conservation law of an observed match result (hypothesis of `pair_escrow_ge_orders`, also evaluated by the driver) -/

/-- what the observed result of one batch of one pair took in / handed out, quote side and base side -/
def inQ (m : MatchIn) : Nat :=
  sumOver (fun f : PoolFlow => if f.buy then f.paid else 0) m.pools + sumOver (fun f : Fill => if f.buy then f.paid else 0) m.fills
def inB (m : MatchIn) : Nat :=
  sumOver (fun f : PoolFlow => if f.buy then 0 else f.paid) m.pools + sumOver (fun f : Fill => if f.buy then 0 else f.paid) m.fills
def outQ (m : MatchIn) : Nat :=
  sumOver (fun f : Fill => if f.buy then 0 else f.recv) m.fills + sumOver (fun f : PoolFlow => if f.buy then 0 else f.recv) m.pools + m.dust
def outB (m : MatchIn) : Nat :=
  sumOver (fun f : Fill => if f.buy then f.recv else 0) m.fills + sumOver (fun f : PoolFlow => if f.buy then f.recv else 0) m.pools

/-- The conservation law of a match result (C05: base conserved, quote conserved up to the dust that goes to the
dust collector): nothing is handed out that was not paid in. -/
def MatchConserving (m : MatchIn) : Prop := outQ m ≤ inQ m ∧ outB m ≤ inB m

instance (m : MatchIn) : Decidable (MatchConserving m) := by unfold MatchConserving; infer_instance

def OpConserving : Op → Prop
  | .endBlock _ ms _ _ => ∀ m ∈ ms, MatchConserving m
  | _ => True

end Comdex.LiqLedger
