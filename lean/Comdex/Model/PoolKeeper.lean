import Comdex.Model.Pool
/-!
# Model of the KEEPER level of pool deposits and withdrawals (`x/liquidity/keeper/pool.go`, `batch.go`)

What property C06 says about `amm.Deposit` / `amm.Withdraw` (Model/Pool.lean) reaches a user only through the
keeper: `ExecuteDepositRequest` (pool.go:493-544), `FinishDepositRequest` (547-576), `ExecuteWithdrawRequest`
(579-637), `FinishWithdrawRequest` (640-669), called from the end-block batch (`ExecuteRequests`, batch.go:11-55:
all pending deposit requests of the app in store order, then all pending withdraw requests) and, inside one
transaction, from `DepositAndFarm` (863-889) and `UnfarmAndWithdraw` (917-944).  This file models WHICH values
the keeper passes to the pool arithmetic and WHAT it moves afterwards:

* the reserves are the spendable bank balances of the pool's reserve address in the pair's quote / base denom
  (`getPoolBalances`), the supply is the bank supply of the pool coin (`GetPoolCoinSupply`), the fee is the app's
  generic parameter `WithdrawFeeRate` (`GetGenericParams`) — `KPool.rx/ry/ps`, `fee`;
* `pool.AMMPool(rx, ry, ps)` is built only for `IsDepleted()`; for a ranged pool it runs `DeriveTranslation`, which is
  NOT wrapped in `SafeMath`: any failure there is a Go panic (`isDepleted = none`);
* transfers: accepted coins GlobalEscrow → reserve, minted pool coin module → depositor, refund GlobalEscrow →
  depositor (`DepOut`); withdrawn coins reserve → withdrawer, pool coin GlobalEscrow → module and burnt, refund of
  the pool coin on failure (`WdrOut`); request status; `MarkPoolAsDisabled` (depleted pool / last share).

`none` = the execution does not return normally (Go panic or a returned error): in the batch the whole
`ExecuteRequests` of the app is rolled back by `ApplyFuncIfNoError`, in a transaction the message fails.

Core Lean only (linked into the driver executable).
-/
namespace Comdex.PoolKeeper
open Comdex Comdex.Pool

/-- `amm.MaxCoinAmount` = 10^40 (amm/params.go) -/
def maxCoinAmount : Int := 10000000000000000000000000000000000000000

/-- one pool as the keeper sees it: the stored record (type, range, disabled) and the bank view -/
structure KPool where
  id : Nat
  ranged : Bool
  minP : Dec
  maxP : Dec
  disabled : Bool
  rx : Int        -- spendable balance of the reserve address, pair's QUOTE denom
  ry : Int        -- … BASE denom
  ps : Int        -- bank supply of the pool coin
  deriving DecidableEq, Repr

inductive Status where
  | succeeded
  | failed
  deriving DecidableEq, Repr

/-- `pool.AMMPool(rx, ry, ps).IsDepleted()` (types/pool.go:137-146, amm/pool.go:92-95, 338-341).
`none`: `NewRangedPool` → `DeriveTranslation` panicked (not inside `SafeMath`). -/
def isDepleted (p : KPool) : Option Bool :=
  if p.ranged then
    match newRangedPool p.rx p.ry p.ps p.minP p.maxP with
    | .ok _ => some (decide (p.ps = 0 ∨ (p.rx = 0 ∧ p.ry = 0)))
    | .error _ => none
  else some (decide (p.ps = 0 ∨ p.rx = 0 ∨ p.ry = 0))

/-! ## Deposit request -/

/-- what `ExecuteDepositRequest` + `FinishDepositRequest` did for a request offering `(x, y)` -/
structure DepOut where
  status : Status
  ax : Int           -- accepted quote coin: GlobalEscrow → reserve address
  ay : Int           -- accepted base coin
  mint : Int         -- minted pool coin: module account → depositor
  rfx : Int          -- refunded quote coin: GlobalEscrow → depositor
  rfy : Int          -- refunded base coin
  disable : Bool     -- `MarkPoolAsDisabled` was called
  deriving DecidableEq, Repr

/-- a failed deposit request: everything offered is refunded, nothing else moves -/
def depFail (x y : Int) (dis : Bool) : DepOut :=
  { status := .failed, ax := 0, ay := 0, mint := 0, rfx := x, rfy := y, disable := dis }

/-- `ExecuteDepositRequest` on pool `p` for a pending request with deposit coins `(x, y)` (quote, base). -/
def execDeposit (p : KPool) (x y : Int) : Option DepOut :=
  if p.disabled then some (depFail x y false)                       -- pool.go:495-500
  else match isDepleted p with                                      -- 502-506
    | none => none
    | some true => some (depFail x y true)                          -- 506-512
    | some false =>
      match deposit p.rx p.ry p.ps x y with                         -- 514: reserves, supply, the request's coins
      | none => none
      | some (ax, ay, pc) =>
        if pc = 0 then some (depFail x y false)                     -- 516-521
        else if pc < 0 ∨ ax < 0 ∨ ay < 0 then none                  -- `sdk.NewCoin` panics on a negative amount
        else if x < ax ∨ y < ay then none                           -- `DepositCoins.Sub(AcceptedCoins...)` panics
        else some { status := .succeeded, ax := ax, ay := ay, mint := pc,
                    rfx := x - ax, rfy := y - ay, disable := false }

/-- the pool after the transfers of a deposit execution -/
def applyDep (p : KPool) (o : DepOut) : KPool :=
  { p with rx := p.rx + o.ax, ry := p.ry + o.ay, ps := p.ps + o.mint, disabled := p.disabled || o.disable }

/-! ## Withdraw request -/

/-- what `ExecuteWithdrawRequest` + `FinishWithdrawRequest` did for a request redeeming `pc` pool coins -/
structure WdrOut where
  status : Status
  x : Int            -- withdrawn quote coin: reserve address → withdrawer
  y : Int            -- withdrawn base coin
  burn : Int         -- pool coin GlobalEscrow → module account, burnt
  rfpc : Int         -- refunded pool coin: GlobalEscrow → withdrawer
  disable : Bool
  deriving DecidableEq, Repr

def wdrFail (pc : Int) (dis : Bool) : WdrOut :=
  { status := .failed, x := 0, y := 0, burn := 0, rfpc := pc, disable := dis }

/-- `ExecuteWithdrawRequest` on pool `p` with the app's `WithdrawFeeRate = fee` for a request of `pc` pool coins. -/
def execWithdraw (fee : Dec) (p : KPool) (pc : Int) : Option WdrOut :=
  if p.disabled then some (wdrFail pc false)                        -- pool.go:585-591
  else match isDepleted p with                                      -- 593-597
    | none => none
    | some true => some (wdrFail pc true)                           -- 597-603
    | some false =>
      match withdraw p.rx p.ry p.ps pc fee with                     -- 605: reserves, supply, request, params fee
      | none => none
      | some (x, y) =>
        if x = 0 ∧ y = 0 then some (wdrFail pc false)               -- 606-611
        else if x < 0 ∨ y < 0 then none                             -- `sdk.NewCoin` panics
        else if p.rx < x ∨ p.ry < y then none                       -- bank: insufficient funds in the reserve
        else some { status := .succeeded, x := x, y := y, burn := pc, rfpc := 0,
                    disable := decide (pc = p.ps) }                 -- 627-630: supply becomes 0 ⇒ disabled

def applyWdr (p : KPool) (o : WdrOut) : KPool :=
  { p with rx := p.rx - o.x, ry := p.ry - o.y, ps := p.ps - o.burn, disabled := p.disabled || o.disable }

/-! ## The pools of one app; the end-block batch -/

def findPool (pools : List KPool) (id : Nat) : Option KPool := pools.find? (fun p => p.id = id)

def setPool (pools : List KPool) (q : KPool) : List KPool := pools.map (fun p => if p.id = q.id then q else p)

structure DepReq where
  pool : Nat
  id : Nat
  owner : Nat
  x : Int
  y : Int
  deriving DecidableEq, Repr

structure WdrReq where
  pool : Nat
  id : Nat
  owner : Nat
  pc : Int
  deriving DecidableEq, Repr

/-- the deposit loop of `ExecuteRequests` (batch.go:34-43): pending requests in store order, each on the state
left by the previous one -/
def runDeposits (pools : List KPool) : List DepReq → Option (List KPool × List DepOut)
  | [] => some (pools, [])
  | r :: rs =>
    match findPool pools r.pool with
    | none => none
    | some p =>
      match execDeposit p r.x r.y with
      | none => none
      | some o =>
        match runDeposits (setPool pools (applyDep p o)) rs with
        | none => none
        | some (ps', os) => some (ps', o :: os)

/-- the withdraw loop of `ExecuteRequests` (batch.go:44-53) -/
def runWithdraws (fee : Dec) (pools : List KPool) : List WdrReq → Option (List KPool × List WdrOut)
  | [] => some (pools, [])
  | r :: rs =>
    match findPool pools r.pool with
    | none => none
    | some p =>
      match execWithdraw fee p r.pc with
      | none => none
      | some o =>
        match runWithdraws fee (setPool pools (applyWdr p o)) rs with
        | none => none
        | some (ps', os) => some (ps', o :: os)

/-- the request part of `ExecuteRequests`: deposits first, then withdrawals (after the matching, whose effect on the
reserves is an input of the step). `none` = a panic / error ⇒ `ApplyFuncIfNoError` discards the app's whole batch. -/
def execRequests (fee : Dec) (pools : List KPool) (deps : List DepReq) (wdrs : List WdrReq) :
    Option (List KPool × List DepOut × List WdrOut) :=
  match runDeposits pools deps with
  | none => none
  | some (p1, dos) =>
    match runWithdraws fee p1 wdrs with
    | none => none
    | some (p2, wos) => some (p2, dos, wos)

/-! ## The message level -/

/-- `ValidateMsgDeposit` (pool.go:365-396) + the escrow transfer of `Deposit` (409): is the request stored?
`bx, by`: the depositor's wallet. -/
def msgDepositOk (pools : List KPool) (pool : Nat) (bx bY x y : Int) : Bool :=
  match findPool pools pool with
  | none => false
  | some p => !p.disabled && decide (p.rx + x ≤ maxCoinAmount) && decide (p.ry + y ≤ maxCoinAmount)
              && decide (x ≤ bx) && decide (y ≤ bY)

/-- `ValidateMsgWithdraw` (435-454) + the escrow transfer (468); `bpc` the withdrawer's pool coin balance -/
def msgWithdrawOk (pools : List KPool) (pool : Nat) (bpc pc : Int) : Bool :=
  match findPool pools pool with
  | none => false
  | some p => !p.disabled && decide (0 < pc) && decide (pc ≤ bpc)

/-- `DepositAndFarm` (863-889): the deposit request is created AND executed inside the message; the message fails
(everything rolled back) unless the request succeeded with a positive mint; the minted pool coin is then farmed
(module account). `none` = the message fails. -/
def depositAndFarm (pools : List KPool) (pool : Nat) (bx bY x y : Int) : Option (List KPool × DepOut) :=
  if msgDepositOk pools pool bx bY x y then
    match findPool pools pool with
    | none => none
    | some p =>
      match execDeposit p x y with
      | none => none
      | some o =>
        if o.status = .succeeded ∧ 0 < o.mint then some (setPool pools (applyDep p o), o) else none
  else none

/-- `UnfarmAndWithdraw` (917-944): unfarm `pc` (needs `farmed ≥ pc`, queued + active), create the withdraw request
(`ValidateMsgWithdraw`: pool not disabled) and execute it at once. A FAILED execution does not fail the message:
the farmer keeps the unfarmed pool coin. `none` = the message fails. -/
def unfarmAndWithdraw (fee : Dec) (pools : List KPool) (pool : Nat) (farmed pc : Int) : Option (List KPool × WdrOut) :=
  match findPool pools pool with
  | none => none
  | some p =>
    if pc ≤ 0 ∨ farmed < pc ∨ p.disabled then none
    else match execWithdraw fee p pc with
      | none => none
      | some o => some (setPool pools (applyWdr p o), o)

/-! ## Sequences of request executions on one pool (for the per-share theorem) -/

inductive Op where
  | dep (x y : Int)          -- a deposit request offering (x, y) is executed
  | wdr (pc : Int)           -- a withdraw request of pc pool coins is executed
  | donate (dx dy : Int)     -- coins sent to the reserve address from outside (bank send), dx, dy ≥ 0
  deriving DecidableEq, Repr

/-- one executed operation; `none` = the execution aborted (nothing happened) -/
def stepOp (fee : Dec) (p : KPool) : Op → Option KPool
  | .dep x y => (execDeposit p x y).map (applyDep p)
  | .wdr pc => (execWithdraw fee p pc).map (applyWdr p)
  | .donate dx dy => some { p with rx := p.rx + dx, ry := p.ry + dy }

/-- an aborted execution leaves the pool as it was (rolled back) -/
def stepOrStay (fee : Dec) (p : KPool) (o : Op) : KPool :=
  match stepOp fee p o with
  | some q => q
  | none => p

/-- a history of operations -/
def runOps (fee : Dec) (p : KPool) : List Op → KPool
  | [] => p
  | o :: os => runOps fee (stepOrStay fee p o) os

/-- number of deposit operations in a history (each may cost 10^-17 relative, see C06) -/
def depOps : List Op → Nat
  | [] => 0
  | .dep _ _ :: os => depOps os + 1
  | _ :: os => depOps os

/-! ## Decidable laws of the keeper level (evaluated by the driver on REAL values, proved in Props/C06) -/

/-- state invariant: balances and supply are non-negative -/
abbrev KInv (p : KPool) : Prop := 0 ≤ p.rx ∧ 0 ≤ p.ry ∧ 0 ≤ p.ps

/-- every offered coin is either accepted or refunded, the accepted part is within the offer -/
abbrev DepConserves (x y : Int) (o : DepOut) : Prop :=
  o.ax + o.rfx = x ∧ o.ay + o.rfy = y ∧ TakesAtMostOffered x o.ax ∧ TakesAtMostOffered y o.ay ∧ 0 ≤ o.mint

/-- a failed request moves nothing but the refund -/
abbrev DepFailedClean (o : DepOut) : Prop := o.status = .failed → o.ax = 0 ∧ o.ay = 0 ∧ o.mint = 0

abbrev WdrConserves (pc : Int) (o : WdrOut) : Prop :=
  o.burn + o.rfpc = pc ∧ 0 ≤ o.x ∧ 0 ≤ o.y ∧
  (o.status = .failed → o.x = 0 ∧ o.y = 0 ∧ o.burn = 0) ∧ (o.status = .succeeded → o.burn = pc)

/-- reserves per share of pool `q` are at least `(1 - 10^-17)^k` × those of pool `p`, denominators cleared -/
abbrev PerShareGe (k : Nat) (p q : KPool) : Prop :=
  (100000000000000000 - 1) ^ k * (p.rx * q.ps) ≤ 100000000000000000 ^ k * (q.rx * p.ps) ∧
  (100000000000000000 - 1) ^ k * (p.ry * q.ps) ≤ 100000000000000000 ^ k * (q.ry * p.ps)

end Comdex.PoolKeeper
