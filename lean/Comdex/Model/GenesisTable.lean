import Comdex.Model.Genesis
import Comdex.Gen.Genesis
/-! From the regenerated genesis facts of a module (`Comdex.Gen.Genesis.Module`, extracted from the Go source on every run)
to the model's `Table`, plus the list of statically visible gaps. Core Lean only (linked into the driver). -/
namespace Comdex.Genesis
open Comdex.Gen.Genesis (Module)

/-- a prefix is carried faithfully if some genesis field is filled from it by ExportGenesis and written back to it by
InitGenesis -/
def faithful (m : Module) (p : String) : Bool :=
  m.flows.any fun f => f.2.1.contains p && f.2.2.contains p

def computedRule : Comdex.Gen.Genesis.Rule → Option Rule
  | .stored _ => none
  | .maxId p => some (.maxId p)
  | .lastId p => some (.lastId p)
  | .count p => some (.count p)
  | .zero => some .zero
  | .notRestored => some .notRestored

def ruleName : Comdex.Gen.Genesis.Rule → String
  | .stored _ => "stored"
  | .maxId _ => "maxId"
  | .lastId _ => "lastId"
  | .count _ => "count"
  | .zero => "zero"
  | .notRestored => "notRestored"

/-- `<counter prefix>.<restoration rule>` — the identity of a counter in findings and monitor names: changing HOW a counter is
restored makes it a different finding -/
def counterTag (m : Module) (p : String) : String :=
  match m.counters.find? (fun c => c.pfx == p) with
  | some c => p ++ "." ++ ruleName c.rule
  | none => p

def computedCounters (m : Module) : List Counter :=
  m.counters.filterMap fun c => (computedRule c.rule).map fun r => ⟨c.pfx, r⟩

def isComputedCounter (m : Module) (p : String) : Bool := (computedCounters m).any fun c => c.pfx == p

def restoredOf (m : Module) : List String :=
  (m.defined.map (·.1)).filter fun p => faithful m p && !m.undecoded.contains p && !isComputedCounter m p

/-- index stores InitGenesis rebuilds: written by InitGenesis, never read by ExportGenesis, not a counter -/
def derivedOf (m : Module) : List String :=
  (m.defined.map (·.1)).filter fun p => m.initWritten.contains p && !m.exported.contains p && !isComputedCounter m p

/-- prefixes InitGenesis fills from records of a *different* prefix although ExportGenesis reads them as well (the model makes
no prediction about their content) -/
def garbledOf (m : Module) : List String :=
  (m.defined.map (·.1)).filter fun p => m.initWritten.contains p && m.exported.contains p && !faithful m p && !isComputedCounter m p

/-- prefixes about whose re-imported content the model makes no prediction: filled from another prefix's records, read without
decoding, written in / after an InitGenesis loop that silently returns on a rejected record, or written through a setter that
can refuse a record; and the counters recomputed
from such a prefix. (The round-trip monitors are evaluated on them like on every other prefix.) -/
def unspecifiedOf (m : Module) : List String :=
  let base := garbledOf m ++ m.undecoded ++ m.fragile ++ m.rejecting
  base ++ ((computedCounters m).filter fun c =>
    match c.rule with
    | .maxId p | .lastId p | .count p => base.contains p
    | _ => false).map (·.pfx)

def tableOf (m : Module) : Table :=
  { restored := restoredOf m, counters := computedCounters m, derived := derivedOf m }

/-! ## statically visible gaps (module, item) -/

/-- stores some keeper function writes but neither ExportGenesis reads nor InitGenesis rebuilds -/
def storeGaps (ms : List Module) : List (String × String) :=
  ms.flatMap fun m => (m.written.filter fun p => !m.exported.contains p && !m.initWritten.contains p).map fun p => (m.name, p)

/-- stores ExportGenesis reads but InitGenesis does not write back from the same genesis field, or reads without decoding -/
def importGaps (ms : List Module) : List (String × String) :=
  ms.flatMap fun m => (m.exported.filter fun p => !faithful m p || m.undecoded.contains p).map fun p => (m.name, p)

/-- id counters / length keys not restored from a stored genesis value -/
def counterGaps (ms : List Module) : List (String × String) :=
  ms.flatMap fun m => (computedCounters m).map fun c => (m.name, counterTag m c.pfx)

/-- stores InitGenesis writes although nothing is exported for them: not read by ExportGenesis and not rebuilt from a genesis
field that ExportGenesis fills from some store -/
def unsourcedGaps (ms : List Module) : List (String × String) :=
  ms.flatMap fun m => ((derivedOf m).filter fun p => !(m.flows.any fun f => f.2.2.contains p && !f.2.1.isEmpty)).map fun p => (m.name, p)

/-- stores whose import can stop silently half-way -/
def fragileGaps (ms : List Module) : List (String × String) :=
  ms.flatMap fun m => m.fragile.map fun p => (m.name, p)

/-- stores imported through a setter that can refuse individual records (the refused record is skipped) -/
def rejectGaps (ms : List Module) : List (String × String) :=
  ms.flatMap fun m => m.rejecting.map fun p => (m.name, p)

/-- a duplicate check of `GenesisState.Validate` is sound for records that are unique under their store key iff its key names no
component twice, every component of the store key is in it (or implied by the enclosing loops), and it names nothing else -/
def validateKeyOk (v : String × List String × List String × List String) : Bool :=
  let scope := v.2.1
  let val := v.2.2.1
  let store := v.2.2.2
  decide val.Nodup && store.all (fun x => scope.contains x || val.contains x) && val.all (fun x => store.contains x) && !store.isEmpty

/-- duplicate checks whose key does not match the store key: a state with two records that differ only in the omitted component
is exported fine and refused by the module's own ValidateGenesis / InitGenesis -/
def validateKeyGaps (ms : List Module) : List (String × String) :=
  ms.flatMap fun m => (m.validateKeys.filter fun v => !validateKeyOk v).map fun v => (m.name, v.1)

/-- genesis fields ExportGenesis fills and InitGenesis never looks at -/
def fieldGaps (ms : List Module) : List (String × String) :=
  ms.flatMap fun m => (m.genFields.filter fun f => !m.initFields.contains f).map fun f => (m.name, f)

/-! ## records constructed field by field on the export / import path (`Copy`)

An id field of such a record must be fed from the same-named id, or from the `Id` of the object it names (`PoolId` from `pool.Id`,
`AppId` from `app.Id` / `appID` / `appState.AppId`, `LastPairId` from `GetLastPairID(…)`) — never from another id of that object
(`pool.PairId`, `pool.AppId`). Names are compared word-wise (the extractor splits CamelCase: `PoolId` ↦ [pool, id]). -/
open Comdex.Gen.Genesis (Copy)

/-- the target is a single id (`Id`, `AppId`, `PoolId`, `LastPairId` …; id LISTS like `AssetIds` are not) -/
def copyIdLike (c : Copy) : Bool := c.targetW.getLast? == some "id"

/-- `x.F` feeds target `T` faithfully: same name, or `F = Id` and `x` (its variable name or its declared record type) names `T`'s object -/
def copySelOk (c : Copy) : Bool :=
  c.src == c.targetW ||
  (c.src == ["id"] && ((!c.base.isEmpty && c.base ++ ["id"] == c.targetW) || (!c.baseType.isEmpty && c.baseType ++ ["id"] == c.targetW)))

/-- does this source feed the id field it is written to faithfully? -/
def copyIdOk (c : Copy) : Bool :=
  if c.kind == "sel" then copySelOk c
  else if c.kind == "ident" then c.src == c.targetW
  else if c.kind == "call" then c.targetW.isSuffixOf c.src && !c.targetW.isEmpty
  else false

/-- id fields of field-by-field constructed records that are NOT fed from the same-named id of the same object -/
def idCopyGaps (ms : List Module) : List (String × String × String × String) :=
  ms.flatMap fun m => (m.copies.filter fun c => copyIdLike c && !copyIdOk c).map fun c => (m.name, c.fn, c.recType ++ "." ++ c.target, c.srcText)

/-- fields (of any kind) selected from another record's field of a DIFFERENT name -/
def nameCopyGaps (ms : List Module) : List (String × String × String × String) :=
  ms.flatMap fun m => (m.copies.filter fun c => c.kind == "sel" && !copySelOk c).map fun c => (m.name, c.fn, c.recType ++ "." ++ c.target, c.srcText)

end Comdex.Genesis
