import Comdex.Base.Dec
/-!
Model of the CDP vault message server (x/vault/keeper/msg_server.go, vault.go) as a ledger state machine.
Core Lean only.  Used by C01 (custody / totals), C02 (supply backed by principal), C03 (risk limits).

Accounts are `Nat`s: `vm` = vault module account, `cm` = collector module account, `am` = auctionsV2 module
account; user accounts are ≥ 10.  Denominations are asset ids.  A *product* is an extended pair vault together with
its pair and the two assets (static configuration, read by every handler).

What the handler reads from other modules is an explicit input of the step (`Env`, printed by the harness from the
real chain state at the moment of the call): emergency-shutdown / breaker flags, the oracle prices in force, and
the interest `iota` that `CalculateVaultInterest` accrues for the named vault at this block time (`none` = it
returns an error).  The ledger theorems hold for every value of these inputs.

A rejected message leaves no trace (message atomicity, DESIGN §3.3/§3.4), so a step is `State → Option State`
and only the *conjunction* of the guards matters, not their order.
-/
namespace Comdex.Vault
open Comdex

def vm : Nat := 0
def cm : Nat := 1
def am : Nat := 2
def em : Nat := 3          -- the x/esm module account (emergency redemption pool)

structure Product where
  id          : Nat
  app         : Nat
  denomIn     : Nat
  denomOut    : Nat
  decIn       : Int      -- asset.Decimals of the collateral asset (10^k)
  decOut      : Int
  minCr       : Dec
  debtFloor   : Int
  debtCeiling : Int
  drawDownFee : Dec
  closingFee  : Dec
  isStable    : Bool
  active      : Bool
  outOracle   : Bool     -- AssetOutOraclePrice
  outPrice    : Nat      -- AssetOutPrice (used when ¬outOracle)
  deriving Repr

structure Env where
  esm         : Bool := false        -- ESM executed for the app
  pastCoolOff : Bool := false        -- BlockTime after the ESM end time
  breaker     : Bool := false
  priceIn     : Option Nat := none   -- active price of the collateral asset (none = inactive / missing)
  priceOut    : Option Nat := none
  iota        : Option Int := some 0 -- interest accrued now for the named vault (none = accrual errors)
  deriving Repr

structure VaultRec where
  id         : Nat
  owner      : Nat
  product    : Nat
  amountIn   : Int
  amountOut  : Int
  interest   : Int
  closingFee : Int
  deriving Repr, DecidableEq

structure StableRec where
  id        : Nat
  product   : Nat
  amountIn  : Int
  amountOut : Int
  deriving Repr, DecidableEq

/-- a seized vault waiting for its auction to settle (liquidationsV2 locked vault) -/
structure LockedRec where
  vaultId   : Nat
  product   : Nat
  amountIn  : Int
  amountOut : Int          -- principal at seizure
  debt      : Int := 0     -- principal + interest + closing fee at seizure (what the auction must recover apart from the penalty)
  deriving Repr, DecidableEq

structure State where
  bal        : Nat → Nat → Int       -- account → denom → balance
  supply     : Nat → Int
  vaults     : List VaultRec         -- open vaults, ascending id (store order)
  stables    : List StableRec
  locked     : List LockedRec
  coll       : Nat → Int             -- product ↦ CollateralLockedAmount
  minted     : Nat → Int             -- product ↦ TokenMintedAmount
  vaultIds   : Nat → List Nat        -- product ↦ VaultIds
  nextVault  : Nat                   -- last assigned vault id
  nextStable : Nat
  length     : Int                   -- GetLengthOfVault
  unsolicited : Nat → Int            -- ghost: coins sent to the vault module account by plain bank sends
  extSupply  : Nat → Int             -- ghost: supply of a denom not backed by a vault record: minted outside the vault
                                     -- module, or moved from a redeemed vault to the emergency-redemption register
  redeem     : Nat → Nat → Int       -- app → denom ↦ debt registered for emergency redemption (x/esm AssetToAmount)

def State.init : State :=
  { bal := fun _ _ => 0, supply := fun _ => 0, vaults := [], stables := [], locked := [],
    coll := fun _ => 0, minted := fun _ => 0, vaultIds := fun _ => [], nextVault := 0, nextStable := 0,
    length := 0, unsolicited := fun _ => 0, extSupply := fun _ => 0, redeem := fun _ _ => 0 }

/-! ### bank -/

def upd2 (f : Nat → Nat → Int) (a d : Nat) (v : Int) : Nat → Nat → Int :=
  fun a' d' => if a' = a ∧ d' = d then v else f a' d'

def upd1 (f : Nat → Int) (k : Nat) (v : Int) : Nat → Int := fun k' => if k' = k then v else f k'

/-- the x/bank calls a handler makes, in order -/
inductive BankOp where
  | send (src dst d : Nat) (x : Int)      -- SendCoins*: fails on insufficient funds (and on a negative coin)
  | sendPos (src dst d : Nat) (x : Int)   -- the `if amt.GT(0) { send }` idiom
  | mint (d : Nat) (x : Int)              -- MintCoins to the vault module; a zero coin is rejected by the handler
  | burn (d : Nat) (x : Int)              -- BurnCoins from the vault module
  | burnPos (d : Nat) (x : Int)
  deriving Repr

def sendRaw (s : State) (src dst d : Nat) (x : Int) : Option State :=
  if x < 0 then none
  else if s.bal src d < x then none
  else
    let b1 := upd2 s.bal src d (s.bal src d - x)
    some { s with bal := upd2 b1 dst d (b1 dst d + x) }

def mintRaw (s : State) (d : Nat) (x : Int) : Option State :=
  if x ≤ 0 then none
  else some { s with bal := upd2 s.bal vm d (s.bal vm d + x), supply := upd1 s.supply d (s.supply d + x) }

def burnRaw (s : State) (d : Nat) (x : Int) : Option State :=
  if x ≤ 0 then none
  else if s.bal vm d < x then none
  else some { s with bal := upd2 s.bal vm d (s.bal vm d - x), supply := upd1 s.supply d (s.supply d - x) }

def BankOp.run (s : State) : BankOp → Option State
  | .send a b d x => sendRaw s a b d x
  | .sendPos a b d x => if x > 0 then sendRaw s a b d x else some s
  | .mint d x => mintRaw s d x
  | .burn d x => burnRaw s d x
  | .burnPos d x => if x > 0 then burnRaw s d x else some s

def runBank (s : State) : List BankOp → Option State
  | [] => some s
  | op :: ops => match op.run s with
    | none => none
    | some s1 => runBank s1 ops

/-! ### arithmetic of the handlers -/

/-- `sdk.NewDecFromInt(amt).Mul(rate).TruncateInt()` -/
def feeOf (amt : Int) (rate : Dec) : Int := Dec.truncateInt (Dec.mul (Dec.ofInt amt) rate)

/-- `CalcAssetPrice`-style valuation: `Dec(amt)·Dec(price) / Dec(decimals)` -/
def valueOf (amt : Int) (price : Nat) (decimals : Int) : Dec :=
  Dec.quo (Dec.mul (Dec.ofInt amt) (Dec.ofInt price)) (Dec.ofInt decimals)

/-- `CalculateCollateralizationRatio` (vault.go:300-373); `none` = returns an error. -/
def calcCR (p : Product) (e : Env) (amountIn amountOut : Int) : Option Dec :=
  match e.priceIn with
  | none => none
  | some pin =>
    let vin := valueOf amountIn pin p.decIn
    let voutO : Option Dec :=
      if p.outOracle then e.priceOut.map (fun po => valueOf amountOut po p.decOut)
      else some (valueOf amountOut p.outPrice p.decOut)
    match voutO with
    | none => none
    | some vout =>
      if vin ≤ 0 then none
      else if vout ≤ 0 then none
      else some (Dec.quo vin vout)

/-- `VerifyCollaterlizationRatio`: accepted iff the ratio is at least `minCr` (at least 1 under shutdown). -/
def verifyCR (p : Product) (e : Env) (amountIn amountOut : Int) : Bool :=
  match calcCR p e amountIn amountOut with
  | none => false
  | some r => if e.esm then decide (r ≥ Dec.one) else decide (r ≥ p.minCr)

/-- the debt asset's price the product uses: the oracle's, or the product's fixed price -/
def debtPrice (p : Product) (e : Env) : Option Nat := if p.outOracle then e.priceOut else some p.outPrice

/-- **Exact content of the ratio check**, multiplied out over the integers (`P = 10^18`, `m = minCr` as an 18-digit
fixed-point integer, `dIn`/`dOut` the decimal scales):

`(2m − 1)·dIn·(2·debt·pOut·P² − (P+2)·dOut + 2)  ≤  2·P·dOut·(2·amountIn·pIn·P² + dIn·P)`

Dividing by `4·P³·dIn·dOut`: the exact collateral value `amountIn·pIn/dIn` plus half a unit of the 18th digit is at least
(minCr − half a unit) × (the exact debt value `debt·pOut/dOut` minus half a unit and one truncation step).
Proved of every accepted message in `Props/C03.lean`; evaluated on the real vaults by the driver (`ratio_exact`). -/
def ExactRatio (p : Product) (pin pout : Nat) (amountIn debt : Int) : Prop :=
  (2 * (p.minCr : Int) - 1) * p.decIn * (2 * (debt * (pout : Int) * Dec.P * Dec.P) - (Dec.P + 2) * p.decOut + 2)
    ≤ 2 * Dec.P * p.decOut * (2 * (amountIn * (pin : Int) * Dec.P * Dec.P) + p.decIn * Dec.P)

instance (p : Product) (pin pout : Nat) (a b : Int) : Decidable (ExactRatio p pin pout a b) := by
  unfold ExactRatio; exact inferInstance

/-- with decimal scales dividing `10^18` the values are exact and only the last division rounds:
the exact ratio `(amountIn·pIn/dIn)/(debt·pOut/dOut)` is at least `minCr − ½·10⁻¹⁸` -/
def ExactRatioScales (p : Product) (pin pout : Nat) (amountIn debt : Int) : Prop :=
  (2 * (p.minCr : Int) - 1) * (debt * (pout : Int) * p.decIn) ≤ 2 * Dec.P * (amountIn * (pin : Int) * p.decOut)

instance (p : Product) (pin pout : Nat) (a b : Int) : Decidable (ExactRatioScales p pin pout a b) := by
  unfold ExactRatioScales; exact inferInstance

/-- `GetAmountOfOtherToken` with both rates = 1 (stable mint): amount of asset 2 for `amt` of asset 1. -/
def otherToken (amt : Int) (dec1 dec2 : Int) : Int :=
  let t1d := Dec.quo (Dec.mul (Dec.ofInt amt) Dec.one) (Dec.ofInt dec1)
  let newAmount := Dec.quo t1d Dec.one
  Dec.truncateInt (Dec.mul newAmount (Dec.ofInt dec2))

/-- mint `amt` of the debt asset to the module, split the draw-down fee to the collector, rest to the user
(msg_server.go:113-151, 535-570, 1038-1076, 1206-1244). -/
def mintAndSplit (p : Product) (user : Nat) (amt : Int) : List BankOp :=
  .mint p.denomOut amt ::
    (if p.drawDownFee = 0 ∧ amt > 0 then [.send vm user p.denomOut amt]
     else [.sendPos vm cm p.denomOut (feeOf amt p.drawDownFee),
           .sendPos vm user p.denomOut (amt - feeOf amt p.drawDownFee)])

/-! ### record helpers -/

def setBy {α : Type} (idf : α → Nat) (l : List α) (v : α) : List α :=
  l.map fun w => if idf w = idf v then v else w

def delBy {α : Type} (idf : α → Nat) (l : List α) (id : Nat) : List α := l.filter (fun w => idf w ≠ id)

def findVault (s : State) (id : Nat) : Option VaultRec := s.vaults.find? (·.id = id)
def findStable (s : State) (id : Nat) : Option StableRec := s.stables.find? (·.id = id)
def setVault (l : List VaultRec) (v : VaultRec) : List VaultRec := setBy (·.id) l v
def setStable (l : List StableRec) (v : StableRec) : List StableRec := setBy (·.id) l v
def delVault (l : List VaultRec) (id : Nat) : List VaultRec := delBy (·.id) l id

def updL (f : Nat → List Nat) (k : Nat) (v : List Nat) : Nat → List Nat := fun k' => if k' = k then v else f k'

/-- guards common to the owner-only handlers: product known, app matches, vault exists, signer is the owner,
vault belongs to the named product. Returns the stored vault and the vault after interest accrual. -/
def ownedVault (s : State) (p : Product) (e : Env) (from_ app prod vaultId : Nat) : Option VaultRec :=
  if p.id ≠ prod ∨ p.app ≠ app then none else
  match findVault s vaultId, e.iota with
  | some v, some i =>
    if v.owner ≠ from_ ∨ v.product ≠ prod ∨ i < 0 then none
    else some { v with interest := v.interest + i }
  | _, _ => none

/-! ### the bank calls of each handler as data

Each handler below runs exactly the list `…Ops` (in this order) and touches the records only afterwards.  The lists are the
model's side of `Props/C01Effects.lean`: their skeleton (kind, parties, denomination, "only if positive") is proved equal to
the skeleton regenerated from the Go handlers on every run.  `abbrev`: existing proofs see through them. -/

/-- MsgCreate (msg_server.go:107-151) -/
abbrev createOps (p : Product) (from_ : Nat) (amtIn amtOut : Int) : List BankOp :=
  .sendPos from_ vm p.denomIn amtIn :: mintAndSplit p from_ amtOut

/-- MsgDeposit (msg_server.go:295-299) -/
abbrev depositOps (p : Product) (from_ : Nat) (amt : Int) : List BankOp := [.sendPos from_ vm p.denomIn amt]

/-- MsgWithdraw (msg_server.go:413-417) -/
abbrev withdrawOps (p : Product) (from_ : Nat) (amt : Int) : List BankOp := [.sendPos vm from_ p.denomIn amt]

/-- MsgDraw (msg_server.go:535-570) -/
abbrev drawOps (p : Product) (from_ : Nat) (amt : Int) : List BankOp := mintAndSplit p from_ amt

/-- MsgRepay, the whole payment is interest (msg_server.go:683-695) -/
abbrev repayInterestOps (p : Product) (from_ : Nat) (amt : Int) : List BankOp :=
  [.send from_ vm p.denomOut amt, .send vm cm p.denomOut amt]

/-- MsgRepay, interest and part of the principal (msg_server.go:709-732) -/
abbrev repayPrincipalOps (p : Product) (from_ : Nat) (v : VaultRec) (amt : Int) : List BankOp :=
  [.send from_ vm p.denomOut amt, .burnPos p.denomOut (amt - v.interest), .sendPos vm cm p.denomOut v.interest]

/-- MsgRepay: which of the two lists runs is decided by `amt ≤ v.interest` (msg_server.go:677) -/
def repayOps (p : Product) (from_ : Nat) (v : VaultRec) (amt : Int) : List BankOp :=
  if amt ≤ v.interest then repayInterestOps p from_ amt else repayPrincipalOps p from_ v amt

/-- MsgClose (msg_server.go:837-872) -/
abbrev closeOps (p : Product) (from_ : Nat) (v : VaultRec) : List BankOp :=
  [.sendPos from_ vm p.denomOut (v.amountOut + v.interest + v.closingFee),
   .sendPos vm cm p.denomOut v.interest, .sendPos vm cm p.denomOut v.closingFee,
   .burnPos p.denomOut v.amountOut, .sendPos vm from_ p.denomIn v.amountIn]

/-- liquidationsV2 `LiquidateIndividualVault` hand-over (liquidate.go:141-146, the transfer at 142) -/
abbrev seizeOps (p : Product) (v : VaultRec) : List BankOp := [.sendPos vm am p.denomIn v.amountIn]

/-- x/esm `SetUpCollateralRedemptionForVault`, one vault (esm.go:407, 442) -/
abbrev esmVaultOps (p : Product) (v : VaultRec) : List BankOp := [.sendPos vm em p.denomIn v.amountIn]

/-- x/esm `SetUpCollateralRedemptionForStableVault`, one stable-mint vault (esm.go:520, 559) -/
abbrev esmStableOps (p : Product) (amountIn : Int) : List BankOp := [.sendPos vm em p.denomIn amountIn]

/-- MsgCreateStableMint / MsgDepositStableMint (msg_server.go:1031-1076, 1199-1244); `out` = the minted amount -/
abbrev stableMintOps (p : Product) (from_ : Nat) (amt out : Int) : List BankOp :=
  .send from_ vm p.denomIn amt :: mintAndSplit p from_ out

/-! ### the message handlers -/

inductive Msg where
  | create (from_ app prod : Nat) (amtIn amtOut : Int)
  | deposit (from_ app prod vaultId : Nat) (amt : Int)
  | withdraw (from_ app prod vaultId : Nat) (amt : Int)
  | draw (from_ app prod vaultId : Nat) (amt : Int)
  | repay (from_ app prod vaultId : Nat) (amt : Int)
  | close (from_ app prod vaultId : Nat)
  | depositAndDraw (from_ app prod vaultId : Nat) (amt : Int)
  | stableCreate (from_ app prod : Nat) (amt : Int)
  | stableDeposit (from_ app prod stableId : Nat) (amt : Int)
  | stableWithdraw (from_ app prod stableId : Nat) (amt : Int)
  | interestCalc (app vaultId : Nat)
  | donate (from_ d : Nat) (amt : Int)           -- plain bank send to the vault module account
  | fund (to d : Nat) (amt : Int)                -- coins minted outside the vault module (test funding)
  | seize (vaultId : Nat)                        -- liquidationsV2 hand-over to auction custody
  | settle (vaultId : Nat)                       -- the auction of a seized vault closes (auctionsV2 bid.go:188-190)
  | settle1 (vaultId : Nat)                      -- first-generation auction closes (x/auction dutch.go CloseDutchAuction)
  | esmVault (vaultId : Nat)                     -- emergency shutdown, after cool-off: one vault moved to the redemption pool (esm.go:356-466)
  | esmStable (stableId : Nat)                   -- the same for a stable-mint vault (esm.go:468-575)
  | esmCollector (app d : Nat) (x : Int)         -- the collector's net fees of a debt asset are burnt against the register (esm.go:267-315)
  | esmBurn (from_ app d : Nat) (x : Int)        -- MsgCollateralRedemption: a holder burns debt coins against the register (keeper.go:182-268)
  | esmReturn1 (vaultId owner : Nat) (cur infl : Int)  -- first-generation auction wound down under shutdown, less than the principal collected (dutch.go:538-570)
  | esmReturn2 (vaultId owner : Nat) (cur curDebt fee : Int)  -- SECOND-generation auction that ran out under shutdown: auctionsV2 `TriggerEsm` (auctions.go:487-534)
  deriving Repr

def create (s : State) (p : Product) (e : Env) (from_ app prod : Nat) (amtIn amtOut : Int) : Option State :=
  if e.esm ∨ e.breaker ∨ p.id ≠ prod ∨ p.app ≠ app ∨ p.isStable ∨ !p.active then none
  else if amtIn ≤ 0 ∨ amtOut ≤ 0 then none                                   -- ValidateBasic
  else if s.vaults.any (fun v => v.owner = from_ ∧ v.product = prod) then none
  else if amtOut < p.debtFloor then none
  else if s.minted prod + amtOut > p.debtCeiling then none
  else if !verifyCR p e amtIn amtOut then none
  else if amtOut ≥ 2 ^ 63 then none                                          -- `AmountOut.Int64()` panics
  else
    (runBank s (createOps p from_ amtIn amtOut)).map fun s1 =>
      let id := s1.nextVault + 1
      let v : VaultRec := { id := id, owner := from_, product := prod, amountIn := amtIn, amountOut := amtOut,
                            interest := 0, closingFee := feeOf amtOut p.closingFee }
      { s1 with vaults := s1.vaults ++ [v], nextVault := id, length := s1.length + 1,
                coll := upd1 s1.coll prod (s1.coll prod + amtIn),
                minted := upd1 s1.minted prod (s1.minted prod + amtOut),
                vaultIds := updL s1.vaultIds prod (s1.vaultIds prod ++ [id]) }

def deposit (s : State) (p : Product) (e : Env) (from_ app prod vaultId : Nat) (amt : Int) : Option State :=
  if e.esm ∨ e.breaker ∨ !p.active ∨ amt ≤ 0 then none else
  match ownedVault s p e from_ app prod vaultId with
  | none => none
  | some v =>
    if v.amountIn + amt ≤ 0 then none else
      (runBank s (depositOps p from_ amt)).map fun s1 =>
        { s1 with vaults := setVault s1.vaults { v with amountIn := v.amountIn + amt },
                  coll := upd1 s1.coll prod (s1.coll prod + amt) }

/-- the debt the withdraw handler checks the ratio against (principal only under emergency shutdown) -/
def withdrawDebt (e : Env) (v : VaultRec) : Int :=
  if e.esm then v.amountOut else v.amountOut + v.interest + v.closingFee

def withdraw (s : State) (p : Product) (e : Env) (from_ app prod vaultId : Nat) (amt : Int) : Option State :=
  if e.breaker ∨ (e.esm ∧ e.pastCoolOff) ∨ !p.active ∨ amt ≤ 0 then none else
  match ownedVault s p e from_ app prod vaultId with
  | none => none
  | some v =>
    if v.amountIn - amt ≤ 0 then none else
    if !verifyCR p e (v.amountIn - amt) (withdrawDebt e v) then none else
      (runBank s (withdrawOps p from_ amt)).map fun s1 =>
        { s1 with vaults := setVault s1.vaults { v with amountIn := v.amountIn - amt },
                  coll := upd1 s1.coll prod (s1.coll prod - amt) }

def draw (s : State) (p : Product) (e : Env) (from_ app prod vaultId : Nat) (amt : Int) : Option State :=
  if e.esm ∨ e.breaker ∨ !p.active ∨ amt ≤ 0 then none else
  match ownedVault s p e from_ app prod vaultId with
  | none => none
  | some v =>
    if s.minted prod + amt ≥ p.debtCeiling then none
    else if !verifyCR p e v.amountIn (v.amountOut + amt + v.interest + v.closingFee) then none else
      (runBank s (drawOps p from_ amt)).map fun s1 =>
        { s1 with vaults := setVault s1.vaults { v with amountOut := v.amountOut + amt },
                  minted := upd1 s1.minted prod (s1.minted prod + amt) }

def repay (s : State) (p : Product) (e : Env) (from_ app prod vaultId : Nat) (amt : Int) : Option State :=
  if e.esm ∨ e.breaker ∨ amt ≤ 0 then none else
  match ownedVault s p e from_ app prod vaultId with
  | none => none
  | some v =>
    if v.amountOut + v.interest - amt < 0 then none
    else if amt ≤ v.interest then
      -- the whole payment is interest: forwarded to the collector
      (runBank s (repayInterestOps p from_ amt)).map fun s1 =>
        { s1 with vaults := setVault s1.vaults { v with interest := v.interest - amt } }
    else
      if v.amountOut - (amt - v.interest) < p.debtFloor then none else
        (runBank s (repayPrincipalOps p from_ v amt)).map fun s1 =>
          { s1 with vaults := setVault s1.vaults { v with amountOut := v.amountOut - (amt - v.interest), interest := 0 },
                    minted := upd1 s1.minted prod (s1.minted prod - (amt - v.interest)) }

def close (s : State) (p : Product) (e : Env) (from_ app prod vaultId : Nat) : Option State :=
  if e.esm ∨ e.breaker then none else
  match ownedVault s p e from_ app prod vaultId with
  | none => none
  | some v =>
    (runBank s (closeOps p from_ v)).map fun s1 =>
      { s1 with vaults := delVault s1.vaults v.id, length := s1.length - 1,
                coll := upd1 s1.coll prod (s1.coll prod - v.amountIn),
                minted := upd1 s1.minted prod (s1.minted prod - v.amountOut),
                vaultIds := updL s1.vaultIds prod ((s1.vaultIds prod).erase v.id) }

/-- `calculateUserToken`: `AmountOut·amt / AmountIn` (sdk.Int.Quo, truncated; zero divisor panics) -/
def userToken (v : VaultRec) (amt : Int) : Option Int :=
  if v.amountIn = 0 then none else some ((v.amountOut * amt).tdiv v.amountIn)

def depositAndDraw (s : State) (p : Product) (e : Env) (from_ app prod vaultId : Nat) (amt : Int) : Option State :=
  match findVault s vaultId with
  | none => none
  | some v0 =>
    match userToken v0 amt with
    | none => none
    | some newAmt =>
      match deposit s p e from_ app prod vaultId amt with
      | none => none
      -- the second accrual happens at the same block time: nothing more accrues
      | some s1 => draw s1 p { e with iota := some 0 } from_ app prod vaultId newAmt

def stableCreate (s : State) (p : Product) (e : Env) (from_ app prod : Nat) (amt : Int) : Option State :=
  if e.esm ∨ e.breaker ∨ p.id ≠ prod ∨ p.app ≠ app ∨ !p.isStable ∨ !p.active ∨ amt ≤ 0 then none
  else if otherToken amt p.decIn p.decOut < p.debtFloor then none
  else if (s.vaultIds prod).length ≥ 1 then none
  else if s.minted prod + otherToken amt p.decIn p.decOut ≥ p.debtCeiling then none
  else
    (runBank s (stableMintOps p from_ amt (otherToken amt p.decIn p.decOut))).map fun s1 =>
      let id := s1.nextStable + 1
      { s1 with stables := s1.stables ++ [{ id := id, product := prod, amountIn := amt,
                                            amountOut := otherToken amt p.decIn p.decOut }],
                nextStable := id,
                coll := upd1 s1.coll prod (s1.coll prod + amt),
                minted := upd1 s1.minted prod (s1.minted prod + otherToken amt p.decIn p.decOut),
                vaultIds := updL s1.vaultIds prod (s1.vaultIds prod ++ [id]) }

def stableDeposit (s : State) (p : Product) (e : Env) (from_ app prod stableId : Nat) (amt : Int) : Option State :=
  if e.esm ∨ e.breaker ∨ p.id ≠ prod ∨ p.app ≠ app ∨ !p.isStable ∨ !p.active ∨ amt ≤ 0 then none else
  match findStable s stableId with
  | none => none
  | some sv =>
    if sv.product ≠ prod then none
    else if sv.amountIn + amt ≤ 0 then none
    else if otherToken amt p.decIn p.decOut < p.debtFloor then none
    else if s.minted prod + otherToken amt p.decIn p.decOut ≥ p.debtCeiling then none
    else
      (runBank s (stableMintOps p from_ amt (otherToken amt p.decIn p.decOut))).map fun s1 =>
        { s1 with stables := setStable s1.stables { sv with amountIn := sv.amountIn + amt,
                                                            amountOut := sv.amountOut + otherToken amt p.decIn p.decOut },
                  coll := upd1 s1.coll prod (s1.coll prod + amt),
                  minted := upd1 s1.minted prod (s1.minted prod + otherToken amt p.decIn p.decOut) }

/-- the coins a stable-mint withdrawal burns (`updatedAmount`) and returns (`tokenOutAmount`) -/
def stableWithdrawAmounts (p : Product) (amt : Int) : Int × Int :=
  if p.drawDownFee = 0 then (amt, otherToken amt p.decOut p.decIn)
  else
    let upd := amt - feeOf amt p.drawDownFee
    if upd > 0 then (upd, otherToken upd p.decOut p.decIn) else (upd, otherToken amt p.decOut p.decIn)

def stableWithdrawOps (p : Product) (from_ : Nat) (amt : Int) : List BankOp :=
  if p.drawDownFee = 0 then
    [.send from_ vm p.denomOut amt, .burn p.denomOut amt, .sendPos vm from_ p.denomIn (otherToken amt p.decOut p.decIn)]
  else
    let share := feeOf amt p.drawDownFee
    let upd := amt - share
    [.send from_ vm p.denomOut amt, .sendPos vm cm p.denomOut share] ++
      (if upd > 0 then [.burn p.denomOut upd, .sendPos vm from_ p.denomIn (otherToken upd p.decOut p.decIn)] else [])

def stableWithdraw (s : State) (p : Product) (e : Env) (from_ app prod stableId : Nat) (amt : Int) : Option State :=
  if e.esm ∨ e.breaker ∨ p.id ≠ prod ∨ p.app ≠ app ∨ !p.isStable ∨ amt ≤ 0 then none
  else if amt < p.debtFloor then none else
  match findStable s stableId with
  | none => none
  | some sv =>
    if sv.product ≠ prod then none
    else if sv.amountIn - otherToken amt p.decOut p.decIn < 0 then none
    else
      (runBank s (stableWithdrawOps p from_ amt)).map fun s1 =>
        { s1 with stables := setStable s1.stables { sv with amountIn := sv.amountIn - (stableWithdrawAmounts p amt).2,
                                                            amountOut := sv.amountOut - (stableWithdrawAmounts p amt).1 },
                  coll := upd1 s1.coll prod (s1.coll prod - (stableWithdrawAmounts p amt).2),
                  minted := upd1 s1.minted prod (s1.minted prod - (stableWithdrawAmounts p amt).1) }

def interestCalc (s : State) (e : Env) (vaultId : Nat) : Option State :=
  match findVault s vaultId, e.iota with
  | some v, some i => if i < 0 then none else
      some { s with vaults := setVault s.vaults { v with interest := v.interest + i } }
  | _, _ => none

def donate (s : State) (from_ d : Nat) (amt : Int) : Option State :=
  if amt ≤ 0 then none else
  (runBank s [.send from_ vm d amt]).map fun s1 =>
    { s1 with unsolicited := upd1 s1.unsolicited d (s1.unsolicited d + amt) }

def fund (s : State) (to d : Nat) (amt : Int) : Option State :=
  if amt ≤ 0 ∨ to = vm then none else
  some { s with bal := upd2 s.bal to d (s.bal to d + amt), supply := upd1 s.supply d (s.supply d + amt),
                extSupply := upd1 s.extSupply d (s.extSupply d + amt) }

/-- liquidationsV2 `LiquidateIndividualVault` hand-over (liquidate.go:141-162): the whole recorded collateral goes
to auction custody, the vault is deleted and counted as awaiting settlement; the product totals stay. -/
def seize (s : State) (p : Product) (e : Env) (vaultId : Nat) : Option State :=
  match findVault s vaultId, e.iota with
  | some v, some i =>
    if v.product ≠ p.id ∨ i < 0 then none else
      (runBank s (seizeOps p v)).map fun s1 =>
        { s1 with vaults := delVault s1.vaults v.id, length := s1.length - 1,
                  locked := s1.locked ++ [{ vaultId := v.id, product := v.product, amountIn := v.amountIn, amountOut := v.amountOut,
                                            debt := v.amountOut + (v.interest + i) + v.closingFee }],
                  vaultIds := updL s1.vaultIds p.id ((s1.vaultIds p.id).erase v.id) }
  | _, _ => none

/-- the vault-side bookkeeping when the auction of a seized vault closes (x/auctionsV2/keeper/bid.go:89-101,188-190): the
auction burns `TargetDebt − penalty` = principal + interest + closing fee of the debt asset, the product's collateral
total is reduced by the seized collateral and its minted total by the SAME burnt amount (NOT by the principal alone —
recorded finding D13). What the auction does with the bidders' coins and the penalty is the subject of C10; no
vault-module balance moves here. -/
def settle (s : State) (p : Product) (vaultId : Nat) : Option State :=
  match s.locked.find? (·.vaultId = vaultId) with
  | none => none
  | some l =>
    if l.product ≠ p.id then none else
    some { s with locked := s.locked.erase l,
                  supply := upd1 s.supply p.denomOut (s.supply p.denomOut - l.debt),
                  coll := upd1 s.coll l.product (s.coll l.product - l.amountIn),
                  minted := upd1 s.minted l.product (s.minted l.product - l.debt) }

/-- first-generation settlement (x/auction/keeper/dutch.go `CloseDutchAuction` 405-418 + `UpdateProtocolData` 665-679):
the auction burns exactly the seized vault's PRINCIPAL (`lockedVault.AmountOut`; interest, closing fee and penalty go to
the collector), and the product's totals are reduced by the seized collateral and by that same principal — so, unlike
the second generation, every ledger equation stays exact. -/
def settle1 (s : State) (p : Product) (vaultId : Nat) : Option State :=
  match s.locked.find? (·.vaultId = vaultId) with
  | none => none
  | some l =>
    if l.product ≠ p.id then none else
    some { s with locked := s.locked.erase l,
                  supply := upd1 s.supply p.denomOut (s.supply p.denomOut - l.amountOut),
                  coll := upd1 s.coll l.product (s.coll l.product - l.amountIn),
                  minted := upd1 s.minted l.product (s.minted l.product - l.amountOut) }

/-! ### emergency shutdown (x/esm): after the cool-off period the begin-blocker moves every vault of the app into the
redemption pool, then holders burn debt coins against the registered debt -/

/-- `SetUpCollateralRedemptionForVault`, one vault (esm.go:363-462): the recorded collateral goes to the esm module account,
the vault is deleted, the product totals are reduced by collateral and PRINCIPAL (accrued interest and closing fee are
dropped), the counter falls by one, and the principal is registered as debt open for redemption (no coin is burnt:
the supply stays, its backing moves from the vault record to the register). -/
def esmVault (s : State) (p : Product) (e : Env) (vaultId : Nat) : Option State :=
  match findVault s vaultId with
  | none => none
  | some v =>
    if v.product ≠ p.id ∨ ¬ (e.esm = true ∧ e.pastCoolOff = true) then none else
    (runBank s (esmVaultOps p v)).map fun s1 =>
      { s1 with vaults := delVault s1.vaults v.id, length := s1.length - 1,
                coll := upd1 s1.coll p.id (s1.coll p.id - v.amountIn),
                minted := upd1 s1.minted p.id (s1.minted p.id - v.amountOut),
                vaultIds := updL s1.vaultIds p.id ((s1.vaultIds p.id).erase v.id),
                extSupply := upd1 s1.extSupply p.denomOut (s1.extSupply p.denomOut + v.amountOut),
                redeem := upd2 s1.redeem p.app p.denomOut (s1.redeem p.app p.denomOut + v.amountOut) }

/-- `SetUpCollateralRedemptionForStableVault`, one stable-mint vault (esm.go:476-570): collateral to the esm account,
totals reduced, id removed from the product's list, principal registered — but the stable-mint vault RECORD IS NOT
DELETED (there is no delete for stable-mint vaults at all): it keeps showing collateral that has left custody
(recorded finding D29). -/
def esmStable (s : State) (p : Product) (e : Env) (stableId : Nat) : Option State :=
  match findStable s stableId with
  | none => none
  | some r =>
    if r.product ≠ p.id ∨ ¬ (e.esm = true ∧ e.pastCoolOff = true) then none else
    (runBank s (esmStableOps p r.amountIn)).map fun s1 =>
      { s1 with coll := upd1 s1.coll p.id (s1.coll p.id - r.amountIn),
                minted := upd1 s1.minted p.id (s1.minted p.id - r.amountOut),
                vaultIds := updL s1.vaultIds p.id ((s1.vaultIds p.id).erase r.id),
                redeem := upd2 s1.redeem p.app p.denomOut (s1.redeem p.app p.denomOut + r.amountOut) }

/-- `SetUpDebtRedemptionForCollector`: the collector's net fees `x` of debt asset `d` are burnt and taken off the register -/
def esmCollector (s : State) (app d : Nat) (x : Int) : Option State :=
  if x ≤ 0 ∨ s.bal cm d < x then none else
  some { s with bal := upd2 s.bal cm d (s.bal cm d - x), supply := upd1 s.supply d (s.supply d - x),
                extSupply := upd1 s.extSupply d (s.extSupply d - x),
                redeem := upd2 s.redeem app d (s.redeem app d - x) }

/-- `MsgCollateralRedemption` (keeper.go:182-268), the debt side: the holder's `x` coins are sent to the esm account and
burnt there, and taken off the register; refused when nothing is registered or `x` exceeds it. (The collateral paid out
comes from the esm account, not from vault custody.) -/
def esmBurn (s : State) (from_ app d : Nat) (x : Int) : Option State :=
  if x ≤ 0 ∨ s.redeem app d = 0 ∨ x > s.redeem app d ∨ from_ = vm ∨ s.bal from_ d < x then none else
  some { s with bal := upd2 s.bal from_ d (s.bal from_ d - x), supply := upd1 s.supply d (s.supply d - x),
                extSupply := upd1 s.extSupply d (s.extSupply d - x),
                redeem := upd2 s.redeem app d (s.redeem app d - x) }

/-- collateral `cin` comes back from auction custody into a vault of `owner` on product `p`, together with `cout` of
principal: the owner's open vault of that product is topped up, or a new vault is created (`CreateNewVault`,
vault.go:574-619: new id, counter + 1, appended to the product's list; no interest, no closing fee). The product
totals and (as the net of the auction's burn, see `esmReturn1`) the supply follow. -/
def creditVault (s : State) (p : Product) (owner : Nat) (cin cout : Int) : Option State :=
  if cin < 0 ∨ cout < 0 then none else
  (runBank s [.sendPos am vm p.denomIn cin]).map fun s1 =>
    let s2 : State :=
      { s1 with
        supply := upd1 s1.supply p.denomOut (s1.supply p.denomOut + cout)
        coll := upd1 s1.coll p.id (s1.coll p.id + cin)
        minted := upd1 s1.minted p.id (s1.minted p.id + cout) }
    match s2.vaults.find? (fun v => v.owner = owner ∧ v.product = p.id) with
    | some v => { s2 with vaults := setVault s2.vaults ({ v with amountIn := v.amountIn + cin, amountOut := v.amountOut + cout } : VaultRec) }
    | none =>
      let id := s2.nextVault + 1
      { s2 with vaults := s2.vaults ++ [{ id := id, owner := owner, product := p.id, amountIn := cin, amountOut := cout,
                                          interest := 0, closingFee := 0 }],
                nextVault := id, length := s2.length + 1,
                vaultIds := updL s2.vaultIds p.id (s2.vaultIds p.id ++ [id]) }

/-- first-generation auction wound down under emergency shutdown with LESS than the principal collected
(x/auction/keeper/dutch.go:538-570, 605-640): the `infl` collected is burnt, the unsold collateral `cur` returns to
vault custody and the owner gets a vault with it and the principal still owed, `amountOut − infl`; the product totals
fall by the collateral sold and by the amount burnt. Written as the close of the seized vault (`settle1`: burn the
principal, totals − collateral − principal) followed by `creditVault` of what comes back: the net effect is the code's. -/
def esmReturn1 (s : State) (p : Product) (e : Env) (vaultId owner : Nat) (cur infl : Int) : Option State :=
  match s.locked.find? (·.vaultId = vaultId) with
  | none => none
  | some l =>
    if l.product ≠ p.id ∨ ¬ e.esm = true ∨ cur < 0 ∨ cur > l.amountIn ∨ infl < 0 ∨ infl ≥ l.amountOut then none else
    (settle1 s p vaultId).bind fun s1 => creditVault s1 p owner cur (l.amountOut - infl)

/-- the record side of `CreateNewVault` (vault.go:574-619) alone: the owner's open vault of the product is topped up, or a new
vault is created (new id, counter + 1, appended to the product's list) — NO coin moves and no product total changes. -/
def creditRecord (s : State) (p : Product) (owner : Nat) (cin cout : Int) : State :=
  match s.vaults.find? (fun v => v.owner = owner ∧ v.product = p.id) with
  | some v => { s with vaults := setVault s.vaults ({ v with amountIn := v.amountIn + cin, amountOut := v.amountOut + cout } : VaultRec) }
  | none =>
    let id := s.nextVault + 1
    { s with vaults := s.vaults ++ [{ id := id, owner := owner, product := p.id, amountIn := cin, amountOut := cout,
                                      interest := 0, closingFee := 0 }],
             nextVault := id, length := s.length + 1,
             vaultIds := updL s.vaultIds p.id (s.vaultIds p.id ++ [id]) }

/-- what `TriggerEsm` burns: the debt collected so far beyond the liquidation penalty (`fee`), nothing if the bids have
not even covered the penalty. `collected = TargetDebt − auction.DebtToken`, `TargetDebt = debt + fee`. -/
def trigger2Burn (l : LockedRec) (curDebt fee : Int) : Int :=
  if l.debt + fee - curDebt > fee then l.debt + fee - curDebt - fee else 0

/-- **Second-generation auction that has run out under emergency shutdown** — auctionsV2 `AuctionIterator` → `TriggerEsm`
(x/auctionsV2/keeper/auctions.go:487-534), modelled AS THE CODE IS (recorded finding, see notes/C01.md):
* of the debt collected so far the part beyond the penalty is burnt (auction custody) and taken off the product's minted total,
  the rest goes to the collector;
* `CreateNewVault` gives the owner a vault with the UNSOLD collateral `cur` and the REMAINING TARGET debt `curDebt` (which still
  contains the uncollected penalty, interest and closing fee) — but the unsold collateral is NOT sent to vault custody
  (no bank call: it stays in the auction module account);
* the product's collateral total falls by the collateral sold;
* neither the auction nor the locked vault is deleted, so the same step runs again in the next block (it then fails only
  if auction custody no longer holds the collected debt coins; with no bid at all it succeeds in EVERY block and the
  owner's vault grows by `cur` / `curDebt` each time without a single coin arriving).
`cur`, `curDebt` (the auction's current collateral / debt) and `fee` (the locked vault's penalty) are read by the harness
from the chain before the step. Bidders' coins, auction custody and the collector are C10 / C13's subject (balances are
adopted from the chain on these lines); the burn is modelled. -/
def esmReturn2 (s : State) (p : Product) (e : Env) (vaultId owner : Nat) (cur curDebt fee : Int) : Option State :=
  match s.locked.find? (·.vaultId = vaultId) with
  | none => none
  | some l =>
    if l.product ≠ p.id ∨ ¬ e.esm = true ∨ cur < 0 ∨ cur > l.amountIn ∨ curDebt < 0 ∨ fee < 0 ∨ l.debt + fee - curDebt < 0 then none else
    let s1 : State :=
      { s with supply := upd1 s.supply p.denomOut (s.supply p.denomOut - trigger2Burn l curDebt fee),
               minted := upd1 s.minted p.id (s.minted p.id - trigger2Burn l curDebt fee),
               coll := upd1 s.coll p.id (s.coll p.id - (l.amountIn - cur)) }
    some (creditRecord s1 p owner cur curDebt)

/-- the product a message refers to (for `interestCalc` / `seize`: the product of the named vault) -/
def Msg.product (s : State) : Msg → Option Nat
  | .create _ _ pr _ _ | .deposit _ _ pr _ _ | .withdraw _ _ pr _ _ | .draw _ _ pr _ _ | .repay _ _ pr _ _
  | .close _ _ pr _ | .depositAndDraw _ _ pr _ _ | .stableCreate _ _ pr _ | .stableDeposit _ _ pr _ _
  | .stableWithdraw _ _ pr _ _ => some pr
  | .interestCalc _ v | .seize v => (findVault s v).map (·.product)
  | .settle v | .settle1 v | .esmReturn1 v _ _ _ | .esmReturn2 v _ _ _ _ => (s.locked.find? (·.vaultId = v)).map (·.product)
  | .esmVault v => (findVault s v).map (·.product)
  | .esmStable v => (findStable s v).map (·.product)
  | .donate .. | .fund .. | .esmCollector .. | .esmBurn .. => none

def stepP (s : State) (p : Product) (e : Env) : Msg → Option State
  | .create f a pr i o => create s p e f a pr i o
  | .deposit f a pr v x => deposit s p e f a pr v x
  | .withdraw f a pr v x => withdraw s p e f a pr v x
  | .draw f a pr v x => draw s p e f a pr v x
  | .repay f a pr v x => repay s p e f a pr v x
  | .close f a pr v => close s p e f a pr v
  | .depositAndDraw f a pr v x => depositAndDraw s p e f a pr v x
  | .stableCreate f a pr x => stableCreate s p e f a pr x
  | .stableDeposit f a pr v x => stableDeposit s p e f a pr v x
  | .stableWithdraw f a pr v x => stableWithdraw s p e f a pr v x
  | .interestCalc _ v => interestCalc s e v
  | .seize v => seize s p e v
  | .donate f d x => donate s f d x
  | .fund t d x => fund s t d x
  | .settle v => settle s p v
  | .settle1 v => settle1 s p v
  | .esmVault v => esmVault s p e v
  | .esmStable v => esmStable s p e v
  | .esmReturn1 v o c i => esmReturn1 s p e v o c i
  | .esmReturn2 v o c d f => esmReturn2 s p e v o c d f
  | .esmCollector a d x => esmCollector s a d x
  | .esmBurn f a d x => esmBurn s f a d x

/-- one message; `cfg` is the static product configuration (extended pair vaults). A message naming an unknown
product is rejected (`ErrorExtendedPairVaultDoesNotExists`). -/
def step (cfg : Nat → Option Product) (s : State) (e : Env) (m : Msg) : Option State :=
  match m with
  | .donate f d x => donate s f d x
  | .fund t d x => fund s t d x
  | .esmCollector a d x => esmCollector s a d x
  | .esmBurn f a d x => esmBurn s f a d x
  | _ =>
    match m.product s with
    | none => none
    | some pr =>
      match cfg pr with
      | none => none
      | some p => if p.id ≠ pr then none else stepP s p e m

/-! ### what an accepted message does to the SUPPLY (C02: every mint is exactly the new principal, every burn exactly the
principal retired, interest / fees / seizures never mint) — read off the message and the PRE-state; proved exact in
`Lemmas/VaultSupply.lean` (`supply_delta_exact`), evaluated on the real supply by the driver -/

/-- change of the supply of the product's DEBT denom -/
def supplyDeltaP (s : State) (p : Product) (e : Env) : Msg → Int
  | .create _ _ _ _ o => o
  | .draw _ _ _ _ x => x
  | .depositAndDraw _ _ _ v x => match findVault s v with
    | some v0 => (userToken v0 x).getD 0
    | none => 0
  | .stableCreate _ _ _ x | .stableDeposit _ _ _ _ x => otherToken x p.decIn p.decOut
  | .repay _ _ _ v x => match findVault s v, e.iota with
    | some v0, some i => if x ≤ v0.interest + i then 0 else -(x - (v0.interest + i))
    | _, _ => 0
  | .close _ _ _ v => match findVault s v with
    | some v0 => -v0.amountOut
    | none => 0
  | .stableWithdraw _ _ _ _ x => -(stableWithdrawAmounts p x).1
  | .settle v => match s.locked.find? (·.vaultId = v) with
    | some l => -l.debt
    | none => 0
  | .settle1 v => match s.locked.find? (·.vaultId = v) with
    | some l => -l.amountOut
    | none => 0
  | .esmReturn1 _ _ _ infl => -infl
  | .esmReturn2 v _ _ d f => match s.locked.find? (·.vaultId = v) with
    | some l => -(trigger2Burn l d f)
    | none => 0
  | _ => 0

/-- change of the supply of denom `d` by an accepted message `m` in state `s` -/
def supplyDelta (cfg : Nat → Option Product) (s : State) (e : Env) (m : Msg) (d : Nat) : Int :=
  match m with
  | .fund _ d0 x => if d = d0 then x else 0
  | .esmCollector _ d0 x | .esmBurn _ _ d0 x => if d = d0 then -x else 0
  | .donate .. => 0
  | _ =>
    match m.product s with
    | none => 0
    | some pr =>
      match cfg pr with
      | none => 0
      | some p => if d = p.denomOut then supplyDeltaP s p e m else 0

/-- the messages that may mint: everything else never increases any supply (`C02.only_mints_mint`) -/
def Msg.mints : Msg → Bool
  | .create .. | .draw .. | .depositAndDraw .. | .stableCreate .. | .stableDeposit .. | .fund .. => true
  | _ => false

/-- a rejected message changes nothing -/
def apply (cfg : Nat → Option Product) (s : State) (e : Env) (m : Msg) : State := (step cfg s e m).getD s

end Comdex.Vault

/-! ## The invariants (decidable: they are also evaluated on the real chain state by the driver) -/
namespace Comdex.Vault

def sumBy {α : Type} (f : α → Int) (l : List α) : Int := (l.map f).sum

def denomInOf (cfg : Nat → Option Product) (prod : Nat) : Option Nat := (cfg prod).map (·.denomIn)
def denomOutOf (cfg : Nat → Option Product) (prod : Nat) : Option Nat := (cfg prod).map (·.denomOut)

/-- collateral recorded on open vaults and stable-mint vaults of collateral denom `d` -/
def collRecorded (cfg : Nat → Option Product) (s : State) (d : Nat) : Int :=
  sumBy (fun v : VaultRec => if denomInOf cfg v.product = some d then v.amountIn else 0) s.vaults +
  sumBy (fun v : StableRec => if denomInOf cfg v.product = some d then v.amountIn else 0) s.stables

/-- principal recorded on open vaults, stable-mint vaults and vaults awaiting auction, of debt denom `d` -/
def principalRecorded (cfg : Nat → Option Product) (s : State) (d : Nat) : Int :=
  sumBy (fun v : VaultRec => if denomOutOf cfg v.product = some d then v.amountOut else 0) s.vaults +
  sumBy (fun v : StableRec => if denomOutOf cfg v.product = some d then v.amountOut else 0) s.stables +
  sumBy (fun v : LockedRec => if denomOutOf cfg v.product = some d then v.amountOut else 0) s.locked

def collOfProduct (s : State) (prod : Nat) : Int :=
  sumBy (fun v : VaultRec => if v.product = prod then v.amountIn else 0) s.vaults +
  sumBy (fun v : StableRec => if v.product = prod then v.amountIn else 0) s.stables +
  sumBy (fun v : LockedRec => if v.product = prod then v.amountIn else 0) s.locked

def mintedOfProduct (s : State) (prod : Nat) : Int :=
  sumBy (fun v : VaultRec => if v.product = prod then v.amountOut else 0) s.vaults +
  sumBy (fun v : StableRec => if v.product = prod then v.amountOut else 0) s.stables +
  sumBy (fun v : LockedRec => if v.product = prod then v.amountOut else 0) s.locked

/-- C01 clause 1: custody of denom `d` = recorded collateral (+ unsolicited coins) -/
def CustodyAt (cfg : Nat → Option Product) (s : State) (d : Nat) : Prop :=
  s.bal vm d = collRecorded cfg s d + s.unsolicited d
/-- C01 clause 2 -/
def CountOk (s : State) : Prop := s.length = s.vaults.length
/-- C01 clause 3 -/
def TotalsAt (s : State) (prod : Nat) : Prop :=
  s.coll prod = collOfProduct s prod ∧ s.minted prod = mintedOfProduct s prod
/-- C02: supply of a debt denom = recorded principal (+ supply minted outside the vault module) -/
def SupplyAt (cfg : Nat → Option Product) (s : State) (d : Nat) : Prop :=
  s.supply d = principalRecorded cfg s d + s.extSupply d

instance (cfg) (s : State) (d : Nat) : Decidable (CustodyAt cfg s d) := by unfold CustodyAt; infer_instance
instance (s : State) : Decidable (CountOk s) := by unfold CountOk; infer_instance
instance (s : State) (p : Nat) : Decidable (TotalsAt s p) := by unfold TotalsAt; infer_instance
instance (cfg) (s : State) (d : Nat) : Decidable (SupplyAt cfg s d) := by unfold SupplyAt; infer_instance

/-- offsets of the four ledger equations (all zero in histories without auction settlement; `mint` and `sup` become
negative once an auction of a vault with accrued interest or a closing fee has settled — finding D13) -/
structure Gaps where
  cus  : Nat → Int := fun _ => 0
  cnt  : Int := 0
  coll : Nat → Int := fun _ => 0
  mint : Nat → Int := fun _ => 0
  sup  : Nat → Int := fun _ => 0

def Gaps.zero : Gaps := {}

def CustodyAtG (cfg : Nat → Option Product) (G : Gaps) (s : State) (d : Nat) : Prop :=
  s.bal vm d = collRecorded cfg s d + s.unsolicited d + G.cus d
def CountOkG (G : Gaps) (s : State) : Prop := s.length = s.vaults.length + G.cnt
def TotalsAtG (G : Gaps) (s : State) (prod : Nat) : Prop :=
  s.coll prod = collOfProduct s prod + G.coll prod ∧ s.minted prod = mintedOfProduct s prod + G.mint prod
def SupplyAtG (cfg : Nat → Option Product) (G : Gaps) (s : State) (d : Nat) : Prop :=
  s.supply d = principalRecorded cfg s d + s.extSupply d + G.sup d

/-- record well-formedness: ids are unique and bounded by the counters, every record's product is configured,
vault amounts are non-negative -/
def Wf (cfg : Nat → Option Product) (s : State) : Prop :=
  (s.vaults.map (·.id)).Nodup ∧
  (∀ v ∈ s.vaults, v.id ≤ s.nextVault ∧ (cfg v.product).isSome ∧
      0 ≤ v.amountIn ∧ 0 ≤ v.amountOut ∧ 0 ≤ v.interest ∧ 0 ≤ v.closingFee) ∧
  (s.stables.map (·.id)).Nodup ∧ (∀ v ∈ s.stables, v.id ≤ s.nextStable ∧ (cfg v.product).isSome) ∧
  (∀ v ∈ s.locked, (cfg v.product).isSome ∧ 0 ≤ v.amountOut ∧ v.amountOut ≤ v.debt)

/-- C03: every open vault's principal is at least its product's debt floor, and the published principal of every
product is at most its debt ceiling -/
def Limits (cfg : Nat → Option Product) (s : State) : Prop :=
  (∀ v ∈ s.vaults, ∀ p, cfg v.product = some p → p.debtFloor ≤ v.amountOut) ∧
  (∀ k p, cfg k = some p → s.minted k ≤ p.debtCeiling)

/-- the inductive invariant, relative to fixed offsets `G` of the ledger equations -/
def InvG (cfg : Nat → Option Product) (G : Gaps) (s : State) : Prop :=
  Wf cfg s ∧ CountOkG G s ∧ (∀ d, CustodyAtG cfg G s d) ∧ (∀ p, TotalsAtG G s p) ∧ (∀ d, SupplyAtG cfg G s d) ∧ Limits cfg s

/-- the whole inductive invariant (all offsets zero) -/
def Inv (cfg : Nat → Option Product) (s : State) : Prop :=
  Wf cfg s ∧ CountOk s ∧ (∀ d, CustodyAt cfg s d) ∧ (∀ p, TotalsAt s p) ∧ (∀ d, SupplyAt cfg s d) ∧ Limits cfg s

end Comdex.Vault
