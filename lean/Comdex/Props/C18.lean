import Comdex.Model.Accrual
import Comdex.Model.LendRates
namespace Comdex.C18
theorem placeholder : True := trivial
end Comdex.C18
