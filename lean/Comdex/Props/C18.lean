import Comdex.Lemmas.LendRates
import Comdex.Lemmas.Accrual
import Comdex.Lemmas.AccrualErr
import Comdex.Lemmas.VaultAccrual
import Comdex.Lemmas.LockerAccrual
import Comdex.Lemmas.LendAccrual
/-!
# C18 — Interest and savings accrual is non-negative, monotone and zero over zero time

Two families. (a) `x/lend` — pure 18-digit fixed point, `Model/LendRates.lean`: PROVED for all admissible
parameters. (b) `x/rewards` `CalculationOfRewards` (vault stability fee, locker savings) — goes through Go's
`math.Pow` on `float64`; `Model/Accrual.lean` models everything except `math.Pow` exactly (IEEE-754 round to
nearest even of `-`, `*`, decimal→double, double→18 decimals) and the theorems are relative to the explicit
hypotheses `FloatOps` / `PowMonoTime` / `PowMonoRate` about `math.Pow`, which the harness TESTS: PARTIAL.

Property clause → theorem
(a) lending rewards, borrow interest (variable: `indexInterest`, stable: `stableInterest`, reserve share: `indexInterest`)
* never negative                                   → `reward_nonneg`
* zero when no time has elapsed                    → `reward_zero_at_zero_time`
* never decrease in time / principal / rate        → `reward_mono`, `stable_interest_mono`
* two consecutive intervals ≤ combined + rounding  → `two_step_le_one_step_plus_rounding` (≤ 4·10⁻¹⁸ per unit of principal),
                                                     `stable_two_step_le_one_step_plus_rounding` (≤ 10⁻¹⁸)
* borrow rates non-decreasing in utilisation       → `borrow_rate_mono_in_util` (variable and stable), `utilisation_in_unit_interval`
* equal the base rate at zero utilisation          → `rate_at_zero_is_base`
* continuous at the optimal-utilisation kink       → `rate_continuous_at_kink` (branches agree exactly at the kink; explicit bound from below)
* lend rate never exceeds borrow rate              → `lend_rate_le_borrow_rate`
* (no division by zero for admissible parameters)  → `rates_defined`; keeper functions in terms of the above: `accrual_functions`
(b) stability fee on vaults, savings on lockers (`interest`), relative to the hypotheses about `math.Pow`
* never negative                                   → `interest_nonneg`                      (uses `pow ≥ 1`)
* zero when no time has elapsed                    → `interest_zero_at_zero_time`           (uses `pow x 0 = 1`)
* never decrease in principal                      → `interest_mono_partial` (first part, unconditional beyond `pow ≥ 1`)
* never decrease in time / rate                    → `interest_mono_partial` (given `PowMonoTime` / `PowMonoRate`);
     these two hypotheses are FALSE of Go's `math.Pow` in the last bit, and the code's result does decrease:
                                                     `interest_mono_time_counterexample`, `interest_mono_rate_counterexample`
* two consecutive intervals ≤ combined + rounding  → `more_frequent_accrual_not_more` (explicit error term `Accrual.subaddErr`)
* tracker: whole units paid, fraction carried      → `tracker_never_negative`, `whole_units_paid_fraction_carried`
* hypotheses are consistent                        → `hypotheses_consistent`; `calcRewards_ok` links `calcRewards` and `interest`
(c) the bookkeeping around (b) for vaults (`Model/VaultAccrual.lean`: which interval is accrued — vault stamp, or the pair's stamp
    when the vault's `BlockHeight` flag is 0 —, tracker, whole units to the vault, stamps written), relative to the same hypotheses
* a calculation books exactly the accrued amount, renews the stamp      → `vault_calc_books_interest`
* after it the flag is consumed, the next interval starts where it ended → `vault_next_interval_starts_here`
* two consecutive calculations book no more than a single one over the combined interval (+ explicit slack), from ANY start
  stamp incl. `BlockHeight = 0`                                           → `accrual_subadditive`
* "triggering interest calculation more often cannot make a position owe more" at the level of `MsgVaultInterestCalc`
                                                                          → `more_frequent_triggering_not_more`
* fee switched off and on again: the span without fee is not accrued     → `fee_toggle_restarts_clock` (idle vault)
  FALSE for a vault deposited into (withdrawn from, drawn, repaid) while the fee is zero: `MsgDeposit` re-stamps the vault with the
  current height and the zero-fee window is charged at the new fee       → `fee_zero_window_touched_counterexample` (reproduced, D46)
(d) the bookkeeping around (b) for LOCKERS (`Model/LockerAccrual.lean`: collector entry rate + stamp, locker balance + stamp with the
    `BlockHeight = 0` flag, tracker, net fees; the five locker messages, the rate update `WasmUpdateCollectorLookupTable` with its
    sweep `LockerIterateRewards`, whitelist on / off), over ALL histories of {create, deposit, withdraw, close, reward-calc, rate
    update, time passing}
* savings are credited only for time at a non-zero rate, at the rate in force, never twice: for every rate value r ≠ 0 the
  seconds credited at r + the seconds still claimable at r ≤ the seconds the rate has been r
                                                                          → `savings_only_for_time_at_positive_rate` (PARTIAL: histories
                                                                            without deposit / withdraw while the rate is zero, whose
                                                                            rate-update sweeps reach the locker), `savings_time_budget_from_any_state`
  the restriction is necessary — the code credits a zero-rate window to a locker touched in it
                                                                          → `zero_rate_window_touched_counterexample` (reproduced, D45)
  with the three-line repair of D45 the statement holds for ALL histories → `savings_only_for_time_at_positive_rate_repaired`
* what each accruing call books: `interest` over [clock, now] at the rate in force (old rate for a rate update)
                                                                          → `locker_calc_books_interest`, `locker_move_books_interest`,
                                                                            `rate_change_restarts_clock`
* a rate change restarts the clock (r→0: flag; 0→r: collector stamp; r→r′: stamp) → `rate_change_restarts_clock`
* zero when no time has elapsed at a non-zero rate / a zero-rate window earns nothing (idle locker, any triggers in the window,
  switch-on and accrual in one block)                                     → `zero_rate_window_earns_nothing`
* more frequent triggering cannot earn more, also across a rate change   → `locker_more_frequent_triggering_not_more`,
                                                                            `accrual_subadditive_across_rate_change`
(e) the clocks of the x/lend positions (`Model/LendAccrual.lean`: own `LastInteractionTime` and index copy, stored by every handler after
    `IterateBorrow` / `IterateLends`; no rate stamp — the open interval is accrued at the rate of the moment of the interaction)
* every interaction restarts the clock: a second accrual in the same block charges nothing whatever the rates have become
                                                                          → `lend_interaction_restarts_clock`, `lend_reward_interaction_restarts_clock`
* two interactions (stored index + clock in between) ≤ one + 4·10⁻¹⁸ per unit of principal, interest and reserve share
                                                                          → `borrow_two_interactions_not_more`
* one accrual function for the message route and the liquidation route; it IS the single accrual of the position's kind
                                                                          → `borrow_charge_is_single_accrual`
* `ReBalanceStableRates`: new stable rate = pool's current one or the old one (only within 20 points and below 90 % utilisation)
                                                                          → `stable_rebalance_spec`
-/
namespace Comdex.C18
open Comdex Comdex.LendRates

/-- **No division by zero** for admissible parameters: every rate function returns a value. -/
theorem rates_defined (p : Params) (h : admissible p = true) (st : Bool) (u : Dec) :
    (∃ r, borrowRate p st u = some r) ∧ ∃ l, lendRate p u = some l := by
  refine ⟨⟨_, borrowRate_eq p h st u⟩, ?_⟩
  unfold lendRate; rw [borrowRate_eq p h false u]; exact ⟨_, rfl⟩

/-- utilisation lies in `[0, 1]` -/
theorem utilisation_in_unit_interval (bal bor : Int) (hb : 0 ≤ bal) (hr : 0 ≤ bor) (u : Dec)
    (h : utilisation bal bor = some u) : 0 ≤ u ∧ u ≤ Dec.one := by
  unfold utilisation at h
  split at h
  · exact absurd h (by simp)
  · split at h
    · have : u = 0 := by injection h with h; exact h.symm
      subst this; exact ⟨le_refl _, by decide⟩
    · rename_i hne
      have e : u = Dec.quo (Dec.ofInt bor) (Dec.ofInt bal + Dec.ofInt bor) := by injection h with h; exact h.symm
      subst e
      have b0 : 0 ≤ Dec.ofInt bal := Int.mul_nonneg hb (le_of_lt P_pos)
      have r0 : 0 ≤ Dec.ofInt bor := Int.mul_nonneg hr (le_of_lt P_pos)
      have pos : 0 < Dec.ofInt bal + Dec.ofInt bor := lt_of_le_of_ne (by linarith) (Ne.symm hne)
      exact ⟨quo_nonneg' _ _ r0 pos, quo_le_one _ _ r0 (by linarith) pos⟩

/-- **Borrow rates (variable and stable) are non-decreasing in utilisation.** -/
theorem borrow_rate_mono_in_util (p : Params) (h : admissible p = true) (st : Bool) (u1 u2 r1 r2 : Dec)
    (hu : 0 ≤ u1) (h12 : u1 ≤ u2) (e1 : borrowRate p st u1 = some r1) (e2 : borrowRate p st u2 = some r2) :
    r1 ≤ r2 := by
  obtain ⟨a, b, _, d, e⟩ := adm_of p h st
  rw [borrowRate_eq p h st] at e1 e2
  injection e1 with e1; injection e2 with e2
  rw [← e1, ← e2]
  exact kinkedVal_mono _ _ _ _ _ _ a b d e hu h12

/-- **At zero utilisation the rate is the base rate.** -/
theorem rate_at_zero_is_base (p : Params) (h : admissible p = true) (st : Bool) :
    borrowRate p st 0 = some (p.baseOf st) := by
  obtain ⟨a, _, _, d, _⟩ := adm_of p h st
  rw [borrowRate_eq p h st, kinkedVal_zero _ _ _ _ a d]

/-- **Continuity at the optimal-utilisation kink.** (i) at the kink the rate is `base + slope1`;
(ii) the below-kink formula evaluated at the kink gives exactly the same value, i.e. the two branches agree;
(iii) approaching from below, the rate never exceeds the kink value and falls short of it by at most
`slope1·(uOpt−u)/uOpt + slope1·10⁻¹⁸ + 10⁻¹⁸` (all raw: `(gap−1)·uOpt·10¹⁸ ≤ slope1·(uOpt−u)·10¹⁸ + slope1·uOpt`).
Above the kink the added term is `0` at `u = uOpt` by (i). -/
theorem rate_continuous_at_kink (p : Params) (h : admissible p = true) (st : Bool) :
    borrowRate p st p.uOpt = some (p.baseOf st + p.slope1Of st) ∧
    belowKink (p.baseOf st) (p.slope1Of st) p.uOpt p.uOpt = p.baseOf st + p.slope1Of st ∧
    ∀ u r, 0 ≤ u → u < p.uOpt → borrowRate p st u = some r →
      0 ≤ p.baseOf st + p.slope1Of st - r ∧
      (p.baseOf st + p.slope1Of st - r - 1) * p.uOpt * Dec.P
        ≤ p.slope1Of st * (p.uOpt - u) * Dec.P + p.slope1Of st * p.uOpt := by
  obtain ⟨a, b, _, d, e⟩ := adm_of p h st
  refine ⟨?_, below_at_kink _ _ _ a d, ?_⟩
  · rw [borrowRate_eq p h st, kinkedVal_at_kink _ _ _ _ b e]
  · intro u r hu hlt er
    rw [borrowRate_eq p h st] at er
    injection er with er
    have := kink_gap (p.baseOf st) (p.slope1Of st) (p.slope2Of st) p.uOpt u a b d e hu hlt
    rw [kinkedVal_at_kink _ _ _ _ b e, er] at this
    exact this

/-- **The lend rate never exceeds the (variable) borrow rate**, and is not negative. -/
theorem lend_rate_le_borrow_rate (p : Params) (h : admissible p = true) (u b l : Dec)
    (hu : 0 ≤ u) (hu1 : u ≤ Dec.one) (eb : borrowRate p false u = some b) (el : lendRate p u = some l) :
    0 ≤ l ∧ l ≤ b := by
  obtain ⟨a1, a2, a3, a4, a5, _, _, _, a9, a10⟩ := (adm_iff p).mp h
  have hb : b = kinkedVal p.base p.slope1 p.slope2 p.uOpt u := by
    rw [borrowRate_eq p h false] at eb; injection eb with eb; exact eb.symm
  have b0 : 0 ≤ b := by rw [hb]; exact kinkedVal_nonneg _ _ _ _ _ a1 a2 a3 a4 a5 hu
  unfold lendRate at el; rw [eb] at el
  have hl : l = Dec.mul (Dec.mul b u) (Dec.one - p.reserveFactor) := by injection el with el; exact el.symm
  have k0 : 0 ≤ Dec.one - p.reserveFactor := by linarith
  have k1 : Dec.one - p.reserveFactor ≤ Dec.one := by linarith
  have m0 : 0 ≤ Dec.mul b u := mul_nonneg' _ _ b0 hu
  have m1 : Dec.mul b u ≤ b := by
    have := mul_mono_right b u Dec.one b0 hu hu1; rwa [mul_one' b b0] at this
  have l1 : Dec.mul (Dec.mul b u) (Dec.one - p.reserveFactor) ≤ Dec.mul b u := by
    have := mul_mono_right (Dec.mul b u) _ Dec.one m0 k0 k1; rwa [mul_one' _ m0] at this
  rw [hl]; exact ⟨mul_nonneg' _ _ m0 k0, le_trans l1 m1⟩

/-! ## accrual (lend rewards, variable borrow interest, reserve share: `indexInterest`; stable borrow: `stableInterest`) -/

/-- what the three exported keeper functions return, in terms of `indexInterest` / `stableInterest` -/
theorem accrual_functions (n : Int) (r rr gi rgi : Dec) (now prev : Int)
    (ht : 0 ≤ elapsed now prev) (hg : gi ≠ 0) (hrg : rgi ≠ 0) :
    lendReward n r gi now prev = .ok [indexInterest n r gi (elapsed now prev), indexNext r gi (elapsed now prev)] ∧
    borrowInterest n r rr gi rgi now prev =
      .ok [indexInterest n r gi (elapsed now prev), indexNext r gi (elapsed now prev),
           indexInterest n rr rgi (elapsed now prev), indexNext rr rgi (elapsed now prev)] ∧
    stableBorrowInterest n r now prev = .ok [stableInterest n r (elapsed now prev)] := by
  have h1 : ¬ elapsed now prev < 0 := not_lt.mpr ht
  simp [lendReward, borrowInterest, stableBorrowInterest, h1, hg, hrg]

/-- **Never negative.** -/
theorem reward_nonneg (n : Int) (r gi : Dec) (s : Int) (hn : 0 ≤ n) (hr : 0 ≤ r) (hg : 0 < gi) (hs : 0 ≤ s) :
    0 ≤ indexInterest n r gi s ∧ 0 ≤ stableInterest n r s := by
  constructor
  · rw [indexInterest_eq n r gi s hn hr hg hs]
    exact Int.mul_nonneg hn (by linarith [one_le_factor2 r gi s hr hg hs])
  · rw [stableInterest_eq n r s hn hr hs]
    exact crn_nonneg _ (Int.mul_nonneg (Int.mul_nonneg hn hr) (years_nonneg s hs))

/-- **Zero when no time has elapsed.** -/
theorem reward_zero_at_zero_time (n : Int) (r gi : Dec) (hn : 0 ≤ n) (hr : 0 ≤ r) (hg : 0 < gi) :
    indexInterest n r gi 0 = 0 ∧ stableInterest n r 0 = 0 := by
  constructor
  · rw [indexInterest_eq n r gi 0 hn hr hg (le_refl _), factor2_zero r gi hr hg]; simp
  · rw [stableInterest_eq n r 0 hn hr (le_refl _), years_zero]
    simpa using crn_mul_P 0 (le_refl _)

/-- **Never decreases when the elapsed time, the principal or the rate increases** (index-based accrual). -/
theorem reward_mono (n n' : Int) (r r' gi : Dec) (s s' : Int)
    (hn : 0 ≤ n) (hnn : n ≤ n') (hr : 0 ≤ r) (hrr : r ≤ r') (hg : 0 < gi) (hs : 0 ≤ s) (hss : s ≤ s') :
    indexInterest n r gi s ≤ indexInterest n' r' gi s' := by
  rw [indexInterest_eq n r gi s hn hr hg hs,
      indexInterest_eq n' r' gi s' (le_trans hn hnn) (le_trans hr hrr) hg (le_trans hs hss)]
  have f1 : factor2 r gi s ≤ factor2 r gi s' := factor2_mono_time r gi s s' hr hg hs hss
  have f2 : factor2 r gi s' ≤ factor2 r' gi s' := factor2_mono_rate r r' gi s' hr hrr hg (le_trans hs hss)
  have f0 : Dec.one ≤ factor2 r gi s := one_le_factor2 r gi s hr hg hs
  calc n * (factor2 r gi s - Dec.one)
      ≤ n' * (factor2 r gi s - Dec.one) := Int.mul_le_mul_of_nonneg_right hnn (by linarith)
    _ ≤ n' * (factor2 r' gi s' - Dec.one) := Int.mul_le_mul_of_nonneg_left (by linarith) (le_trans hn hnn)

/-- the same for the stable-rate accrual -/
theorem stable_interest_mono (n n' : Int) (r r' : Dec) (s s' : Int)
    (hn : 0 ≤ n) (hnn : n ≤ n') (hr : 0 ≤ r) (hrr : r ≤ r') (hs : 0 ≤ s) (hss : s ≤ s') :
    stableInterest n r s ≤ stableInterest n' r' s' := by
  rw [stableInterest_eq n r s hn hr hs,
      stableInterest_eq n' r' s' (le_trans hn hnn) (le_trans hr hrr) (le_trans hs hss)]
  have y0 := years_nonneg s hs
  have y1 := years_mono s s' hs hss
  have nr : n * r ≤ n' * r' := Int.mul_le_mul hnn hrr hr (le_trans hn hnn)
  have nr0 : 0 ≤ n * r := Int.mul_nonneg hn hr
  apply crn_mono _ _ (Int.mul_nonneg nr0 y0)
  exact Int.mul_le_mul nr y1 y0 (le_trans nr0 nr)

/-- **Two consecutive intervals never yield more than the combined interval, beyond rounding in the last
stored decimal place.** Index-based accrual with any indices `≥ 1` (in the real flow the second interval
starts from the index the first produced): the excess is at most `4·10⁻¹⁸` per unit of principal. -/
theorem two_step_le_one_step_plus_rounding (n : Int) (r g1 g2 g12 : Dec) (s t : Int)
    (hn : 0 ≤ n) (hr : 0 ≤ r) (h1 : Dec.one ≤ g1) (h2 : Dec.one ≤ g2) (h12 : Dec.one ≤ g12)
    (hs : 0 ≤ s) (ht : 0 ≤ t) :
    indexInterest n r g1 s + indexInterest n r g2 t ≤ indexInterest n r g12 (s + t) + 4 * n := by
  have p1 := lt_of_lt_of_le P_pos h1
  have p2 := lt_of_lt_of_le P_pos h2
  have p12 := lt_of_lt_of_le P_pos h12
  have hst : 0 ≤ s + t := by omega
  rw [indexInterest_eq n r g1 s hn hr p1 hs, indexInterest_eq n r g2 t hn hr p2 ht,
      indexInterest_eq n r g12 (s + t) hn hr p12 hst]
  obtain ⟨_, u1⟩ := factor2_bounds r g1 s hr h1 hs
  obtain ⟨_, u2⟩ := factor2_bounds r g2 t hr h2 ht
  obtain ⟨l12, _⟩ := factor2_bounds r g12 (s + t) hr h12 hst
  have e := eff_two_step r s t hr hs ht
  have : (factor2 r g1 s - Dec.one) + (factor2 r g2 t - Dec.one) ≤ (factor2 r g12 (s + t) - Dec.one) + 4 := by
    linarith
  calc n * (factor2 r g1 s - Dec.one) + n * (factor2 r g2 t - Dec.one)
      = n * ((factor2 r g1 s - Dec.one) + (factor2 r g2 t - Dec.one)) := by ring
    _ ≤ n * ((factor2 r g12 (s + t) - Dec.one) + 4) := Int.mul_le_mul_of_nonneg_left this hn
    _ = n * (factor2 r g12 (s + t) - Dec.one) + 4 * n := by ring

/-- the same for the stable-rate accrual: at most one unit of the last stored decimal place -/
theorem stable_two_step_le_one_step_plus_rounding (n : Int) (r : Dec) (s t : Int)
    (hn : 0 ≤ n) (hr : 0 ≤ r) (hs : 0 ≤ s) (ht : 0 ≤ t) :
    stableInterest n r s + stableInterest n r t ≤ stableInterest n r (s + t) + 1 := by
  have hst : 0 ≤ s + t := by omega
  rw [stableInterest_eq n r s hn hr hs, stableInterest_eq n r t hn hr ht, stableInterest_eq n r (s + t) hn hr hst]
  have nr0 : 0 ≤ n * r := Int.mul_nonneg hn hr
  have hy := (years_superadd s t hs ht).1
  obtain ⟨a1, _⟩ := crn_spec _ (Int.mul_nonneg nr0 (years_nonneg s hs))
  obtain ⟨b1, _⟩ := crn_spec _ (Int.mul_nonneg nr0 (years_nonneg t ht))
  obtain ⟨_, c2⟩ := crn_spec _ (Int.mul_nonneg nr0 (years_nonneg (s + t) hst))
  have hm : n * r * yearsDec s + n * r * yearsDec t ≤ n * r * yearsDec (s + t) := by
    rw [← Int.mul_add]; exact Int.mul_le_mul_of_nonneg_left hy nr0
  apply int_aux1
  linarith

/-! # part b: x/rewards `CalculationOfRewards` (vault stability fee, locker savings) — floating point

Everything except `math.Pow` is modelled exactly (`Model/Accrual.lean`); `math.Pow` is the field `pow` of
`FloatOps`, whose other fields are the hypotheses the theorems use. PARTIAL: the hypotheses are tested against the
real `math.Pow` by the harness, not proved. -/
section floating
open Comdex.Accrual

/-- on the success path `calcRewards` returns `interest` -/
theorem calcRewards_ok (ops : FloatOps) (n : Int) (lsr : Dec) (s : Int) (d : Dec)
    (h : calcRewards n lsr s (some (ops.pow (xF lsr) (yF s))) = .ok d) : d = interest ops n lsr s := by
  unfold calcRewards at h
  split at h
  · exact absurd h (by simp)
  · split at h
    · exact absurd h (by simp)
    · simp only [] at h
      split at h
      · exact absurd h (by simp)
      · split at h
        · injection h with h; exact h.symm
        · exact absurd h (by simp)

/-- the hypotheses are consistent: a (trivial) power function satisfying all of them -/
theorem hypotheses_consistent : ∃ ops : FloatOps, PowMonoTime ops ∧ PowMonoRate ops := by
  refine ⟨{ pow := fun _ _ => (U : Int), E := 1, E_pos := by decide,
            pow_ge_one := fun _ _ _ _ => le_refl _, pow_zero := fun _ _ => rfl,
            pow_submult := fun _ _ _ _ _ _ => ?_ }, fun _ _ _ _ _ _ => le_refl _, fun _ _ _ _ _ _ => le_refl _⟩
  have h : (0 : Int) ≤ (U : Int) * (U : Int) := Int.mul_nonneg (Int.natCast_nonneg _) (Int.natCast_nonneg _)
  show (U : Int) * (U : Int) * ((1 : Nat) : Int) ≤ (U : Int) * (U : Int) * (((1 : Nat) : Int) + 1)
  exact Int.mul_le_mul_of_nonneg_left (by omega) h

/-- **Never negative.** -/
theorem interest_nonneg (ops : FloatOps) (n : Int) (lsr : Dec) (s : Int)
    (hn : 0 ≤ n) (hl : 0 ≤ lsr) (hs : 0 ≤ s) : 0 ≤ interest ops n lsr s :=
  interestOfPow_nonneg _ _ (ops.pow_ge_one lsr s hl hs) (aF_nonneg n hn)

/-- **Zero when no time has elapsed.** -/
theorem interest_zero_at_zero_time (ops : FloatOps) (n : Int) (lsr : Dec) (hl : 0 ≤ lsr) :
    interest ops n lsr 0 = 0 := by
  unfold interest; rw [ops.pow_zero lsr hl]; exact interestOfPow_one _

/-- **Never decreases when the principal increases** (needs nothing of the power function beyond `≥ 1`), and,
given that the power function is monotone on the reachable grid, when **the elapsed time or the rate increases**. -/
theorem interest_mono_partial (ops : FloatOps) (n n' : Int) (lsr lsr' : Dec) (s s' : Int)
    (hn : 0 ≤ n) (hnn : n ≤ n') (hl : 0 ≤ lsr) (hs : 0 ≤ s) :
    interest ops n lsr s ≤ interest ops n' lsr s ∧
    (PowMonoTime ops → s ≤ s' → interest ops n lsr s ≤ interest ops n' lsr s') ∧
    (PowMonoRate ops → lsr ≤ lsr' → interest ops n lsr s ≤ interest ops n' lsr' s) := by
  have p0 := ops.pow_ge_one lsr s hl hs
  have a0 := aF_nonneg n hn
  have a1 := aF_mono n n' hn hnn
  exact ⟨interestOfPow_mono _ _ _ _ p0 (le_refl _) a0 a1,
         fun hm hss => interestOfPow_mono _ _ _ _ p0 (hm lsr s s' hl hs hss) a0 a1,
         fun hm hll => interestOfPow_mono _ _ _ _ p0 (hm lsr lsr' s hl hll hs) a0 a1⟩

/-- **Counterexample (time).** Go's `math.Pow` is NOT monotone on the reachable grid: for the rate
`0.000000006824643518` it returns `0x3ff000001c654844` at 489142800 s (15.5 years) and `0x3ff000001c654843` one
second later (reproduced on every run by the harness, corpus case 1). Everything after the power function
being strictly monotone there, one more second of elapsed time yields LESS interest on a principal of 10¹⁸
(105781979620.18… vs 105781979398.14…). -/
theorem interest_mono_time_counterexample (ops : FloatOps)
    (h1 : some (ops.pow (xF 6824643518) (yF 489142800)) = ofBits 4607182419276417092)
    (h2 : some (ops.pow (xF 6824643518) (yF 489142801)) = ofBits 4607182419276417091) :
    interest ops 1000000000000000000 6824643518 489142801 < interest ops 1000000000000000000 6824643518 489142800 ∧
    ¬ PowMonoTime ops := by
  have e1 : ofBits 4607182419276417092 = some (2 ^ 1074 + 476399684 * 2 ^ 1022) := by decide +kernel
  have e2 : ofBits 4607182419276417091 = some (2 ^ 1074 + 476399683 * 2 ^ 1022) := by decide +kernel
  rw [e1] at h1; rw [e2] at h2
  injection h1 with h1; injection h2 with h2
  constructor
  · unfold interest; rw [h1, h2]; decide +kernel
  · intro hm
    have := hm 6824643518 489142800 489142801 (by decide) (by decide) (by decide)
    rw [h1, h2] at this
    exact absurd this (by decide +kernel)

/-- **Counterexample (rate).** At half a year and one second `math.Pow` returns `0x3ffede12f2fd1069` for the
base `1 + 2.721879042385945` and `0x3ffede12f2fd1068` for the base `1 + 2.7218790423859454` (corpus case 2):
a higher rate yields less interest. -/
theorem interest_mono_rate_counterexample (ops : FloatOps)
    (h1 : some (ops.pow (xF 2721879042385945000) (yF 15778801)) = ofBits 4611367241441415273)
    (h2 : some (ops.pow (xF 2721879042385945400) (yF 15778801)) = ofBits 4611367241441415272) :
    interest ops 1000000000000000000 2721879042385945400 15778801
      < interest ops 1000000000000000000 2721879042385945000 15778801 ∧
    ¬ PowMonoRate ops := by
  have e1 : ofBits 4611367241441415273 = some ((2 ^ 52 + 4184822641397865) * 2 ^ 1022) := by decide +kernel
  have e2 : ofBits 4611367241441415272 = some ((2 ^ 52 + 4184822641397864) * 2 ^ 1022) := by decide +kernel
  rw [e1] at h1; rw [e2] at h2
  injection h1 with h1; injection h2 with h2
  constructor
  · unfold interest; rw [h1, h2]; decide +kernel
  · intro hm
    have := hm 2721879042385945000 2721879042385945400 15778801 (by decide) (by decide) (by decide)
    rw [h1, h2] at this
    exact absurd this (by decide +kernel)

/-- **The tracker is never negative** and stays below one whole unit; what is paid is never negative. -/
theorem tracker_never_negative (tr x : Dec) (ht : 0 ≤ tr) (hx : 0 ≤ x) :
    0 ≤ (trackerStep tr x).1 ∧ 0 ≤ (trackerStep tr x).2 ∧ (trackerStep tr x).2 < Dec.one :=
  let ⟨a, b, c, _⟩ := trackerStep_spec tr x (Int.add_nonneg ht hx); ⟨a, b, c⟩

/-- **Whole units are paid, the fraction is carried**, over any sequence of accruals: what has been paid out in
whole units plus what the tracker still holds is exactly what was accrued, and the tracker holds less than one
unit — so the total paid is `⌊tracker₀ + Σ accrued⌋` whatever the number of steps. -/
theorem whole_units_paid_fraction_carried (tr : Dec) (xs : List Dec) (ht : 0 ≤ tr) (hx : ∀ x ∈ xs, 0 ≤ x) :
    0 ≤ (trackerRun tr xs).1 ∧ 0 ≤ (trackerRun tr xs).2 ∧
    (xs ≠ [] → (trackerRun tr xs).2 < Dec.one) ∧
    (trackerRun tr xs).1 * Dec.P + (trackerRun tr xs).2 = tr + xs.sum := by
  induction xs generalizing tr with
  | nil => simp [trackerRun, ht]
  | cons x xs ih =>
    have hx0 : 0 ≤ x := hx x (by simp)
    obtain ⟨a, b, c, d⟩ := trackerStep_spec tr x (Int.add_nonneg ht hx0)
    obtain ⟨a', b', c', d'⟩ := ih (trackerStep tr x).2 b (fun y hy => hx y (by simp [hy]))
    simp only [trackerRun, List.sum_cons]
    refine ⟨Int.add_nonneg a a', b', fun _ => ?_, ?_⟩
    · cases xs with
      | nil => simpa [trackerRun] using c
      | cons y ys => exact c' (by simp)
    · have : ((trackerStep tr x).1 + (trackerRun (trackerStep tr x).2 xs).1) * Dec.P
          = (trackerStep tr x).1 * Dec.P + (trackerRun (trackerStep tr x).2 xs).1 * Dec.P := by ring
      rw [this]; linarith

/-- **Two consecutive intervals on the same principal never yield more than one accrual over the combined
interval, beyond an explicit error term**: `subaddErr E a c = 10¹⁸·a·(c·(1/E)·(1+2⁻⁵³)² + (c−1)·2⁻⁵¹) + 2` raw
units, `a` the principal and `c` the power value of the combined interval as real numbers, `1/E` the tested
slack of quasi-multiplicativity of `math.Pow`. Derived from `(A−1)+(B−1) ≤ AB−1`, lifted through the three
roundings of each accrual (relative error `2⁻⁵³` each, half an ulp of the 18-digit format). -/
theorem more_frequent_accrual_not_more (ops : FloatOps) (n : Int) (lsr : Dec) (s t : Int)
    (hn : 0 ≤ n) (hn63 : n ≤ 2 ^ 63) (hl : 0 ≤ lsr) (hs : 0 ≤ s) (ht : 0 ≤ t) :
    ((interest ops n lsr s + interest ops n lsr t : Int) : ℚ) ≤
      ((interest ops n lsr (s + t) : Int) : ℚ) + subaddErr ops.E (aF n) (ops.pow (xF lsr) (yF (s + t))) :=
  two_interval ops n lsr s t hn hn63 hl hs ht

end floating

/-! # part c: the vault bookkeeping around `CalculationOfRewards` (state level) -/
section vault
open Comdex.Accrual Comdex.VaultAccrual

/-- **One calculation** (`CalculateVaultInterest` with a running fee): the accrued interval is non-negative, what the
position owes (whole units on the vault + tracker fraction) grows by exactly `interest` over that interval, the vault is
stamped with the current height and time, nothing else changes, and the tracker stays in `[0, 1)`. -/
theorem vault_calc_books_interest (ops : FloatOps) (s : St) (ctx : Ctx) (debt bh bt : Int) (s' : St)
    (ha : Active s) (hf : 0 ≤ s.pair.fee) (hd : 0 ≤ debt) (htr : 0 ≤ s.tracker.getD 0)
    (h : calcWith ops s ctx debt bh bt = .ok s') :
    0 ≤ ctx.now - since s.pair.bt bh bt ∧
    booked s' = booked s + interest ops debt s.pair.fee (ctx.now - since s.pair.bt bh bt) ∧
    s'.vault.bh = ctx.height ∧ s'.vault.bt = ctx.now ∧ s'.pair = s.pair ∧ s'.appWl = s.appWl ∧
    s'.vault.amountOut = s.vault.amountOut ∧ s.vault.ia ≤ s'.vault.ia ∧
    0 ≤ s'.tracker.getD 0 ∧ s'.tracker.getD 0 < Dec.one :=
  calcWith_active ops s ctx debt bh bt s' ha hf hd htr h

/-- **The `BlockHeight = 0` flag is consumed by every calculation** (chain heights are non-zero): whatever the start stamp,
the next calculation accrues from the time of this one — in particular never again from the pair's `BlockTime`. -/
theorem vault_next_interval_starts_here (ops : FloatOps) (s : St) (ctx : Ctx) (debt bh bt : Int) (s' : St)
    (ha : Active s) (hf : 0 ≤ s.pair.fee) (hd : 0 ≤ debt) (htr : 0 ≤ s.tracker.getD 0) (hh : ctx.height ≠ 0)
    (h : calcWith ops s ctx debt bh bt = .ok s') :
    since s'.pair.bt s'.vault.bh s'.vault.bt = ctx.now ∧ Active s' :=
  next_interval_starts_here ops s ctx debt bh bt s' ha hf hd htr hh h

/-- **Sub-additivity at the level of the records.** From any state (any stamp, incl. `BlockHeight = 0`, any tracker in
`[0,1)`), two consecutive calculations at `t₁ ≤ t₂` leave the position owing (vault interest + tracker fraction) at most what a
single calculation at `t₂` leaves, plus the float slack `subaddErr` of `more_frequent_accrual_not_more`, plus the interest over
`[t₁,t₂]` on the increase `n₂ − n` of the debt the caller hands in (zero when the same debt is passed). -/
theorem accrual_subadditive (ops : FloatOps) (s s1 s2 s' : St) (c1 c2 : Ctx) (n n2 : Int)
    (ha : Active s) (hf : 0 ≤ s.pair.fee) (hn : 0 ≤ n) (hn63 : n ≤ 2 ^ 63) (hn2 : 0 ≤ n2)
    (htr : 0 ≤ s.tracker.getD 0) (hh : c1.height ≠ 0) (h12 : c1.now ≤ c2.now)
    (e1 : calcWith ops s c1 n s.vault.bh s.vault.bt = .ok s1)
    (e2 : calcWith ops s1 c2 n2 s1.vault.bh s1.vault.bt = .ok s2)
    (e' : calcWith ops s c2 n s.vault.bh s.vault.bt = .ok s') :
    ((booked s2 : Int) : ℚ) ≤ ((booked s' : Int) : ℚ)
      + subaddErr ops.E (aF n) (ops.pow (xF s.pair.fee) (yF (c2.now - since s.pair.bt s.vault.bh s.vault.bt)))
      + ((interest ops n2 s.pair.fee (c2.now - c1.now) - interest ops n s.pair.fee (c2.now - c1.now) : Int) : ℚ) :=
  two_calcs_le_one ops s s1 s2 s' c1 c2 n n2 ha hf hn hn63 hn2 htr hh h12 e1 e2 e'

/-- **Triggering `MsgVaultInterestCalc` more often cannot make a position owe more** (beyond the float slack): two
messages at `t₁ ≤ t₂` against one at `t₂`. The debt a message hands in is principal + whole units already booked, so the second
message legitimately accrues on the whole units the first one booked; when the first one stayed below one unit — the case in
which a stale `BlockHeight = 0` flag would make the pair's interval count twice — the bound is the float slack alone. -/
theorem more_frequent_triggering_not_more (ops : FloatOps) (s s1 s2 s' : St) (c1 c2 : Ctx)
    (ha : Active s) (hf : 0 ≤ s.pair.fee) (hn : 0 ≤ s.vault.amountOut + s.vault.ia) (hn63 : s.vault.amountOut + s.vault.ia ≤ 2 ^ 63)
    (htr : 0 ≤ s.tracker.getD 0) (hh : c1.height ≠ 0) (h12 : c1.now ≤ c2.now)
    (e1 : msgCalcWith ops s c1 = .ok s1) (e2 : msgCalcWith ops s1 c2 = .ok s2) (e' : msgCalcWith ops s c2 = .ok s') :
    ((booked s2 : Int) : ℚ) ≤ ((booked s' : Int) : ℚ)
      + subaddErr ops.E (aF (s.vault.amountOut + s.vault.ia))
          (ops.pow (xF s.pair.fee) (yF (c2.now - since s.pair.bt s.vault.bh s.vault.bt)))
      + ((interest ops (s.vault.amountOut + s1.vault.ia) s.pair.fee (c2.now - c1.now)
          - interest ops (s.vault.amountOut + s.vault.ia) s.pair.fee (c2.now - c1.now) : Int) : ℚ) ∧
    (s1.vault.ia = s.vault.ia →
      ((booked s2 : Int) : ℚ) ≤ ((booked s' : Int) : ℚ)
        + subaddErr ops.E (aF (s.vault.amountOut + s.vault.ia))
            (ops.pow (xF s.pair.fee) (yF (c2.now - since s.pair.bt s.vault.bh s.vault.bt)))) := by
  obtain ⟨_, _, _, _, _, _, c7, c8, _⟩ := calcWith_active ops s c1 _ _ _ s1 ha hf hn htr e1
  have hn2 : 0 ≤ s1.vault.amountOut + s1.vault.ia := by rw [c7]; linarith
  have main := two_calcs_le_one ops s s1 s2 s' c1 c2 _ _ ha hf hn hn63 hn2 htr hh h12 e1 e2 e'
  rw [c7] at main
  refine ⟨main, fun h => ?_⟩
  rw [h] at main
  simpa using main

/-- **Fee switched off and on again** (`WasmUpdatePairsVault`): the sweep books the interest up to the switch-off and flags
the vault with `BlockHeight = 0`; after the fee is switched on again the vault's next interval starts at that moment. -/
theorem fee_toggle_restarts_clock (s sa sb : St) (ca cb : Ctx) (f : Dec) (pw pw' : Option Int) (x : Dec)
    (hwl : s.appWl = true) (hst : s.pair.stable = false) (hf : f ≠ 0)
    (hx : calcRewards s.vault.amountOut s.pair.fee (ca.now - since s.pair.bt s.vault.bh s.vault.bt) pw = .ok x)
    (ua : updateFee s ca 0 pw = some sa) (ub : updateFee sa cb f pw' = some sb) :
    sa.vault.bh = 0 ∧ sa.pair.fee = 0 ∧ sb.pair.fee = f ∧ sb.vault.bh = 0 ∧ sb.pair.bt = cb.now ∧
    since sb.pair.bt sb.vault.bh sb.vault.bt = cb.now :=
  toggle_restarts_clock s sa sb ca cb f pw pw' x hwl hst hf hx ua ub

/-- **Counterexample — a vault deposited into while the fee is zero is charged the zero-fee window** (reproduced on the unchanged
tree: first `va` sequence of every harness run, values of `math.Pow` as the real run obtained them; defect D46). Debt 1 000 000 at
fee 0; after one day the owner deposits 5 units of collateral — `MsgDeposit` re-stamps the vault with the current height
(x/vault/keeper/msg_server.go:300-301), the flag `BlockHeight = 0` set by `MsgCreate` is lost; after a year the fee is set to 10 %
and `MsgVaultInterestCalc` is delivered in the same block: 99 641 units of interest are booked for 364 days at the new fee, with ZERO
seconds at a non-zero fee. The idle vault (same history without the deposit) owes nothing: `fee_toggle_restarts_clock`. -/
theorem fee_zero_window_touched_counterexample :
    let s0 : VaultAccrual.St := ⟨true, ⟨0, false, 0, 1700000000⟩, ⟨1000000, 0, 0, 1700000000⟩, none⟩
    let on : Pair := ⟨100000000000000000, false, 102, 1731536000⟩
    -- the deposit loses the flag
    msgDeposit s0 ⟨1700086400, 101⟩ (ofBits 4607182418800017408)
      = .ok ⟨true, ⟨0, false, 0, 1700000000⟩, ⟨1000000, 0, 101, 1700086400⟩, none⟩ ∧
    updateFee ⟨true, ⟨0, false, 0, 1700000000⟩, ⟨1000000, 0, 101, 1700086400⟩, none⟩ ⟨1731536000, 102⟩ 100000000000000000
        (ofBits 4607182418800017408)
      = some ⟨true, on, ⟨1000000, 0, 101, 1700086400⟩, none⟩ ∧
    -- interest calculation in the block of the switch-on: 364 days are booked
    msgCalc ⟨true, on, ⟨1000000, 0, 101, 1700086400⟩, none⟩ ⟨1731536000, 103⟩ (ofBits 4607631163137216092)
      = .ok ⟨true, on, ⟨1000000, 99641, 103, 1731536000⟩, some 259065626814845018⟩ ∧
    -- the idle vault: nothing
    msgCalc ⟨true, on, ⟨1000000, 0, 0, 1700000000⟩, none⟩ ⟨1731536000, 103⟩ (ofBits 4607182418800017408)
      = .ok ⟨true, on, ⟨1000000, 0, 103, 1731536000⟩, some 0⟩ := by
  decide +kernel

end vault

/-! # part d: the locker bookkeeping around `CalculationOfRewards` (state level, all histories) -/
section locker
open Comdex.Accrual Comdex.LockerAccrual

/-- **Savings are credited only for time at a non-zero rate, at the rate in force, and never twice** — time-budget form, from
ANY state satisfying the invariant: along every history of create / deposit / withdraw / close / reward-calc / rate update /
whitelist-on calls at non-decreasing block times (rejected calls skipped, any values of `math.Pow`), for every rate value
`r ≠ 0`: (seconds for which the locker has been credited savings at rate `r`) + (seconds it could still claim at rate `r` now)
≤ (seconds for which the saving rate HAS BEEN `r`). Side conditions of the history (`goodHist`): the clock does not run backwards,
heights are non-zero, rates are not negative, the whitelist is not switched off, the sweep of a rate update reaches the locker
(calculation succeeds, net fees can pay), and no deposit / withdraw happens while the rate is zero (see the counterexample). -/
theorem savings_time_budget_from_any_state (r : Dec) (hr : r ≠ 0) (s : St) (g : Ghost) (h : Hist)
    (hi : Inv r s g) (hg : goodHist s g.last h = true) :
    (grun r s g h).2.acc + pending r (grun r s g h).1 (grun r s g h).2.last ≤ (grun r s g h).2.pos ∧
    Inv r (grun r s g h).1 (grun r s g h).2 :=
  ⟨(inv_run r hr h s g hi hg).2.2.1, inv_run r hr h s g hi hg⟩

/-- the same from the natural start: a whitelisted collector entry without a locker, at time `t0` (the locker is created inside
the history; budgets start at zero). PARTIAL only because of the `goodHist` restriction "no deposit / withdraw at rate zero". -/
theorem savings_only_for_time_at_positive_rate (r : Dec) (hr : r ≠ 0) (s : St) (t0 : Int) (h : Hist)
    (hw : s.wl = true) (h0 : 0 ≤ s.coll.lsr) (hnl : s.locker = none) (hg : goodHist s t0 h = true) :
    (grun r s ⟨t0, 0, 0⟩ h).2.acc + pending r (grun r s ⟨t0, 0, 0⟩ h).1 (grun r s ⟨t0, 0, 0⟩ h).2.last
      ≤ (grun r s ⟨t0, 0, 0⟩ h).2.pos :=
  (savings_time_budget_from_any_state r hr s ⟨t0, 0, 0⟩ h (inv_none r s t0 0 0 hw h0 hnl (le_refl _)) hg).1

/-- **One reward-calc message at a running rate** books exactly `interest` over `[clock, now]` at the rate in force, where
`clock` is the locker's own stamp or — flag `BlockHeight = 0` — the collector entry's; whole units move from the net fees into the
balance; the locker is stamped `(height, now)`; the collector entry is not touched; the tracker stays in `[0, 1)`. -/
theorem locker_calc_books_interest (ops : FloatOps) (s : St) (ctx : Ctx) (l : Locker) (s1 : St) (hv : Live s l)
    (hne : s.coll.lsr ≠ 0) (h : stepWith ops s ctx .rewardCalc = .ok s1) :
    0 ≤ ctx.now - clock s l ∧
    booked s1 = booked s + interest ops l.net s.coll.lsr (ctx.now - clock s l) ∧ s1.coll = s.coll ∧ s1.wl = s.wl ∧
    0 ≤ s1.tracker.getD 0 ∧ s1.tracker.getD 0 < Dec.one ∧
    ∃ l1, s1.locker = some l1 ∧ l1.bh = ctx.height ∧ l1.bt = ctx.now ∧ l.ret ≤ l1.ret ∧ l1.net - l.net = l1.ret - l.ret ∧
      s1.fees = s.fees - (l1.ret - l.ret) :=
  calc_books ops s ctx l s1 hv hne h

/-- **Deposit (`d > 0`) / withdraw (`d < 0`) at a running rate**: the accrual on the balance BEFORE the movement comes first. -/
theorem locker_move_books_interest (ops : FloatOps) (s : St) (ctx : Ctx) (l : Locker) (s' : St) (op : Op) (d : Int) (hv : Live s l)
    (hne : s.coll.lsr ≠ 0) (hop : (op = .deposit d) ∨ (op = .withdraw (-d))) (h : stepWith ops s ctx op = .ok s') :
    0 ≤ ctx.now - clock s l ∧
    booked s' = booked s + interest ops l.net s.coll.lsr (ctx.now - clock s l) ∧ s'.coll = s.coll ∧
    ∃ l', s'.locker = some l' ∧ l'.bh = ctx.height ∧ l'.bt = ctx.now ∧ l.ret ≤ l'.ret ∧ l'.net = l.net + (l'.ret - l.ret) + d :=
  move_books ops s ctx l s' op d hv hne hop h

/-- **A rate change restarts the clock.** (i) running rate → any rate `nr ≥ 0` (`r → 0`, `r → r′`, also `r → r`): the sweep settles
`[clock, now]` at the OLD rate, the collector entry gets the new rate and `BlockTime = now`, and the locker's next interval starts
now — it is stamped `(height, now)`, or flagged `BlockHeight = 0` when the new rate is zero. (ii) `0 → r`: nothing is booked, the
collector entry is stamped `now`, and a locker carrying the flag has its clock moved to `now`. -/
theorem rate_change_restarts_clock (ops : FloatOps) (s : St) (ctx : Ctx) (nr : Dec) (l : Locker) (hv : Live s l) (hnr : 0 ≤ nr)
    (hh : ctx.height ≠ 0) :
    (s.coll.lsr ≠ 0 → sweepFine s ctx (powOf ops s ctx) = true →
      ∃ s1, stepWith ops s ctx (.lsrUpdate nr) = .ok s1 ∧ 0 ≤ ctx.now - clock s l ∧
        booked s1 = booked s + interest ops l.net s.coll.lsr (ctx.now - clock s l) ∧
        s1.coll.lsr = nr ∧ s1.coll.bt = ctx.now ∧ s1.wl = true ∧ 0 ≤ s1.tracker.getD 0 ∧ s1.tracker.getD 0 < Dec.one ∧
        ∃ l1, s1.locker = some l1 ∧ (nr ≠ 0 → clock s1 l1 = ctx.now) ∧ (nr = 0 → l1.bh = 0) ∧ l.ret ≤ l1.ret ∧
          l1.net - l.net = l1.ret - l.ret ∧ s1.fees = s.fees - (l1.ret - l.ret)) ∧
    (s.coll.lsr = 0 → nr ≠ 0 →
      stepWith ops s ctx (.lsrUpdate nr) = .ok { s with coll := ⟨nr, ctx.height, ctx.now⟩ } ∧
      (l.bh = 0 → clock { s with coll := ⟨nr, ctx.height, ctx.now⟩ } l = ctx.now)) :=
  ⟨fun hne hf => lsr_running_books ops s ctx nr l hv hne hnr hh hf,
   fun hz hn => ⟨(lsr_switch_on s ctx nr _ hv.wl hz hn).1, fun hb => (lsr_switch_on s ctx nr (powOf ops s ctx) hv.wl hz hn).2 l hv.lk hb⟩⟩

/-- **A zero-rate window earns nothing; zero when no time has elapsed at a non-zero rate.** The rate is switched off at `ca`, any
number of reward-calc messages arrive during the window (at any times), the rate is switched on again (any `nr > 0`) at `cb`, the
locker accrues at `cc`: it ends with what it had at the switch-off plus `interest` over `[cb, cc]` at the NEW rate — nothing for
`[ca, cb]`, however long — and with exactly what it had when the accrual is in the block of the switch-on. (Seeded change s94 —
the `0 → r` branch no longer stamps the collector entry — breaks exactly `clock s3 l1 = cb.now`.) -/
theorem zero_rate_window_earns_nothing (ops : FloatOps) (s0 : St) (l0 : Locker) (ca cb cc : Ctx) (nr : Dec) (w : List (Ctx × Op))
    (hv : Live s0 l0) (hne : s0.coll.lsr ≠ 0) (hfa : sweepFine s0 ca (powOf ops s0 ca) = true) (hha : ca.height ≠ 0)
    (hw : ∀ p ∈ w, p.2 = Op.rewardCalc) (hnr : 0 < nr) :
    ∃ s1 l1 s3, stepWith ops s0 ca (.lsrUpdate 0) = .ok s1 ∧ s1.locker = some l1 ∧ s1.coll.lsr = 0 ∧
      runWith ops s1 w = s1 ∧
      stepWith ops s1 cb (.lsrUpdate nr) = .ok s3 ∧ s3.locker = some l1 ∧ clock s3 l1 = cb.now ∧ booked s3 = booked s1 ∧
      ∀ s4, stepWith ops s3 cc .rewardCalc = .ok s4 →
        booked s4 = booked s1 + interest ops l1.net nr (cc.now - cb.now) ∧ (cc.now = cb.now → booked s4 = booked s1) :=
  zero_window ops s0 l0 ca cb cc nr w hv hne hfa hha hw hnr

/-- **Triggering the reward calculation more often cannot earn more** (beyond the float slack): two messages at `c1`, `c2`
against one at `c2`; the second legitimately accrues on the whole units the first one moved into the balance. -/
theorem locker_more_frequent_triggering_not_more (ops : FloatOps) (s s1 s2 s' : St) (l l1 : Locker) (c1 c2 : Ctx)
    (hv : Live s l) (hne : s.coll.lsr ≠ 0) (hn63 : l.net ≤ 2 ^ 63) (hh : c1.height ≠ 0) (h12 : c1.now ≤ c2.now)
    (e1 : stepWith ops s c1 .rewardCalc = .ok s1) (k1 : s1.locker = some l1)
    (e2 : stepWith ops s1 c2 .rewardCalc = .ok s2) (e' : stepWith ops s c2 .rewardCalc = .ok s') :
    ((booked s2 : Int) : ℚ) ≤ ((booked s' : Int) : ℚ)
      + subaddErr ops.E (aF l.net) (ops.pow (xF s.coll.lsr) (yF (c2.now - clock s l)))
      + ((interest ops l1.net s.coll.lsr (c2.now - c1.now) - interest ops l.net s.coll.lsr (c2.now - c1.now) : Int) : ℚ) := by
  obtain ⟨_, _, cc1, w1, t1, _, l1', k1', _, _, r1, n1, _⟩ := calc_books ops s c1 l s1 hv hne e1
  have : l1' = l1 := by rw [k1] at k1'; injection k1' with e; exact e.symm
  subst this
  have hv1 : Live s1 l1' := ⟨by rw [w1]; exact hv.wl, by rw [cc1]; exact hv.rate, k1, by have := hv.net; omega, t1⟩
  obtain ⟨_, b2, _⟩ := calc_books ops s1 c2 l1' s2 hv1 (by rw [cc1]; exact hne) e2
  obtain ⟨_, b', _⟩ := calc_books ops s c2 l s' hv hne e'
  rw [cc1] at b2
  exact two_le_one ops s s1 l l1' c1 c2.now _ _ hv hne hn63 hh h12 e1 k1 b2 b'

/-- **Sub-additivity across a rate change**: a reward-calc at `c1` followed by the rate update at `c2` books at most what the
rate update alone books at `c2` (both settle at the OLD rate), plus the float slack and the interest on the whole units the
message moved into the balance; after either path the collector entry carries the new rate and `BlockTime = c2`, so the new rate
applies from `c2` on in both. -/
theorem accrual_subadditive_across_rate_change (ops : FloatOps) (s s1 : St) (l l1 : Locker) (c1 c2 : Ctx) (nr : Dec)
    (hv : Live s l) (hne : s.coll.lsr ≠ 0) (hn63 : l.net ≤ 2 ^ 63) (hh : c1.height ≠ 0) (hh2 : c2.height ≠ 0) (h12 : c1.now ≤ c2.now)
    (hnr : 0 ≤ nr) (e1 : stepWith ops s c1 .rewardCalc = .ok s1) (k1 : s1.locker = some l1)
    (f2 : sweepFine s1 c2 (powOf ops s1 c2) = true) (f' : sweepFine s c2 (powOf ops s c2) = true) :
    ∃ s2 s', stepWith ops s1 c2 (.lsrUpdate nr) = .ok s2 ∧ stepWith ops s c2 (.lsrUpdate nr) = .ok s' ∧
      s2.coll = s'.coll ∧ s2.coll.lsr = nr ∧ s2.coll.bt = c2.now ∧
      ((booked s2 : Int) : ℚ) ≤ ((booked s' : Int) : ℚ)
        + subaddErr ops.E (aF l.net) (ops.pow (xF s.coll.lsr) (yF (c2.now - clock s l)))
        + ((interest ops l1.net s.coll.lsr (c2.now - c1.now) - interest ops l.net s.coll.lsr (c2.now - c1.now) : Int) : ℚ) := by
  obtain ⟨_, _, cc1, w1, t1, _, l1', k1', _, _, r1, n1, _⟩ := calc_books ops s c1 l s1 hv hne e1
  have : l1' = l1 := by rw [k1] at k1'; injection k1' with e; exact e.symm
  subst this
  have hv1 : Live s1 l1' := ⟨by rw [w1]; exact hv.wl, by rw [cc1]; exact hv.rate, k1, by have := hv.net; omega, t1⟩
  obtain ⟨s2, e2, _, b2, a2, a3, _⟩ := lsr_running_books ops s1 c2 nr l1' hv1 (by rw [cc1]; exact hne) hnr hh2 f2
  obtain ⟨s', e', _, b', a2', a3', _⟩ := lsr_running_books ops s c2 nr l hv hne hnr hh2 f'
  rw [cc1] at b2
  have hcoll : s2.coll = s'.coll := by
    have h2 := step_lsr s1 c2 nr (powOf ops s1 c2) hv1.wl
    have h' := step_lsr s c2 nr (powOf ops s c2) hv.wl
    -- both results carry the collector entry written by the update
    have c2' : s2.coll = ⟨nr, (if nr = 0 then 0 else c2.height), c2.now⟩ := by
      unfold stepWith at e2; rw [h2] at e2
      by_cases hn : nr = 0
      · rw [if_pos hn] at e2
        cases hit : iter s1 c2 s1.coll.lsr s1.coll.bt false (powOf ops s1 c2) with
        | none => rw [hit, sweepRes_none] at e2; exact absurd e2 (by simp)
        | some x => rw [hit, sweepRes_some] at e2; injection e2 with e2; rw [← e2]; simp [hn]
      · have hp : 0 < s1.coll.lsr ∧ 0 < nr :=
          ⟨lt_of_le_of_ne hv1.rate (by rw [cc1]; exact Ne.symm hne), lt_of_le_of_ne hnr (Ne.symm hn)⟩
        rw [if_neg hn, if_neg (by rw [cc1]; exact hne), if_pos hp] at e2
        cases hit : iter s1 c2 s1.coll.lsr s1.coll.bt true (powOf ops s1 c2) with
        | none => rw [hit, sweepRes_none] at e2; exact absurd e2 (by simp)
        | some x => rw [hit, sweepRes_some] at e2; injection e2 with e2; rw [← e2]; simp [hn]
    have c' : s'.coll = ⟨nr, (if nr = 0 then 0 else c2.height), c2.now⟩ := by
      unfold stepWith at e'; rw [h'] at e'
      by_cases hn : nr = 0
      · rw [if_pos hn] at e'
        cases hit : iter s c2 s.coll.lsr s.coll.bt false (powOf ops s c2) with
        | none => rw [hit, sweepRes_none] at e'; exact absurd e' (by simp)
        | some x => rw [hit, sweepRes_some] at e'; injection e' with e'; rw [← e']; simp [hn]
      · have hp : 0 < s.coll.lsr ∧ 0 < nr := ⟨lt_of_le_of_ne hv.rate (Ne.symm hne), lt_of_le_of_ne hnr (Ne.symm hn)⟩
        rw [if_neg hn, if_neg hne, if_pos hp] at e'
        cases hit : iter s c2 s.coll.lsr s.coll.bt true (powOf ops s c2) with
        | none => rw [hit, sweepRes_none] at e'; exact absurd e' (by simp)
        | some x => rw [hit, sweepRes_some] at e'; injection e' with e'; rw [← e']; simp [hn]
    rw [c2', c']
  exact ⟨s2, s', e2, e', hcoll, a2, a3, two_le_one ops s s1 l l1' c1 c2.now _ _ hv hne hn63 hh h12 e1 k1 b2 b'⟩

/-- **With the repair of D45** (deposit / withdraw write `BlockHeight = 0` while the rate is zero, as create does — the three-line
patch in notes/C18.md, `LockerAccrual.stepFix`) **the time budget holds at full strength**: for EVERY history (no restriction on
deposits and withdrawals), every rate value `r ≠ 0`: seconds credited at `r` + seconds still claimable at `r` ≤ seconds the rate has
been `r`. On the history of the counterexample the repaired model credits nothing for the window (example below). -/
theorem savings_only_for_time_at_positive_rate_repaired (r : Dec) (hr : r ≠ 0) (s : St) (t0 : Int) (h : Hist)
    (hw : s.wl = true) (h0 : 0 ≤ s.coll.lsr) (hnl : s.locker = none) (hg : goodHistFix s t0 h = true) :
    (grunFix r s ⟨t0, 0, 0⟩ h).2.acc + pending r (grunFix r s ⟨t0, 0, 0⟩ h).1 (grunFix r s ⟨t0, 0, 0⟩ h).2.last
      ≤ (grunFix r s ⟨t0, 0, 0⟩ h).2.pos :=
  (inv_runFix r hr h s ⟨t0, 0, 0⟩ (inv_none r s t0 0 0 hw h0 hnl (le_refl _)) hg).2.2.1

/-- **Counterexample — the restriction "no deposit / withdraw while the rate is zero" is necessary; the code credits a zero-rate
window** (reproduced on the unchanged tree: first `la` sequence of every harness run; values of `math.Pow` as the real run obtained
them). Locker of 1 000 000 at 10 %; after one day the rate is set to 0 (260 settled, locker flagged `BlockHeight = 0`); a day later
the owner deposits 1 — the deposit re-stamps the locker with the current height (x/locker/keeper/msg_server.go:191-192), the flag is
lost; 364 days later the rate is set back to 10 % and `MsgLockerRewardCalc` is sent in the same block: `ReturnsAccumulated` jumps
from 260 to 99 928 — the whole rest of the window at the new rate, with ZERO seconds at a non-zero rate since the deposit. In the
time-budget reading: credited at 10 % for 31 536 000 s while the rate has been 10 % for 86 400 s. The idle locker (same history
without the deposit) stays at 260. -/
theorem zero_rate_window_touched_counterexample :
    let s0 : St := ⟨true, ⟨100000000000000000, 100, 1700000000⟩, 2 ^ 200, none, none⟩
    let pre : Hist := [(⟨1700000000, 101⟩, .create 1000000, none),
                       (⟨1700086400, 102⟩, .lsrUpdate 0, ofBits 4607183594145394561)]
    let post : Hist := [(⟨1731622400, 104⟩, .lsrUpdate 100000000000000000, ofBits 4607182418800017408)]
    let touched : Hist := pre ++ [(⟨1700172800, 103⟩, .deposit 1, ofBits 4607182418800017408)] ++ post
    let idle : Hist := pre ++ post
    -- after the switch-off: 260 whole units settled, flag set
    run s0 pre = ⟨true, ⟨0, 0, 1700086400⟩, 2 ^ 200 - 260, some ⟨1000260, 260, 0, 1700086400⟩, some 979099920399789880⟩ ∧
    -- touched locker, reward-calc in the block of the switch-on (the power value is the one for 364 days at 10 %)
    run s0 (touched ++ [(⟨1731622400, 105⟩, .rewardCalc, ofBits 4607631163137216092)])
      = ⟨true, ⟨100000000000000000, 104, 1731622400⟩, 2 ^ 200 - 99928, some ⟨1099929, 99928, 105, 1731622400⟩,
         some 244534163344837907⟩ ∧
    -- idle locker, the same call (the power value is 1.0: zero seconds)
    run s0 (idle ++ [(⟨1731622400, 105⟩, .rewardCalc, ofBits 4607182418800017408)])
      = ⟨true, ⟨100000000000000000, 104, 1731622400⟩, 2 ^ 200 - 260, some ⟨1000260, 260, 105, 1731622400⟩,
         some 979099920399789880⟩ ∧
    -- the time budget at r = 10 %: violated by the touched history, kept by the idle one
    (grun 100000000000000000 s0 ⟨1700000000, 0, 0⟩
        (touched ++ [(⟨1731622400, 105⟩, .rewardCalc, ofBits 4607631163137216092)])).2 = ⟨1731622400, 86400, 31536000⟩ ∧
    (grun 100000000000000000 s0 ⟨1700000000, 0, 0⟩
        (idle ++ [(⟨1731622400, 105⟩, .rewardCalc, ofBits 4607182418800017408)])).2 = ⟨1731622400, 86400, 86400⟩ ∧
    goodHist s0 1700000000 (idle ++ [(⟨1731622400, 105⟩, .rewardCalc, ofBits 4607182418800017408)]) = true ∧
    goodHist s0 1700000000 touched = false := by
  decide +kernel

end locker

/-! # part e: the time stamps of the x/lend positions (state level)

A lend / borrow position carries its own clock (`LastInteractionTime`) and its own copy of the index (`GlobalIndex`,
`ReserveGlobalIndex`); every handler stores `(index returned, now)` after `IterateLends` / `IterateBorrow` (`AccB.after`,
`AccL.after` of `Model/LendAccrual.lean`, the accrual model of C08). There is NO rate stamp: the rate applied to the open interval
`[LastInteractionTime, now]` is the rate computed at `now` (utilisation and parameters of that moment, `StableBorrowRate` after
`ReBalanceStableRates`) — a rate change is never "settled at the old rate"; what holds is stated here. -/
section lendState
open Comdex.Lend

/-- **Every interaction restarts the position's clock, whatever happens to the rates afterwards**: after a handler stored the
result of `IterateBorrow` at `now`, another accrual in the same block — at ANY borrow rate `apr'` and reserve rate `rr'` (the rate
may have been changed in between by governance, by a utilisation move or by `ReBalanceStableRates`) — charges nothing and leaves
the indices: the span already accrued never counts again (no double accrual), and zero time yields zero whatever the rate. -/
theorem lend_interaction_restarts_clock (a : AccB) (r : BorrowAccrual) (now n : Int) (stable : Bool) (apr' rr' : Dec)
    (hgi : 0 < r.gi) (hrgi : 0 < r.rgi) (hn : 0 ≤ n) (hsr : 0 ≤ a.stableRate) :
    accrueBorrow (a.after r now) n stable apr' (some rr') now = { ext := .val 0 0, gi := r.gi, rgi := r.rgi } := by
  have h0 : elapsed now (a.after r now).last = 0 := by
    show (if now = 0 then 0 else now - now) = 0
    split <;> simp
  exact accrueBorrow_zero_elapsed (a.after r now) n stable apr' rr' now hgi hrgi hn hsr h0

/-- **Two interactions never charge more than one** (variable-rate borrow, same rates): interest and reserve share of an accrual
at `t1` followed — from the stored index and clock — by one at `t2` exceed those of the single accrual at `t2` by at most
`4·10⁻¹⁸` per unit of principal each. -/
theorem borrow_two_interactions_not_more (a : AccB) (n : Int) (apr rr : Dec) (t1 t2 : Int)
    (hl : a.last ≠ 0) (h1 : a.last ≤ t1) (h10 : t1 ≠ 0) (h12 : t1 ≤ t2)
    (hgi : Dec.one ≤ a.gi) (hrgi : Dec.one ≤ a.rgi) (hn : 0 ≤ n) (hapr : 0 ≤ apr) (hrr : 0 ≤ rr) :
    ∃ dI1 dR1 dI2 dR2 dI dR g1 rg1 g2 rg2 g rg,
      accrueBorrow a n false apr (some rr) t1 = { ext := .val dI1 dR1, gi := g1, rgi := rg1 } ∧
      accrueBorrow (a.after { ext := .val dI1 dR1, gi := g1, rgi := rg1 } t1) n false apr (some rr) t2
        = { ext := .val dI2 dR2, gi := g2, rgi := rg2 } ∧
      accrueBorrow a n false apr (some rr) t2 = { ext := .val dI dR, gi := g, rgi := rg } ∧
      dI1 + dI2 ≤ dI + 4 * n ∧ dR1 + dR2 ≤ dR + 4 * n := by
  have one_pos : (0 : Int) < Dec.one := by decide
  have pgi : 0 < a.gi := lt_of_lt_of_le one_pos hgi
  have prgi : 0 < a.rgi := lt_of_lt_of_le one_pos hrgi
  have s1 : 0 ≤ t1 - a.last := by omega
  have s2 : 0 ≤ t2 - t1 := by omega
  have g1ge : Dec.one ≤ indexNext apr a.gi (t1 - a.last) := le_trans hgi (indexNext_ge apr a.gi _ hapr pgi s1)
  have rg1ge : Dec.one ≤ indexNext rr a.rgi (t1 - a.last) := le_trans hrgi (indexNext_ge rr a.rgi _ hrr prgi s1)
  have e1 : elapsed t1 a.last = t1 - a.last := by unfold elapsed; simp [hl]
  have e2 : elapsed t2 t1 = t2 - t1 := by unfold elapsed; simp [h10]
  have e3 : elapsed t2 a.last = (t1 - a.last) + (t2 - t1) := by unfold elapsed; simp [hl]
  have b1 : borrowInterest n apr rr a.gi a.rgi t1 a.last
      = .ok [indexInterest n apr a.gi (t1 - a.last), indexNext apr a.gi (t1 - a.last),
             indexInterest n rr a.rgi (t1 - a.last), indexNext rr a.rgi (t1 - a.last)] := by
    unfold borrowInterest
    simp [e1, not_lt.mpr s1, Int.ne_of_gt pgi, Int.ne_of_gt prgi]
  have b2 : borrowInterest n apr rr (indexNext apr a.gi (t1 - a.last)) (indexNext rr a.rgi (t1 - a.last)) t2 t1
      = .ok [indexInterest n apr (indexNext apr a.gi (t1 - a.last)) (t2 - t1), indexNext apr (indexNext apr a.gi (t1 - a.last)) (t2 - t1),
             indexInterest n rr (indexNext rr a.rgi (t1 - a.last)) (t2 - t1), indexNext rr (indexNext rr a.rgi (t1 - a.last)) (t2 - t1)] := by
    unfold borrowInterest
    simp [e2, not_lt.mpr s2, Int.ne_of_gt (lt_of_lt_of_le one_pos g1ge), Int.ne_of_gt (lt_of_lt_of_le one_pos rg1ge)]
  have b3 : borrowInterest n apr rr a.gi a.rgi t2 a.last
      = .ok [indexInterest n apr a.gi ((t1 - a.last) + (t2 - t1)), indexNext apr a.gi ((t1 - a.last) + (t2 - t1)),
             indexInterest n rr a.rgi ((t1 - a.last) + (t2 - t1)), indexNext rr a.rgi ((t1 - a.last) + (t2 - t1))] := by
    unfold borrowInterest
    simp [e3, Int.ne_of_gt pgi, Int.ne_of_gt prgi]
    omega
  refine ⟨indexInterest n apr a.gi (t1 - a.last), indexInterest n rr a.rgi (t1 - a.last),
    indexInterest n apr (indexNext apr a.gi (t1 - a.last)) (t2 - t1), indexInterest n rr (indexNext rr a.rgi (t1 - a.last)) (t2 - t1),
    indexInterest n apr a.gi ((t1 - a.last) + (t2 - t1)), indexInterest n rr a.rgi ((t1 - a.last) + (t2 - t1)),
    indexNext apr a.gi (t1 - a.last), indexNext rr a.rgi (t1 - a.last),
    indexNext apr (indexNext apr a.gi (t1 - a.last)) (t2 - t1), indexNext rr (indexNext rr a.rgi (t1 - a.last)) (t2 - t1),
    indexNext apr a.gi ((t1 - a.last) + (t2 - t1)), indexNext rr a.rgi ((t1 - a.last) + (t2 - t1)), ?_, ?_, ?_,
    two_step_le_one_step_plus_rounding n apr a.gi _ a.gi _ _ hn hapr hgi g1ge hgi s1 s2,
    two_step_le_one_step_plus_rounding n rr a.rgi _ a.rgi _ _ hn hrr hrgi rg1ge hrgi s1 s2⟩
  · unfold accrueBorrow; simp [b1]
  · unfold accrueBorrow AccB.after; simp [b2]
  · unfold accrueBorrow; simp [b3]

/-- **`ReBalanceStableRates`** (the only code that changes the rate OF A POSITION; called by the liquidation modules right after the
interest up to now has been charged at the old stable rate): the result is the pool's current stable rate or the old rate; it is the
old rate only when the two are less than 20 points apart and utilisation is below 90 %; and re-balancing twice is re-balancing once. -/
theorem stable_rebalance_spec (s st u : Dec) :
    (rebalance s st u = st ∨ (rebalance s st u = s ∧ s < st + perc1 ∧ st < s + perc1 ∧ u < perc2)) ∧
    rebalance (rebalance s st u) st u = rebalance s st u := by
  unfold rebalance perc1 perc2
  simp only [Dec] at s st u ⊢
  constructor
  · by_cases h1 : st + 200000000000000000 ≤ s
    · left; simp [h1]
    · by_cases h2 : s + 200000000000000000 ≤ st ∨ 900000000000000000 ≤ u
      · left; simp [h1, h2]
      · right
        have e : (if st + 200000000000000000 ≤ s then st else if s + 200000000000000000 ≤ st ∨ 900000000000000000 ≤ u then st else s) = s := by
          simp [h1, h2]
        refine ⟨e, ?_, ?_, ?_⟩ <;> omega
  · by_cases h1 : st + 200000000000000000 ≤ s
    · have h3 : ¬ (st + 200000000000000000 ≤ st) := by omega
      simp only [h1, if_true, h3, if_false]
      split <;> rfl
    · by_cases h2 : s + 200000000000000000 ≤ st ∨ 900000000000000000 ≤ u
      · have h3 : ¬ (st + 200000000000000000 ≤ st) := by omega
        simp only [h1, if_false, h2, if_true, h3]
        split <;> rfl
      · simp only [h1, h2, if_false]

/-- **One accrual function for both routes, and it is the single accrual**: what a borrow position is charged by one accrual —
through a message (`IterateBorrow`) or through `CalculateBorrowInterestForLiquidation` (`LendRates.borrowCharge` is the model of
both; the harness accrues every position through both routes from the same state, monitor `accrual_route_independent`) — is
exactly the single-accrual formula of its kind over the elapsed time: `stableInterest` at the locked rate for a stable-rate borrow
(the variable-rate interest is NOT added on top: seeded change s113), `indexInterest` at the current rate otherwise; hence never more
than the single accrual (monitor `liq_route_single_accrual`). -/
theorem borrow_charge_is_single_accrual (stable : Bool) (n : Int) (apr rr sr gi rgi : Dec) (now prev : Int) (d : Int)
    (h : borrowCharge stable n apr rr sr gi rgi now prev = .ok [d]) :
    0 ≤ elapsed now prev ∧
    d = (if stable then stableInterest n sr (elapsed now prev) else indexInterest n apr gi (elapsed now prev)) ∧
    d ≤ (if stable then stableInterest n sr (elapsed now prev) else indexInterest n apr gi (elapsed now prev)) := by
  unfold borrowCharge borrowInterest at h
  simp only [] at h
  by_cases hs : elapsed now prev < 0
  · simp [hs] at h
  · by_cases hg : (gi = 0 || rgi = 0) = true
    · simp [hs, hg] at h
    · simp only [hs, hg, if_false] at h
      cases stable with
      | false =>
        simp only [Bool.false_eq_true, if_false] at h
        injection h with h; injection h with h
        exact ⟨not_lt.mp hs, by simp [h], by simp [h]⟩
      | true =>
        unfold stableBorrowInterest at h
        simp only [hs, if_true, if_false] at h
        injection h with h; injection h with h
        exact ⟨not_lt.mp hs, by simp [h], by simp [h]⟩

example : borrowCharge true 1000000000 50000000000000000 10000000000000000 90000000000000000 1000000000000000000
    1000000000000000000 (1700000000 + 86400) 1700000000 = .ok [246406570841889090000000] := by decide
example : borrowCharge false 1000000000 50000000000000000 10000000000000000 90000000000000000 1000000000000000000
    1000000000000000000 (1700000000 + 15778800) 1700000000 = .ok [25000000000000000000000000] := by decide

/-- the same for a lend position (`IterateLends`): after the handler stored `(index, now)`, a second reward calculation in the
same block accrues nothing into the tracker whatever the lend rate has become. -/
theorem lend_reward_interaction_restarts_clock (a : AccL) (r : LendAccrual) (now n : Int) (apr' : Dec)
    (hgi : 0 < r.gi) (hn : 0 ≤ n) (hapr : 0 ≤ apr') :
    lendReward n apr' (a.after r now).gi now (a.after r now).last = .ok [0, r.gi] := by
  have h0 : elapsed now now = 0 := by unfold elapsed; split <;> simp
  show lendReward n apr' r.gi now now = _
  unfold lendReward
  simp only [h0, Int.lt_irrefl, if_false, Int.ne_of_gt hgi]
  have z := (reward_zero_at_zero_time n apr' r.gi hn hapr hgi).1
  have f1 : factor1 apr' 0 = Dec.one := by
    unfold factor1; rw [years_zero, mul_zero' _ hapr]; simp
  have ix : indexNext apr' r.gi 0 = r.gi := by unfold indexNext; rw [f1]; exact mul_one' _ (le_of_lt hgi)
  rw [z, ix]

end lendState

/-! ## non-vacuity: the hypotheses of the theorems are satisfiable on ordinary values -/
section examples
open Comdex.Accrual

/-- the parameters of the repository's own lend tests: uOpt 0.8, base 0.002, slope1 0.1, slope2 3.0, reserve factor 0.1 -/
example : admissible ⟨800000000000000000, 2000000000000000, 100000000000000000, 3000000000000000000,
    2000000000000000, 100000000000000000, 3000000000000000000, 100000000000000000⟩ = true := by decide
example : borrowRate ⟨800000000000000000, 2000000000000000, 100000000000000000, 3000000000000000000,
    2000000000000000, 100000000000000000, 3000000000000000000, 100000000000000000⟩ false 400000000000000000
    = some 52000000000000000 := by decide
example : borrowRate ⟨800000000000000000, 2000000000000000, 100000000000000000, 3000000000000000000,
    2000000000000000, 100000000000000000, 3000000000000000000, 100000000000000000⟩ false 900000000000000000
    = some 1602000000000000000 := by decide
example : lendRate ⟨800000000000000000, 2000000000000000, 100000000000000000, 3000000000000000000,
    2000000000000000, 100000000000000000, 3000000000000000000, 100000000000000000⟩ 400000000000000000
    = some 18720000000000000 := by decide
example : utilisation 600 400 = some 400000000000000000 := by decide
/-- 5 % on 10⁹ over one year from index 1.0: interest 5·10⁷, new index 1.05 -/
example : lendReward 1000000000 50000000000000000 1000000000000000000 1900000000 (1900000000 - 31557600)
    = .ok [50000000000000000000000000, 1050000000000000000] := by decide
/-- two half years against one year on the same principal (index moved on by the first accrual) -/
example : indexInterest 1000000000 50000000000000000 1000000000000000000 15778800
        + indexInterest 1000000000 50000000000000000 1025000000000000000 15778800
        ≤ indexInterest 1000000000 50000000000000000 1000000000000000000 31557600 + 4 * 1000000000 := by decide
example : stableInterest 1000000000 90000000000000000 86400 = 246406570841889090000000 := by decide
/-- tracker: 0.7 carried + 0.6 accrued ⇒ 1 paid, 0.3 carried -/
example : trackerStep 700000000000000000 600000000000000000 = (1, 300000000000000000) := by decide
example : trackerRun 0 [700000000000000000, 600000000000000000, 2900000000000000000] = (4, 200000000000000000) := by decide
/-- post-pow pipeline on the value `math.Pow(1.1, 1.0) = 1.1`: 10 % of 10⁹ (with the float error in the 9th decimal) -/
example : (ofBits 4607632778762754458).map (fun p => calcRewards 1000000000 100000000000000000 31557600 (some p))
    = some (.ok 100000000000000089406967163) := by decide +kernel
example : xF 100000000000000000 = 4953959590107546 * 2 ^ 1022 := by decide +kernel
example : yF 15778800 = 2 ^ 1073 := by decide +kernel

/-- a vault opened while the fee was zero (`BlockHeight = 0`), fee 1 % now running since the pair's stamp: the first
`MsgVaultInterestCalc` accrues from the PAIR's time (12331972 s), books 1644691 whole units, carries 0.877…, stamps the vault;
the second one, 9 s later, accrues those 9 s only (values of `math.Pow` as observed on the real run) -/
example : VaultAccrual.msgCalc
      ⟨true, ⟨10000000000000000, false, 5, 1859790144⟩, ⟨422156853, 0, 0, 1862824643⟩, none⟩ ⟨1872122116, 101⟩
      (ofBits 4607199964491087685)
    = .ok ⟨true, ⟨10000000000000000, false, 5, 1859790144⟩, ⟨422156853, 1644691, 101, 1872122116⟩, some 877342361258342862⟩ := by
  decide +kernel
example : VaultAccrual.msgCalc
      ⟨true, ⟨10000000000000000, false, 5, 1859790144⟩, ⟨422156853, 1644691, 101, 1872122116⟩, some 877342361258342862⟩
      ⟨1872122125, 102⟩ (ofBits 4607182418812797555)
    = .ok ⟨true, ⟨10000000000000000, false, 5, 1859790144⟩, ⟨422156853, 1644693, 102, 1872122125⟩, some 79990571421140188⟩ := by
  decide +kernel
/-- the single calculation over the combined interval from the same start state: it books slightly MORE (…620259… vs …571421…) -/
example : VaultAccrual.msgCalc
      ⟨true, ⟨10000000000000000, false, 5, 1859790144⟩, ⟨422156853, 0, 0, 1862824643⟩, none⟩ ⟨1872122125, 102⟩
      (ofBits 4607199964503917623)
    = .ok ⟨true, ⟨10000000000000000, false, 5, 1859790144⟩, ⟨422156853, 1644693, 102, 1872122125⟩, some 79990620259195566⟩ := by
  decide +kernel

end examples

/-! non-vacuity for part d (locker bookkeeping) -/
section lockerExamples
open Comdex.Accrual Comdex.LockerAccrual

/-- a power function satisfying `FloatOps` (the constant 1.0), to show that the hypotheses of the part-d theorems are satisfiable -/
def unitOps : FloatOps :=
  { pow := fun _ _ => (U : Int), E := 1, E_pos := by decide,
    pow_ge_one := fun _ _ _ _ => le_refl _, pow_zero := fun _ _ => rfl,
    pow_submult := fun _ _ _ _ _ _ => by
      have h : (0 : Int) ≤ (U : Int) * (U : Int) := Int.mul_nonneg (Int.natCast_nonneg _) (Int.natCast_nonneg _)
      show (U : Int) * (U : Int) * ((1 : Nat) : Int) ≤ (U : Int) * (U : Int) * (((1 : Nat) : Int) + 1)
      exact Int.mul_le_mul_of_nonneg_left (by omega) h }

/-- a live locker at a running rate: hypotheses of `locker_calc_books_interest`, `rate_change_restarts_clock`,
`zero_rate_window_earns_nothing`, `locker_more_frequent_triggering_not_more`, `accrual_subadditive_across_rate_change` -/
example : Live ⟨true, ⟨100000000000000000, 100, 1700000000⟩, 1000, some ⟨1000260, 260, 101, 1700000000⟩, some 5⟩
    ⟨1000260, 260, 101, 1700000000⟩ := ⟨rfl, by decide, rfl, by decide, by decide⟩
example : stepWith unitOps ⟨true, ⟨100000000000000000, 100, 1700000000⟩, 1000, some ⟨1000260, 260, 101, 1700000000⟩, some 5⟩
    ⟨1700086400, 102⟩ .rewardCalc
    = .ok ⟨true, ⟨100000000000000000, 100, 1700000000⟩, 1000, some ⟨1000260, 260, 102, 1700086400⟩, some 5⟩ := by decide +kernel
example : sweepFine ⟨true, ⟨100000000000000000, 100, 1700000000⟩, 1000, some ⟨1000260, 260, 101, 1700000000⟩, some 5⟩
    ⟨1700086400, 102⟩ (powOf unitOps ⟨true, ⟨100000000000000000, 100, 1700000000⟩, 1000, some ⟨1000260, 260, 101, 1700000000⟩, some 5⟩
      ⟨1700086400, 102⟩) = true := by decide +kernel
/-- the invariant of `savings_time_budget_from_any_state` on a state in the middle of a life: rate running since 1 700 000 000, the
locker last settled 100 s later, 50 000 s credited so far out of 86 400 s at this rate -/
example : Inv 100000000000000000 ⟨true, ⟨100000000000000000, 100, 1700000000⟩, 1000, some ⟨1000260, 260, 101, 1700050000⟩, some 5⟩
    ⟨1700086400, 86400, 50000⟩ := by
  refine ⟨rfl, by decide, by decide, ?_⟩
  intro l hl; injection hl with hl; subst hl; exact ⟨fun _ => by decide, fun h => absurd h (by decide)⟩
/-- a history with every kind of call that satisfies `goodHist` (values of `math.Pow`: 1.0 throughout — the side conditions do not
depend on them beyond "the calculation succeeds") -/
example : goodHist ⟨true, ⟨0, 0, 1700000000⟩, 1000, none, none⟩ 1700000000
    [(⟨1700000010, 101⟩, .create 250000000, none), (⟨1700000020, 102⟩, .rewardCalc, none),
     (⟨1703456010, 103⟩, .lsrUpdate 50000000000000000, none), (⟨1703456010, 104⟩, .rewardCalc, some (U : Int)),
     (⟨1704060810, 105⟩, .deposit 7, some (U : Int)), (⟨1704060811, 106⟩, .withdraw 3, some (U : Int)),
     (⟨1704320010, 107⟩, .lsrUpdate 80000000000000000, some (U : Int)), (⟨1704320010, 108⟩, .wlOn, none),
     (⟨1704924810, 109⟩, .lsrUpdate 0, some (U : Int)), (⟨1705924810, 110⟩, .lsrUpdate 0, some (U : Int)),
     (⟨1706924810, 111⟩, .close, none), (⟨1706924810, 112⟩, .create 5, none)] = true := by decide +kernel

/-- the touched history of the counterexample under the REPAIRED step: admissible for the full-strength theorem, the deposit
keeps the flag, and the reward-calc in the block of the switch-on (power value 1.0: zero seconds) credits nothing -/
example :
    let s0 : St := ⟨true, ⟨100000000000000000, 100, 1700000000⟩, 2 ^ 200, none, none⟩
    let h : Hist := [(⟨1700000000, 101⟩, .create 1000000, none),
                     (⟨1700086400, 102⟩, .lsrUpdate 0, ofBits 4607183594145394561),
                     (⟨1700172800, 103⟩, .deposit 1, ofBits 4607182418800017408),
                     (⟨1731622400, 104⟩, .lsrUpdate 100000000000000000, ofBits 4607182418800017408),
                     (⟨1731622400, 105⟩, .rewardCalc, ofBits 4607182418800017408)]
    goodHistFix s0 1700000000 h = true ∧
    grunFix 100000000000000000 s0 ⟨1700000000, 0, 0⟩ h
      = (⟨true, ⟨100000000000000000, 104, 1731622400⟩, 2 ^ 200 - 260, some ⟨1000261, 260, 105, 1731622400⟩,
          some 979099920399789880⟩, ⟨1731622400, 86400, 86400⟩) := by
  decide +kernel

end lockerExamples
/-! non-vacuity for part e (lend positions): 5 % variable borrow of 10⁹ from index 1.0, half a year and another half year -/
section lendExamples
open Comdex.Lend
example : accrueBorrow ⟨1, 1000000000000000000, 1000000000000000000, 1700000000, 0⟩ 1000000000 false 50000000000000000
    (some 10000000000000000) (1700000000 + 15778800)
    = { ext := .val 25000000000000000000000000 5000000000000000000000000, gi := 1025000000000000000, rgi := 1005000000000000000 } := by
  decide
/-- hypotheses of `borrow_two_interactions_not_more` -/
example : (1700000000 : Int) ≠ 0 ∧ (1700000000 : Int) ≤ 1715778800 ∧ (1715778800 : Int) ≤ 1731557600 ∧
    Dec.one ≤ (1000000000000000000 : Dec) := by decide
/-- the second accrual of the same block charges nothing, also at a rate that has meanwhile jumped to 300 % -/
example : accrueBorrow (AccB.after ⟨1, 1000000000000000000, 1000000000000000000, 1700000000, 0⟩
      { ext := .val 25000000000000000000000000 5000000000000000000000000, gi := 1025000000000000000, rgi := 1005000000000000000 }
      1715778800) 1000000000 false 3000000000000000000 (some 10000000000000000) 1715778800
    = { ext := .val 0 0, gi := 1025000000000000000, rgi := 1005000000000000000 } := by decide
example : rebalance 300000000000000000 100000000000000000 500000000000000000 = 100000000000000000 ∧
    rebalance 299999999999999999 100000000000000000 500000000000000000 = 299999999999999999 ∧
    rebalance 299999999999999999 100000000000000000 900000000000000000 = 100000000000000000 := by decide
end lendExamples

end Comdex.C18
