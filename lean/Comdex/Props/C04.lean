import Comdex.Lemmas.LiqOrders
/-!
# C04 — Liquidity custody: escrows, reserves and farmed pool coins are fully backed

Model: `Comdex.LiqLedger` (`Model/LiqLedger.lean`) — every bank movement and every record of x/liquidity's requests,
orders, farming and pools; matching / pool-maths results enter as observed inputs.  Histories: any finite list of
`Op`s (create pair / pool (basic, ranged), deposit, withdraw, limit / market / MM order, cancel, cancelAll, cancelMM,
farm, unfarm, depositAndFarm, unfarmAndWithdraw, per-app EndBlocker and BeginBlocker, block header) applied from a
genesis in which users hold arbitrary coins; a rejected message / failed hook leaves the state untouched (`stepT`).

Property clause → theorem
* "the global escrow account holds at least the coins of all pending deposit and withdrawal requests"
      → `escrow_ge_requests` (and the exact form `escrow_eq_requests`)
* "each pair's escrow account holds at least the remaining offer coins of all its live orders"
      → `pair_escrow_exact` (always: escrow = Σ live (remaining + fee reserve) + what matching took in − handed out),
        `pair_escrow_ge_orders` (for histories whose observed match results conserve coins, the law C05 establishes),
        `pair_escrow_ge_orders_counterexample` (without that law — defect D2 of the matcher — the escrow can fall short)
* "the liquidity module account holds exactly the pool coins recorded as farmed (queued plus active) for every pool"
      → `farm_custody_exact`
* "every pool whose pool-coin supply has reached zero is marked disabled" → `zero_supply_disabled`
* "pool-coin supply changes only by pool creation and by deposits and withdrawals executed against that pool"
      → `poolcoin_supply_only_by_pool_ops`
-/
namespace Comdex.C04
open Comdex.LiqLedger

/-- the state after a history -/
def after (cfg : Cfg) (funds : List (Nat × Nat × Nat)) (ops : List Op) : State := runT cfg (genesis funds) ops

theorem reachable_inv {cfg : Cfg} (hc : CfgOk cfg) (funds : List (Nat × Nat × Nat)) (ops : List Op) :
    Inv cfg (after cfg funds ops) :=
  runT_inv hc ops _ (genesis_inv cfg funds)

/-- **Global escrow, exact**: after every history the global escrow holds exactly the coins of the pending deposit
requests plus the pool coins of the pending withdrawal requests. -/
theorem escrow_eq_requests {cfg : Cfg} (hc : CfgOk cfg) (funds : List (Nat × Nat × Nat)) (ops : List Op) (d : Denom) :
    (after cfg funds ops).bal .gEscrow d = depSum d (after cfg funds ops).deps + wdrSum d (after cfg funds ops).wdrs :=
  (reachable_inv hc funds ops).escrow d

/-- **Global escrow ≥ pending requests.** -/
theorem escrow_ge_requests {cfg : Cfg} (hc : CfgOk cfg) (funds : List (Nat × Nat × Nat)) (ops : List Op) (d : Denom) :
    depSum d (after cfg funds ops).deps + wdrSum d (after cfg funds ops).wdrs ≤ (after cfg funds ops).bal .gEscrow d :=
  Nat.le_of_eq (escrow_eq_requests hc funds ops d).symm

/-- **Pair escrow, exact** (no hypothesis on the matcher): the escrow of a pair holds the remaining offer coins and
fee reserves of its live orders, plus everything matching took in, minus everything matching handed out. -/
theorem pair_escrow_exact {cfg : Cfg} (hc : CfgOk cfg) (funds : List (Nat × Nat × Nat)) (ops : List Op) (a p : Nat) (d : Denom) :
    (after cfg funds ops).bal (.pairEscrow a p) d + (after cfg funds ops).bal (.mOut a p) d =
      liveSum cfg a p d (after cfg funds ops).orders + (after cfg funds ops).bal (.mIn a p) d :=
  (reachable_inv hc funds ops).pairEsc a p d

/-- **Pair escrow ≥ remaining offer coins of the live orders**, for every history in which each observed match result
hands out no more than it took in (per side). -/
theorem pair_escrow_ge_orders {cfg : Cfg} (hc : CfgOk cfg) (funds : List (Nat × Nat × Nat)) (ops : List Op)
    (hcons : ∀ op ∈ ops, OpConserving op) (a p : Nat) (d : Denom) :
    remSum a p d (after cfg funds ops).orders ≤ (after cfg funds ops).bal (.pairEscrow a p) d :=
  Nat.le_trans (remSum_le_liveSum cfg a p d _)
    (escrow_ge_live (reachable_inv hc funds ops) (runT_solvent ops hcons _ (genesis_solvent funds)) a p d)

/-- **Farmed pool coins, exact.** -/
theorem farm_custody_exact {cfg : Cfg} (hc : CfgOk cfg) (funds : List (Nat × Nat × Nat)) (ops : List Op) (a p : Nat) :
    (after cfg funds ops).bal .module (.pool a p) = farmSum a p (after cfg funds ops).farmers :=
  (reachable_inv hc funds ops).farm a p

/-- **Zero supply ⇒ disabled.** -/
theorem zero_supply_disabled {cfg : Cfg} (hc : CfgOk cfg) (funds : List (Nat × Nat × Nat)) (ops : List Op) :
    ∀ q ∈ (after cfg funds ops).pools, q.ps = 0 → q.disabled = true :=
  (reachable_inv hc funds ops).zero

/-- **Supply changes only by pool operations**: whenever a message or block hook changes the recorded pool-coin supply
of pool `(a, pl)`, it is the creation of a pool of that app, the batch execution of that app, or a
deposit-and-farm / unfarm-and-withdraw on exactly that pool. -/
theorem poolcoin_supply_only_by_pool_ops (cfg : Cfg) (s : State) (op : Op) (a pl : Nat)
    (h : supply (stepT cfg s op) a pl ≠ supply s a pl) : touchesSupply a pl op := by
  unfold stepT at h
  cases hs : step cfg s op with
  | none => simp [hs] at h
  | some s' =>
    simp only [hs, Option.getD_some] at h
    exact Classical.byContradiction fun hn => h (supply_frame a pl hs hn)

/-! ### The escrow can fall short when a match result does not conserve coins (defect D2 of the matcher) -/

def cfg1 : Cfg :=
  { apps := [{ app := 1, feeRate := 3000000000000000, batchSize := 1, maxLifespan := 86400, pairFee := 5, poolFee := 5,
               minInitDeposit := 10, minInitSupply := 1000, maxPools := 20 }],
    swapLookup := false, queueDur := 86400 }

def funds1 : List (Nat × Nat × Nat) := [(0, 0, 100), (1, 1, 1000000), (2, 1, 1000000), (3, 2, 1000000)]

/-- two sells of 15000 base, one buy of 16000; the (non-conserving) result gives the buyer 16000 base although the
sellers paid 15000 -/
def opsD2 : List Op :=
  [ .block 1 100,
    .createPair 1 0 (.coin 1) (.coin 2) true,
    .order 1 1 1 .limit false 20000 1000000000000000000 1000000000000000000 15000 3600 true,
    .order 1 2 1 .limit false 20000 1000000000000000000 1000000000000000000 15000 3600 true,
    .order 1 3 1 .limit true 20000 1000000000000000000 1000000000000000000 16000 3600 true,
    .endBlock 1 [{ pair := 1, fills := [{ id := 1, buy := false, paid := 15000, recv := 15000, matched := 15000 },
                                        { id := 3, buy := true, paid := 16000, recv := 16000, matched := 16000 }],
                   pools := [], dust := 1000 }] [] [] ]

theorem pair_escrow_ge_orders_counterexample :
    (after cfg1 funds1 opsD2).bal (.pairEscrow 1 1) (.coin 1) < remSum 1 1 (.coin 1) (after cfg1 funds1 opsD2).orders := by
  decide

/-! ### Non-vacuity -/

theorem cfg1_ok : CfgOk cfg1 := by
  intro ac h
  simp [cfg1] at h
  subst h
  decide

/-- a conserving history with a deposit, a pool, an order, a fill, farming -/
def opsOK : List Op :=
  [ .block 1 100,
    .createPair 1 0 (.coin 1) (.coin 2) true,
    .createPool 1 3 1 false 500000 0 0 true,          -- rejected: base amount below the minimum
    .order 1 1 1 .limit false 20000 1000000000000000000 1000000000000000000 15000 3600 true,
    .order 1 3 1 .limit true 20000 1000000000000000000 1000000000000000000 10000 3600 true,
    .endBlock 1 [{ pair := 1, fills := [{ id := 1, buy := false, paid := 10000, recv := 10000, matched := 10000 },
                                        { id := 2, buy := true, paid := 10000, recv := 10000, matched := 10000 }],
                   pools := [], dust := 0 }] [] [],
    .beginBlock 1 ]

theorem opsOK_conserving : ∀ op ∈ opsOK, OpConserving op := by
  intro op hop
  simp only [opsOK, List.mem_cons, List.not_mem_nil, or_false] at hop
  rcases hop with rfl | rfl | rfl | rfl | rfl | rfl | rfl
  all_goals first | trivial | (intro m hm; simp at hm; subst hm; decide)
example : ((after cfg1 funds1 opsOK).orders.map fun o => (o.id, o.remaining, o.status)) = [(1, 5000, .partially)] := by decide
example : (after cfg1 funds1 opsOK).bal (.pairEscrow 1 1) (.coin 1) = 5045 := by decide
example : remSum 1 1 (.coin 1) (after cfg1 funds1 opsOK).orders = 5000 := by decide
example : touchesSupply 1 1 (.createPool 1 0 1 false 5 5 5 true) := rfl

end Comdex.C04
